//! C33: RowSerde (src/sql/row_serde.rs) vs the Lean model `TurVerif.RowSerde`, plus the two
//! consumers of a spill format: PartitionSpiller (same format, on a real temp dir) and the
//! subquery SpillableBuffer (its own tag/LE format, model `TurVerif.SubSpill`).
//!
//! case syntax (one line each; also the replay/corpus syntax):
//!   row <tok>*                      one row: serialize / row_size / deserialize (+ prefix/tail)
//!   wide <n>                        same, for the n-column row  NULL,1,2,NULL,4,0,NULL,...  (column i = NULL if 3|i else Int(i%5))
//!   cat <tok>* ; <tok>* ; ...       n rows appended to one buffer, decoded in sequence
//!   bytes <hex> <off>               deserialize_row_into on arbitrary bytes
//!   spill <budget> <nparts> <rows>  through PartitionSpiller (row i goes to partition i % nparts)
//!   sub <limit> <rows>              through SpillableBuffer (OwnedValue tokens, incl. b: d: t: s:)
//! value tokens: see lean/Driver/RowSerde.lean.
use crate::common::{guarded, model_batch, unhex, Ctx, Report, Rng};
use smallvec::SmallVec;
use std::borrow::Cow;
use turdb::sql::partition_spiller::PartitionSpiller;
use turdb::sql::row_serde::RowSerde;
use turdb::sql::subquery::{MaterializedRow, SpillableBuffer};
use turdb::types::{OwnedValue, Value};

#[derive(Clone, Debug, PartialEq)]
pub enum V {
    Null,
    Int(i64),
    Float(u64),
    Text(String),
    Blob(Vec<u8>),
    Vector(Vec<u32>),
    Uuid([u8; 16]),
    Mac([u8; 6]),
    Inet4([u8; 4]),
    Inet6([u8; 16]),
    Jsonb(Vec<u8>),
    Tstz(i64, i32),
    Interval(i64, i32, i32),
    Point(u64, u64),
    GeoBox([u64; 4]),
    Circle([u64; 3]),
    Enum(u16, u16),
    Decimal(i128, i16),
    Toast(Vec<u8>),
    // OwnedValue-only variants (subquery spill)
    Bool(bool),
    Date(i32),
    Time(i64),
    Timestamp(i64),
}

/// hex as in common::hex (lowercase, "-" for empty), without per-byte formatting
fn hex(b: &[u8]) -> String {
    if b.is_empty() {
        return "-".to_string();
    }
    const D: &[u8; 16] = b"0123456789abcdef";
    let mut s = Vec::with_capacity(b.len() * 2);
    for x in b {
        s.push(D[(x >> 4) as usize]);
        s.push(D[(x & 15) as usize]);
    }
    String::from_utf8(s).unwrap()
}

fn f(b: u64) -> f64 {
    f64::from_bits(b)
}

impl V {
    pub fn tok(&self) -> String {
        match self {
            V::Null => "N".into(),
            V::Int(i) => format!("I:{:016x}", *i as u64),
            V::Float(b) => format!("F:{:016x}", b),
            V::Text(s) => format!("T:{}", hex(s.as_bytes())),
            V::Blob(b) => format!("B:{}", hex(b)),
            V::Vector(v) => {
                let mut bs = vec![];
                for x in v {
                    bs.extend_from_slice(&x.to_be_bytes());
                }
                format!("V:{}", hex(&bs))
            }
            V::Uuid(b) => format!("U:{}", hex(b)),
            V::Mac(b) => format!("M:{}", hex(b)),
            V::Inet4(b) => format!("4:{}", hex(b)),
            V::Inet6(b) => format!("6:{}", hex(b)),
            V::Jsonb(b) => format!("J:{}", hex(b)),
            V::Tstz(m, o) => format!("Z:{:016x},{:08x}", *m as u64, *o as u32),
            V::Interval(m, d, mo) => format!("L:{:016x},{:08x},{:08x}", *m as u64, *d as u32, *mo as u32),
            V::Point(x, y) => format!("P:{:016x},{:016x}", x, y),
            V::GeoBox(a) => format!("G:{:016x},{:016x},{:016x},{:016x}", a[0], a[1], a[2], a[3]),
            V::Circle(a) => format!("C:{:016x},{:016x},{:016x}", a[0], a[1], a[2]),
            V::Enum(t, o) => format!("E:{:04x},{:04x}", t, o),
            V::Decimal(d, s) => format!("D:{:032x},{:04x}", *d as u128, *s as u16),
            V::Toast(b) => format!("O:{}", hex(b)),
            V::Bool(b) => format!("b:{:02x}", *b as u8),
            V::Date(d) => format!("d:{:08x}", *d as u32),
            V::Time(t) => format!("t:{:016x}", *t as u64),
            V::Timestamp(t) => format!("s:{:016x}", *t as u64),
        }
    }

    pub fn parse(t: &str) -> Option<V> {
        if t == "N" {
            return Some(V::Null);
        }
        let (k, body) = t.split_once(':')?;
        let fs: Vec<&str> = body.split(',').collect();
        let u = |s: &str, w: usize| -> Option<u128> {
            if s.len() != 2 * w {
                return None;
            }
            u128::from_str_radix(s, 16).ok()
        };
        let bytes = |s: &str| -> Option<Vec<u8>> {
            if s == "-" {
                return Some(vec![]);
            }
            if s.len() % 2 != 0 || !s.bytes().all(|c| c.is_ascii_hexdigit()) {
                return None;
            }
            Some(unhex(s))
        };
        Some(match (k, fs.as_slice()) {
            ("I", [a]) => V::Int(u(a, 8)? as u64 as i64),
            ("F", [a]) => V::Float(u(a, 8)? as u64),
            ("T", [a]) => V::Text(String::from_utf8(bytes(a)?).ok()?),
            ("B", [a]) => V::Blob(bytes(a)?),
            ("V", [a]) => {
                let bs = bytes(a)?;
                if bs.len() % 4 != 0 {
                    return None;
                }
                V::Vector(bs.chunks(4).map(|c| u32::from_be_bytes([c[0], c[1], c[2], c[3]])).collect())
            }
            ("U", [a]) => V::Uuid(bytes(a)?.try_into().ok()?),
            ("M", [a]) => V::Mac(bytes(a)?.try_into().ok()?),
            ("4", [a]) => V::Inet4(bytes(a)?.try_into().ok()?),
            ("6", [a]) => V::Inet6(bytes(a)?.try_into().ok()?),
            ("J", [a]) => V::Jsonb(bytes(a)?),
            ("O", [a]) => V::Toast(bytes(a)?),
            ("Z", [a, b]) => V::Tstz(u(a, 8)? as u64 as i64, u(b, 4)? as u32 as i32),
            ("L", [a, b, c]) => V::Interval(u(a, 8)? as u64 as i64, u(b, 4)? as u32 as i32, u(c, 4)? as u32 as i32),
            ("P", [a, b]) => V::Point(u(a, 8)? as u64, u(b, 8)? as u64),
            ("G", [a, b, c, d]) => V::GeoBox([u(a, 8)? as u64, u(b, 8)? as u64, u(c, 8)? as u64, u(d, 8)? as u64]),
            ("C", [a, b, c]) => V::Circle([u(a, 8)? as u64, u(b, 8)? as u64, u(c, 8)? as u64]),
            ("E", [a, b]) => V::Enum(u(a, 2)? as u16, u(b, 2)? as u16),
            ("D", [a, b]) => V::Decimal(u(a, 16)? as i128, u(b, 2)? as u16 as i16),
            ("b", [a]) => V::Bool(u(a, 1)? != 0),
            ("d", [a]) => V::Date(u(a, 4)? as u32 as i32),
            ("t", [a]) => V::Time(u(a, 8)? as u64 as i64),
            ("s", [a]) => V::Timestamp(u(a, 8)? as u64 as i64),
            _ => return None,
        })
    }

    /// only for the 19 `Value` variants
    pub fn to_value(&self) -> Value<'static> {
        match self {
            V::Null => Value::Null,
            V::Int(i) => Value::Int(*i),
            V::Float(b) => Value::Float(f(*b)),
            V::Text(s) => Value::Text(Cow::Owned(s.clone())),
            V::Blob(b) => Value::Blob(Cow::Owned(b.clone())),
            V::Vector(v) => Value::Vector(Cow::Owned(v.iter().map(|x| f32::from_bits(*x)).collect())),
            V::Uuid(b) => Value::Uuid(*b),
            V::Mac(b) => Value::MacAddr(*b),
            V::Inet4(b) => Value::Inet4(*b),
            V::Inet6(b) => Value::Inet6(*b),
            V::Jsonb(b) => Value::Jsonb(Cow::Owned(b.clone())),
            V::Tstz(m, o) => Value::TimestampTz { micros: *m, offset_secs: *o },
            V::Interval(m, d, mo) => Value::Interval { micros: *m, days: *d, months: *mo },
            V::Point(x, y) => Value::Point { x: f(*x), y: f(*y) },
            V::GeoBox(a) => Value::GeoBox { low: (f(a[0]), f(a[1])), high: (f(a[2]), f(a[3])) },
            V::Circle(a) => Value::Circle { center: (f(a[0]), f(a[1])), radius: f(a[2]) },
            V::Enum(t, o) => Value::Enum { type_id: *t, ordinal: *o },
            V::Decimal(d, s) => Value::Decimal { digits: *d, scale: *s },
            V::Toast(b) => Value::ToastPointer(Cow::Owned(b.clone())),
            V::Bool(_) | V::Date(_) | V::Time(_) | V::Timestamp(_) => Value::Null,
        }
    }

    pub fn from_value(v: &Value<'_>) -> V {
        match v {
            Value::Null => V::Null,
            Value::Int(i) => V::Int(*i),
            Value::Float(x) => V::Float(x.to_bits()),
            Value::Text(s) => V::Text(s.to_string()),
            Value::Blob(b) => V::Blob(b.to_vec()),
            Value::Vector(v) => V::Vector(v.iter().map(|x| x.to_bits()).collect()),
            Value::Uuid(b) => V::Uuid(*b),
            Value::MacAddr(b) => V::Mac(*b),
            Value::Inet4(b) => V::Inet4(*b),
            Value::Inet6(b) => V::Inet6(*b),
            Value::Jsonb(b) => V::Jsonb(b.to_vec()),
            Value::TimestampTz { micros, offset_secs } => V::Tstz(*micros, *offset_secs),
            Value::Interval { micros, days, months } => V::Interval(*micros, *days, *months),
            Value::Point { x, y } => V::Point(x.to_bits(), y.to_bits()),
            Value::GeoBox { low, high } => V::GeoBox([low.0.to_bits(), low.1.to_bits(), high.0.to_bits(), high.1.to_bits()]),
            Value::Circle { center, radius } => V::Circle([center.0.to_bits(), center.1.to_bits(), radius.to_bits()]),
            Value::Enum { type_id, ordinal } => V::Enum(*type_id, *ordinal),
            Value::Decimal { digits, scale } => V::Decimal(*digits, *scale),
            Value::ToastPointer(b) => V::Toast(b.to_vec()),
        }
    }

    pub fn to_owned_value(&self) -> OwnedValue {
        match self {
            V::Bool(b) => OwnedValue::Bool(*b),
            V::Date(d) => OwnedValue::Date(*d),
            V::Time(t) => OwnedValue::Time(*t),
            V::Timestamp(t) => OwnedValue::Timestamp(*t),
            other => OwnedValue::from(&other.to_value()),
        }
    }

    pub fn from_owned_value(v: &OwnedValue) -> V {
        match v {
            OwnedValue::Null => V::Null,
            OwnedValue::Bool(b) => V::Bool(*b),
            OwnedValue::Int(i) => V::Int(*i),
            OwnedValue::Float(x) => V::Float(x.to_bits()),
            OwnedValue::Text(s) => V::Text(s.clone()),
            OwnedValue::Blob(b) => V::Blob(b.clone()),
            OwnedValue::Vector(v) => V::Vector(v.iter().map(|x| x.to_bits()).collect()),
            OwnedValue::Date(d) => V::Date(*d),
            OwnedValue::Time(t) => V::Time(*t),
            OwnedValue::Timestamp(t) => V::Timestamp(*t),
            OwnedValue::TimestampTz(m, o) => V::Tstz(*m, *o),
            OwnedValue::Uuid(b) => V::Uuid(*b),
            OwnedValue::MacAddr(b) => V::Mac(*b),
            OwnedValue::Inet4(b) => V::Inet4(*b),
            OwnedValue::Inet6(b) => V::Inet6(*b),
            OwnedValue::Interval(m, d, mo) => V::Interval(*m, *d, *mo),
            OwnedValue::Point(x, y) => V::Point(x.to_bits(), y.to_bits()),
            OwnedValue::Box(l, h) => V::GeoBox([l.0.to_bits(), l.1.to_bits(), h.0.to_bits(), h.1.to_bits()]),
            OwnedValue::Circle(c, r) => V::Circle([c.0.to_bits(), c.1.to_bits(), r.to_bits()]),
            OwnedValue::Jsonb(b) => V::Jsonb(b.clone()),
            OwnedValue::Decimal(d, s) => V::Decimal(*d, *s),
            OwnedValue::Enum(t, o) => V::Enum(*t, *o),
            OwnedValue::ToastPointer(b) => V::Toast(b.clone()),
        }
    }

    /// kind used in failure signatures (floats split into the classes the format distinguishes)
    pub fn kind(&self) -> &'static str {
        match self {
            V::Null => "null",
            V::Int(0) => "int-zero",
            V::Int(_) => "int",
            V::Float(b) => {
                let x = f(*b);
                if x.is_nan() {
                    "float-nan"
                } else if x == 0.0 {
                    "float-zero"
                } else if x.is_infinite() {
                    "float-inf"
                } else {
                    "float"
                }
            }
            V::Text(_) => "text",
            V::Blob(_) => "blob",
            V::Vector(_) => "vector",
            V::Uuid(_) => "uuid",
            V::Mac(_) => "macaddr",
            V::Inet4(_) => "inet4",
            V::Inet6(_) => "inet6",
            V::Jsonb(_) => "jsonb",
            V::Tstz(..) => "timestamptz",
            V::Interval(..) => "interval",
            V::Point(..) => "point",
            V::GeoBox(_) => "geobox",
            V::Circle(_) => "circle",
            V::Enum(..) => "enum",
            V::Decimal(..) => "decimal",
            V::Toast(_) => "toast",
            V::Bool(_) => "bool",
            V::Date(_) => "date",
            V::Time(_) => "time",
            V::Timestamp(_) => "timestamp",
        }
    }
}

pub fn row_toks(r: &[V]) -> String {
    if r.is_empty() {
        "()".into()
    } else {
        r.iter().map(|v| v.tok()).collect::<Vec<_>>().join(" ")
    }
}
pub fn rows_toks(rs: &[Vec<V>]) -> String {
    rs.iter().map(|r| row_toks(r)).collect::<Vec<_>>().join(" ; ")
}
fn parse_row(toks: &[&str]) -> Option<Vec<V>> {
    let mut r = vec![];
    for t in toks {
        if *t == "()" {
            continue;
        }
        r.push(V::parse(t)?);
    }
    Some(r)
}
fn parse_rows(toks: &[&str]) -> Option<Vec<Vec<V>>> {
    toks.split(|t| *t == ";").map(parse_row).collect()
}

/// The property's notion of "equal row of the same types": same variant and the same bits in every
/// position; the only slack is that a top-level Float NaN may come back as any Float NaN (SQL
/// cannot observe NaN payloads; Rust's `==` on NaN is false anyway).
fn same_value(a: &V, b: &V) -> bool {
    match (a, b) {
        (V::Float(x), V::Float(y)) if f(*x).is_nan() => f(*y).is_nan(),
        _ => a == b,
    }
}

/// None = round trip holds; Some((signature, detail)) otherwise
fn roundtrip_verdict(path: &str, input: &[V], output: &[V]) -> Option<(String, String)> {
    if input.len() != output.len() {
        let sig = if input.len() >= 65536 && output.len() == input.len() % 65536 {
            format!("{path}:colcount-wrap-u16")
        } else {
            format!("{path}:column-count-changed")
        };
        return Some((sig, format!("{} columns in, {} columns out", input.len(), output.len())));
    }
    for (i, (a, b)) in input.iter().zip(output.iter()).enumerate() {
        if !same_value(a, b) {
            let sig = if a.kind() != b.kind() {
                format!("{path}:{}->{}", a.kind(), b.kind())
            } else {
                format!("{path}:{}:value-changed", a.kind())
            };
            return Some((sig, format!("column {i}: wrote {} read {}", a.tok(), b.tok())));
        }
    }
    None
}

// ---------------------------------------------------------------- calls into the real code

type Sv = SmallVec<[Value<'static>; 16]>;

fn impl_ser(rows: &[Vec<V>]) -> Result<(Vec<u8>, Vec<usize>), String> {
    let rows: Vec<Vec<Value<'static>>> = rows.iter().map(|r| r.iter().map(|v| v.to_value()).collect()).collect();
    guarded(move || {
        let mut buf = Vec::new();
        let mut sizes = vec![];
        for r in &rows {
            sizes.push(RowSerde::row_size(r));
            RowSerde::serialize_row_into(r, &mut buf);
        }
        (buf, sizes)
    })
}

/// `n` sequential deserialize_row_into calls from `off`; canonical outcome string + parsed rows
fn impl_de(data: &[u8], off: usize, n: usize) -> (String, Option<(usize, Vec<Vec<V>>)>) {
    let d = data.to_vec();
    let r = guarded(move || {
        let mut off = off;
        let mut out: Sv = SmallVec::new();
        let mut rows = vec![];
        for _ in 0..n {
            match RowSerde::deserialize_row_into(&d, &mut off, &mut out) {
                Ok(()) => rows.push(out.iter().map(V::from_value).collect::<Vec<V>>()),
                Err(e) => return Err(e.to_string()),
            }
        }
        Ok((off, rows))
    });
    match r {
        Ok(Ok((off, rows))) => (format!("ok {off} {}", rows_toks(&rows)), Some((off, rows))),
        Ok(Err(_)) => ("err".into(), None),
        Err(m) => (format!("panic {m}"), None),
    }
}

// ---------------------------------------------------------------- generators

const F64_EDGE: &[u64] = &[
    0x0000000000000000, 0x8000000000000000, 0x0000000000000001, 0x8000000000000001, 0x000fffffffffffff,
    0x0010000000000000, 0x8010000000000000, 0x3ff0000000000000, 0xbff0000000000000, 0x7fefffffffffffff,
    0xffefffffffffffff, 0x7ff0000000000000, 0xfff0000000000000, 0x7ff8000000000000, 0xfff8000000000000,
    0x7ff0000000000001, 0xfff0000000000001, 0x7fffffffffffffff, 0xffffffffffffffff, 0x7ff4000000000000,
    0x4005bf0a8b145769, 0xc005bf0a8b145769, 0x7fefffffffffffff, 0x8000000000000002, 0xffeffffffffffffe,
];
const I64_EDGE: &[i64] = &[
    0, 1, -1, 2, -2, 127, 128, 255, 256, -128, -129, -256, 65535, 65536, i32::MAX as i64, i32::MIN as i64,
    i64::MAX, i64::MIN, i64::MAX - 1, i64::MIN + 1, 0x0100000000000000, -0x0100000000000000, 0x00ff00ff00ff00ff,
];
const LEN_EDGE: &[usize] = &[0, 1, 2, 3, 4, 15, 16, 17, 127, 128, 255, 256, 257, 1000, 4095, 4096];
const LEN_BIG: &[usize] = &[65534, 65535, 65536, 65537, 70001];

fn gen_f64(rng: &mut Rng) -> u64 {
    match rng.below(10) {
        0..=3 => *rng.pick(F64_EDGE),
        4 => (rng.next() & 0x800fffffffffffff) | 0x7ff0000000000000, // inf / NaN with random payload
        5 => rng.next() & 0x800fffffffffffff,                       // zero / subnormal
        6 => f64::to_bits(rng.range(-1000, 1000) as f64 / 8.0),
        _ => rng.next(),
    }
}
fn gen_i64(rng: &mut Rng) -> i64 {
    match rng.below(8) {
        0..=2 => *rng.pick(I64_EDGE),
        3 => rng.range(-300, 300),
        4 => {
            let w = rng.below(64);
            let v = (rng.next() >> w) as i64;
            if rng.chance(1, 2) {
                v.wrapping_neg()
            } else {
                v
            }
        }
        _ => rng.next() as i64,
    }
}
fn gen_len(rng: &mut Rng, big: bool) -> usize {
    if big && rng.chance(1, 150) {
        return *rng.pick(LEN_BIG);
    }
    match rng.below(40) {
        0 => *rng.pick(&[1000usize, 4095, 4096]),
        1 => rng.below(2000) as usize,
        2..=9 => *rng.pick(&LEN_EDGE[..13]),
        10..=13 => rng.below(300) as usize,
        _ => rng.below(24) as usize,
    }
}
fn gen_string(rng: &mut Rng, nbytes: usize) -> String {
    // a valid UTF-8 string of exactly `nbytes` bytes when possible (mix of 1..4 byte scalars)
    const CH: &[char] = &['a', 'Z', '0', ' ', '\0', '\u{7f}', '\u{80}', 'é', '\u{7ff}', '\u{800}', '€', '\u{d7ff}', '\u{e000}',
        '\u{ffff}', '\u{10000}', '😀', '\u{10ffff}', '\'', '\\', '\n'];
    let mut s = String::with_capacity(nbytes + 4);
    while s.len() < nbytes {
        let c = *rng.pick(CH);
        if s.len() + c.len_utf8() <= nbytes {
            s.push(c);
        } else {
            s.push('x');
        }
    }
    s
}
fn gen_bytes(rng: &mut Rng, n: usize) -> Vec<u8> {
    match rng.below(4) {
        0 => vec![0u8; n],
        1 => vec![0xffu8; n],
        _ => rng.bytes(n),
    }
}
fn arr<const N: usize>(rng: &mut Rng) -> [u8; N] {
    let mut a = [0u8; N];
    match rng.below(4) {
        0 => {}
        1 => a = [0xff; N],
        _ => {
            for x in a.iter_mut() {
                *x = rng.next() as u8;
            }
        }
    }
    a
}
const F32_EDGE: &[u32] = &[0, 0x80000000, 1, 0x3f800000, 0xbf800000, 0x7f800000, 0xff800000, 0x7fc00000, 0xffc00000, 0x7f800001, 0xffffffff, 0x7f7fffff];

/// one value of variant index `k` (0..19 = the `Value` variants, 19..23 = OwnedValue-only)
fn gen_value_kind(rng: &mut Rng, k: u64, big: bool) -> V {
    match k {
        0 => V::Null,
        1 => V::Int(gen_i64(rng)),
        2 => V::Float(gen_f64(rng)),
        3 => {
            let n = gen_len(rng, big);
            V::Text(gen_string(rng, n))
        }
        4 => {
            let n = gen_len(rng, big);
            V::Blob(gen_bytes(rng, n))
        }
        5 => {
            let n = if big && rng.chance(1, 150) { *rng.pick(&[16383usize, 16384, 16385]) } else { gen_len(rng, false).min(600) };
            V::Vector((0..n).map(|_| if rng.chance(1, 3) { *rng.pick(F32_EDGE) } else { rng.next() as u32 }).collect())
        }
        6 => V::Uuid(arr(rng)),
        7 => V::Mac(arr(rng)),
        8 => V::Inet4(arr(rng)),
        9 => V::Inet6(arr(rng)),
        10 => {
            let n = gen_len(rng, big);
            V::Jsonb(gen_bytes(rng, n))
        }
        11 => V::Tstz(gen_i64(rng), gen_i64(rng) as i32),
        12 => V::Interval(gen_i64(rng), gen_i64(rng) as i32, gen_i64(rng) as i32),
        13 => V::Point(gen_f64(rng), gen_f64(rng)),
        14 => V::GeoBox([gen_f64(rng), gen_f64(rng), gen_f64(rng), gen_f64(rng)]),
        15 => V::Circle([gen_f64(rng), gen_f64(rng), gen_f64(rng)]),
        16 => V::Enum(gen_i64(rng) as u16, gen_i64(rng) as u16),
        17 => {
            let d = match rng.below(5) {
                0 => 0,
                1 => i128::MAX,
                2 => i128::MIN,
                3 => gen_i64(rng) as i128,
                _ => ((rng.next() as u128) << 64 | rng.next() as u128) as i128,
            };
            V::Decimal(d, gen_i64(rng) as i16)
        }
        18 => {
            let n = gen_len(rng, false);
            V::Toast(gen_bytes(rng, n))
        }
        19 => V::Bool(rng.chance(1, 2)),
        20 => V::Date(gen_i64(rng) as i32),
        21 => V::Time(gen_i64(rng)),
        _ => V::Timestamp(gen_i64(rng)),
    }
}
fn gen_value(rng: &mut Rng, nkinds: u64, big: bool) -> V {
    // numeric kinds are over-weighted: they carry the discriminant-sharing logic
    let k = match rng.below(10) {
        0 | 1 => 2,
        2 => 1,
        _ => rng.below(nkinds),
    };
    gen_value_kind(rng, k, big)
}
fn gen_row(rng: &mut Rng, nkinds: u64, big: bool) -> Vec<V> {
    let n = match rng.below(400) {
        0..=19 => 0,
        20..=39 => *rng.pick(&[16usize, 17]),
        40 | 41 => *rng.pick(&[255usize, 256, 257]),
        42..=120 => 1,
        _ => rng.range(1, 12) as usize,
    };
    if n > 100 {
        // wide rows: fixed-width kinds only (the List-based model decoder is quadratic in columns × bytes)
        return (0..n)
            .map(|_| {
                let k = *rng.pick(&[0u64, 1, 2, 6, 7, 8, 11, 13, 16, 17]);
                gen_value_kind(rng, k, false)
            })
            .collect();
    }
    (0..n).map(|_| gen_value(rng, nkinds, big && n <= 4)).collect()
}

// ---------------------------------------------------------------- engine

pub fn run(ctx: &Ctx) -> Report {
    let mut rep = Report::new(
        "rowserde",
        "rows: every Value variant × boundary values (f64 classes incl. ±0, subnormals, ±inf, NaNs with sign/payload; \
         i64 edges; byte lengths 0..4096 and around 65536; column counts 0,1,16,17,255..257,65535,65536), random rows, \
         buffers of 1..8 concatenated rows, arbitrary byte strings (all truncations and byte mutations of valid rows, \
         random discriminants/lengths), PartitionSpiller (every second history read executor-style, partition after partition without end_read) and SpillableBuffer histories with budgets that force spilling. \
         non-trivial = distinct case that is a non-empty row/buffer (row cases), or a byte string whose decoding gets \
         past the column count (bytes cases)",
    );
    std::env::set_var("TMPDIR", &ctx.scratch); // SpillableBuffer spills into std::env::temp_dir()
    let mut rng = Rng::new(ctx.seed ^ 0x33);
    let scale = if ctx.thorough { 12 } else { 1 };

    // which float-zero treatment does the tree under test have? (model variant follows the code;
    // the property oracle below does not depend on it)
    let probe = impl_ser(&[vec![V::Float(0)]]).map(|(b, _)| b.len()).unwrap_or(0);
    let var = if probe == 3 { "cur" } else { "fix" };
    rep.notes.push(format!("float-zero treatment of the tree under test: {var} (serialize([Float(+0.0)]) is {probe} bytes)"));

    let mut row_cases: Vec<Vec<V>> = vec![];
    let mut cat_cases: Vec<Vec<Vec<V>>> = vec![];
    let mut byte_cases: Vec<(Vec<u8>, usize)> = vec![];
    let mut spill_cases: Vec<(usize, usize, Vec<Vec<V>>)> = vec![];
    let mut sub_cases: Vec<(usize, Vec<Vec<V>>)> = vec![];

    let mut wide_label: std::collections::HashMap<usize, String> = Default::default();
    // ---- corpus / replay first
    for c in ctx.corpus_cases("C33") {
        let p: Vec<&str> = c.split_whitespace().collect();
        let ok = match p.first().copied() {
            Some("row") => parse_row(&p[1..]).map(|r| row_cases.push(r)).is_some(),
            Some("wide") if p.len() == 2 => match p[1].parse::<usize>() {
                Ok(n) if n <= 200_000 => {
                    wide_label.insert(row_cases.len(), format!("wide {n}"));
                    row_cases.push(wide_row(n));
                    true
                }
                _ => false,
            },
            Some("cat") => parse_rows(&p[1..]).map(|r| cat_cases.push(r)).is_some(),
            Some("bytes") if p.len() == 3 => {
                byte_cases.push((unhex(p[1]), p[2].parse().unwrap_or(0)));
                true
            }
            Some("spill") if p.len() >= 3 => match (p[1].parse(), p[2].parse(), parse_rows(&p[3..])) {
                (Ok(b), Ok(n), Some(r)) => {
                    spill_cases.push((b, n, r));
                    true
                }
                _ => false,
            },
            Some("sub") if p.len() >= 2 => match (p[1].parse(), parse_rows(&p[2..])) {
                (Ok(l), Some(r)) => {
                    sub_cases.push((l, r));
                    true
                }
                _ => false,
            },
            _ => false,
        };
        if !ok {
            rep.notes.push(format!("unparsable corpus/replay line ignored: {}", &c[..c.len().min(80)]));
        }
    }

    // ---- boundary rows
    for b in F64_EDGE {
        row_cases.push(vec![V::Float(*b)]);
        row_cases.push(vec![V::Int(7), V::Float(*b), V::Text("t".into())]);
        row_cases.push(vec![V::Point(*b, *b), V::Circle([*b, 0, *b]), V::GeoBox([*b, *b, 0, *b])]);
    }
    for i in I64_EDGE {
        row_cases.push(vec![V::Int(*i)]);
        row_cases.push(vec![V::Tstz(*i, *i as i32), V::Interval(*i, *i as i32, (*i >> 7) as i32), V::Decimal(*i as i128, *i as i16)]);
    }
    for n in LEN_EDGE.iter().chain(LEN_BIG.iter()) {
        row_cases.push(vec![V::Text(gen_string(&mut rng, *n))]);
        row_cases.push(vec![V::Blob(gen_bytes(&mut rng, *n)), V::Null]);
        row_cases.push(vec![V::Jsonb(gen_bytes(&mut rng, *n))]);
        row_cases.push(vec![V::Toast(gen_bytes(&mut rng, *n)), V::Int(1)]);
        row_cases.push(vec![V::Vector((0..(*n / 4) as u32).map(|x| x.wrapping_mul(0x9e3779b9)).collect())]);
    }
    for k in 0..19 {
        for _ in 0..8 {
            row_cases.push(vec![gen_value_kind(&mut rng, k, false)]);
        }
    }
    for n in [0usize, 1, 16, 17, 255, 256, 257, 65535, 65536, 65537 + 2] {
        wide_label.insert(row_cases.len(), format!("wide {n}"));
        row_cases.push(wide_row(n));
    }
    for _ in 0..30_000 * scale {
        row_cases.push(gen_row(&mut rng, 19, true));
    }
    // ---- concatenations
    for _ in 0..4_000 * scale {
        let n = rng.range(1, 8) as usize;
        cat_cases.push((0..n).map(|_| gen_row(&mut rng, 19, false)).collect());
    }

    let t0 = std::time::Instant::now();
    // =========================================================== row cases
    let reqs: Vec<String> = row_cases.iter().map(|r| format!("ser {var} {}", row_toks(r).replace("()", ""))).collect();
    let resp = model_batch(&ctx.model_bin, "rowserde", &reqs);
    eprintln!("[rowserde] ser batch done: {:.1}s", t0.elapsed().as_secs_f64());
    let mut de_reqs: Vec<String> = vec![];
    let mut de_expect: Vec<(String, String)> = vec![]; // (case, impl outcome)
    for (i, row) in row_cases.iter().enumerate() {
        let case = wide_label.get(&i).cloned().unwrap_or_else(|| format!("row {}", row_toks(row)));
        let key = if row.is_empty() { None } else { Some(case.as_str()) };
        rep.case(key);
        rep.count(&format!("row_cols_{}", match row.len() { 0 => "0", 1 => "1", 2..=16 => "2-16", 17..=300 => "17-300", _ => ">300" }));
        for v in row.iter().take(64) {
            rep.count(&format!("kind_{}", v.kind()));
        }
        let (bytes, sizes) = match impl_ser(std::slice::from_ref(row)) {
            Ok(x) => x,
            Err(m) => {
                rep.oracle_fail(case.clone(), format!("serialize/row_size panicked: {m}"), "row:panic-serialize".into());
                continue;
            }
        };
        if i % 3001 == 0 {
            let h = hex(&bytes);
            rep.sample(format!("{} -> {}", &case[..case.len().min(160)], &h[..h.len().min(120)]));
        }
        // correspondence: bytes and size
        let want = format!("{} {}", hex(&bytes), sizes[0]);
        if resp[i] != want {
            rep.disagree(case.clone(), format!("impl ser/size = {} ; model = {}", clip(&want), clip(&resp[i])), "ser-differs".into());
        }
        // oracle 1: computed size equals the bytes written
        if sizes[0] != bytes.len() {
            rep.oracle_fail(case.clone(), format!("row_size={} but {} bytes written", sizes[0], bytes.len()),
                if row.len() == 1 { format!("size:{}", row[0].kind()) } else { "size:row".to_string() });
        }
        // oracle 2: round trip at offset 0, and embedded at a non-zero offset with a tail
        let (out0, parsed0) = impl_de(&bytes, 0, 1);
        match &parsed0 {
            Some((off, rows)) => {
                let verdict = roundtrip_verdict("roundtrip", row, &rows[0]);
                let wrapped = matches!(&verdict, Some((s, _)) if s.ends_with("colcount-wrap-u16"));
                if let Some((sig, det)) = verdict {
                    rep.oracle_fail(case.clone(), det, sig);
                }
                // (a wrapped column count necessarily leaves the rest of the row unread: same defect)
                if *off != bytes.len() && !wrapped {
                    rep.oracle_fail(case.clone(), format!("consumed {off} of {} bytes", bytes.len()), "row:consumed-differs".into());
                }
            }
            None => rep.oracle_fail(case.clone(), format!("deserialize of own output: {}", clip(&out0)),
                if out0.starts_with("panic") { "row:panic-deserialize".into() } else { "roundtrip:rejected".into() }),
        }
        if bytes.len() < 5000 {
            let pre = rng.below(4) as usize;
            let mut emb = rng.bytes(pre);
            emb.extend_from_slice(&bytes);
            let tl = rng.below(6) as usize;
            emb.extend(rng.bytes(tl));
            let (oute, parsede) = impl_de(&emb, pre, 1);
            let same = match (&parsed0, &parsede) {
                (Some((o0, r0)), Some((o1, r1))) => *o1 == *o0 + pre && r0 == r1,
                _ => false,
            };
            if !same && parsed0.is_some() {
                rep.oracle_fail(format!("bytes {} {pre}", hex(&emb)), format!("embedded decode differs: {} vs {}", clip(&oute), clip(&out0)), "row:position-dependent".into());
            }
            if i % 4 == 0 {
                de_reqs.push(format!("de {} {pre}", hex(&emb)));
                de_expect.push((format!("bytes {} {pre}", hex(&emb)), oute));
            }
        }
        // (the List-based model decoder is quadratic in the column count; the 65535-column row alone
        // costs it ~15 s, so the decoder comparison is limited to rows of ≤ 4096 columns — the
        // round-trip oracle above has been evaluated on the real code for the wide rows as well)
        if row.len() <= 4096 {
            de_reqs.push(format!("de {} 0", hex(&bytes)));
            de_expect.push((case.clone(), out0));
        }
        // material for the byte-level cases
        if i % 40 == 0 && bytes.len() <= 80 {
            for k in 0..bytes.len() {
                byte_cases.push((bytes[..k].to_vec(), 0));
            }
        }
        if i % 6 == 0 && bytes.len() <= 400 && bytes.len() > 2 {
            for _ in 0..4 {
                let mut m = bytes.clone();
                let pos = rng.below(m.len() as u64) as usize;
                match rng.below(4) {
                    0 => m[pos] = rng.next() as u8,
                    1 => m[pos] ^= 1 << rng.below(8),
                    2 => m.truncate(pos),
                    _ => m[pos] = *rng.pick(&[0x01u8, 0x10, 0x12, 0x13, 0x14, 0x15, 0x16, 0x18, 0x19, 0x20, 0x21, 0x33, 0x34, 0x40,
                        0x41, 0x42, 0x43, 0x50, 0x63, 0x70, 0x80, 0x81, 0x82, 0x83, 0x84, 0x00, 0x02, 0x03, 0x85, 0xff]),
                }
                byte_cases.push((m, 0));
            }
        }
    }
    eprintln!("[rowserde] impl row loop done: {:.1}s", t0.elapsed().as_secs_f64());
    // decoder correspondence on valid encodings
    check_decodes(&mut rep, ctx, &de_reqs, &de_expect, "de-valid-differs");

    eprintln!("[rowserde] before cat cases: {:.1}s", t0.elapsed().as_secs_f64());
    // =========================================================== cat cases
    let reqs: Vec<String> = cat_cases.iter().map(|rs| {
        format!("rtn {var} {}", rows_toks(rs))
    }).collect();
    let resp = model_batch(&ctx.model_bin, "rowserde", &reqs);
    for (i, rows) in cat_cases.iter().enumerate() {
        let case = format!("cat {}", rows_toks(rows));
        rep.case(Some(&case));
        rep.count(&format!("cat_rows_{}", rows.len()));
        let (bytes, sizes) = match impl_ser(rows) {
            Ok(x) => x,
            Err(m) => {
                rep.oracle_fail(case.clone(), format!("serialize panicked: {m}"), "cat:panic-serialize".into());
                continue;
            }
        };
        let (out, parsed) = impl_de(&bytes, 0, rows.len());
        if out != resp[i] {
            rep.disagree(case.clone(), format!("impl = {} ; model = {}", clip(&out), clip(&resp[i])), "cat-differs".into());
        }
        if sizes.iter().sum::<usize>() != bytes.len() {
            rep.oracle_fail(case.clone(), format!("sum of row_size {} != {} bytes", sizes.iter().sum::<usize>(), bytes.len()), "size:cat".into());
        }
        match parsed {
            Some((off, got)) => {
                if off != bytes.len() {
                    rep.oracle_fail(case.clone(), format!("consumed {off} of {}", bytes.len()), "cat:consumed-differs".into());
                }
                for (a, b) in rows.iter().zip(got.iter()) {
                    if let Some((sig, det)) = roundtrip_verdict("roundtrip", a, b) {
                        rep.oracle_fail(case.clone(), det, sig);
                        break;
                    }
                }
            }
            None => rep.oracle_fail(case.clone(), format!("sequential decode: {}", clip(&out)), "cat:rejected".into()),
        }
    }

    eprintln!("[rowserde] before byte cases: {:.1}s", t0.elapsed().as_secs_f64());
    // =========================================================== byte cases
    for _ in 0..6_000 * scale {
        // structured garbage: plausible column count, then discriminants with random payloads
        let ncols = rng.below(4) as u16;
        let mut b = ncols.to_be_bytes().to_vec();
        for _ in 0..ncols {
            b.push(*rng.pick(&[0x01u8, 0x10, 0x12, 0x13, 0x14, 0x15, 0x16, 0x18, 0x19, 0x20, 0x21, 0x33, 0x34, 0x40, 0x41, 0x42, 0x43,
                0x50, 0x63, 0x70, 0x80, 0x81, 0x82, 0x83, 0x84, 0x05, 0x7f]));
            match rng.below(5) {
                0 => {
                    // length-prefixed payload with a length that is exact / short / long / huge
                    let n = rng.below(12) as u32;
                    let claim = match rng.below(5) { 0 => n, 1 => n + 1, 2 => n.saturating_sub(1), 3 => u32::MAX - rng.below(3) as u32, _ => n * 4 };
                    b.extend_from_slice(&claim.to_be_bytes());
                    let payload = if rng.chance(1, 2) { gen_string(&mut rng, n as usize).into_bytes() } else { rng.bytes(n as usize) };
                    b.extend(payload);
                }
                _ => {
                    let k = rng.below(36) as usize;
                    b.extend(rng.bytes(k))
                }
            }
        }
        let off = if rng.chance(1, 8) { rng.below(b.len() as u64 + 3) as usize } else { 0 };
        byte_cases.push((b, off));
    }
    for n in 0..=3usize {
        for _ in 0..64 {
            byte_cases.push((rng.bytes(n), 0));
        }
    }
    // UTF-8 acceptance: every 1- and 2-byte string and random 3/4-byte strings as TEXT payloads
    let mut payloads: Vec<Vec<u8>> = vec![];
    for a in 0..=255u8 {
        payloads.push(vec![a]);
        for b2 in (0..=255u8).step_by(if ctx.thorough { 1 } else { 5 }) {
            payloads.push(vec![a, b2]);
        }
    }
    for lead in [0xe0u8, 0xe1, 0xec, 0xed, 0xee, 0xef, 0xf0, 0xf1, 0xf3, 0xf4, 0xf5, 0xc0, 0xc1, 0xc2, 0xdf] {
        for b2 in [0x7fu8, 0x80, 0x8f, 0x90, 0x9f, 0xa0, 0xbf, 0xc0] {
            for b3 in [0x7fu8, 0x80, 0xbf, 0xc0] {
                payloads.push(vec![lead, b2, b3]);
                payloads.push(vec![lead, b2, b3, 0x80]);
                payloads.push(vec![lead, b2, b3, 0xbf, b'a']);
                payloads.push(vec![b'a', lead, b2, b3]);
            }
        }
    }
    for p in payloads {
        let mut b = vec![0, 1, 0x20];
        b.extend_from_slice(&(p.len() as u32).to_be_bytes());
        b.extend(p);
        byte_cases.push((b, 0));
    }
    let mut reqs = vec![];
    let mut expect = vec![];
    for (b, off) in &byte_cases {
        let case = format!("bytes {} {off}", hex(b));
        let (out, parsed) = impl_de(b, *off, 1);
        let class = if out.starts_with("ok") { "bytes_ok" } else if out == "err" { "bytes_err" } else { "bytes_panic" };
        rep.count(class);
        rep.case(if b.len() > off + 2 { Some(&case) } else { None });
        if out.starts_with("panic") {
            rep.oracle_fail(case.clone(), out.clone(), "bytes:panic".into());
        }
        if let Some((o, _)) = parsed {
            if o > b.len() {
                rep.oracle_fail(case.clone(), format!("offset {o} beyond {} bytes", b.len()), "bytes:overread".into());
            }
        }
        reqs.push(format!("de {} {off}", hex(b)));
        expect.push((case, out));
    }
    check_decodes(&mut rep, ctx, &reqs, &expect, "de-bytes-differs");

    eprintln!("[rowserde] before PartitionSpiller: {:.1}s", t0.elapsed().as_secs_f64());
    // =========================================================== PartitionSpiller
    for _ in 0..120 * scale {
        let nparts = rng.range(1, 4) as usize;
        let budget = *rng.pick(&[0usize, 1, 64, 256, 1024, 1 << 20]);
        let nrows = rng.range(1, 30) as usize;
        let rows: Vec<Vec<V>> = (0..nrows).map(|_| gen_row(&mut rng, 19, false)).collect();
        spill_cases.push((budget, nparts, rows));
    }
    run_spill(&mut rep, ctx, var, &spill_cases);

    eprintln!("[rowserde] before SpillableBuffer: {:.1}s", t0.elapsed().as_secs_f64());
    // =========================================================== SpillableBuffer
    for _ in 0..250 * scale {
        let limit = *rng.pick(&[0usize, 1, 100, 400, 2000, 1 << 20]);
        let nrows = rng.range(1, 30) as usize;
        let rows: Vec<Vec<V>> = (0..nrows).map(|_| gen_row(&mut rng, 23, false)).collect();
        sub_cases.push((limit, rows));
    }
    for b in F64_EDGE {
        sub_cases.push((0, vec![vec![V::Float(*b), V::Point(*b, *b)], vec![V::Bool(true), V::Date(i32::MIN), V::Time(-1), V::Timestamp(i64::MAX)]]));
    }
    run_sub(&mut rep, ctx, &sub_cases);
    eprintln!("[rowserde] done: {:.1}s", t0.elapsed().as_secs_f64());
    rep
}

/// `wide <n>`: n columns, column i is NULL when i % 3 == 0, else Int(i % 5)
fn wide_row(n: usize) -> Vec<V> {
    (0..n).map(|i| if i % 3 == 0 { V::Null } else { V::Int((i % 5) as i64) }).collect()
}

fn clip(s: &str) -> String {
    if s.len() > 300 {
        format!("{}…({} chars)", &s[..300], s.len())
    } else {
        s.to_string()
    }
}

fn check_decodes(rep: &mut Report, ctx: &Ctx, reqs: &[String], expect: &[(String, String)], sig: &str) {
    if let Ok(p) = std::env::var("VERIF_DUMP_REQS") {
        let _ = std::fs::write(format!("{p}.{sig}"), reqs.join("\n") + "\n");
    }
    let resp = model_batch(&ctx.model_bin, "rowserde", reqs);
    for (i, (case, out)) in expect.iter().enumerate() {
        if &resp[i] != out {
            rep.disagree(case.clone(), format!("impl = {} ; model = {} ; request = {}", clip(out), clip(&resp[i]), clip(&reqs[i])), sig.into());
        }
    }
}

fn run_spill(rep: &mut Report, ctx: &Ctx, var: &str, cases: &[(usize, usize, Vec<Vec<V>>)]) {
    // impl first (needs to know which partitions spilled), then one model batch
    let mut reqs = vec![];
    let mut pending: Vec<(String, Vec<Vec<V>>, String)> = vec![]; // (case, written rows of the partition, impl outcome)
    for (ci, (budget, nparts, rows)) in cases.iter().enumerate() {
        let case = format!("spill {budget} {nparts} {}", rows_toks(rows));
        rep.case(Some(&case));
        let dir = std::path::PathBuf::from(format!("{}/spill-{ci}", ctx.scratch));
        let (budget, nparts) = (*budget, (*nparts).max(1));
        let rows2 = rows.clone();
        let res = guarded(move || -> Result<Vec<(bool, Vec<Vec<V>>)>, String> {
            let mut sp = PartitionSpiller::new(dir, nparts, budget, ci as u64, 'L').map_err(|e| e.to_string())?;
            for (i, r) in rows2.iter().enumerate() {
                let sv: Sv = r.iter().map(|v| v.to_value()).collect();
                sp.write_row(i % nparts, sv).map_err(|e| format!("write_row: {e}"))?;
            }
            let mut out = vec![];
            for p in 0..nparts {
                let spilled = sp.partition_is_spilled(p);
                sp.start_read(p).map_err(|e| format!("start_read: {e}"))?;
                let mut got = vec![];
                loop {
                    match sp.read_next() {
                        Ok(Some(r)) => got.push(r.iter().map(V::from_value).collect::<Vec<V>>()),
                        Ok(None) => break,
                        Err(e) => return Err(format!("read_next: {e}")),
                    }
                }
                // the production caller (GraceHashJoin) goes from partition to partition WITHOUT end_read():
                // every second history reads that way
                if ci % 2 == 0 { sp.end_read(); }
                out.push((spilled, got));
            }
            Ok(out)
        });
        match res {
            Ok(Ok(parts)) => {
                for (p, (spilled, got)) in parts.iter().enumerate() {
                    let written: Vec<Vec<V>> = rows.iter().enumerate().filter(|(i, _)| i % nparts == p).map(|(_, r)| r.clone()).collect();
                    rep.count(if *spilled { "spill_partition_spilled" } else { "spill_partition_in_memory" });
                    // property oracle: what was written is read back, in order
                    if written.len() != got.len() {
                        rep.oracle_fail(case.clone(), format!("partition {p}: wrote {} rows, read {}", written.len(), got.len()), "spill:row-count".into());
                    } else {
                        for (a, b) in written.iter().zip(got.iter()) {
                            if let Some((sig, det)) = roundtrip_verdict("roundtrip", a, b) {
                                rep.oracle_fail(case.clone(), format!("partition {p} (spilled={spilled}): {det}"), sig);
                                break;
                            }
                        }
                    }
                    // correspondence: a spilled partition reads back what the model's decoder makes of the model's bytes
                    if *spilled && !written.is_empty() {
                        reqs.push(format!("rtn {var} {}", rows_toks(&written)));
                        pending.push((case.clone(), written, format!("{}", rows_toks(got))));
                    } else if !*spilled && &written != got {
                        rep.disagree(case.clone(), format!("in-memory partition {p} did not return the rows as written"), "spill-memory-differs".into());
                    }
                }
            }
            Ok(Err(e)) => rep.oracle_fail(case.clone(), e, "spill:error".into()),
            Err(m) => rep.oracle_fail(case.clone(), format!("panic: {m}"), "spill:panic".into()),
        }
    }
    let resp = model_batch(&ctx.model_bin, "rowserde", &reqs);
    for (i, (case, _written, got)) in pending.iter().enumerate() {
        // model answer is "ok <off> rows"; strip the offset
        let m = resp[i].splitn(3, ' ').nth(2).unwrap_or("").to_string();
        if &m != got {
            rep.disagree(case.clone(), format!("spilled partition read back {} ; model predicts {}", clip(got), clip(&resp[i])), "spill-differs".into());
        }
    }
}

fn run_sub(rep: &mut Report, ctx: &Ctx, cases: &[(usize, Vec<Vec<V>>)]) {
    let mut reqs = vec![];
    let mut pending = vec![];
    for (limit, rows) in cases {
        let case = format!("sub {limit} {}", rows_toks(rows));
        rep.case(Some(&case));
        let (limit, rows2) = (*limit, rows.clone());
        let res = guarded(move || -> Result<(bool, Vec<Vec<V>>), String> {
            let mut buf = SpillableBuffer::new(limit);
            for r in &rows2 {
                buf.push(MaterializedRow::new(r.iter().map(|v| v.to_owned_value()).collect())).map_err(|e| format!("push: {e}"))?;
            }
            let spilled = buf.is_spilled();
            let mut got = vec![];
            for r in buf.iter().map_err(|e| format!("iter: {e}"))? {
                let r = r.map_err(|e| format!("next: {e}"))?;
                got.push(r.values.iter().map(V::from_owned_value).collect::<Vec<V>>());
            }
            Ok((spilled, got))
        });
        match res {
            Ok(Ok((spilled, got))) => {
                rep.count(if spilled { "sub_spilled" } else { "sub_in_memory" });
                if got.len() != rows.len() {
                    rep.oracle_fail(case.clone(), format!("pushed {} rows, read {}", rows.len(), got.len()), "sub:row-count".into());
                } else {
                    for (a, b) in rows.iter().zip(got.iter()) {
                        // OwnedValue spill keeps raw bits: exact equality, NaNs included
                        if a != b {
                            let (sig, det) = roundtrip_verdict("sub-roundtrip", a, b).unwrap_or(("sub-roundtrip:nan-bits-changed".into(), format!("{} vs {}", row_toks(a), row_toks(b))));
                            rep.oracle_fail(case.clone(), format!("spilled={spilled}: {det}"), sig);
                            break;
                        }
                    }
                }
                if spilled {
                    reqs.push(format!("rtn {}", rows_toks(rows)));
                    pending.push((case.clone(), rows_toks(&got)));
                }
            }
            Ok(Err(e)) => rep.oracle_fail(case.clone(), e, "sub:error".into()),
            Err(m) => rep.oracle_fail(case.clone(), format!("panic: {m}"), "sub:panic".into()),
        }
    }
    let resp = model_batch(&ctx.model_bin, "subspill", &reqs);
    for (i, (case, got)) in pending.iter().enumerate() {
        let m = resp[i].splitn(3, ' ').nth(2).unwrap_or("").to_string();
        if &m != got {
            rep.disagree(case.clone(), format!("spilled buffer read back {} ; model predicts {}", clip(got), clip(&resp[i])), "sub-differs".into());
        }
    }
}
