//! C26 part 2 (oracle only, outside the Lean model): the `OwnedValue -> key` glue of the database
//! layer (`Database::encode_value_as_key`, through the cfg-guarded hook `verif_encode_value_as_key`)
//! judged against the code's own value order `Value::compare`; JSON and RANGE keys of key.rs judged
//! against round trip / natural order / prefix-freeness.
use super::keyenc_gen::*;
use super::keyenc_val::*;
use crate::common::*;
use std::cmp::Ordering;
use turdb::encoding::key::{self as k, decode_key, DecodedJson, DecodedKey, JsonValue};
use turdb::{Database, OwnedValue};

// ------------------------------------------------------------------ OwnedValue
fn ov_fmt(v: &OwnedValue) -> String {
    match v {
        OwnedValue::Null => "null".into(),
        OwnedValue::Bool(b) => format!("bool {}", *b as u8),
        OwnedValue::Int(n) => format!("int {n}"),
        OwnedValue::Float(f) => format!("float {}", f.to_bits()),
        OwnedValue::Text(s) => format!("text {}", hex(s.as_bytes())),
        OwnedValue::Blob(b) => format!("blob {}", hex(b)),
        OwnedValue::Vector(v) => {
            let mut s = format!("vector {}", v.len());
            for f in v {
                s.push_str(&format!(" {}", f.to_bits()));
            }
            s
        }
        OwnedValue::Date(d) => format!("date {d}"),
        OwnedValue::Time(d) => format!("time {d}"),
        OwnedValue::Timestamp(d) => format!("ts {d}"),
        OwnedValue::TimestampTz(a, b) => format!("tstz {a} {b}"),
        OwnedValue::Uuid(u) => format!("uuid {}", hex(u)),
        OwnedValue::MacAddr(u) => format!("mac {}", hex(u)),
        OwnedValue::Inet4(u) => format!("inet4 {}", hex(u)),
        OwnedValue::Inet6(u) => format!("inet6 {}", hex(u)),
        OwnedValue::Interval(a, b, c) => format!("interval {a} {b} {c}"),
        OwnedValue::Point(x, y) => format!("point {} {}", x.to_bits(), y.to_bits()),
        OwnedValue::Box(a, b) => format!("box {} {} {} {}", a.0.to_bits(), a.1.to_bits(), b.0.to_bits(), b.1.to_bits()),
        OwnedValue::Circle(c, r) => format!("circle {} {} {}", c.0.to_bits(), c.1.to_bits(), r.to_bits()),
        OwnedValue::Jsonb(b) => format!("jsonb {}", hex(b)),
        OwnedValue::Decimal(d, s) => format!("decimal {d} {s}"),
        OwnedValue::Enum(a, b) => format!("enum {a} {b}"),
        OwnedValue::ToastPointer(b) => format!("toast {}", hex(b)),
    }
}

fn ov_kind(v: &OwnedValue) -> &'static str {
    let s = ov_fmt(v);
    match s.split(' ').next().unwrap() {
        "null" => "null", "bool" => "bool", "int" => "int", "float" => "float", "text" => "text", "blob" => "blob",
        "vector" => "vector", "date" => "date", "time" => "time", "ts" => "timestamp", "tstz" => "timestamptz",
        "uuid" => "uuid", "mac" => "macaddr", "inet4" => "inet4", "inet6" => "inet6", "interval" => "interval",
        "point" => "point", "box" => "box", "circle" => "circle", "jsonb" => "jsonb", "decimal" => "decimal",
        "enum" => "enum", _ => "toast",
    }
}

fn ov_parse(t: &[&str], i: &mut usize) -> Option<OwnedValue> {
    fn n<T: std::str::FromStr>(t: &[&str], i: &mut usize) -> Option<T> {
        let v = t.get(*i)?.parse().ok()?;
        *i += 1;
        Some(v)
    }
    fn h(t: &[&str], i: &mut usize) -> Option<Vec<u8>> {
        let s = t.get(*i)?;
        *i += 1;
        Some(unhex(s))
    }
    fn f(t: &[&str], i: &mut usize) -> Option<f64> {
        Some(f64::from_bits(n::<u64>(t, i)?))
    }
    let tag = *t.get(*i)?;
    *i += 1;
    Some(match tag {
        "null" => OwnedValue::Null,
        "bool" => OwnedValue::Bool(n::<u8>(t, i)? == 1),
        "int" => OwnedValue::Int(n(t, i)?),
        "float" => OwnedValue::Float(f(t, i)?),
        "text" => OwnedValue::Text(String::from_utf8(h(t, i)?).ok()?),
        "blob" => OwnedValue::Blob(h(t, i)?),
        "vector" => {
            let c: usize = n(t, i)?;
            let mut v = vec![];
            for _ in 0..c {
                v.push(f32::from_bits(n::<u32>(t, i)?));
            }
            OwnedValue::Vector(v)
        }
        "date" => OwnedValue::Date(n(t, i)?),
        "time" => OwnedValue::Time(n(t, i)?),
        "ts" => OwnedValue::Timestamp(n(t, i)?),
        "tstz" => OwnedValue::TimestampTz(n(t, i)?, n(t, i)?),
        "uuid" => OwnedValue::Uuid(h(t, i)?.try_into().ok()?),
        "mac" => OwnedValue::MacAddr(h(t, i)?.try_into().ok()?),
        "inet4" => OwnedValue::Inet4(h(t, i)?.try_into().ok()?),
        "inet6" => OwnedValue::Inet6(h(t, i)?.try_into().ok()?),
        "interval" => OwnedValue::Interval(n(t, i)?, n(t, i)?, n(t, i)?),
        "point" => OwnedValue::Point(f(t, i)?, f(t, i)?),
        "box" => OwnedValue::Box((f(t, i)?, f(t, i)?), (f(t, i)?, f(t, i)?)),
        "circle" => OwnedValue::Circle((f(t, i)?, f(t, i)?), f(t, i)?),
        "jsonb" => OwnedValue::Jsonb(h(t, i)?),
        "decimal" => OwnedValue::Decimal(n(t, i)?, n(t, i)?),
        "enum" => OwnedValue::Enum(n(t, i)?, n(t, i)?),
        "toast" => OwnedValue::ToastPointer(h(t, i)?),
        _ => return None,
    })
}

fn arr<const N: usize>(r: &mut Rng) -> [u8; N] {
    let mut a = [0u8; N];
    for x in a.iter_mut() {
        *x = gen_byte(r);
    }
    a
}
fn gf(r: &mut Rng) -> f64 {
    f64::from_bits(gen_f64(r))
}
fn gen_decimal(r: &mut Rng) -> OwnedValue {
    // |digits| < 10^19 and 0 <= scale <= 9: Value::compare's rescaling stays far from i128 overflow
    let digits: i128 = match r.below(5) {
        0 => *r.pick(&[0i128, 1, -1, 10, 100, 9_007_199_254_740_992, 9_007_199_254_740_993, -9_007_199_254_740_993,
            100_000_000_000_000_000, 100_000_000_000_000_001, 3, 30, 300_000_000_000_000_000]),
        1 => r.range(-1000, 1000) as i128,
        2 => (1i128 << (53 + r.below(8))) + r.range(-2, 2) as i128,
        _ => (r.next() >> r.below(64)) as i128 * if r.chance(1, 2) { 1 } else { -1 },
    };
    OwnedValue::Decimal(digits, r.below(10) as i16)
}

fn gen_ov(r: &mut Rng, kind: usize) -> OwnedValue {
    match kind {
        0 => OwnedValue::Null,
        1 => OwnedValue::Bool(r.chance(1, 2)),
        2 => OwnedValue::Int(gen_i64(r)),
        3 => OwnedValue::Float(gf(r)),
        4 => OwnedValue::Text(String::from_utf8(gen_text(r, 6)).unwrap()),
        5 => OwnedValue::Blob(gen_bytes(r, 8)),
        6 => {
            let n = r.below(4) as usize;
            OwnedValue::Vector((0..n).map(|_| f32::from_bits(gen_f32(r))).collect())
        }
        7 => OwnedValue::Date(gen_i32(r)),
        8 => OwnedValue::Time(gen_i64(r)),
        9 => OwnedValue::Timestamp(gen_i64(r)),
        10 => OwnedValue::TimestampTz(gen_i64(r), r.range(-50400, 50400) as i32),
        11 => OwnedValue::Uuid(arr::<16>(r)),
        12 => OwnedValue::MacAddr(arr::<6>(r)),
        13 => OwnedValue::Inet4(arr::<4>(r)),
        14 => OwnedValue::Inet6(arr::<16>(r)),
        15 => OwnedValue::Interval(gen_i64(r), gen_i32(r), gen_i32(r)),
        16 => OwnedValue::Point(gf(r), gf(r)),
        17 => OwnedValue::Box((gf(r), gf(r)), (gf(r), gf(r))),
        18 => OwnedValue::Circle((gf(r), gf(r)), gf(r)),
        19 => OwnedValue::Jsonb(gen_bytes(r, 8)),
        20 => gen_decimal(r),
        21 => OwnedValue::Enum(r.next() as u16, r.next() as u16),
        _ => OwnedValue::ToastPointer(gen_bytes(r, 8)),
    }
}

fn tweak_ov(r: &mut Rng, v: &OwnedValue) -> OwnedValue {
    let d = r.range(-2, 2);
    let tb = |r: &mut Rng, b: &Vec<u8>| -> Vec<u8> {
        let mut v = b.clone();
        match r.below(3) {
            0 => v.push(gen_byte(r)),
            1 => {
                v.pop();
            }
            _ if !v.is_empty() => {
                let j = r.below(v.len() as u64) as usize;
                v[j] = v[j].wrapping_add(1);
            }
            _ => v.push(0),
        }
        v
    };
    match v {
        OwnedValue::Int(n) => OwnedValue::Int(n.wrapping_add(d)),
        OwnedValue::Float(f) => OwnedValue::Float(f64::from_bits(f.to_bits().wrapping_add(d as u64))),
        OwnedValue::Blob(b) => OwnedValue::Blob(tb(r, b)),
        OwnedValue::Jsonb(b) => OwnedValue::Jsonb(tb(r, b)),
        OwnedValue::ToastPointer(b) => OwnedValue::ToastPointer(tb(r, b)),
        OwnedValue::Vector(x) => {
            let mut x = x.clone();
            match r.below(3) {
                0 => x.push(f32::from_bits(gen_f32(r))),
                1 => {
                    x.pop();
                }
                _ if !x.is_empty() => {
                    let j = r.below(x.len() as u64) as usize;
                    x[j] = f32::from_bits(x[j].to_bits().wrapping_add(d as u32));
                }
                _ => x.push(0.0),
            }
            OwnedValue::Vector(x)
        }
        OwnedValue::Date(n) => OwnedValue::Date(n.wrapping_add(d as i32)),
        OwnedValue::Time(n) => OwnedValue::Time(n.wrapping_add(d)),
        OwnedValue::Timestamp(n) => OwnedValue::Timestamp(n.wrapping_add(d)),
        OwnedValue::TimestampTz(a, z) => OwnedValue::TimestampTz(a.wrapping_add(d), *z),
        OwnedValue::Interval(a, b, c) => match r.below(3) {
            0 => OwnedValue::Interval(a.wrapping_add(d), *b, *c),
            1 => OwnedValue::Interval(*a, b.wrapping_add(d as i32), *c),
            _ => OwnedValue::Interval(*a, *b, c.wrapping_add(d as i32)),
        },
        OwnedValue::Decimal(dg, s) => match r.below(3) {
            0 => OwnedValue::Decimal(dg + d as i128, *s),
            1 if *s < 9 => OwnedValue::Decimal(dg * 10 + d as i128, s + 1),
            _ => OwnedValue::Decimal(*dg, (*s + 1).min(9)),
        },
        OwnedValue::Enum(a, b) => OwnedValue::Enum(*a, b.wrapping_add(d as u16)),
        OwnedValue::Point(x, y) => OwnedValue::Point(*x, f64::from_bits(y.to_bits().wrapping_add(d as u64))),
        other => {
            let k = match ov_kind(other) {
                "text" => 4, "uuid" => 11, "macaddr" => 12, "inet4" => 13, "inet6" => 14, "box" => 17, "circle" => 18,
                "bool" => 1, _ => 0,
            };
            gen_ov(r, k)
        }
    }
}

/// the key.rs value an OwnedValue is encoded as when the glue maps it 1:1
fn ov_as_kv(v: &OwnedValue) -> Option<KV> {
    Some(match v {
        OwnedValue::Null => KV::Null,
        OwnedValue::Bool(b) => KV::Bool(*b),
        OwnedValue::Int(n) => KV::Int(*n),
        OwnedValue::Float(f) => KV::Float(f.to_bits()),
        OwnedValue::Text(s) => KV::Text(s.as_bytes().to_vec()),
        OwnedValue::Blob(b) | OwnedValue::Jsonb(b) | OwnedValue::ToastPointer(b) => KV::Blob(b.clone()),
        OwnedValue::MacAddr(b) => KV::Blob(b.to_vec()),
        OwnedValue::Inet4(b) => KV::Blob(b.to_vec()),
        OwnedValue::Inet6(b) => KV::Blob(b.to_vec()),
        OwnedValue::Date(d) => KV::Date(*d),
        OwnedValue::Time(d) => KV::Time(*d),
        OwnedValue::Timestamp(d) => KV::Timestamp(*d),
        OwnedValue::Uuid(u) => KV::Uuid(*u),
        OwnedValue::Interval(us, d, m) => KV::Interval(*m, *d, *us),
        OwnedValue::Enum(a, b) => KV::Enum(*a as u32, *b as u32),
        _ => return None,
    })
}

fn glue_key(v: &OwnedValue) -> Result<Vec<u8>, String> {
    let v = v.clone();
    guarded(move || {
        let mut b = vec![];
        Database::verif_encode_value_as_key(&v, &mut b);
        b
    })
}

fn glue_pair(rep: &mut Report, a: &OwnedValue, b: &OwnedValue) {
    let case = format!("glue {} {}", ov_fmt(a), ov_fmt(b));
    let (ka, kb) = match (glue_key(a), glue_key(b)) {
        (Ok(x), Ok(y)) => (x, y),
        _ => {
            rep.oracle_fail(case, "encode_value_as_key panicked".into(), format!("glue-panic:{}", ov_kind(a)));
            return;
        }
    };
    rep.count(&format!("glue_kind_{}", ov_kind(a)));
    rep.case(if ka != kb { Some(&case) } else { None });
    // 1:1 kinds: same bytes as the key.rs encoder of the corresponding key value
    if let Some(kv) = ov_as_kv(a) {
        let direct = kv.key();
        if direct != ka {
            rep.oracle_fail(format!("glue {} {}", ov_fmt(a), ov_fmt(a)),
                format!("encode_value_as_key={} but key.rs encoder of {} gives {}", hex(&ka), kv.fmt(), hex(&direct)),
                format!("glue-bytes:{}", ov_kind(a)));
        }
    }
    let (ak, bk) = (ov_kind(a), ov_kind(b));
    let numeric = |k: &str| k == "int" || k == "float";
    let (a2, b2) = (a.clone(), b.clone());
    let vc = match guarded(move || a2.to_value().compare(&b2.to_value())) {
        Ok(x) => x,
        Err(_) => {
            rep.count("glue_value_compare_panicked");
            None
        }
    };
    let got = ka.cmp(&kb);
    if let (OwnedValue::TimestampTz(m1, o1), OwnedValue::TimestampTz(m2, o2)) = (a, b) {
        // offset_secs (i32) is cast `as i16`: different offsets can share a key. Value::compare ignores the
        // offset (same instant = equal), so this is recorded, not judged.
        if m1 == m2 && o1 != o2 && ka == kb {
            rep.count("glue_timestamptz_offsets_collide_after_i16_cast(recorded)");
        }
    }
    if ak == bk {
        // Value::compare has no order for ToastPointer (always Greater): not judged
        if let Some(want) = vc.filter(|_| ak != "toast") {
            // Value::compare ignores the offset of TimestampTz and identifies -0.0/0.0: `Equal` puts no
            // constraint on the keys; Less/Greater must be reproduced by memcmp.
            if want != Ordering::Equal && got != want {
                rep.oracle_fail(case.clone(),
                    format!("Value::compare = {} but keys {} / {} compare {}", ord_s(want), hex(&ka), hex(&kb), ord_s(got)),
                    format!("glue-order:{ak}:want={}:got={}", ord_s(want), ord_s(got)));
            }
        } else {
            rep.count("glue_value_compare_none");
        }
        // composite keys need self-delimiting columns
        let pre = |x: &[u8], y: &[u8]| x.len() < y.len() && y[..x.len()] == *x;
        if pre(&ka, &kb) || pre(&kb, &ka) {
            rep.oracle_fail(case.clone(), format!("keys {} / {}: one is a proper prefix of the other", hex(&ka), hex(&kb)),
                format!("glue-prefix:{ak}"));
            // the consequence for a two-column key: (a, +inf) vs (b, NULL) must order like a vs b
            if let (Some(want), Ok(x), Ok(y)) = (vc, glue_key(&OwnedValue::Float(f64::INFINITY)), glue_key(&OwnedValue::Null)) {
                let (mut ca, mut cb) = (ka.clone(), kb.clone());
                ca.extend(x);
                cb.extend(y);
                let got2 = ca.cmp(&cb);
                if want != Ordering::Equal && got2 != want {
                    rep.oracle_fail(case.clone(),
                        format!("two-column keys (a, Float +inf) = {} and (b, NULL) = {} compare {} but a vs b is {}", hex(&ca), hex(&cb), ord_s(got2), ord_s(want)),
                        format!("glue-cols-order:({ak},float)/({bk},null):want={}:got={}", ord_s(want), ord_s(got2)));
                }
            }
        }
    } else if numeric(ak) && numeric(bk) {
        if let Some(want) = vc {
            rep.count("glue_int_float_pairs");
            if want != got {
                // by DESIGN §5.C26 ints and floats are ordered by documented type rank, not numerically:
                // recorded, not judged.
                rep.count("glue_int_float_numeric_order_not_key_order(by-design,recorded)");
            }
        }
    }
}

// ------------------------------------------------------------------ JSON keys
#[derive(Clone, Debug, PartialEq)]
enum J {
    Null,
    Bool(bool),
    Num(u64),
    Str(String),
    Arr(Vec<J>),
    Obj(Vec<(String, J)>),
}

fn j_fmt(j: &J) -> String {
    match j {
        J::Null => "jn".into(),
        J::Bool(b) => format!("jb {}", *b as u8),
        J::Num(b) => format!("jf {b}"),
        J::Str(s) => format!("js {}", hex(s.as_bytes())),
        J::Arr(v) => {
            let mut s = format!("ja {}", v.len());
            for x in v {
                s.push(' ');
                s.push_str(&j_fmt(x));
            }
            s
        }
        J::Obj(v) => {
            let mut s = format!("jo {}", v.len());
            for (k, x) in v {
                s.push_str(&format!(" {} {}", hex(k.as_bytes()), j_fmt(x)));
            }
            s
        }
    }
}

fn j_parse(t: &[&str], i: &mut usize) -> Option<J> {
    let tag = *t.get(*i)?;
    *i += 1;
    let mut num = |i: &mut usize| -> Option<u64> {
        let v = t.get(*i)?.parse().ok()?;
        *i += 1;
        Some(v)
    };
    Some(match tag {
        "jn" => J::Null,
        "jb" => J::Bool(num(i)? == 1),
        "jf" => J::Num(num(i)?),
        "js" => {
            let s = String::from_utf8(unhex(t.get(*i)?)).ok()?;
            *i += 1;
            J::Str(s)
        }
        "ja" => {
            let n = num(i)?;
            let mut v = vec![];
            for _ in 0..n {
                v.push(j_parse(t, i)?);
            }
            J::Arr(v)
        }
        "jo" => {
            let n = num(i)?;
            let mut v = vec![];
            for _ in 0..n {
                let s = String::from_utf8(unhex(t.get(*i)?)).ok()?;
                *i += 1;
                v.push((s, j_parse(t, i)?));
            }
            J::Obj(v)
        }
        _ => return None,
    })
}

/// build the borrowed `JsonValue` tree (leaked; the harness process is short lived)
fn j_real(j: &J) -> JsonValue<'static> {
    match j {
        J::Null => JsonValue::Null,
        J::Bool(b) => JsonValue::Bool(*b),
        J::Num(b) => JsonValue::Number(f64::from_bits(*b)),
        J::Str(s) => JsonValue::String(Box::leak(s.clone().into_boxed_str())),
        J::Arr(v) => JsonValue::Array(Box::leak(v.iter().map(j_real).collect::<Vec<_>>().into_boxed_slice())),
        J::Obj(v) => JsonValue::Object(Box::leak(
            v.iter().map(|(k, x)| (&*Box::leak(k.clone().into_boxed_str()), j_real(x))).collect::<Vec<_>>().into_boxed_slice(),
        )),
    }
}

fn j_from(d: &DecodedJson) -> J {
    match d {
        DecodedJson::Null => J::Null,
        DecodedJson::Bool(b) => J::Bool(*b),
        DecodedJson::Number(f) => J::Num(f.to_bits()),
        DecodedJson::String(s) => J::Str(s.clone()),
        DecodedJson::Array(v) => J::Arr(v.iter().map(j_from).collect()),
        DecodedJson::Object(v) => J::Obj(v.iter().map(|(k, x)| (k.clone(), j_from(x))).collect()),
    }
}

fn j_rank(j: &J) -> u8 {
    match j {
        J::Null => 0, J::Bool(false) => 1, J::Bool(true) => 2, J::Num(_) => 3, J::Str(_) => 4, J::Arr(_) => 5, J::Obj(_) => 6,
    }
}

fn j_cmp(a: &J, b: &J) -> Ordering {
    match (a, b) {
        (J::Num(x), J::Num(y)) => f64::from_bits(*x).partial_cmp(&f64::from_bits(*y)).unwrap_or(Ordering::Equal),
        (J::Str(x), J::Str(y)) => x.cmp(y),
        (J::Arr(x), J::Arr(y)) => {
            for (p, q) in x.iter().zip(y.iter()) {
                let o = j_cmp(p, q);
                if o != Ordering::Equal {
                    return o;
                }
            }
            x.len().cmp(&y.len())
        }
        (J::Obj(x), J::Obj(y)) => {
            for ((pk, pv), (qk, qv)) in x.iter().zip(y.iter()) {
                let o = pk.cmp(qk).then_with(|| j_cmp(pv, qv));
                if o != Ordering::Equal {
                    return o;
                }
            }
            x.len().cmp(&y.len())
        }
        _ => j_rank(a).cmp(&j_rank(b)),
    }
}

/// features of a JSON value that select which finding a failure belongs to
fn j_sig(j: &J) -> String {
    fn walk(j: &J, negzero: &mut bool, nan: &mut bool, badkey: &mut bool) {
        match j {
            J::Num(b) => {
                if *b == 1u64 << 63 {
                    *negzero = true
                }
                if f64::from_bits(*b).is_nan() {
                    *nan = true
                }
            }
            J::Arr(v) => v.iter().for_each(|x| walk(x, negzero, nan, badkey)),
            J::Obj(v) => v.iter().for_each(|(k, x)| {
                if k.is_empty() || k.as_bytes()[0] == 0 {
                    *badkey = true
                }
                walk(x, negzero, nan, badkey)
            }),
            _ => {}
        }
    }
    let (mut z, mut n, mut k) = (false, false, false);
    walk(j, &mut z, &mut n, &mut k);
    format!("json{}{}{}", if z { "[num=-0.0]" } else { "" }, if n { "[num=nan]" } else { "" },
        if k { "[objkey-empty-or-leading-nul]" } else { "" })
}

fn gen_j(r: &mut Rng, depth: u32) -> J {
    let k = if depth == 0 { r.below(5) } else { r.below(7) };
    match k {
        0 => J::Null,
        1 => J::Bool(r.chance(1, 2)),
        2 | 3 => {
            // JSON numbers are finite; NaN/inf are not JSON and are not generated
            let mut b = gen_f64(r);
            let f = f64::from_bits(b);
            if f.is_nan() || f.is_infinite() {
                b = *r.pick(&[0u64, 1 << 63, 0x3FF0_0000_0000_0000, 0xBFF0_0000_0000_0000, 1, (1 << 63) | 1]);
            }
            J::Num(b)
        }
        4 => J::Str(String::from_utf8(gen_text(r, 4)).unwrap()),
        5 => J::Arr((0..r.below(4)).map(|_| gen_j(r, depth - 1)).collect()),
        _ => J::Obj((0..r.below(3)).map(|_| (String::from_utf8(gen_text(r, 3)).unwrap(), gen_j(r, depth - 1))).collect()),
    }
}

fn tweak_j(r: &mut Rng, j: &J) -> J {
    match j {
        J::Num(b) => J::Num({
            let x = if r.chance(1, 3) { b ^ (1 << 63) } else { b.wrapping_add(r.range(-2, 2) as u64) };
            if f64::from_bits(x).is_finite() { x } else { *b }
        }),
        J::Str(s) => {
            let mut s = s.clone();
            if r.chance(1, 2) { s.push(*r.pick(&['\0', 'a', '\u{ff}'])) } else { s.pop(); }
            J::Str(s)
        }
        J::Arr(v) => {
            let mut v = v.clone();
            match r.below(3) {
                0 => v.push(gen_j(r, 1)),
                1 => { v.pop(); }
                _ if !v.is_empty() => { let i = r.below(v.len() as u64) as usize; v[i] = tweak_j(r, &v[i].clone()); }
                _ => v.push(J::Null),
            }
            J::Arr(v)
        }
        J::Obj(v) => {
            let mut v = v.clone();
            match r.below(3) {
                0 => v.push((String::from_utf8(gen_text(r, 2)).unwrap(), gen_j(r, 1))),
                1 => { v.pop(); }
                _ if !v.is_empty() => { let i = r.below(v.len() as u64) as usize; v[i].1 = tweak_j(r, &v[i].1.clone()); }
                _ => v.push((String::new(), J::Null)),
            }
            J::Obj(v)
        }
        _ => gen_j(r, 1),
    }
}

fn j_key(j: &J) -> Result<Vec<u8>, String> {
    let j = j.clone();
    guarded(move || {
        let mut b = vec![];
        k::encode_json(&j_real(&j), &mut b);
        b
    })
}

fn json_pair(rep: &mut Report, a: &J, b: &J) {
    let case = format!("json {} {}", j_fmt(a), j_fmt(b));
    let (ka, kb) = match (j_key(a), j_key(b)) {
        (Ok(x), Ok(y)) => (x, y),
        _ => {
            rep.oracle_fail(case, "encode_json panicked".into(), "json-panic".into());
            return;
        }
    };
    rep.case(if a != b { Some(&case) } else { None });
    rep.count("json_pairs");
    let want = j_cmp(a, b);
    let got = ka.cmp(&kb);
    if want != got {
        rep.oracle_fail(case.clone(), format!("values compare {} but keys {} / {} compare {}", ord_s(want), hex(&ka), hex(&kb), ord_s(got)),
            format!("order:{}/{}:want={}:got={}", j_sig(a), j_sig(b), ord_s(want), ord_s(got)));
    }
    let pre = |x: &[u8], y: &[u8]| x.len() < y.len() && y[..x.len()] == *x;
    if pre(&ka, &kb) || pre(&kb, &ka) {
        rep.oracle_fail(case.clone(), format!("keys {} / {}: one is a proper prefix of the other", hex(&ka), hex(&kb)),
            format!("prefix:{}/{}", j_sig(a), j_sig(b)));
    }
    let ka2 = ka.clone();
    let d = guarded(move || decode_key(&ka2).map_err(|e| e.to_string()));
    let ok = match &d {
        Ok(Ok((DecodedKey::Json(x), n))) => j_from(x) == *a && *n == ka.len(),
        _ => false,
    };
    if !ok {
        let shown = match &d {
            Ok(Ok((DecodedKey::Json(x), n))) => format!("ok {n} {}", j_fmt(&j_from(x))),
            Ok(Ok((o, n))) => format!("ok {n} {:?}", o),
            Ok(Err(e)) => format!("err {e}"),
            Err(p) => format!("panic {p}"),
        };
        rep.oracle_fail(format!("json {} {}", j_fmt(a), j_fmt(a)), format!("decode_key(encode_json({}))={shown}, key {}", j_fmt(a), hex(&ka)),
            format!("roundtrip:{}", j_sig(a)));
    }
}

/// correspondence of the Lean JSON model (encJ / decodeJ) with encode_json / decode_key
fn json_model(ctx: &Ctx, rng: &mut Rng, rep: &mut Report, jvals: &[J]) {
    let render = |b: &[u8]| -> String {
        let b2 = b.to_vec();
        match guarded(move || decode_key(&b2).map_err(|e| e.to_string())) {
            Ok(Ok((DecodedKey::Json(x), n))) => format!("ok {n} {}", j_fmt(&j_from(&x))),
            Ok(Ok((o, n))) => format!("ok {n} non-json {:?}", o),
            Ok(Err(_)) => "err".into(),
            Err(m) => format!("panic {m}"),
        }
    };
    let mut i0 = 0;
    while i0 < jvals.len() {
        let end = (i0 + 20_000).min(jvals.len());
        let mut reqs = vec![];
        let mut exp = vec![];
        for j in &jvals[i0..end] {
            let key = match j_key(j) {
                Ok(k) => k,
                Err(_) => continue,
            };
            reqs.push(format!("jenc {}", j_fmt(j)));
            exp.push(hex(&key));
            reqs.push(format!("jdec {}", hex(&key)));
            exp.push(render(&key));
            // a mutated / truncated variant of the key
            let mut m = key.clone();
            if !m.is_empty() {
                let p = rng.below(m.len() as u64) as usize;
                match rng.below(4) {
                    0 => m[p] = gen_byte(rng),
                    1 => m.truncate(p.max(1)),
                    2 => {
                        m.insert(p.max(1), gen_byte(rng));
                    }
                    _ => m[p] = m[p].wrapping_add(1),
                }
                if (0x50..=0x56).contains(&m[0]) {
                    reqs.push(format!("jdec {}", hex(&m)));
                    exp.push(render(&m));
                }
            }
        }
        let resp = model_batch(&ctx.model_bin, "key", &reqs);
        for (i, r) in resp.iter().enumerate() {
            rep.case(Some(&reqs[i]));
            rep.count("json_model_checks");
            let rc = if r.starts_with("err") { "err".to_string() } else { r.clone() };
            if rc != exp[i] {
                rep.disagree(reqs[i].clone(), format!("impl={} model={r}", exp[i]), "json-model-differs".into());
            }
        }
        i0 = end;
    }
}

// ------------------------------------------------------------------ RANGE keys (round trip only)
fn range_case(rep: &mut Report, r: &mut Rng) {
    let kind = r.below(16) as usize;
    let lo = if r.chance(1, 4) { None } else { Some(gen_kind(r, kind, 0)) };
    let hi = if r.chance(1, 4) { None } else { Some(gen_kind(r, kind, 0)) };
    let (li, ui) = (r.chance(1, 2), r.chance(1, 2));
    let (lo2, hi2) = (lo.clone(), hi.clone());
    let key = guarded(move || {
        let mut b = vec![];
        k::encode_range(lo2.as_ref(), hi2.as_ref(), li, ui, &mut b, |e: &KV, b| e.real_enc(b));
        b
    });
    let case = format!("range {:?} {:?} {li} {ui}", lo.as_ref().map(|v| v.fmt()), hi.as_ref().map(|v| v.fmt()));
    let sig = format!("roundtrip:range<{},{}>", lo.as_ref().map(|v| v.sig_kind()).unwrap_or("none".into()), hi.as_ref().map(|v| v.sig_kind()).unwrap_or("none".into()));
    rep.case(Some(&case));
    rep.count("range_roundtrips");
    let key = match key {
        Ok(k) => k,
        Err(m) => {
            rep.oracle_fail(case, format!("encode_range panicked {m}"), "range-panic".into());
            return;
        }
    };
    let k2 = key.clone();
    let d = guarded(move || decode_key(&k2).map_err(|e| e.to_string()));
    let ok = match &d {
        Ok(Ok((DecodedKey::Range { lower, upper, lower_inclusive, upper_inclusive }, n))) => {
            lower.as_ref().map(|x| from_decoded(x)) == lo.as_ref().map(|v| v.expected_roundtrip())
                && upper.as_ref().map(|x| from_decoded(x)) == hi.as_ref().map(|v| v.expected_roundtrip())
                && *lower_inclusive == li && *upper_inclusive == ui && *n == key.len()
        }
        _ => false,
    };
    if !ok {
        rep.oracle_fail(case, format!("decode_key(encode_range(..)) = {:?} for key {}", d, hex(&key)), sig);
    }
}

pub fn run(ctx: &Ctx, rng: &mut Rng, rep: &mut Report, corpus: &[String]) {
    for line in corpus {
        let t: Vec<&str> = line.split_whitespace().collect();
        let mut i = 1;
        match t.first().copied() {
            Some("glue") => {
                if let (Some(a), Some(b)) = (ov_parse(&t, &mut i), ov_parse(&t, &mut i)) {
                    glue_pair(rep, &a, &b);
                }
            }
            Some("json") => {
                if let (Some(a), Some(b)) = (j_parse(&t, &mut i), j_parse(&t, &mut i)) {
                    json_pair(rep, &a, &b);
                }
            }
            _ => {}
        }
    }
    let n = if ctx.thorough { 1_000_000 } else { 60_000 };
    for _ in 0..n {
        let kind = rng.below(23) as usize;
        let a = gen_ov(rng, kind);
        let b = match rng.below(10) {
            0..=4 => gen_ov(rng, kind),
            5..=7 => tweak_ov(rng, &a),
            8 => a.clone(),
            _ => {
                let k2 = if rng.chance(1, 2) { 2 } else { 3 };
                gen_ov(rng, k2)
            }
        };
        let a = if matches!(b, OwnedValue::Int(_) | OwnedValue::Float(_)) && rng.chance(1, 2) && kind > 3 {
            let k2 = if rng.chance(1, 2) { 2 } else { 3 };
            gen_ov(rng, k2)
        } else {
            a
        };
        glue_pair(rep, &a, &b);
    }
    let nj = if ctx.thorough { 400_000 } else { 30_000 };
    let mut jvals: Vec<J> = vec![];
    for _ in 0..nj {
        let a = gen_j(rng, 2);
        let b = if rng.chance(1, 2) { tweak_j(rng, &a) } else { gen_j(rng, 2) };
        json_pair(rep, &a, &b);
        jvals.push(a);
    }
    json_model(ctx, rng, rep, &jvals);
    for _ in 0..(if ctx.thorough { 200_000 } else { 10_000 }) {
        range_case(rep, rng);
    }
    let mism = rep.hist.get("glue_int_float_numeric_order_not_key_order(by-design,recorded)").copied().unwrap_or(0);
    let tot = rep.hist.get("glue_int_float_pairs").copied().unwrap_or(0);
    rep.notes.push(format!(
        "Int vs Float: key order is the documented prefix rank (NEG_INT < NEG_FLOAT < ZERO < POS_FLOAT < POS_INT), not numeric \
         order; Value::compare orders them numerically. {mism} of {tot} generated Int/Float pairs order differently by key than \
         by Value::compare (e.g. Int 1 vs Float 2.5). Recorded, not judged (DESIGN §5.C26: ints vs floats compare by type rank)."
    ));
    rep.notes.push("RANGE keys and Database::encode_value_as_key are judged by the oracle only (outside the Lean model); JSON keys \
         have a Lean model (encJ/decodeJ) compared byte-for-byte.".to_string());
}
