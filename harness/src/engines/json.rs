//! C32: JSON text -> `parse_json` -> `to_jsonb_bytes` / `JsonbBuilder::build` -> `JsonbView` /
//! `OwnedValue::jsonb_get*` vs the Lean models `TurVerif.Json` (parsers) and `TurVerif.Jsonb`
//! (builder + readers).
//!
//! Case syntax (corpus / replay files, one case per line):
//!   text <hex of the UTF-8 JSON text>      parse + build + read back + lookups
//!   value <J words>                        build + read back + lookups from a value
//!   bytes <hex>                            reader correspondence on arbitrary bytes
//!   big16m                                 implementation-only: array whose data section is > 16 MiB
//! J words: N T F #<16hex f64 bits> S<hex|-> A<n> v.. O<n> (K<hex|-> v)..
use crate::common::{guarded, model_batch, Ctx, Report, Rng};
use std::collections::BTreeMap;
use turdb::parsing::{parse_json, JsonValue};
use turdb::records::jsonb::{JsonbBuilder, JsonbBuilderValue, JsonbValue, JsonbView};
use turdb::OwnedValue;

// ---------------------------------------------------------------- generator-side value
#[derive(Clone, PartialEq, Debug)]
enum G {
    Null,
    Bool(bool),
    Num(u64),
    Str(Vec<u8>),
    Arr(Vec<G>),
    Obj(Vec<(Vec<u8>, G)>),
}

/// same format as `common::hex` (lowercase, `-` for empty), without per-byte formatting
fn hexd(b: &[u8]) -> String {
    if b.is_empty() {
        return "-".to_string();
    }
    const D: &[u8; 16] = b"0123456789abcdef";
    let mut s = Vec::with_capacity(b.len() * 2);
    for x in b {
        s.push(D[(x >> 4) as usize]);
        s.push(D[(x & 15) as usize]);
    }
    String::from_utf8(s).unwrap()
}
fn unhex(s: &str) -> Vec<u8> {
    if s == "-" {
        return vec![];
    }
    fn v(c: u8) -> u8 {
        match c {
            b'0'..=b'9' => c - b'0',
            b'a'..=b'f' => c - b'a' + 10,
            b'A'..=b'F' => c - b'A' + 10,
            _ => 0,
        }
    }
    let b = s.as_bytes();
    (0..b.len() / 2).map(|i| (v(b[2 * i]) << 4) | v(b[2 * i + 1])).collect()
}

impl G {
    fn words(&self, out: &mut Vec<String>) {
        match self {
            G::Null => out.push("N".into()),
            G::Bool(true) => out.push("T".into()),
            G::Bool(false) => out.push("F".into()),
            G::Num(b) => out.push(format!("#{:016x}", b)),
            G::Str(s) => out.push(format!("S{}", hexd(s))),
            G::Arr(xs) => {
                out.push(format!("A{}", xs.len()));
                for x in xs {
                    x.words(out);
                }
            }
            G::Obj(kvs) => {
                out.push(format!("O{}", kvs.len()));
                for (k, v) in kvs {
                    out.push(format!("K{}", hexd(k)));
                    v.words(out);
                }
            }
        }
    }
    fn to_words(&self) -> String {
        let mut o = vec![];
        self.words(&mut o);
        o.join(" ")
    }
    /// what the builder is specified to store: members stably sorted by key bytes, duplicates kept
    fn norm(&self) -> G {
        match self {
            G::Arr(xs) => G::Arr(xs.iter().map(|x| x.norm()).collect()),
            G::Obj(kvs) => {
                let mut v: Vec<(Vec<u8>, G)> = kvs.iter().map(|(k, x)| (k.clone(), x.norm())).collect();
                v.sort_by(|a, b| a.0.cmp(&b.0));
                G::Obj(v)
            }
            x => x.clone(),
        }
    }
    fn depth(&self) -> usize {
        match self {
            G::Arr(xs) => 1 + xs.iter().map(|x| x.depth()).max().unwrap_or(0),
            G::Obj(kvs) => 1 + kvs.iter().map(|x| x.1.depth()).max().unwrap_or(0),
            _ => 0,
        }
    }
    /// longest string / key that sits inside a container (those carry a u16 length)
    fn max_nested_str(&self, nested: bool) -> (usize, usize) {
        match self {
            G::Str(s) => (if nested { s.len() } else { 0 }, 0),
            G::Arr(xs) => xs.iter().fold((0, 0), |a, x| {
                let b = x.max_nested_str(true);
                (a.0.max(b.0), a.1.max(b.1))
            }),
            G::Obj(kvs) => kvs.iter().fold((0, 0), |a, (k, x)| {
                let b = x.max_nested_str(true);
                (a.0.max(b.0), a.1.max(b.1).max(k.len()))
            }),
            _ => (0, 0),
        }
    }
    fn has_dup_keys(&self) -> bool {
        match self {
            G::Arr(xs) => xs.iter().any(|x| x.has_dup_keys()),
            G::Obj(kvs) => {
                let mut ks: Vec<&Vec<u8>> = kvs.iter().map(|x| &x.0).collect();
                ks.sort();
                ks.windows(2).any(|w| w[0] == w[1]) || kvs.iter().any(|x| x.1.has_dup_keys())
            }
            _ => false,
        }
    }
    fn nodes(&self) -> usize {
        match self {
            G::Arr(xs) => 1 + xs.iter().map(|x| x.nodes()).sum::<usize>(),
            G::Obj(kvs) => 1 + kvs.iter().map(|x| x.1.nodes()).sum::<usize>(),
            _ => 1,
        }
    }
}

fn parse_words(ws: &[&str], pos: &mut usize) -> Option<G> {
    let w = *ws.get(*pos)?;
    *pos += 1;
    let b = w.as_bytes();
    match b.first()? {
        b'N' if w.len() == 1 => Some(G::Null),
        b'T' if w.len() == 1 => Some(G::Bool(true)),
        b'F' if w.len() == 1 => Some(G::Bool(false)),
        b'#' => u64::from_str_radix(&w[1..], 16).ok().map(G::Num),
        b'S' => Some(G::Str(unhex(&w[1..]))),
        b'A' => {
            let n: usize = w[1..].parse().ok()?;
            let mut xs = Vec::with_capacity(n.min(1 << 16));
            for _ in 0..n {
                xs.push(parse_words(ws, pos)?);
            }
            Some(G::Arr(xs))
        }
        b'O' => {
            let n: usize = w[1..].parse().ok()?;
            let mut kvs = Vec::with_capacity(n.min(1 << 16));
            for _ in 0..n {
                let kw = *ws.get(*pos)?;
                *pos += 1;
                if !kw.starts_with('K') {
                    return None;
                }
                let k = unhex(&kw[1..]);
                kvs.push((k, parse_words(ws, pos)?));
            }
            Some(G::Obj(kvs))
        }
        _ => None,
    }
}
fn g_of_words(s: &str) -> Option<G> {
    let ws: Vec<&str> = s.split_whitespace().collect();
    let mut p = 0;
    let g = parse_words(&ws, &mut p)?;
    if p == ws.len() {
        Some(g)
    } else {
        None
    }
}

fn g_of_json(v: &JsonValue) -> G {
    match v {
        JsonValue::Null => G::Null,
        JsonValue::Bool(b) => G::Bool(*b),
        JsonValue::Number(n) => G::Num(n.to_bits()),
        JsonValue::String(s) => G::Str(s.as_bytes().to_vec()),
        JsonValue::Array(xs) => G::Arr(xs.iter().map(g_of_json).collect()),
        JsonValue::Object(kvs) => G::Obj(kvs.iter().map(|(k, x)| (k.as_bytes().to_vec(), g_of_json(x))).collect()),
    }
}
fn lossy(s: &[u8]) -> String {
    // generator strings are always valid UTF-8
    String::from_utf8(s.to_vec()).expect("generator produced invalid utf-8")
}
fn json_of_g(g: &G) -> JsonValue {
    match g {
        G::Null => JsonValue::Null,
        G::Bool(b) => JsonValue::Bool(*b),
        G::Num(b) => JsonValue::Number(f64::from_bits(*b)),
        G::Str(s) => JsonValue::String(lossy(s)),
        G::Arr(xs) => JsonValue::Array(xs.iter().map(json_of_g).collect()),
        G::Obj(kvs) => JsonValue::Object(kvs.iter().map(|(k, x)| (lossy(k), json_of_g(x))).collect()),
    }
}
fn builder_value_of_g(g: &G) -> JsonbBuilderValue {
    match g {
        G::Null => JsonbBuilderValue::Null,
        G::Bool(b) => JsonbBuilderValue::Bool(*b),
        G::Num(b) => JsonbBuilderValue::Number(f64::from_bits(*b)),
        G::Str(s) => JsonbBuilderValue::String(lossy(s)),
        G::Arr(xs) => JsonbBuilderValue::Array(xs.iter().map(builder_value_of_g).collect()),
        G::Obj(kvs) => JsonbBuilderValue::Object(kvs.iter().map(|(k, x)| (lossy(k), builder_value_of_g(x))).collect()),
    }
}
/// the second builder: `JsonbBuilder` (what `Database::parse_json_string` uses)
fn build_with_builder(g: &G) -> Vec<u8> {
    let b = match g {
        G::Null => JsonbBuilder::new_null(),
        G::Bool(b) => JsonbBuilder::new_bool(*b),
        G::Num(n) => JsonbBuilder::new_number(f64::from_bits(*n)),
        G::Str(s) => JsonbBuilder::new_string(lossy(s)),
        G::Arr(xs) => {
            let mut b = JsonbBuilder::new_array();
            for x in xs {
                b.push(builder_value_of_g(x));
            }
            b
        }
        G::Obj(kvs) => {
            let mut b = JsonbBuilder::new_object();
            for (k, x) in kvs {
                b.set(lossy(k), builder_value_of_g(x));
            }
            b
        }
    };
    b.build()
}

// ---------------------------------------------------------------- reader results in the model's syntax
fn show_v(v: &JsonbValue) -> String {
    match v {
        JsonbValue::Null => "N".into(),
        JsonbValue::Bool(true) => "T".into(),
        JsonbValue::Bool(false) => "F".into(),
        JsonbValue::Number(n) => format!("#{:016x}", n.to_bits()),
        JsonbValue::String(s) => format!("S{}", hexd(s.as_bytes())),
        JsonbValue::Array(v) => format!("A{}", hexd(v.data())),
        JsonbValue::Object(v) => format!("O{}", hexd(v.data())),
    }
}
fn show_ov(v: &OwnedValue) -> String {
    match v {
        OwnedValue::Null => "N".into(),
        OwnedValue::Bool(true) => "T".into(),
        OwnedValue::Bool(false) => "F".into(),
        OwnedValue::Float(n) => format!("#{:016x}", n.to_bits()),
        OwnedValue::Text(s) => format!("S{}", hexd(s.as_bytes())),
        OwnedValue::Jsonb(d) => format!("J{}", hexd(d)),
        other => format!("?{:?}", other),
    }
}
/// containers print as `J<hex>` on the OwnedValue path (the array/object distinction is not kept)
fn ov_canon(s: &str) -> String {
    if let Some(r) = s.strip_prefix("ok some A") {
        format!("ok some J{r}")
    } else if let Some(r) = s.strip_prefix("ok some O") {
        format!("ok some J{r}")
    } else {
        s.to_string()
    }
}
fn res_opt<T>(r: Result<eyre::Result<Option<T>>, String>, f: impl Fn(&T) -> String) -> String {
    match r {
        Ok(Ok(Some(v))) => format!("ok some {}", f(&v)),
        Ok(Ok(None)) => "ok none".into(),
        Ok(Err(_)) => "err".into(),
        Err(_) => "oob".into(),
    }
}
fn res_val<T>(r: Result<eyre::Result<T>, String>, f: impl Fn(&T) -> String) -> String {
    match r {
        Ok(Ok(v)) => format!("ok {}", f(&v)),
        Ok(Err(_)) => "err".into(),
        Err(_) => "oob".into(),
    }
}

fn real_get(data: &[u8], key: &[u8]) -> String {
    let k = lossy(key);
    let d = data.to_vec();
    let r = guarded(move || {
        let view = JsonbView::new(&d)?;
        view.get(&k).map(|o| o.map(|v| show_v(&v)))
    });
    res_opt(r, |s| s.clone())
}
fn real_aget(data: &[u8], idx: usize) -> String {
    let d = data.to_vec();
    let r = guarded(move || {
        let view = JsonbView::new(&d)?;
        view.array_get(idx).map(|o| o.map(|v| show_v(&v)))
    });
    res_opt(r, |s| s.clone())
}
fn real_path(data: &[u8], path: &[Vec<u8>]) -> String {
    let d = data.to_vec();
    let p: Vec<String> = path.iter().map(|k| lossy(k)).collect();
    let r = guarded(move || {
        let view = JsonbView::new(&d)?;
        let pr: Vec<&str> = p.iter().map(|s| s.as_str()).collect();
        view.get_path(&pr).map(|o| o.map(|v| show_v(&v)))
    });
    res_opt(r, |s| s.clone())
}
fn real_asvalue(data: &[u8]) -> String {
    let d = data.to_vec();
    let r = guarded(move || {
        let view = JsonbView::new(&d)?;
        view.as_value().map(|v| show_v(&v))
    });
    res_val(r, |s| s.clone())
}
fn real_ovget(data: &[u8], key: &[u8]) -> String {
    let k = lossy(key);
    let ov = OwnedValue::Jsonb(data.to_vec());
    res_opt(guarded(move || ov.jsonb_get(&k)), show_ov)
}
fn real_ovaget(data: &[u8], idx: usize) -> String {
    let ov = OwnedValue::Jsonb(data.to_vec());
    res_opt(guarded(move || ov.jsonb_array_get(idx)), show_ov)
}
fn real_ovpath(data: &[u8], path: &[Vec<u8>]) -> String {
    let ov = OwnedValue::Jsonb(data.to_vec());
    let p: Vec<String> = path.iter().map(|k| lossy(k)).collect();
    res_opt(
        guarded(move || {
            let pr: Vec<&str> = p.iter().map(|s| s.as_str()).collect();
            ov.jsonb_get_path(&pr)
        }),
        show_ov,
    )
}

/// full read-back through the public iteration API (what a client does)
fn walk_value(v: &JsonbValue) -> eyre::Result<G> {
    Ok(match v {
        JsonbValue::Null => G::Null,
        JsonbValue::Bool(b) => G::Bool(*b),
        JsonbValue::Number(n) => G::Num(n.to_bits()),
        JsonbValue::String(s) => G::Str(s.as_bytes().to_vec()),
        JsonbValue::Array(view) => {
            let mut xs = vec![];
            for item in view.iter_array()? {
                xs.push(walk_value(&item?)?);
            }
            if xs.len() != view.array_len()? {
                eyre::bail!("array_len differs from iteration count");
            }
            G::Arr(xs)
        }
        JsonbValue::Object(view) => {
            let mut kvs = vec![];
            for item in view.iter_object()? {
                let (k, x) = item?;
                kvs.push((k.as_bytes().to_vec(), walk_value(&x)?));
            }
            if kvs.len() != view.object_len()? {
                eyre::bail!("object_len differs from iteration count");
            }
            G::Obj(kvs)
        }
    })
}
fn real_decode(data: &[u8]) -> Result<eyre::Result<G>, String> {
    let d = data.to_vec();
    guarded(move || {
        let view = JsonbView::new(&d)?;
        let v = view.as_value()?;
        walk_value(&v)
    })
}
fn show_decode(r: &Result<eyre::Result<G>, String>) -> String {
    match r {
        Ok(Ok(g)) => format!("ok {}", g.to_words()),
        Ok(Err(_)) => "err".into(),
        Err(_) => "oob".into(),
    }
}

/// resolve a reader result `ok some X` against the document: the G value it denotes
fn g_of_shown(s: &str) -> Option<G> {
    let r = s.strip_prefix("ok some ")?;
    let b = r.as_bytes();
    match b[0] {
        b'N' => Some(G::Null),
        b'T' => Some(G::Bool(true)),
        b'F' => Some(G::Bool(false)),
        b'#' => u64::from_str_radix(&r[1..], 16).ok().map(G::Num),
        b'S' => Some(G::Str(unhex(&r[1..]))),
        b'A' | b'O' | b'J' => match real_decode(&unhex(&r[1..])) {
            Ok(Ok(g)) => Some(g),
            _ => None,
        },
        _ => None,
    }
}

// ---------------------------------------------------------------- number table
/// length of the longest prefix of `b` that is `-?(0|[1-9][0-9]*)(\.[0-9]+)?([eE][+-]?[0-9]+)?`
/// read greedily the way a strict parser does (0 when there is none or a part is incomplete)
fn rfc_number_prefix(b: &[u8]) -> usize {
    let mut i = 0;
    if i < b.len() && b[i] == b'-' {
        i += 1;
    }
    if i >= b.len() || !b[i].is_ascii_digit() {
        return 0;
    }
    if b[i] == b'0' {
        i += 1;
    } else {
        while i < b.len() && b[i].is_ascii_digit() {
            i += 1;
        }
    }
    if i < b.len() && b[i] == b'.' {
        let s = i + 1;
        let mut k = s;
        while k < b.len() && b[k].is_ascii_digit() {
            k += 1;
        }
        if k == s {
            return 0;
        }
        i = k;
    }
    if i < b.len() && (b[i] == b'e' || b[i] == b'E') {
        let mut s = i + 1;
        if s < b.len() && (b[s] == b'+' || b[s] == b'-') {
            s += 1;
        }
        let mut k = s;
        while k < b.len() && b[k].is_ascii_digit() {
            k += 1;
        }
        if k == s {
            return 0;
        }
        i = k;
    }
    i
}
fn in_num_set(c: u8) -> bool {
    c.is_ascii_digit() || matches!(c, b'.' | b'e' | b'E' | b'+' | b'-')
}
/// every lexeme a tokenizer can hand to `str::parse::<f64>`: maximal runs of [-+.eE0-9] and, for
/// runs that begin with the final `e` of `true`/`false`, the run without that `e`.
fn num_table(text: &str) -> Vec<(String, Option<u64>)> {
    let b = text.as_bytes();
    let mut out: BTreeMap<String, Option<u64>> = BTreeMap::new();
    let mut i = 0;
    while i < b.len() {
        if in_num_set(b[i]) {
            let mut j = i;
            while j < b.len() && in_num_set(b[j]) {
                j += 1;
            }
            let mut cands = vec![&text[i..j]];
            if b[i] == b'e' && j > i + 1 {
                cands.push(&text[i + 1..j]);
            }
            // the strict parser reads the longest RFC 8259 number at the start of the run
            let p = rfc_number_prefix(&b[i..j]);
            if p > 0 && p < j - i {
                cands.push(&text[i..i + p]);
            }
            for c in cands {
                if c.len() <= 2000 {
                    out.entry(c.to_string()).or_insert_with(|| c.parse::<f64>().ok().map(|f| f.to_bits()));
                }
            }
            i = j;
        } else {
            i += 1;
        }
    }
    out.into_iter().collect()
}

// ---------------------------------------------------------------- generator
struct Gen {
    rng: Rng,
    /// whether the current document may spell non-BMP characters as `\uD8xx\uDCxx` pairs
    /// (the implementation rejects those, so only a fraction of the documents use them)
    pairs_ok: bool,
}

const KEY_POOL: &[&str] = &[
    "", "a", "aa", "ab", "b", "a\u{0}", "A", "é", "z", "zz", "key", "k1", "k10", "k2", "\u{10000}", "\u{ffff}",
    "name", "id", " ", "a b", "\"", "\\", "ä", "😀",
];
const NUM_POOL: &[&str] = &[
    "0", "-0", "1", "-1", "0.5", "1e5", "1E+5", "1e-5", "12", "100", "0.1", "3.141592653589793",
    "123456789012345678901234567890", "9007199254740993", "9007199254740992", "-9223372036854775808",
    "18446744073709551616", "1.7976931348623157e308", "1e400", "-1e400", "5e-324", "2.5e-324", "2.4e-324",
    "1e-400", "1.0000000000000002", "0e0", "-0.0e-0", "0.30000000000000004", "1E400", "4.9406564584124654e-324",
    "2.2250738585072011e-308", "0.000001", "1e22", "1e23", "8.5", "255", "65535", "65536", "16777216",
];
const CHAR_POOL: &[char] = &[
    'a', 'b', 'z', 'A', '0', '9', ' ', '/', '"', '\\', '\n', '\r', '\t', '\u{8}', '\u{c}', '\u{0}', '\u{1}', '\u{1f}',
    '\u{7f}', '\u{80}', '\u{ff}', 'é', '\u{7ff}', '\u{800}', '\u{d7ff}', '\u{e000}', '\u{fffd}', '\u{ffff}',
    '\u{10000}', '\u{10ffff}', '😀', '𝄞', 'ユ', 'u', 'n', '{', '}', '[', ']', ',', ':', '+', '-', 'e',
];

impl Gen {
    fn ws(&mut self, out: &mut String) {
        match self.rng.below(12) {
            0 => out.push(' '),
            1 => out.push('\n'),
            2 => out.push_str("\t\r "),
            3 => out.push_str("  "),
            _ => {}
        }
    }
    fn gen_char(&mut self) -> char {
        if self.rng.chance(1, 2) {
            *self.rng.pick(CHAR_POOL)
        } else {
            loop {
                let cp = match self.rng.below(4) {
                    0 => self.rng.below(0x80) as u32,
                    1 => self.rng.below(0x800) as u32,
                    2 => self.rng.below(0x10000) as u32,
                    _ => self.rng.below(0x110000) as u32,
                };
                if let Some(c) = char::from_u32(cp) {
                    return c;
                }
            }
        }
    }
    /// print one character inside a JSON string literal, choosing among all valid spellings
    fn emit_char(&mut self, c: char, out: &mut String, stats: &mut DocStats) {
        let cp = c as u32;
        let must_escape = cp < 0x20 || c == '"' || c == '\\';
        let choice = self.rng.below(8);
        if !must_escape && (choice >= 2 || (cp >= 0x10000 && !self.pairs_ok)) {
            out.push(c);
            return;
        }
        // short escapes
        let short = match c {
            '"' => Some("\\\""),
            '\\' => Some("\\\\"),
            '/' => Some("\\/"),
            '\u{8}' => Some("\\b"),
            '\u{c}' => Some("\\f"),
            '\n' => Some("\\n"),
            '\r' => Some("\\r"),
            '\t' => Some("\\t"),
            _ => None,
        };
        if let Some(s) = short {
            if choice != 1 {
                out.push_str(s);
                stats.short_esc += 1;
                return;
            }
        }
        let upper = self.rng.chance(1, 2);
        let u = |x: u32, out: &mut String| {
            if upper {
                out.push_str(&format!("\\u{:04X}", x));
            } else {
                out.push_str(&format!("\\u{:04x}", x));
            }
        };
        if cp < 0x10000 {
            u(cp, out);
            stats.u_esc += 1;
        } else {
            let v = cp - 0x10000;
            u(0xD800 + (v >> 10), out);
            u(0xDC00 + (v & 0x3FF), out);
            stats.surrogate_pairs += 1;
        }
    }
    fn gen_string_chars(&mut self, big_ok: bool) -> Vec<char> {
        let n = match self.rng.below(40) {
            0 => 0,
            1..=28 => self.rng.below(6) as usize,
            29..=34 => self.rng.below(40) as usize,
            35 => *self.rng.pick(&[127usize, 128, 255, 256, 257, 300]),
            37 if big_ok && self.rng.chance(1, 12) => *self.rng.pick(&[1000usize, 4095, 4096]),
            _ => self.rng.below(12) as usize,
        };
        (0..n).map(|_| self.gen_char()).collect()
    }
    fn emit_string(&mut self, chars: &[char], out: &mut String, stats: &mut DocStats) -> Vec<u8> {
        out.push('"');
        let mut bytes = String::new();
        for &c in chars {
            self.emit_char(c, out, stats);
            bytes.push(c);
        }
        out.push('"');
        bytes.into_bytes()
    }
    fn gen_number(&mut self) -> String {
        match self.rng.below(10) {
            0..=3 => self.rng.pick(NUM_POOL).to_string(),
            4 | 5 => format!("{}", self.rng.range(-1000, 1000)),
            6 => {
                // random grammar-valid number
                let mut s = String::new();
                if self.rng.chance(1, 3) {
                    s.push('-');
                }
                if self.rng.chance(1, 4) {
                    s.push('0');
                } else {
                    s.push((b'1' + self.rng.below(9) as u8) as char);
                    for _ in 0..self.rng.below(20) {
                        s.push((b'0' + self.rng.below(10) as u8) as char);
                    }
                }
                if self.rng.chance(1, 2) {
                    s.push('.');
                    for _ in 0..1 + self.rng.below(18) {
                        s.push((b'0' + self.rng.below(10) as u8) as char);
                    }
                }
                if self.rng.chance(1, 2) {
                    s.push(*self.rng.pick(&['e', 'E']));
                    match self.rng.below(3) {
                        0 => s.push('+'),
                        1 => s.push('-'),
                        _ => {}
                    }
                    let lim = *self.rng.pick(&[5u64, 40, 330, 400]);
                    s.push_str(&format!("{}", self.rng.below(lim)));
                }
                s
            }
            7 => {
                let f = f64::from_bits(self.rng.next());
                if f.is_finite() { format!("{}", f) } else { "1e999".to_string() }
            }
            8 => format!("{:e}", f64::from_bits(self.rng.next() & 0x7fef_ffff_ffff_ffff)),
            _ => format!("{}", self.rng.next() as i64),
        }
    }
    fn gen_key(&mut self, out: &mut String, stats: &mut DocStats, pool_bias: u64) -> Vec<u8> {
        if self.rng.below(10) < pool_bias {
            let k = *self.rng.pick(KEY_POOL);
            let chars: Vec<char> = k.chars().collect();
            self.emit_string(&chars, out, stats)
        } else {
            let chars = self.gen_string_chars(false);
            self.emit_string(&chars, out, stats)
        }
    }
    /// emit a valid JSON value of depth ≤ `depth`; returns the intended value
    fn gen_value(&mut self, depth: usize, out: &mut String, stats: &mut DocStats, budget: &mut i64) -> G {
        *budget -= 1;
        let leaf = depth == 0 || *budget <= 0 || self.rng.chance(2, 5);
        if leaf {
            match self.rng.below(9) {
                0 => {
                    out.push_str("null");
                    G::Null
                }
                1 => {
                    out.push_str("true");
                    G::Bool(true)
                }
                2 => {
                    out.push_str("false");
                    G::Bool(false)
                }
                3..=5 => {
                    let lex = self.gen_number();
                    let f: f64 = lex.parse().expect("generated number must parse");
                    out.push_str(&lex);
                    stats.numbers += 1;
                    G::Num(f.to_bits())
                }
                _ => {
                    let chars = self.gen_string_chars(true);
                    G::Str(self.emit_string(&chars, out, stats))
                }
            }
        } else if self.rng.chance(1, 2) {
            let n = match self.rng.below(30) {
                0 | 1 => 0,
                2 if self.rng.chance(1, 2) => 20 + self.rng.below(200) as usize,
                _ => 1 + self.rng.below(5) as usize,
            };
            out.push('[');
            self.ws(out);
            let mut xs = vec![];
            for i in 0..n {
                if i > 0 {
                    out.push(',');
                    self.ws(out);
                }
                xs.push(self.gen_value(depth - 1, out, stats, budget));
                self.ws(out);
            }
            out.push(']');
            G::Arr(xs)
        } else {
            let n = match self.rng.below(30) {
                0 | 1 => 0,
                2 if self.rng.chance(1, 2) => 10 + self.rng.below(120) as usize,
                _ => 1 + self.rng.below(6) as usize,
            };
            let pool_bias = *self.rng.pick(&[0u64, 5, 9, 10]);
            out.push('{');
            self.ws(out);
            let mut kvs = vec![];
            for i in 0..n {
                if i > 0 {
                    out.push(',');
                    self.ws(out);
                }
                let k = self.gen_key(out, stats, pool_bias);
                self.ws(out);
                out.push(':');
                self.ws(out);
                let v = self.gen_value(depth - 1, out, stats, budget);
                self.ws(out);
                kvs.push((k, v));
            }
            out.push('}');
            G::Obj(kvs)
        }
    }
    fn gen_doc(&mut self) -> (String, G, DocStats) {
        let mut out = String::new();
        let mut stats = DocStats::default();
        self.pairs_ok = self.rng.chance(1, 40);
        self.ws(&mut out);
        let depth = *self.rng.pick(&[0usize, 1, 2, 3, 3, 4, 5, 6, 8, 8]);
        let mut budget = *self.rng.pick(&[5i64, 10, 20, 40, 80, 250]);
        let g = self.gen_value(depth, &mut out, &mut stats, &mut budget);
        self.ws(&mut out);
        (out, g, stats)
    }
    /// random value, not restricted to what text can denote (NaN payloads, any f64)
    fn gen_g(&mut self, depth: usize, budget: &mut i64) -> G {
        *budget -= 1;
        if depth == 0 || *budget <= 0 || self.rng.chance(2, 5) {
            match self.rng.below(6) {
                0 => G::Null,
                1 => G::Bool(self.rng.chance(1, 2)),
                2 => G::Num(self.rng.next()),
                3 => G::Num(*self.rng.pick(&[
                    0u64,
                    0x8000_0000_0000_0000,
                    0x7ff0_0000_0000_0000,
                    0xfff0_0000_0000_0000,
                    0x7ff8_0000_0000_0000,
                    0x7ff0_0000_0000_0001,
                    0xffff_ffff_ffff_ffff,
                    1,
                    0x3ff0_0000_0000_0000,
                ])),
                _ => G::Str(self.gen_string_chars(true).into_iter().collect::<String>().into_bytes()),
            }
        } else if self.rng.chance(1, 2) {
            let n = if self.rng.chance(1, 12) { 0 } else { self.rng.below(6) as usize };
            G::Arr((0..n).map(|_| self.gen_g(depth - 1, budget)).collect())
        } else {
            let n = if self.rng.chance(1, 12) { 0 } else { self.rng.below(8) as usize };
            G::Obj(
                (0..n)
                    .map(|_| {
                        let k = if self.rng.chance(3, 4) {
                            self.rng.pick(KEY_POOL).as_bytes().to_vec()
                        } else {
                            self.gen_string_chars(false).into_iter().collect::<String>().into_bytes()
                        };
                        (k, self.gen_g(depth - 1, budget))
                    })
                    .collect(),
            )
        }
    }
    /// a malformed (or at least perturbed) text derived from a valid one; always valid UTF-8
    fn mutate(&mut self, text: &str) -> String {
        let mut cs: Vec<char> = text.chars().collect();
        let ins: &[char] = &[
            ',', ':', '"', '\\', '{', '}', '[', ']', '0', '1', '-', '+', '.', 'e', 'E', 't', 'n', 'f', ' ', '\n', '\u{1}',
            '\t', 'é', '😀', 'u', 'x', '/', '\u{0}',
        ];
        let nmut = 1 + self.rng.below(3);
        for _ in 0..nmut {
            let len = cs.len();
            match self.rng.below(7) {
                0 if len > 0 => {
                    cs.remove(self.rng.below(len as u64) as usize);
                }
                1 => {
                    let p = self.rng.below(len as u64 + 1) as usize;
                    cs.insert(p, *self.rng.pick(ins));
                }
                2 if len > 0 => {
                    let p = self.rng.below(len as u64) as usize;
                    cs[p] = *self.rng.pick(ins);
                }
                3 if len > 0 => {
                    cs.truncate(self.rng.below(len as u64) as usize);
                }
                4 if len > 1 => {
                    let a = self.rng.below(len as u64) as usize;
                    let b = self.rng.below(len as u64) as usize;
                    cs.swap(a, b);
                }
                5 if len > 0 => {
                    let a = self.rng.below(len as u64) as usize;
                    let b = (a + 1 + self.rng.below(8) as usize).min(len);
                    let dup: Vec<char> = cs[a..b].to_vec();
                    for (i, c) in dup.into_iter().enumerate() {
                        cs.insert(b + i, c);
                    }
                }
                _ => {
                    let p = self.rng.below(len as u64 + 1) as usize;
                    let extra: Vec<char> = self.rng.pick(&["]", "}", " x", ",", "\\u+041", "\\ud83d\\ude00", "\\ud800", "01", "1.", "tru", "null"]).chars().collect();
                    for (i, c) in extra.into_iter().enumerate() {
                        cs.insert(p + i, c);
                    }
                }
            }
        }
        cs.into_iter().collect()
    }
}

#[derive(Default, Clone)]
struct DocStats {
    short_esc: u64,
    u_esc: u64,
    surrogate_pairs: u64,
    numbers: u64,
}

const HAND_TEXTS: &[&str] = &[
    "null", "true", "false", "0", "-0", "\"\"", "[]", "{}", " [ ] ", " { } ", "[[]]", "[{}]", "{\"\":{}}",
    "{\"a\":1,\"a\":2,\"a\":3}", "{\"a\":1,\"a\":2}", "{\"b\":1,\"a\":2,\"b\":3,\"a\":4,\"b\":5}",
    "{\"a\":{\"b\":{\"c\":{\"d\":{\"e\":{\"f\":{\"g\":{\"h\":1}}}}}}}}", "[[[[[[[[1]]]]]]]]",
    "\"\\ud83d\\ude00\"", "[\"\\uD834\\uDD1E\"]", "{\"\\ud83d\\ude00\":1}", "\"\\u0000\"", "\"\\u007f\"", "\"\\/\"",
    "\"\\b\\f\\n\\r\\t\\\"\\\\\"", "\"\u{7f}\"", "\"é😀\"", "1e400", "-1e400", "[1e400]", "1E5", "1e+5", "0.0", "-0.0",
    "123456789012345678901234567890", "{\"a\":[1,{\"b\":[2,{\"c\":3}]}]}", "{\"a\":\"x\",\"b\":{\"a\":\"y\"}}",
    // malformed / lenient
    "", " ", "[1 2]", "[,]", "{,}", "[1,]", "[,1]", "{\"a\":1,}", "01", "1.", ".5", "-", "+1", "1e", "1e+", "--1", "1-2",
    "\"\\ud800\"", "\"\\udc00\\ud800\"", "\"\\u+041\"", "\"\\x\"", "\"a", "\"\\", "\"\\\"", "tru", "truefalse", "nul", "[1]]",
    "{\"a\" 1}", "{\"a\"::1}", "{1:2}", "\"tab\there\"", "\"nl\nhere\"", "1 x", "[1] 2", "{} {}", "[", "{", "]", "}", ":", ",",
    "[[[[", "{\"a\":", "{\"a\"}", "[true false null]", "[\"a\"\"b\"]", "{\"a\":1\"b\":2}", "[1,,2]", "[-]", "[1e5e5]", "1.5.5",
    "\"\\u12\"", "\"\\u12é4\"", "\"\\é\"", "TRUE", "None", "'a'", "[0x10]", "1e-", "-01", "00", "0e", "[1.e5]", "[-.5]", "1.0e+", "-e5",
    "true5", "false-1", "null0", "[truee5]", "\u{feff}1", "\u{a0}1", "1\u{a0}",
];

struct Expect {
    case: String,
    want: String,
    what: &'static str,
    ov: bool,
}
/// requests to the model: either one full line, or reader ops grouped on one buffer
/// (`multi <hex> op..`, the buffer is sent once)
enum Pending {
    Line(String, Expect),
    Multi(String, Vec<(String, Expect)>),
}

/// "" when the document is inside the domain of the `_partial` theorems (every string/key that
/// sits inside a container is shorter than 2^16 bytes, document shorter than 2^24 bytes)
fn domain_class(g: &G, bytes_len: usize) -> String {
    let (s, k) = g.max_nested_str(false);
    if s >= 65536 {
        "nested-string-len>=65536:".into()
    } else if k >= 65536 {
        "object-key-len>=65536:".into()
    } else if bytes_len >= (1 << 24) {
        "document>=16MiB:".into()
    } else {
        String::new()
    }
}

struct Engine<'a> {
    ctx: &'a Ctx,
    rep: Report,
    pending: Vec<Pending>,
    rng: Rng,
    /// domain class of the document being checked ("" inside the proved domain); prefixed to
    /// every oracle signature raised while checking that document
    dom: String,
}

impl<'a> Engine<'a> {
    fn expect(&mut self, case: &str, req: String, want: String, what: &'static str, ov: bool) {
        self.pending.push(Pending::Line(req, Expect { case: case.to_string(), want, what, ov }));
    }
    /// a reader op on the buffer with hex `h`
    fn expect_r(&mut self, case: &str, h: &str, op: String, want: String, what: &'static str, ov: bool) {
        let e = Expect { case: case.to_string(), want, what, ov };
        if let Some(Pending::Multi(hh, ops)) = self.pending.last_mut() {
            if hh.len() == h.len() && hh == h && ops.len() < 400 {
                ops.push((op, e));
                return;
            }
        }
        self.pending.push(Pending::Multi(h.to_string(), vec![(op, e)]));
    }
    fn ofail(&mut self, case: &str, detail: String, sig: &str) {
        let s = format!("{}{}", self.dom, sig);
        self.rep.oracle_fail(case.to_string(), detail, s);
    }
    fn compare(&mut self, e: Expect, r: &str) {
        let got = if e.ov { ov_canon(r) } else { r.to_string() };
        self.rep.count(&format!("model_op_{}", e.what));
        if got != e.want {
            let lim = |s: &str| if s.len() > 300 { format!("{}…({} chars)", &s[..300], s.len()) } else { s.to_string() };
            self.rep.disagree(e.case.clone(), format!("{}: impl={} model={}", e.what, lim(&e.want), lim(&got)), format!("{}-differs", e.what));
        }
    }
    fn flush(&mut self) {
        if self.pending.is_empty() {
            return;
        }
        let reqs: Vec<String> = self
            .pending
            .iter()
            .map(|p| match p {
                Pending::Line(r, _) => r.clone(),
                Pending::Multi(h, ops) => {
                    let mut s = String::with_capacity(h.len() + 16 * ops.len() + 8);
                    s.push_str("multi ");
                    s.push_str(h);
                    for (o, _) in ops {
                        s.push(' ');
                        s.push_str(o);
                    }
                    s
                }
            })
            .collect();
        let resp = model_batch(&self.ctx.model_bin, "json", &reqs);
        let pend = std::mem::take(&mut self.pending);
        for (p, r) in pend.into_iter().zip(resp.into_iter()) {
            match p {
                Pending::Line(_, e) => self.compare(e, &r),
                Pending::Multi(_, ops) => {
                    let parts: Vec<&str> = r.split(" ; ").collect();
                    if parts.len() != ops.len() {
                        let c = ops[0].1.case.clone();
                        self.rep.disagree(c, format!("model driver answered {} results for {} ops", parts.len(), ops.len()), "driver".into());
                        continue;
                    }
                    for ((_, e), r) in ops.into_iter().zip(parts.into_iter()) {
                        self.compare(e, r);
                    }
                }
            }
        }
    }

    /// everything after the bytes exist: read back, lookups, paths, OwnedValue glue.
    /// `g` is the value that went into the builder.
    fn check_document(&mut self, case: &str, g: &G, bytes: &[u8]) {
        let h = hexd(bytes);
        let small = bytes.len() <= 4096;
        let want = g.norm();
        // ---- read back (oracle: equals the value, members in stored order)
        let dec = real_decode(bytes);
        self.expect_r(case, &h, "d".into(), show_decode(&dec), "decode", false);
        self.dom = domain_class(g, bytes.len());
        if !self.dom.is_empty() {
            self.rep.count(&format!("outside_proved_domain_{}", self.dom));
        }
        match &dec {
            Ok(Ok(back)) => {
                if *back != want {
                    self.ofail(case, format!("read back differs from the stored value: want {} got {}", trunc(&want.to_words()), trunc(&back.to_words())), "roundtrip:value-differs");
                }
            }
            Ok(Err(_)) => self.ofail(case, "read back returned Err".into(), "roundtrip:read-err"),
            Err(m) => self.ofail(case, format!("read back panicked: {m}"), "roundtrip:read-panic"),
        }
        let av = real_asvalue(bytes);
        self.expect_r(case, &h, "v".into(), av, "asvalue", false);
        // ---- lookups on every container node reachable (bounded)
        let mut budget: i64 = if small { 80 } else { 10 };
        self.lookups(case, &want, bytes, &mut budget, true);
        // ---- paths from the root
        if let G::Obj(_) = want {
            let npaths = if small { 6 } else { 2 };
            for _ in 0..npaths {
                let path = self.gen_path(&want);
                self.check_path(case, &want, bytes, &path);
            }
        }
        let empty: Vec<Vec<u8>> = vec![];
        self.check_path(case, &want, bytes, &empty);
        if !matches!(want, G::Obj(_)) {
            self.check_path(case, &want, bytes, &[b"a".to_vec()]);
        }
        self.dom.clear();
    }

    fn gen_path(&mut self, root: &G) -> Vec<Vec<u8>> {
        let mut path = vec![];
        let mut cur = root;
        loop {
            match cur {
                G::Obj(kvs) if !kvs.is_empty() && path.len() < 10 => {
                    let r = self.rng.below(10);
                    if r == 0 {
                        path.push(b"missing-key".to_vec());
                        if self.rng.chance(1, 2) {
                            path.push(b"a".to_vec());
                        }
                        return path;
                    }
                    // prefer members whose value is a container, to get long paths
                    let conts: Vec<usize> = kvs.iter().enumerate().filter(|(_, kv)| matches!(kv.1, G::Obj(_))).map(|(i, _)| i).collect();
                    let i = if !conts.is_empty() && self.rng.chance(3, 4) { *self.rng.pick(&conts) } else { self.rng.below(kvs.len() as u64) as usize };
                    path.push(kvs[i].0.clone());
                    // follow the first member with that key that the implementation would not
                    // necessarily pick: the expectation is computed stepwise, not from here
                    cur = &kvs[i].1;
                    if self.rng.chance(1, 6) {
                        return path;
                    }
                }
                G::Obj(_) => {
                    if self.rng.chance(1, 2) {
                        path.push(b"a".to_vec());
                    }
                    return path;
                }
                _ => {
                    // step through a non-object
                    if self.rng.chance(1, 2) {
                        path.push(b"a".to_vec());
                        if self.rng.chance(1, 3) {
                            path.push(b"0".to_vec());
                        }
                    }
                    return path;
                }
            }
        }
    }

    /// oracle: get_path(p) == folding get over p (on the implementation), and both getters agree
    fn check_path(&mut self, case: &str, want: &G, bytes: &[u8], path: &[Vec<u8>]) {
        let h = hexd(bytes);
        let got = real_path(bytes, path);
        let keys: Vec<String> = path.iter().map(|k| hexd(k)).collect();
        let sp = keys.join(",");
        self.expect_r(case, &h, format!("p:{sp}"), got.clone(), "path", false);
        let gov = real_ovpath(bytes, path);
        self.expect_r(case, &h, format!("P:{sp}"), gov.clone(), "ovpath", true);
        self.rep.count(&format!("path_len_{}", path.len().min(9)));
        // stepwise on the implementation
        let step = if path.is_empty() {
            match real_asvalue(bytes) {
                s if s.starts_with("ok ") => format!("ok some {}", &s[3..]),
                s => s,
            }
        } else {
            let mut cur = real_get(bytes, &path[0]);
            for k in &path[1..] {
                if let Some(r) = cur.strip_prefix("ok some O") {
                    cur = real_get(&unhex(r), k);
                } else if cur.starts_with("ok") {
                    cur = "ok none".into();
                    break;
                } else {
                    break;
                }
            }
            cur
        };
        if step != got {
            self.ofail(case, format!("get_path({:?}) = {} but stepwise get = {}", keys, trunc(&got), trunc(&step)), "path:not-stepwise");
        }
        if ov_canon(&got) != gov {
            self.ofail(case, format!("jsonb_get_path({:?}) = {} but view.get_path = {}", keys, trunc(&gov), trunc(&got)), "path:ownedvalue-differs");
        }
        // against the value: follow the path in `want`; with duplicate keys any member with that key is allowed
        let allowed = follow(want, path);
        let denotes = if got == "ok none" { Some(None) } else { g_of_shown(&got).map(Some) };
        let root_not_object = !matches!(want, G::Obj(_)) && !path.is_empty();
        let ok = if root_not_object {
            got == "err"
        } else {
            match denotes {
                Some(None) => allowed.is_empty() || allowed.iter().any(|x| x.is_none()),
                Some(Some(gv)) => allowed.iter().any(|x| x.as_ref() == Some(&gv)),
                None => false,
            }
        };
        if !ok {
            self.ofail(case, format!("get_path({:?}) = {} is not a value the document has at that path", keys, trunc(&got)), "path:wrong-value");
        }
    }

    fn lookups(&mut self, case: &str, want: &G, bytes: &[u8], budget: &mut i64, is_root: bool) {
        if *budget <= 0 {
            return;
        }
        let h = hexd(bytes);
        match want {
            G::Obj(kvs) => {
                let olen = {
                    let d = bytes.to_vec();
                    res_val(guarded(move || JsonbView::new(&d)?.object_len()), |n| n.to_string())
                };
                self.expect_r(case, &h, "ol".into(), olen.clone(), "olen", false);
                if olen != format!("ok {}", kvs.len()) {
                    self.ofail(case, format!("object_len = {olen}, members = {}", kvs.len()), "object_len");
                }
                // every distinct key, plus keys that are absent
                let mut keys: Vec<Vec<u8>> = kvs.iter().map(|x| x.0.clone()).collect();
                keys.dedup();
                let nk = keys.len();
                let stride = (nk / 24).max(1);
                let mut probe: Vec<Vec<u8>> = keys.iter().step_by(stride).cloned().collect();
                if let Some(l) = keys.last() {
                    probe.push(l.clone());
                }
                let mut absent: Vec<Vec<u8>> = vec![b"\x7fnope".to_vec(), vec![]];
                if let Some(k) = keys.first() {
                    let mut a = k.clone();
                    a.push(b'!');
                    absent.push(a);
                    if !k.is_empty() && std::str::from_utf8(&k[..k.len() - 1]).is_ok() {
                        absent.push(k[..k.len() - 1].to_vec());
                    }
                }
                for k in absent {
                    if !keys.contains(&k) {
                        probe.push(k);
                    }
                }
                for k in probe {
                    *budget -= 1;
                    let got = real_get(bytes, &k);
                    self.expect_r(case, &h, format!("g:{}", hexd(&k)), got.clone(), "get", false);
                    self.rep.count("lookup_get");
                    let vals: Vec<&G> = kvs.iter().filter(|x| x.0 == k).map(|x| &x.1).collect();
                    let ok = if vals.is_empty() {
                        self.rep.count("lookup_get_absent");
                        got == "ok none"
                    } else {
                        if vals.len() > 1 {
                            self.rep.count("lookup_get_duplicate_key");
                        }
                        match g_of_shown(&got) {
                            Some(gv) => vals.iter().any(|v| **v == gv),
                            None => false,
                        }
                    };
                    if !ok {
                        let sig = if vals.is_empty() { "get:absent-key-found" } else if vals.len() > 1 { "get:duplicate-key-wrong-value" } else { "get:wrong-value" };
                        self.ofail(case, format!("get({}) = {}; the object has {} member(s) with that key", hexd(&k), trunc(&got), vals.len()), sig);
                    }
                    if is_root {
                        let gov = real_ovget(bytes, &k);
                        self.expect_r(case, &h, format!("G:{}", hexd(&k)), gov.clone(), "ovget", true);
                        if gov != ov_canon(&got) {
                            self.ofail(case, format!("jsonb_get({}) = {} but view.get = {}", hexd(&k), trunc(&gov), trunc(&got)), "get:ownedvalue-differs");
                        }
                    }
                }
                // descend through the iterator (stored order = want order)
                let d = bytes.to_vec();
                let items: Vec<String> = guarded(move || -> eyre::Result<Vec<String>> {
                    let v = JsonbView::new(&d)?;
                    let mut o = vec![];
                    for it in v.iter_object()? {
                        o.push(show_v(&it?.1));
                    }
                    Ok(o)
                })
                .ok()
                .and_then(|r| r.ok())
                .unwrap_or_default();
                for (i, (_, child)) in kvs.iter().enumerate() {
                    if let (Some(s), G::Arr(_) | G::Obj(_)) = (items.get(i), child) {
                        if s.len() > 1 && (s.starts_with('A') || s.starts_with('O')) {
                            self.lookups(case, child, &unhex(&s[1..]), budget, false);
                        }
                    }
                }
            }
            G::Arr(xs) => {
                let alen = {
                    let d = bytes.to_vec();
                    res_val(guarded(move || JsonbView::new(&d)?.array_len()), |n| n.to_string())
                };
                self.expect_r(case, &h, "al".into(), alen.clone(), "alen", false);
                if alen != format!("ok {}", xs.len()) {
                    self.ofail(case, format!("array_len = {alen}, elements = {}", xs.len()), "array_len");
                }
                let n = xs.len();
                let mut idxs: Vec<usize> = if n <= 12 { (0..n).collect() } else { (0..n).step_by((n / 10).max(1)).collect() };
                if n > 0 {
                    idxs.push(n - 1);
                }
                idxs.extend([n, n + 1, usize::MAX]);
                let mut children: Vec<(usize, String)> = vec![];
                for i in idxs {
                    *budget -= 1;
                    let got = real_aget(bytes, i);
                    self.expect_r(case, &h, format!("a:{i}"), got.clone(), "aget", false);
                    self.rep.count("lookup_array_get");
                    let ok = if i >= n { got == "ok none" } else { g_of_shown(&got).as_ref() == Some(&xs[i]) };
                    if !ok {
                        self.ofail(case, format!("array_get({i}) = {} (len {n})", trunc(&got)), if i >= n { "array_get:past-end" } else { "array_get:wrong-value" });
                    }
                    if is_root {
                        let gov = real_ovaget(bytes, i);
                        self.expect_r(case, &h, format!("A:{i}"), gov.clone(), "ovaget", true);
                        if gov != ov_canon(&got) {
                            self.ofail(case, format!("jsonb_array_get({i}) = {} but view.array_get = {}", trunc(&gov), trunc(&got)), "array_get:ownedvalue-differs");
                        }
                    }
                    if i < n {
                        if let Some(r) = got.strip_prefix("ok some ") {
                            children.push((i, r.to_string()));
                        }
                    }
                }
                for (i, s) in children {
                    if matches!(xs[i], G::Arr(_) | G::Obj(_)) && s.len() > 1 && (s.starts_with('A') || s.starts_with('O')) {
                        self.lookups(case, &xs[i], &unhex(&s[1..]), budget, false);
                    }
                }
            }
            _ => {
                if is_root {
                    // scalar document: the container accessors must refuse
                    let got = real_get(bytes, b"a");
                    self.expect_r(case, &h, "g:61".into(), got.clone(), "get", false);
                    let ga = real_aget(bytes, 0);
                    self.expect_r(case, &h, "a:0".into(), ga.clone(), "aget", false);
                    if got != "err" || ga != "err" {
                        self.ofail(case, format!("get/array_get on a scalar document: {got} / {ga}"), "scalar-document-lookup");
                    }
                }
            }
        }
    }

    /// build with both builders, compare with the model, then `check_document`
    fn check_value(&mut self, case: &str, g: &G, also_json_value: Option<&JsonValue>) {
        let g2 = g.clone();
        let b1 = guarded(move || build_with_builder(&g2));
        let b2 = match also_json_value {
            Some(v) => {
                let v2 = v.clone();
                guarded(move || v2.to_jsonb_bytes())
            }
            None => {
                let v2 = json_of_g(g);
                guarded(move || v2.to_jsonb_bytes())
            }
        };
        match (b1, b2) {
            (Ok(a), Ok(b)) => {
                self.expect(case, format!("build {}", g.to_words()), hexd(&b), "build", false);
                if a != b {
                    self.rep.disagree(case.to_string(), "JsonbBuilder::build and JsonValue::to_jsonb_bytes produce different bytes".into(), "builders-differ".into());
                }
                self.rep.count(&format!("doc_bytes_log2_{:02}", (b.len() as f64).log2() as u32));
                self.check_document(case, g, &b);
            }
            (a, b) => {
                let m = a.err().or(b.err()).unwrap_or_default();
                self.rep.oracle_fail(case.to_string(), format!("builder panicked: {m}"), "panic:build".into());
            }
        }
    }

    fn check_text(&mut self, text: &str, intended: Option<&G>) {
        let case = format!("text {}", hexd(text.as_bytes()));
        let t2 = text.to_string();
        let real = guarded(move || parse_json(&t2).map(|r| (r.value, r.consumed)));
        let table = num_table(text);
        let mut req = format!("parse {}", hexd(text.as_bytes()));
        for (lex, v) in &table {
            req.push(' ');
            req.push_str(&hexd(lex.as_bytes()));
            req.push(' ');
            match v {
                Some(b) => req.push_str(&format!("{:016x}", b)),
                None => req.push('x'),
            }
        }
        let resp = model_batch(&self.ctx.model_bin, "json", &[req]).pop().unwrap();
        self.after_parse(&case, text, intended, real, &resp);
    }

    fn after_parse(&mut self, case: &str, text: &str, intended: Option<&G>, real: Result<eyre::Result<(JsonValue, usize)>, String>, resp: &str) {
        let (mres, sres) = match resp.split_once(" | ") {
            Some(x) => x,
            None => {
                self.rep.disagree(case.to_string(), format!("model driver answered {resp}"), "driver".into());
                return;
            }
        };
        let real_s = match &real {
            Ok(Ok((v, c))) => format!("ok {} {}", c, g_of_json(v).to_words()),
            Ok(Err(_)) => "err".to_string(),
            Err(_) => "panic".to_string(),
        };
        self.rep.count(match &real {
            Ok(Ok(_)) => "parse_ok",
            Ok(Err(_)) => "parse_err",
            Err(_) => "parse_panic",
        });
        let mut key = None;
        let nontrivial = match &real {
            Ok(Ok((v, _))) => !matches!(v, JsonValue::Null | JsonValue::Bool(_)),
            _ => text.len() > 1,
        };
        if nontrivial {
            key = Some(case);
        }
        self.rep.case(key);
        if real_s != mres {
            self.rep.disagree(case.to_string(), format!("parse_json: impl={} model={}", trunc(&real_s), trunc(mres)), "rparse-differs".into());
        }
        if let Err(m) = &real {
            self.rep.oracle_fail(case.to_string(), format!("parse_json panicked: {m}"), "panic:parse_json".into());
        }
        if mres == "miss" || sres == "miss" || mres == "fuel" || sres == "fuel" {
            self.rep.disagree(case.to_string(), format!("model parser outcome {mres} | {sres}"), "number-table-or-fuel".into());
        }
        // ---- specification parser (RFC 8259)
        let spec: Option<G> = sres.strip_prefix("ok ").and_then(g_of_words);
        if let Some(want) = intended {
            if spec.as_ref() != Some(want) {
                self.rep.disagree(case.to_string(), format!("spec parser on generated text: {} ; generator intended {}", trunc(sres), trunc(&want.to_words())), "spec-vs-generator".into());
            }
        }
        match (&spec, &real) {
            (Some(sv), Ok(Ok((v, consumed)))) => {
                self.rep.count("rfc_valid");
                let gv = g_of_json(v);
                if &gv != sv {
                    self.rep.oracle_fail(case.to_string(), format!("parse_json value {} differs from the JSON value {}", trunc(&gv.to_words()), trunc(&sv.to_words())), "parse:value-differs".into());
                }
                if !text.as_bytes()[*consumed..].iter().all(|c| matches!(c, b' ' | b'\t' | b'\n' | b'\r')) {
                    self.rep.oracle_fail(case.to_string(), format!("parse_json consumed {consumed} of {} bytes of a valid document", text.len()), "parse:consumed-short".into());
                }
            }
            (Some(_), Ok(Err(e))) => {
                self.rep.count("rfc_valid");
                let es = format!("{e}");
                let sig = if es.contains("invalid unicode codepoint: U+D") { "parse:valid-json-rejected:surrogate-pair-escape".to_string() } else { "parse:valid-json-rejected:other".to_string() };
                self.rep.count("rfc_valid_rejected");
                self.rep.oracle_fail(case.to_string(), format!("valid JSON (RFC 8259) rejected by parse_json: {es}"), sig);
            }
            (None, Ok(Ok(_))) => {
                self.rep.count("rfc_invalid_but_accepted(lenient parser; outside the property)");
            }
            (None, Ok(Err(_))) => self.rep.count("rfc_invalid_rejected"),
            _ => {}
        }
        // ---- build / read back / lookups on what the implementation parsed
        if let Ok(Ok((v, _))) = &real {
            let g = g_of_json(v);
            self.rep.count(&format!("depth_{}", g.depth()));
            if g.has_dup_keys() {
                self.rep.count("docs_with_duplicate_keys");
            }
            self.rep.count(&format!("nodes_log2_{:02}", (g.nodes() as f64).log2() as u32));
            if self.rep.samples.len() < 12 && self.rng.chance(1, 400) {
                self.rep.sample(format!("{} -> {}", trunc(text), trunc(&g.to_words())));
            }
            self.check_value(case, &g, Some(v));
        }
    }

    fn check_bytes(&mut self, bytes: &[u8]) {
        let case = format!("bytes {}", hexd(bytes));
        let h = hexd(bytes);
        self.rep.case(Some(&case));
        let dec = real_decode(bytes);
        let ds = show_decode(&dec);
        self.rep.count(match ds.as_str() {
            "err" => "fuzz_decode_err",
            "oob" => "fuzz_decode_panic(C23 territory)",
            _ => "fuzz_decode_ok",
        });
        self.expect_r(&case, &h, "d".into(), ds, "decode", false);
        self.expect_r(&case, &h, "v".into(), real_asvalue(bytes), "asvalue", false);
        for k in [&b"a"[..], b"b", b"", b"zz", b"k1"] {
            self.expect_r(&case, &h, format!("g:{}", hexd(k)), real_get(bytes, k), "get", false);
            self.expect_r(&case, &h, format!("G:{}", hexd(k)), real_ovget(bytes, k), "ovget", true);
        }
        for i in [0usize, 1, 2, 7] {
            self.expect_r(&case, &h, format!("a:{i}"), real_aget(bytes, i), "aget", false);
        }
        self.expect_r(&case, &h, "A:0".into(), real_ovaget(bytes, 0), "ovaget", true);
        let p = vec![b"a".to_vec(), b"b".to_vec()];
        self.expect_r(&case, &h, "p:61,62".into(), real_path(bytes, &p), "path", false);
        self.expect_r(&case, &h, "P:61,62".into(), real_ovpath(bytes, &p), "ovpath", true);
    }

    /// implementation-only: a document whose data section exceeds the 24-bit entry offsets
    fn check_big16m(&mut self) {
        let case = "big16m".to_string();
        self.rep.case(Some(&case));
        let n = 300usize;
        let r = guarded(move || {
            let elems: Vec<JsonValue> = (0..n).map(|i| JsonValue::String(format!("{:05}{}", i, "x".repeat(59_995)))).collect();
            let bytes = JsonValue::Array(elems).to_jsonb_bytes();
            let view = JsonbView::new(&bytes).unwrap();
            let mut bad = vec![];
            for i in [0usize, 1, 278, 279, 280, 299] {
                let ok = match view.array_get(i) {
                    Ok(Some(JsonbValue::String(s))) => s.len() == 60_000 && s.starts_with(&format!("{:05}", i)),
                    _ => false,
                };
                if !ok {
                    bad.push(i);
                }
            }
            (bytes.len(), bad)
        });
        match r {
            Ok((len, bad)) => {
                self.rep.count("big16m_runs");
                if !bad.is_empty() {
                    self.rep.oracle_fail(case, format!("array of {n} strings of 60000 bytes ({len} bytes of JSONB): array_get returns the wrong element at indices {:?} (24-bit entry offsets wrap)", bad), "roundtrip:document>=16MiB".into());
                }
            }
            Err(m) => self.rep.oracle_fail(case, format!("panic: {m}"), "roundtrip:document>=16MiB:read-panic".into()),
        }
    }
}

fn trunc(s: &str) -> String {
    if s.len() > 240 {
        let mut e = 240;
        while !s.is_char_boundary(e) {
            e -= 1;
        }
        format!("{}…({} bytes)", &s[..e], s.len())
    } else {
        s.to_string()
    }
}

/// all values the document has at `path` (stepping only through objects; duplicates fan out);
/// `None` = "no value" (missing key or step through a non-object)
fn follow(root: &G, path: &[Vec<u8>]) -> Vec<Option<G>> {
    let mut cur: Vec<Option<&G>> = vec![Some(root)];
    for k in path {
        let mut next = vec![];
        for c in cur {
            match c {
                Some(G::Obj(kvs)) => {
                    let m: Vec<&G> = kvs.iter().filter(|x| &x.0 == k).map(|x| &x.1).collect();
                    if m.is_empty() {
                        next.push(None);
                    } else {
                        next.extend(m.into_iter().map(Some));
                    }
                }
                _ => next.push(None),
            }
        }
        cur = next;
    }
    cur.into_iter().map(|x| x.cloned()).collect()
}

fn long_string_docs() -> Vec<(String, G)> {
    // strings and keys around the u16 length boundary, at the root and inside containers
    let mut v = vec![];
    for n in [65_534usize, 65_535, 65_536, 65_537, 70_000] {
        let s = "s".repeat(n);
        v.push((format!("\"{s}\""), G::Str(s.clone().into_bytes())));
        v.push((format!("[\"{s}\"]"), G::Arr(vec![G::Str(s.clone().into_bytes())])));
        v.push((format!("{{\"k\":\"{s}\",\"z\":1}}"), G::Obj(vec![(b"k".to_vec(), G::Str(s.clone().into_bytes())), (b"z".to_vec(), G::Num(1f64.to_bits()))])));
        v.push((format!("{{\"{s}\":true,\"a\":false}}"), G::Obj(vec![(s.clone().into_bytes(), G::Bool(true)), (b"a".to_vec(), G::Bool(false))])));
    }
    v
}

pub fn run(ctx: &Ctx) -> Report {
    let rep = Report::new(
        "json",
        "documents: generated RFC 8259 texts of depth ≤ 8 (all escape spellings incl. surrogate pairs, unicode of every \
         UTF-8 length, boundary numbers, duplicate/unsorted/shared-prefix keys, empty and wide containers, strings around \
         255/4096/65535/65536 bytes), the same texts perturbed into malformed ones, a hand list, values built directly \
         (any f64 bits), and mutated JSONB bytes for the readers. non-trivial = distinct text whose parse is an error or a \
         value other than null/true/false, distinct value documents, distinct byte strings",
    );
    let mut e = Engine { ctx, rep, pending: vec![], rng: Rng::new(ctx.seed ^ 0x6a73_6f6e), dom: String::new() };
    let mut gen = Gen { rng: Rng::new(ctx.seed), pairs_ok: false };

    // ---- corpus / replay first
    for c in ctx.corpus_cases("C32") {
        let (op, arg) = c.split_once(' ').unwrap_or((c.as_str(), ""));
        match op {
            "text" => match String::from_utf8(unhex(arg.trim())) {
                Ok(t) => e.check_text(&t, None),
                Err(_) => e.rep.notes.push(format!("corpus text is not UTF-8: {}", trunc(&c))),
            },
            "value" => match g_of_words(arg) {
                Some(g) => {
                    let case = format!("value {}", g.to_words());
                    e.rep.case(Some(&case));
                    e.check_value(&case, &g, None)
                }
                None => e.rep.notes.push(format!("bad corpus value: {}", trunc(&c))),
            },
            "bytes" => e.check_bytes(&unhex(arg.trim())),
            "big16m" => e.check_big16m(),
            _ => e.rep.notes.push(format!("unknown corpus case: {}", trunc(&c))),
        }
        e.flush();
    }

    // ---- text documents (valid, then perturbed)
    let ndocs = if ctx.thorough { 100_000 } else { 10_000 };
    let mut texts: Vec<(String, Option<G>)> = vec![];
    for t in HAND_TEXTS {
        texts.push((t.to_string(), None));
    }
    for (t, g) in long_string_docs() {
        texts.push((t, Some(g)));
    }
    let mut agg = DocStats::default();
    for i in 0..ndocs {
        let (t, g, st) = gen.gen_doc();
        agg.short_esc += st.short_esc;
        agg.u_esc += st.u_esc;
        agg.surrogate_pairs += st.surrogate_pairs;
        agg.numbers += st.numbers;
        if i % 3 == 0 {
            let m = gen.mutate(&t);
            texts.push((m, None));
        }
        texts.push((t, Some(g)));
        if texts.len() >= 400 || i + 1 == ndocs {
            run_texts(&mut e, std::mem::take(&mut texts));
        }
    }
    run_texts(&mut e, std::mem::take(&mut texts));
    e.rep.count_n("gen_short_escapes", agg.short_esc);
    e.rep.count_n("gen_u_escapes", agg.u_esc);
    e.rep.count_n("gen_surrogate_pair_escapes", agg.surrogate_pairs);
    e.rep.count_n("gen_numbers", agg.numbers);

    // ---- values built directly
    let nvals = if ctx.thorough { 30_000 } else { 3_000 };
    for i in 0..nvals {
        let depth = *gen.rng.pick(&[0usize, 1, 2, 3, 4, 6, 8]);
        let mut budget = *gen.rng.pick(&[5i64, 20, 60, 200]);
        let g = gen.gen_g(depth, &mut budget);
        let case = format!("value {}", g.to_words());
        e.rep.case(Some(&case));
        e.rep.count("value_documents");
        e.check_value(&case, &g, None);
        if i % 200 == 199 {
            e.flush();
        }
    }
    e.flush();

    // ---- reader correspondence on corrupted documents
    let nfuzz = if ctx.thorough { 40_000 } else { 4_000 };
    for i in 0..nfuzz {
        let depth = *gen.rng.pick(&[1usize, 2, 3]);
        let mut budget = 12i64;
        let g = gen.gen_g(depth, &mut budget);
        let mut b = build_with_builder(&g);
        let nm = 1 + gen.rng.below(3);
        for _ in 0..nm {
            if b.is_empty() {
                break;
            }
            let p = gen.rng.below(b.len() as u64) as usize;
            match gen.rng.below(5) {
                0 => b[p] = gen.rng.next() as u8,
                1 => b[p] ^= 1 << gen.rng.below(8),
                2 => b.truncate(p),
                3 => {
                    b.remove(p);
                }
                _ => b.insert(p, *gen.rng.pick(&[0u8, 1, 0xff, 0x80, 4])),
            }
        }
        e.check_bytes(&b);
        if i % 200 == 199 {
            e.flush();
        }
    }
    e.flush();

    // ---- > 16 MiB document (implementation only)
    e.check_big16m();
    e.flush();
    e.rep
}

/// one model batch for the `parse` requests of a chunk of texts, then the per-document checks
fn run_texts(e: &mut Engine, texts: Vec<(String, Option<G>)>) {
    if texts.is_empty() {
        return;
    }
    let mut reqs = vec![];
    let mut reals = vec![];
    for (t, _) in &texts {
        let t2 = t.clone();
        reals.push(guarded(move || parse_json(&t2).map(|r| (r.value, r.consumed))));
        let mut req = format!("parse {}", hexd(t.as_bytes()));
        for (lex, v) in num_table(t) {
            req.push(' ');
            req.push_str(&hexd(lex.as_bytes()));
            req.push(' ');
            match v {
                Some(b) => req.push_str(&format!("{:016x}", b)),
                None => req.push('x'),
            }
        }
        reqs.push(req);
    }
    let resp = model_batch(&e.ctx.model_bin, "json", &reqs);
    for (((t, g), real), r) in texts.iter().zip(reals.into_iter()).zip(resp.iter()) {
        let case = format!("text {}", hexd(t.as_bytes()));
        e.after_parse(&case, t, g.as_ref(), real, r);
    }
    e.flush();
}
