//! C34: `turdb::storage::Freelist` on a real `MmapStorage` vs the Lean model `TurVerif.Freelist`.
//!
//! One case = one line: `fl <npages> <op> <op> …` with ops
//!   `r<p>`                      release page p
//!   `a`                         allocate
//!   `w<p>:<pt>:<next>:<cnt>:<k>:<v>`  the client overwrites page p (which it owns): byte0=pt,
//!                               next_trunk=next, count=cnt, slots 0..k-1 = v,v+1,…, rest of page zero
//!   `d`                         drain: allocate until None (each step compared and checked)
//!   `c`                         compare the whole trunk chain (decoded from the page bytes)
//!   `F<n>`                      shorthand: release n pages, lowest owned page numbers first
//!   `R<k>` / `W<k>:…`           release / overwrite the (k mod n)-th smallest page the client owns now
//! After every op the state decoded from the real bytes (head, free_count, header and top entry of
//! the head trunk) is compared with the model's.  Independently of the model the property's own
//! oracle is evaluated with ghost sets kept by the harness:
//!   * allocate returned p  ⇒ p was released and not handed out since (else `alloc-unreleased…`)
//!   * allocate returned None ⇒ free_count() was 0 before the call, and after a drain every released
//!     page has come back and the number obtained equals free_count() at the start (else `count-exact…`)
use crate::common::*;
use std::collections::BTreeSet;
use turdb::storage::{Freelist, MmapStorage, PAGE_SIZE};

const TRUNK_MAX: u32 = 4090;

#[derive(Clone, Debug, PartialEq)]
enum Op {
    Rel(u32),
    Alloc,
    Poke { p: u32, pt: u32, next: u32, cnt: u32, k: u32, v: u32 },
    Drain,
    Chain,
    Fill(u32),
    /// release the (k mod n)-th smallest page the client currently owns
    RelIdx(u32),
    /// overwrite the (k mod n)-th smallest page the client currently owns
    PokeIdx { i: u32, pt: u32, next: u32, cnt: u32, k: u32, v: u32 },
}

fn show_op(o: &Op) -> String {
    match o {
        Op::Rel(p) => format!("r{p}"),
        Op::Alloc => "a".into(),
        Op::Poke { p, pt, next, cnt, k, v } => format!("w{p}:{pt}:{next}:{cnt}:{k}:{v}"),
        Op::Drain => "d".into(),
        Op::Chain => "c".into(),
        Op::Fill(n) => format!("F{n}"),
        Op::RelIdx(k) => format!("R{k}"),
        Op::PokeIdx { i, pt, next, cnt, k, v } => format!("W{i}:{pt}:{next}:{cnt}:{k}:{v}"),
    }
}

fn show_case(npages: u32, ops: &[Op]) -> String {
    let mut s = format!("fl {npages}");
    for o in ops {
        s.push(' ');
        s.push_str(&show_op(o));
    }
    s
}

fn parse_case(line: &str) -> Option<(u32, Vec<Op>)> {
    let mut it = line.split_whitespace();
    if it.next()? != "fl" {
        return None;
    }
    let npages: u32 = it.next()?.parse().ok()?;
    let mut ops = vec![];
    for w in it {
        let (h, rest) = w.split_at(1);
        ops.push(match h {
            "r" => Op::Rel(rest.parse().ok()?),
            "a" if rest.is_empty() => Op::Alloc,
            "d" if rest.is_empty() => Op::Drain,
            "c" if rest.is_empty() => Op::Chain,
            "F" => Op::Fill(rest.parse().ok()?),
            "R" => Op::RelIdx(rest.parse().ok()?),
            "W" => {
                let f: Vec<u32> = rest.split(':').map(|x| x.parse().ok()).collect::<Option<_>>()?;
                if f.len() != 6 {
                    return None;
                }
                Op::PokeIdx { i: f[0], pt: f[1], next: f[2], cnt: f[3], k: f[4], v: f[5] }
            }
            "w" => {
                let f: Vec<u32> = rest.split(':').map(|x| x.parse().ok()).collect::<Option<_>>()?;
                if f.len() != 6 {
                    return None;
                }
                Op::Poke { p: f[0], pt: f[1], next: f[2], cnt: f[3], k: f[4], v: f[5] }
            }
            _ => return None,
        });
    }
    Some((npages, ops))
}

fn rd32(b: &[u8], off: usize) -> u32 {
    u32::from_le_bytes(b[off..off + 4].try_into().unwrap())
}

/// (ptype, next, count) of page p as the freelist would see it; zeros when out of range
fn view(st: &MmapStorage, p: u32) -> (u32, u32, u32) {
    match st.page(p) {
        Ok(b) => (b[0] as u32, rd32(b, 16), rd32(b, 20)),
        Err(_) => (0, 0, 0),
    }
}
fn slot(st: &MmapStorage, p: u32, i: u32) -> u32 {
    let off = 24usize + 4 * i as usize;
    match st.page(p) {
        Ok(b) if off + 4 <= PAGE_SIZE => rd32(b, off),
        _ => 0,
    }
}
fn summary(st: &MmapStorage, fl: &Freelist) -> String {
    let h = fl.head_page();
    let (pt, nx, cnt) = view(st, h);
    let top = if cnt == 0 { 0 } else { slot(st, h, cnt - 1) };
    format!("{} {} {} {} {} {}", h, fl.free_count(), pt, nx, cnt, top)
}
fn chain_dump(st: &MmapStorage, fl: &Freelist) -> String {
    let np = st.page_count();
    let mut out = vec![];
    let mut h = fl.head_page();
    let mut fuel = np as u64 + 1;
    while fuel > 0 && h != 0 && h < np {
        let (pt, nx, cnt) = view(st, h);
        let c = cnt.min(TRUNK_MAX);
        let mut acc: u64 = 17;
        for i in (0..c).rev() {
            acc = (acc * 31 + slot(st, h, i) as u64 + 7) % 4294967291;
        }
        out.push(format!("{h}:{pt}:{nx}:{cnt}:{acc}"));
        h = nx;
        fuel -= 1;
    }
    let mut s = out.len().to_string();
    for o in out {
        s.push(' ');
        s.push_str(&o);
    }
    s
}

struct Outcome {
    /// model request lines and the implementation's canonical answer for each
    reqs: Vec<String>,
    impl_resp: Vec<String>,
    /// index of the originating op for each request (for prefix replays)
    op_of_req: Vec<usize>,
    oracle: Vec<(usize, String, String)>, // (op index, detail, signature)
    n_alloc_some: u64,
    n_alloc_none: u64,
    n_rel: u64,
    trunks_max: usize,
    boundary_hits: u64,
    panicked: Option<String>,
    diverged: bool,
}

/// does following next_trunk over empty trunk views from `h` come back to a page already seen?
fn empty_chain_cycles(st: &MmapStorage, mut h: u32) -> bool {
    let mut seen = BTreeSet::new();
    loop {
        if h >= st.page_count() {
            return false;
        }
        let (_, nx, cnt) = view(st, h);
        if cnt != 0 || nx == 0 {
            return false;
        }
        if !seen.insert(h) {
            return true;
        }
        h = nx;
    }
}

fn poke_real(st: &mut MmapStorage, p: u32, pt: u32, next: u32, cnt: u32, k: u32, v: u32) {
    if let Ok(b) = st.page_mut(p) {
        for x in b.iter_mut() {
            *x = 0;
        }
        b[0] = pt as u8;
        b[16..20].copy_from_slice(&next.to_le_bytes());
        b[20..24].copy_from_slice(&cnt.to_le_bytes());
        for i in 0..k.min(TRUNK_MAX) {
            let off = 24 + 4 * i as usize;
            b[off..off + 4].copy_from_slice(&(v.wrapping_add(i)).to_le_bytes());
        }
    }
}

/// classification of a count/conservation failure: are all pages that were released and never
/// came back pages that the freelist had turned into trunk pages?
fn leak_class(st: &MmapStorage, free: &BTreeSet<u32>, trunked: &BTreeSet<u32>) -> &'static str {
    if !free.is_empty() && free.iter().all(|p| trunked.contains(p) && view(st, *p).0 == 0x30) {
        "leaked-are-trunk-pages"
    } else {
        "unexplained"
    }
}

/// storages are reused between cases (file creation/truncation is slow on a loaded disk): one file per
/// small page count, zero-filled before each case; larger ones are created afresh
struct Pool {
    dir: String,
    small: std::collections::HashMap<u32, MmapStorage>,
    big: Option<MmapStorage>,
}
impl Pool {
    fn new(dir: &str) -> Self {
        Pool { dir: dir.to_string(), small: Default::default(), big: None }
    }
    fn get(&mut self, npages: u32) -> Result<&mut MmapStorage, String> {
        let npages = npages.max(1);
        if npages <= 64 {
            if !self.small.contains_key(&npages) {
                let st = MmapStorage::create(format!("{}/freelist_{npages}.db", self.dir), npages).map_err(|e| e.to_string())?;
                self.small.insert(npages, st);
            }
            let st = self.small.get_mut(&npages).unwrap();
            for p in 0..npages {
                if let Ok(b) = st.page_mut(p) {
                    if b.iter().any(|x| *x != 0) {
                        b.fill(0);
                    }
                }
            }
            Ok(st)
        } else {
            self.big = None;
            let st = MmapStorage::create(format!("{}/freelist_big.db", self.dir), npages).map_err(|e| e.to_string())?;
            self.big = Some(st);
            Ok(self.big.as_mut().unwrap())
        }
    }
    fn cleanup(&mut self) {
        let keys: Vec<u32> = self.small.keys().cloned().collect();
        self.small.clear();
        self.big = None;
        for k in keys {
            let _ = std::fs::remove_file(format!("{}/freelist_{k}.db", self.dir));
        }
        let _ = std::fs::remove_file(format!("{}/freelist_big.db", self.dir));
    }
}

fn run_case(pool: &mut Pool, variant: &str, npages: u32, ops: &[Op]) -> Outcome {
    let mut out = Outcome {
        reqs: vec![format!("new {npages} {variant}")],
        impl_resp: vec!["ok".into()],
        op_of_req: vec![0],
        oracle: vec![],
        n_alloc_some: 0,
        n_alloc_none: 0,
        n_rel: 0,
        trunks_max: 0,
        boundary_hits: 0,
        panicked: None,
        diverged: false,
    };
    let st: &mut MmapStorage = match pool.get(npages) {
        Ok(s) => s,
        Err(e) => {
            out.panicked = Some(format!("cannot create storage: {e}"));
            return out;
        }
    };
    let mut fl = Freelist::new();
    // ghost state of the client
    let mut owned: BTreeSet<u32> = (1..npages).collect();
    let mut free: BTreeSet<u32> = BTreeSet::new();
    // pages that became head of the chain at some time (for the classification only)
    let mut trunked: BTreeSet<u32> = BTreeSet::new();
    // set once allocate was entered with head_page == 0 and free_count > 0 while the client's
    // page 0 had non-zero bytes at 16..24: from then on the list state derives from foreign bytes
    let mut tainted = false;

    // expand Fill/Drain lazily
    let mut queue: Vec<(usize, Op)> = vec![];
    for (i, o) in ops.iter().enumerate().rev() {
        queue.push((i, o.clone()));
    }
    let mut drain_left: Option<(usize, u64, u64, u64)> = None; // (op idx, steps left, fc at start, obtained)
    loop {
        let (oi, op) = if let Some((oi, left, fc0, got)) = drain_left {
            if left == 0 {
                drain_left = None;
                out.oracle.push((oi, format!("drain did not end after free_count+npages+2 steps (free_count at start {fc0}, obtained {got})"), "drain-unbounded".into()));
                continue;
            }
            (oi, Op::Alloc)
        } else {
            match queue.pop() {
                Some(x) => x,
                None => break,
            }
        };
        match op {
            Op::Fill(n) => {
                let ps: Vec<u32> = owned.iter().take(n as usize).cloned().collect();
                for p in ps.into_iter().rev() {
                    queue.push((oi, Op::Rel(p)));
                }
            }
            Op::RelIdx(k) => {
                if !owned.is_empty() {
                    let p = *owned.iter().nth(k as usize % owned.len()).unwrap();
                    queue.push((oi, Op::Rel(p)));
                }
            }
            Op::PokeIdx { i, pt, next, cnt, k, v } => {
                if !owned.is_empty() {
                    let p = *owned.iter().nth(i as usize % owned.len()).unwrap();
                    queue.push((oi, Op::Poke { p, pt, next, cnt, k, v }));
                }
            }
            Op::Drain => {
                let fc0 = fl.free_count() as u64;
                drain_left = Some((oi, fc0 + npages as u64 + 2, fc0, 0));
            }
            Op::Chain => {
                out.reqs.push("chain".into());
                out.impl_resp.push(chain_dump(&*st, &fl));
                out.op_of_req.push(oi);
            }
            Op::Poke { p, pt, next, cnt, k, v } => {
                poke_real(&mut *st, p, pt, next, cnt, k, v);
                out.reqs.push(format!("poke {p} {pt} {next} {cnt} {k} {v}"));
                out.impl_resp.push("ok".into());
                out.op_of_req.push(oi);
            }
            Op::Rel(p) => {
                if free.contains(&p) || p == 0 {
                    continue; // not a legal client action (double release / the header page)
                }
                let (_, _, hc) = view(&*st, fl.head_page());
                if fl.head_page() != 0 && hc + 2 >= TRUNK_MAX && hc <= TRUNK_MAX {
                    out.boundary_hits += 1;
                }
                let r = guarded(std::panic::AssertUnwindSafe(|| fl.release(&mut *st, p).map_err(|e| e.to_string())));
                out.reqs.push(format!("rel {p}"));
                out.op_of_req.push(oi);
                match r {
                    Ok(Ok(())) => {
                        out.n_rel += 1;
                        owned.remove(&p);
                        free.insert(p);
                        if fl.head_page() == p {
                            trunked.insert(p);
                        }
                        out.impl_resp.push(format!("ok {}", summary(&*st, &fl)));
                    }
                    Ok(Err(e)) => {
                        out.impl_resp.push(format!("err {}", summary(&*st, &fl)));
                        if p < npages {
                            let cls = if tainted { "after-page0-interpreted-as-trunk" } else { "in-range-page" };
                            out.oracle.push((oi, format!("release({p}) of an in-range page failed: {e}"), format!("release-error:{cls}")));
                            break; // the client's view and the list have parted; nothing after this is meaningful
                        }
                    }
                    Err(m) => {
                        out.impl_resp.push(format!("panic {m}"));
                        out.oracle.push((oi, format!("release({p}) panicked: {m}"), "panic:release".into()));
                        out.panicked = Some(m);
                        break;
                    }
                }
            }
            Op::Alloc => {
                let fc_before = fl.free_count();
                let head_before = fl.head_page();
                let (_, _, hc) = view(&*st, head_before);
                if head_before != 0 && hc <= 2 {
                    out.boundary_hits += 1;
                }
                if head_before == 0 && fc_before > 0 {
                    let (_, n0, c0) = view(&*st, 0);
                    if n0 != 0 || c0 != 0 {
                        tainted = true;
                    }
                }
                // `allocate` follows next_trunk over empty trunks by self-recursion; on a cyclic chain the
                // real code never returns (or overflows the stack).  Do not call it then: report.
                if fc_before > 0 && empty_chain_cycles(&*st, head_before) {
                    let cls = if tainted { "page0-interpreted-as-trunk" } else { "untainted" };
                    out.oracle.push((oi, format!("allocate would not terminate: the empty trunks reachable from head_page {head_before} form a cycle"), format!("alloc-diverges:{cls}")));
                    out.reqs.push("alloc".into());
                    out.op_of_req.push(oi);
                    // the model reports the same situation as fuel exhaustion; its state is not compared further
                    out.impl_resp.push("diverge".into());
                    out.diverged = true;
                    break;
                }
                let r = guarded(std::panic::AssertUnwindSafe(|| fl.allocate(&mut *st).map_err(|e| e.to_string())));
                out.reqs.push("alloc".into());
                out.op_of_req.push(oi);
                match r {
                    Ok(Ok(Some(p))) => {
                        out.n_alloc_some += 1;
                        out.impl_resp.push(format!("page {p} {}", summary(&*st, &fl)));
                        if !free.contains(&p) {
                            let why = if tainted {
                                "page0-interpreted-as-trunk"
                            } else if owned.contains(&p) {
                                "page-currently-allocated"
                            } else {
                                "never-released"
                            };
                            out.oracle.push((
                                oi,
                                format!("allocate returned page {p} which is not a released, un-allocated page (head_page before the call {head_before}, free_count before {fc_before})"),
                                format!("alloc-unreleased:{why}"),
                            ));
                        }
                        free.remove(&p);
                        owned.insert(p);
                        if let Some((i, left, fc0, got)) = drain_left {
                            drain_left = Some((i, left - 1, fc0, got + 1));
                        }
                    }
                    Ok(Ok(None)) => {
                        out.n_alloc_none += 1;
                        out.impl_resp.push(format!("none {}", summary(&*st, &fl)));
                        if fc_before != 0 {
                            let cls = if tainted { "page0-interpreted-as-trunk" } else { leak_class(&*st, &free, &trunked) };
                            out.oracle.push((
                                oi,
                                format!("allocate returned None while free_count() was {fc_before}; released pages never handed back: {:?}", free.iter().take(8).collect::<Vec<_>>()),
                                format!("count-exact:none-with-free_count>0:{cls}"),
                            ));
                        }
                        if let Some((i, _, fc0, got)) = drain_left {
                            drain_left = None;
                            if got != fc0 || !free.is_empty() {
                                let cls = if tainted { "page0-interpreted-as-trunk" } else { leak_class(&*st, &free, &trunked) };
                                out.oracle.push((
                                    i,
                                    format!("drain: free_count() said {fc0}, allocations returned {got} pages, {} released pages never came back (e.g. {:?})", free.len(), free.iter().take(8).collect::<Vec<_>>()),
                                    format!("count-exact:drain-obtained<free_count:{cls}"),
                                ));
                            }
                        }
                    }
                    Ok(Err(e)) => {
                        out.impl_resp.push(format!("err {}", summary(&*st, &fl)));
                        let cls = if tainted { "page0-interpreted-as-trunk" } else { "untainted" };
                        out.oracle.push((oi, format!("allocate failed (head_page before {head_before}, free_count before {fc_before}): {e}"), format!("alloc-error:{cls}")));
                        break;
                    }
                    Err(m) => {
                        out.impl_resp.push(format!("panic {m}"));
                        out.oracle.push((oi, format!("allocate panicked: {m}"), "panic:allocate".into()));
                        out.panicked = Some(m);
                        break;
                    }
                }
            }
        }
        if tainted && !out.oracle.is_empty() {
            break; // everything after this point derives from foreign bytes
        }
        // number of trunks currently chained (cheap bound: only every 512 requests)
        if out.reqs.len() % 512 == 0 {
            let n: usize = chain_dump(&*st, &fl).split(' ').next().unwrap().parse().unwrap_or(0);
            out.trunks_max = out.trunks_max.max(n);
        }
    }
    let n: usize = chain_dump(&*st, &fl).split(' ').next().unwrap().parse().unwrap_or(0);
    out.trunks_max = out.trunks_max.max(n);
    out
}

/// which variant of `allocate` is in the tree: the pinned one (an emptied trunk page is dropped)
/// or the repaired one (the trunk page itself is handed out)
fn probe_variant(path: &str) -> &'static str {
    let r = guarded(|| {
        let mut st = MmapStorage::create(path, 8).unwrap();
        let mut fl = Freelist::new();
        fl.release(&mut st, 3).unwrap();
        fl.allocate(&mut st).unwrap()
    });
    match r {
        Ok(Some(3)) => "fixed",
        _ => "orig",
    }
}

fn gen_small(rng: &mut Rng) -> (u32, Vec<Op>) {
    let npages = 4 + rng.below(40) as u32;
    let mut ops = vec![];
    // what the client keeps in its header page 0
    match rng.below(8) {
        0 => ops.push(Op::Poke { p: 0, pt: 1 + rng.below(200) as u32, next: 0, cnt: 0, k: 3, v: 1 + rng.below(npages as u64) as u32 }),
        1 => ops.push(Op::Poke { p: 0, pt: 84, next: 1 + rng.below(npages as u64 + 3) as u32, cnt: 0, k: 0, v: 0 }),
        2 => ops.push(Op::Poke { p: 0, pt: 84, next: rng.below(3) as u32, cnt: 1 + rng.below(3) as u32, k: 4, v: 1 + rng.below(npages as u64) as u32 }),
        3 => ops.push(Op::Poke { p: 0, pt: 84, next: 0, cnt: 4089 + rng.below(4) as u32, k: 2, v: 2 }),
        _ => {}
    }
    let n = 3 + rng.below(40);
    let bias = rng.below(3);
    for _ in 0..n {
        let x = rng.below(100);
        let rel_p = match bias { 0 => 50, 1 => 70, _ => 35 };
        if x < rel_p {
            ops.push(Op::RelIdx(rng.below(64) as u32));
        } else if x < 88 {
            ops.push(Op::Alloc);
        } else if x < 95 {
            // the client scribbles on a page it owns (possibly one it just got back, or a former trunk)
            ops.push(Op::PokeIdx { i: rng.below(64) as u32, pt: rng.below(256) as u32, next: rng.below(npages as u64 + 2) as u32, cnt: rng.below(6) as u32, k: rng.below(5) as u32, v: 1 + rng.below(npages as u64) as u32 });
        } else if x < 97 {
            ops.push(Op::Rel(npages + rng.below(3) as u32)); // out of range: storage error paths
        } else {
            ops.push(Op::Chain);
        }
    }
    ops.push(Op::Chain);
    ops.push(Op::Drain);
    ops.push(Op::Chain);
    (npages, ops)
}

/// long sequences crossing trunk boundaries (4090 entries + the trunk page itself per trunk)
fn gen_long(rng: &mut Rng, trunks: u32) -> (u32, Vec<Op>) {
    let per = TRUNK_MAX + 1;
    let npages = trunks * per + 64 + rng.below(64) as u32;
    let mut ops = vec![];
    if rng.chance(1, 3) {
        ops.push(Op::Poke { p: 0, pt: 84, next: 0, cnt: 0, k: 2, v: 9 });
    }
    let churn = |rng: &mut Rng, ops: &mut Vec<Op>, n: u64| {
        // random walk around the current fill level; Fill(1) releases the lowest owned page
        for _ in 0..n {
            match rng.below(10) {
                0..=3 => ops.push(Op::Fill(1)),
                4..=7 => ops.push(Op::Alloc),
                8 => ops.push(Op::Fill(1 + rng.below(4) as u32)),
                _ => {
                    for _ in 0..1 + rng.below(4) {
                        ops.push(Op::Alloc);
                    }
                }
            }
        }
    };
    // up: stop a little before each trunk boundary, churn there, cross, churn again
    for _t in 0..trunks {
        let before = per - 1 - rng.below(3) as u32; // entries in head trunk: 4088..4090 → next release opens a trunk
        ops.push(Op::Fill(before - 8));
        ops.push(Op::Chain);
        { let k = 30 + rng.below(30); churn(rng, &mut ops, k); }
        // the pages about to be released (one of them becomes the next trunk page) carry client data:
        // non-zero page type, next pointer, count field and slot area
        if rng.chance(2, 3) {
            for j in 0..12u32 { ops.push(Op::PokeIdx { i: j, pt: 0x55, next: 1234 + j, cnt: if j % 3 == 0 { 5000 + j } else { 3 + j }, k: 4, v: 1000 + 10 * j }); }
        }
        ops.push(Op::Fill(12));
        { let k = 30 + rng.below(30); churn(rng, &mut ops, k); }
        ops.push(Op::Chain);
    }
    // down: allocate back across the boundaries
    for _t in 0..trunks {
        for _ in 0..(per - 40) {
            ops.push(Op::Alloc);
        }
        { let k = 60 + rng.below(60); churn(rng, &mut ops, k); }
        ops.push(Op::Chain);
    }
    ops.push(Op::Drain);
    ops.push(Op::Chain);
    // and a second life after the drain
    ops.push(Op::Fill(3 + rng.below(5) as u32));
    ops.push(Op::Alloc);
    ops.push(Op::Drain);
    ops.push(Op::Chain);
    (npages, ops)
}

/// remove ops one at a time while the same oracle signature persists (small cases only)
fn shrink(pool: &mut Pool, variant: &str, npages: u32, ops: &[Op], sig: &str, cost: usize) -> Vec<Op> {
    let mut cur: Vec<Op> = ops.to_vec();
    if cur.len() > 120 {
        return cur;
    }
    // budget in executed requests, so that sequences of tens of thousands of steps are not re-run for long
    let mut budget: i64 = 400_000;
    let mut changed = true;
    while changed {
        changed = false;
        let mut i = 0;
        while i < cur.len() {
            if budget <= 0 {
                return cur;
            }
            let mut t = cur.clone();
            t.remove(i);
            let o = run_case(pool, variant, npages, &t);
            budget -= o.reqs.len().max(cost / 4) as i64 + 50;
            if o.oracle.iter().any(|(_, _, s)| s == sig) {
                cur = t;
                changed = true;
            } else {
                i += 1;
            }
        }
    }
    cur
}

pub fn run(ctx: &Ctx) -> Report {
    let mut rep = Report::new(
        "freelist",
        "release/allocate/client-write sequences on a real MmapStorage: short ones (4..44 pages, page 0 \
         zero / foreign header / fake trunk) and long ones that fill, churn around and drain across 1..4 \
         trunk boundaries (4090 entries per trunk); every step compares head, free_count and the head \
         trunk's bytes with the model, whole chains at checkpoints. non-trivial = distinct op sequence \
         with at least one successful release and one allocation that returned a page",
    );
    let path = format!("{}/freelist.db", ctx.scratch);
    let variant = probe_variant(&path);
    let _ = std::fs::remove_file(&path);
    let mut pool = Pool::new(&ctx.scratch);
    rep.notes.push(format!("allocate variant detected in the tree: {variant} (orig = emptied trunk pages are dropped; fixed = handed out)"));
    let mut rng = Rng::new(ctx.seed ^ 0x34);
    let mut cases: Vec<(u32, Vec<Op>, &'static str)> = vec![];
    for c in ctx.corpus_cases("C34") {
        match parse_case(&c) {
            Some((n, ops)) => cases.push((n, ops, "corpus")),
            None => rep.disagree(c.clone(), "unparsable corpus/replay line".into(), "bad-case".into()),
        }
    }
    let nsmall = if ctx.thorough { 40_000 } else { 4_000 };
    for _ in 0..nsmall {
        let (n, ops) = gen_small(&mut rng);
        cases.push((n, ops, "small"));
    }
    let nlong = if ctx.thorough { 150 } else { 14 };
    for i in 0..nlong {
        let trunks = 1 + (i % 4) as u32;
        let (n, ops) = gen_long(&mut rng, trunks);
        cases.push((n, ops, "long"));
    }

    // run the implementation, then the model on the collected requests in one batch
    let mut all_reqs: Vec<String> = vec![];
    let mut outs: Vec<Outcome> = vec![];
    for (n, ops, _) in &cases {
        let o = run_case(&mut pool, variant, *n, ops);
        all_reqs.extend(o.reqs.iter().cloned());
        outs.push(o);
    }
    let resp = model_batch(&ctx.model_bin, "freelist", &all_reqs);
    let mut off = 0usize;
    let mut kept_per_sig: std::collections::BTreeMap<String, u32> = Default::default();
    for ((n, ops, kind), o) in cases.iter().zip(outs.iter()) {
        let case = show_case(*n, ops);
        let nontrivial = o.n_rel > 0 && o.n_alloc_some > 0;
        rep.case(if nontrivial { Some(&case) } else { None });
        rep.count(&format!("cases_{kind}"));
        rep.count_n("ops_compared", o.reqs.len() as u64);
        rep.count_n("alloc_some", o.n_alloc_some);
        rep.count_n("alloc_none", o.n_alloc_none);
        rep.count_n("release_ok", o.n_rel);
        rep.count_n("ops_at_trunk_boundary", o.boundary_hits);
        rep.count(&format!("max_trunks_chained_{}", o.trunks_max.min(5)));
        if *kind == "small" && rep.samples.len() < 6 {
            rep.sample(case.clone());
        }
        for j in 0..o.reqs.len() {
            let same = if o.diverged && j + 1 == o.reqs.len() {
                resp[off + j].starts_with("diverge")
            } else {
                resp[off + j] == o.impl_resp[j]
            };
            if !same {
                let upto = o.op_of_req[j];
                let prefix = show_case(*n, &ops[..=upto.min(ops.len().saturating_sub(1))]);
                rep.disagree(
                    prefix,
                    format!("request #{j} `{}` (op #{upto}): impl=`{}` model=`{}`", o.reqs[j], o.impl_resp[j], resp[off + j]),
                    format!("freelist-step-differs:{}", o.reqs[j].split(' ').next().unwrap_or("")),
                );
                break;
            }
        }
        off += o.reqs.len();
        let mut seen: Vec<String> = vec![];
        for (oi, detail, sig) in &o.oracle {
            if seen.contains(sig) {
                continue;
            }
            seen.push(sig.clone());
            rep.count(&format!("oracle:{sig}"));
            let upto = (*oi).min(ops.len().saturating_sub(1));
            let pre = &ops[..=upto];
            let kept = kept_per_sig.entry(sig.clone()).or_insert(0u32);
            *kept += 1;
            // the report keeps three cases per signature; only those are minimised
            let small = if *kept <= 3 { shrink(&mut pool, variant, *n, pre, sig, o.reqs.len()) } else { pre.to_vec() };
            rep.oracle_fail(show_case(*n, &small), detail.clone(), sig.clone());
        }
    }
    pool.cleanup();
    rep
}
