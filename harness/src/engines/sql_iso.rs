//! C08: uncommitted changes are isolated from other handles; snapshot reads; no lost update.
//!
//! 2-3 handles (`Database::clone()`, the way the crate hands out per-connection handles that share
//! one `SharedDatabase`) on one table `t(id INT, v INT)` without indexes.  Every handle has a script
//! of at most 3 statements; ALL interleavings of the scripts are run, each on a fresh table, one
//! statement at a time from one thread.  Every statement goes to the real engine and to the Lean
//! driver `mvcc`, which answers with (a) the snapshot-isolation spec's result and (b) the result of
//! the M-code model of the engine as it is (shared store, per-handle undo log, BEGIN does not open a
//! snapshot, scans filter on the delete bit only).  engine != M-code model -> disagreement;
//! engine != spec -> oracle failure, classified `iso:dirty-read:<insert|update|delete>`,
//! `iso:nonrepeatable-read`, `iso:lost-update`, `iso:dml-sees-uncommitted`, `iso:dml-sees-later-commit`.
use crate::common::*;
use crate::engines::sqlgen_txn::{exec_on, Res};
use turdb::Database;

#[derive(Clone, Debug, PartialEq)]
pub enum IStmt { Begin, Commit, Rollback, Ins(u32, u32), Upd(u32, u32), Del(u32), Read }

impl IStmt {
    fn show(&self) -> String {
        match self {
            IStmt::Begin => "B".into(), IStmt::Commit => "C".into(), IStmt::Rollback => "R".into(),
            IStmt::Ins(k, v) => format!("I{k}:{v}"), IStmt::Upd(k, v) => format!("U{k}:{v}"), IStmt::Del(k) => format!("D{k}"), IStmt::Read => "Q".into(),
        }
    }
    fn parse(s: &str) -> Option<IStmt> {
        let (h, r) = s.split_at(1);
        Some(match h {
            "B" => IStmt::Begin, "C" => IStmt::Commit, "R" => IStmt::Rollback, "Q" => IStmt::Read,
            "I" => { let (k, v) = r.split_once(':')?; IStmt::Ins(k.parse().ok()?, v.parse().ok()?) }
            "U" => { let (k, v) = r.split_once(':')?; IStmt::Upd(k.parse().ok()?, v.parse().ok()?) }
            "D" => IStmt::Del(r.parse().ok()?),
            _ => return None,
        })
    }
    fn sql(&self, t: &str) -> String {
        match self {
            IStmt::Begin => "BEGIN".into(), IStmt::Commit => "COMMIT".into(), IStmt::Rollback => "ROLLBACK".into(),
            IStmt::Ins(k, v) => format!("INSERT INTO {t} VALUES ({k}, {v})"),
            IStmt::Upd(k, v) => format!("UPDATE {t} SET v = {v} WHERE id = {k}"),
            IStmt::Del(k) => format!("DELETE FROM {t} WHERE id = {k}"),
            IStmt::Read => format!("SELECT id, v FROM {t}"),
        }
    }
    fn model(&self, h: usize) -> String {
        match self {
            IStmt::Begin => format!("op {h} begin"), IStmt::Commit => format!("op {h} commit"), IStmt::Rollback => format!("op {h} rollback"),
            IStmt::Ins(k, v) => format!("op {h} ins {k} {v}"), IStmt::Upd(k, v) => format!("op {h} upd {k} {v}"),
            IStmt::Del(k) => format!("op {h} del {k}"), IStmt::Read => format!("op {h} read"),
        }
    }
    fn key(&self) -> Option<u32> { match self { IStmt::Ins(k, _) | IStmt::Upd(k, _) | IStmt::Del(k) => Some(*k), _ => None } }
}

/// a schedule: initial rows, then (handle, statement) in execution order
#[derive(Clone, Debug)]
pub struct Sched { pub nh: usize, pub init: Vec<(u32, u32)>, pub steps: Vec<(usize, IStmt)> }

impl Sched {
    fn show(&self) -> String {
        format!("handles={} init={} steps={}", self.nh,
            if self.init.is_empty() { "-".to_string() } else { self.init.iter().map(|(k, v)| format!("{k}:{v}")).collect::<Vec<_>>().join(",") },
            self.steps.iter().map(|(h, s)| format!("{h}.{}", s.show())).collect::<Vec<_>>().join(";"))
    }
    fn parse(line: &str) -> Option<Sched> {
        let mut nh = 2; let mut init = vec![]; let mut steps = vec![];
        for f in line.split_whitespace() {
            let (k, v) = f.split_once('=')?;
            match k {
                "handles" => nh = v.parse().ok()?,
                "init" => if v != "-" { for r in v.split(',') { let (a, b) = r.split_once(':')?; init.push((a.parse().ok()?, b.parse().ok()?)); } },
                "steps" => for s in v.split(';') { let (h, st) = s.split_once('.')?; steps.push((h.parse().ok()?, IStmt::parse(st)?)); },
                _ => return None,
            }
        }
        Some(Sched { nh, init, steps })
    }
}

fn interleavings(scripts: &[Vec<IStmt>]) -> Vec<Vec<(usize, IStmt)>> {
    fn go(scripts: &[Vec<IStmt>], pos: &mut Vec<usize>, cur: &mut Vec<(usize, IStmt)>, out: &mut Vec<Vec<(usize, IStmt)>>) {
        let mut any = false;
        for h in 0..scripts.len() {
            if pos[h] < scripts[h].len() {
                any = true;
                cur.push((h, scripts[h][pos[h]].clone()));
                pos[h] += 1;
                go(scripts, pos, cur, out);
                pos[h] -= 1;
                cur.pop();
            }
        }
        if !any { out.push(cur.clone()); }
    }
    let mut out = vec![];
    go(scripts, &mut vec![0; scripts.len()], &mut vec![], &mut out);
    out
}

fn parse_read(s: &str) -> Vec<(u32, u32)> {
    if s == "-" { return vec![]; }
    s.split(',').filter_map(|x| { let (k, v) = x.split_once(':')?; Some((k.parse().ok()?, v.parse().ok()?)) }).collect()
}

struct Runner<'a> {
    ctx: &'a Ctx,
    model: Model,
    db: Option<Database>,
    dir: String,
    used: usize,
    seq: u64,
}

impl<'a> Runner<'a> {
    fn fresh_db(&mut self) -> bool {
        if let Some(db) = self.db.take() { let _ = guarded(std::panic::AssertUnwindSafe(move || drop(db))); let _ = std::fs::remove_dir_all(&self.dir); }
        self.dir = format!("{}/iso-{}-{}", self.ctx.scratch, std::process::id(), self.seq);
        let _ = std::fs::remove_dir_all(&self.dir);
        let d = self.dir.clone();
        match guarded(move || Database::create(&d)) { Ok(Ok(db)) => { self.db = Some(db); self.used = 0; true } _ => false }
    }

    fn run(&mut self, rep: &mut Report, sc: &Sched) {
        self.seq += 1;
        if self.db.is_none() || self.used >= 40 { if !self.fresh_db() { rep.count("abandon:create-failed"); return; } }
        self.used += 1;
        let t = format!("t{}", self.seq);
        let main = self.db.as_ref().unwrap();
        if exec_on(main, &format!("CREATE TABLE {t} (id INT, v INT)")) != Res::Ok { rep.count("abandon:setup-failed"); return; }
        self.model.ask("reset");
        for (k, v) in &sc.init {
            let r = exec_on(main, &format!("INSERT INTO {t} VALUES ({k}, {v})"));
            self.model.ask(&format!("op 9 ins {k} {v}"));
            if r != Res::Affected(1) { rep.count("abandon:setup-failed"); return; }
        }
        let handles: Vec<Database> = (0..sc.nh).map(|_| main.clone()).collect();
        let mut spec_diverged = false;
        let mut model_off = false;
        let case = sc.show();
        let mut flagged = false;
        for (i, (h, st)) in sc.steps.iter().enumerate() {
            let resp = self.model.ask(&st.model(*h));
            let Some(r) = resp.strip_prefix("si ") else { rep.disagree(case.clone(), format!("bad model response {resp}"), "iso-model".into()); break; };
            let Some((si, eng)) = r.split_once(" eng ") else { rep.disagree(case.clone(), format!("bad model response {resp}"), "iso-model".into()); break; };
            let eres = exec_on(&handles[*h], &st.sql(&t));
            let got = match (&eres, st) {
                (Res::Rows(rows), _) => {
                    let mut v: Vec<(u32, u32)> = rows.iter().filter_map(|r| { let mut p = r.split(','); Some((p.next()?.strip_prefix('I')?.parse().ok()?, p.next()?.strip_prefix('I')?.parse().ok()?)) }).collect();
                    v.sort();
                    if v.is_empty() { "-".to_string() } else { v.iter().map(|(k, v)| format!("{k}:{v}")).collect::<Vec<_>>().join(",") }
                }
                (Res::Affected(n), _) => format!("aff{n}"),
                (Res::Ok, _) => "ok".into(),
                (Res::Err(_), _) => "err".into(),
                (Res::Panic(p), _) => format!("panic:{p}"),
            };
            rep.count(&format!("stmt:{}", st.show().chars().next().unwrap()));
            // (1) correspondence with the M-code model of the engine
            if got != eng && !model_off {
                rep.disagree(case.clone(), format!("step {i} ({h}.{}): engine {got}, engine model {eng}", st.show()), "iso-engine-model".into());
                model_off = true; // keep evaluating the property itself on the rest of the schedule
            }
            // (2) the property: the engine must behave like the SI spec
            if spec_diverged { continue; }
            if got != si {
                spec_diverged = true;
                let sig = match st {
                    IStmt::Read => {
                        let exp = parse_read(si); let act = parse_read(&got);
                        let mut keys: Vec<u32> = exp.iter().chain(act.iter()).map(|x| x.0).collect();
                        keys.sort(); keys.dedup();
                        let mut sig = "iso:read-other".to_string();
                        for k in keys {
                            let e: Vec<u32> = exp.iter().filter(|x| x.0 == k).map(|x| x.1).collect();
                            let a: Vec<u32> = act.iter().filter(|x| x.0 == k).map(|x| x.1).collect();
                            if e == a { continue; }
                            let ex = self.model.ask(&format!("explain {h} {k}"));
                            // pending <h:wV|h:d,..> latest <v|-> snap <v|-> intxn <0|1>
                            let p: Vec<&str> = ex.split(' ').collect();
                            let pending = p.get(1).copied().unwrap_or("-");
                            let latest = p.get(3).copied().unwrap_or("-");
                            let mut dirty = None;
                            if pending != "-" {
                                for w in pending.split(',') {
                                    let (_, what) = w.split_once(':').unwrap_or(("", ""));
                                    if what == "d" && a.is_empty() && !e.is_empty() { dirty = Some("delete"); }
                                    if let Some(v) = what.strip_prefix('w') { if a.iter().any(|x| x.to_string() == v) { dirty = Some(if e.is_empty() { "insert" } else { "update" }); } }
                                }
                            }
                            if let Some(d) = dirty { sig = format!("iso:dirty-read:{d}"); break; }
                            let latest_v: Vec<u32> = latest.parse().ok().into_iter().collect();
                            if p.get(7).copied() == Some("1") && a == latest_v { sig = "iso:nonrepeatable-read".into(); break; }
                        }
                        if sig == "iso:read-other" {
                            // a ROLLBACK of another handle before this read: did it re-install its undo images over a
                            // row that somebody else wrote in the meantime (listed defect), or does a value written
                            // by the aborted transaction itself survive the ROLLBACK?
                            let writes = |s2: &IStmt, k: u32| match s2 { IStmt::Ins(k2, _) | IStmt::Upd(k2, _) | IStmt::Del(k2) => *k2 == k, _ => false };
                            let diff: Vec<u32> = { let mut ks: Vec<u32> = exp.iter().chain(act.iter()).map(|x| x.0).collect(); ks.sort(); ks.dedup();
                                ks.into_iter().filter(|k| exp.iter().filter(|x| x.0 == *k).map(|x| x.1).collect::<Vec<_>>() != act.iter().filter(|x| x.0 == *k).map(|x| x.1).collect::<Vec<_>>()).collect() };
                            'outer: for (ri, (h2, s2)) in sc.steps[..i].iter().enumerate().rev() {
                                if h2 == h || *s2 != IStmt::Rollback { continue; }
                                let bi = sc.steps[..ri].iter().rposition(|(hh, ss)| hh == h2 && *ss == IStmt::Begin).unwrap_or(0);
                                for k in &diff {
                                    let Some(wi) = (bi..ri).find(|j| sc.steps[*j].0 == *h2 && writes(&sc.steps[*j].1, *k)) else { continue };
                                    if (wi..ri).any(|j| sc.steps[j].0 != *h2 && writes(&sc.steps[j].1, *k)) { sig = "iso:rollback-overwrites-committed-write".into(); break 'outer; }
                                    let aborted_vals: Vec<u32> = (bi..ri).filter(|j| sc.steps[*j].0 == *h2).filter_map(|j| match &sc.steps[j].1 { IStmt::Ins(k2, v) | IStmt::Upd(k2, v) if k2 == k => Some(*v), _ => None }).collect();
                                    if act.iter().any(|x| x.0 == *k && aborted_vals.contains(&x.1)) { sig = "iso:aborted-write-visible-after-rollback".into(); break 'outer; }
                                    sig = "iso:state-after-rollback-wrong".into(); break 'outer;
                                }
                            }
                        }
                        sig
                    }
                    IStmt::Commit => if si == "conflict" && got == "ok" { "iso:lost-update".to_string() } else { format!("iso:commit:spec-{si}:engine-{got}") },
                    IStmt::Upd(k, _) | IStmt::Del(k) => {
                        let ex = self.model.ask(&format!("explain {h} {k}"));
                        let p: Vec<&str> = ex.split(' ').collect();
                        let pending = p.get(1).copied().unwrap_or("-");
                        let latest = p.get(3).copied().unwrap_or("-");
                        let intxn = p.get(7).copied() == Some("1");
                        if si == "aff0" && got == "aff1" {
                            if pending.contains(":w") { "iso:dml-sees-uncommitted".to_string() }
                            else if intxn && latest != "-" { "iso:dml-sees-later-commit".to_string() }
                            else {
                                // the engine's UPDATE/DELETE also match tombstones of deleted rows: a defect,
                                // but not one of isolation (no other handle's write is involved)
                                rep.count("abandon:dml-matches-deleted-row");
                                break;
                            }
                        } else if si == "aff1" && got == "aff0" && pending.contains(":d") { "iso:dml-sees-uncommitted".to_string() }
                        else { format!("iso:dml:spec-{si}:engine-{got}") }
                    }
                    _ => format!("iso:{}:spec-{si}:engine-{got}", st.show().chars().next().unwrap()),
                };
                flagged = true;
                rep.oracle_fail(case.clone(), format!("step {i} ({h}.{}): snapshot-isolation spec {si}, engine {got}", st.show()), sig);
            }
        }
        // leave no transaction open on the shared database
        for h in handles { let _ = exec_on(&h, "ROLLBACK"); let _ = guarded(std::panic::AssertUnwindSafe(move || drop(h))); }
        let conc = sc.steps.iter().map(|x| x.0).collect::<std::collections::BTreeSet<_>>().len() > 1;
        rep.case(if conc { Some(&case) } else { None });
        rep.count(if flagged { "schedule:violates-si" } else { "schedule:si-consistent" });
        if self.seq % 211 == 0 { rep.sample(case); }
    }
}

fn templates() -> Vec<(&'static str, Vec<IStmt>)> {
    use IStmt::*;
    vec![
        ("txn-insert-commit", vec![Begin, Ins(5, 50), Commit]),
        ("txn-update-commit", vec![Begin, Upd(1, 11), Commit]),
        ("txn-delete-commit", vec![Begin, Del(1), Commit]),
        ("txn-update-rollback", vec![Begin, Upd(1, 12), Rollback]),
        ("txn-insert-rollback", vec![Begin, Ins(6, 60), Rollback]),
        ("txn-delete-rollback", vec![Begin, Del(2), Rollback]),
        ("txn-read-read", vec![Begin, Read, Read]),
        ("auto-read-read", vec![Read, Read]),
        ("auto-update", vec![Upd(1, 13), Read]),
        ("txn-update2-commit", vec![Begin, Upd(1, 14), Commit]),
        ("txn-read-update", vec![Begin, Read, Upd(2, 24)]),
        ("auto-insert-delete", vec![Ins(7, 70), Del(2), Read]),
    ]
}

pub fn run(ctx: &Ctx) -> Report {
    let mut rep = Report::new(
        "sql_iso",
        "2 handles: every ordered pair of 12 script templates (transactional insert/update/delete ending in COMMIT or ROLLBACK, snapshot readers, autocommit readers/writers; <= 3 statements each) x ALL interleavings; 3 handles: random triples of 2-statement scripts x all 90 interleavings; random layer: random scripts over keys {1,2,5,6,7}; long-script layer: one transaction of 2-4 writes on rows 1/2 (repeated writes of one row) ending in ROLLBACK or COMMIT against a short reader/writer script. One thread issues the statements; handles are clones of one Database. non-trivial = distinct schedule in which at least two handles issue statements",
    );
    let mut r = Runner { ctx, model: Model::spawn(&ctx.model_bin, "mvcc"), db: None, dir: String::new(), used: 0, seq: 0 };
    for line in ctx.corpus_cases("C08") {
        match Sched::parse(&line) { Some(s) => r.run(&mut rep, &s), None => rep.notes.push(format!("unparsable corpus line: {line}")) }
    }
    if ctx.replay.is_none() {
        // one fixed schedule per way of breaking isolation, every run
        for line in [
            "handles=2 init=1:10,2:20 steps=0.B;0.I5:50;1.Q;0.C",
            "handles=2 init=1:10,2:20 steps=0.B;0.U1:11;1.Q;0.C",
            "handles=2 init=1:10,2:20 steps=0.B;0.D1;1.Q;0.C",
            "handles=2 init=1:10,2:20 steps=1.B;1.Q;0.U1:13;1.Q;1.C",
            "handles=2 init=1:10,2:20 steps=0.B;1.B;0.U1:11;1.U1:16;0.C;1.C",
            "handles=2 init=1:10,2:20 steps=0.B;0.U1:12;1.U1:18;0.R;1.Q",
            "handles=2 init=1:10,2:20 steps=0.B;0.I5:50;1.U5:60;0.C",
            "handles=2 init=1:10,2:20 steps=1.B;0.B;0.I5:50;0.C;1.U5:60;1.C",
            "handles=3 init=1:10,2:20 steps=0.B;1.B;0.U1:11;1.U1:12;2.Q;0.C;2.Q;1.C;2.Q",
            // one transaction writes the same row more than once, then aborts / commits: what the other handle reads afterwards
            "handles=2 init=1:10,2:20 steps=0.B;0.U1:11;0.U1:12;0.R;1.Q",
            "handles=2 init=1:10,2:20 steps=0.B;0.U1:11;1.Q;0.U1:12;0.R;1.Q;1.U1:30;1.Q",
            "handles=2 init=1:10,2:20 steps=0.B;0.U1:11;0.D1;0.R;1.Q",
            "handles=2 init=1:10,2:20 steps=0.B;0.U1:11;0.U2:21;0.U1:12;0.U2:22;0.R;1.Q",
            "handles=2 init=1:10,2:20 steps=0.B;0.I5:50;0.U5:51;0.U5:52;0.R;1.Q",
            "handles=2 init=1:10,2:20 steps=0.B;0.U1:11;0.U1:12;0.U1:13;0.C;1.Q",
            "handles=2 init=1:10,2:20 steps=1.B;1.U2:25;0.B;0.U1:11;0.U1:12;1.C;0.R;1.Q;0.Q",
        ] {
            let sc = Sched::parse(line).expect("fixed schedule");
            r.run(&mut rep, &sc);
        }
        let init = vec![(1u32, 10u32), (2, 20)];
        let ts = templates();
        let mut rng = Rng::new(ctx.seed);
        for (_, a) in &ts {
            for (_, b) in &ts {
                // the second script inserts other keys and writes other values than the first
                let b: Vec<IStmt> = b.iter().map(|st| match st { IStmt::Ins(k, v) => IStmt::Ins(k + 3, v + 1), IStmt::Upd(k, v) => IStmt::Upd(*k, v + 5), o => o.clone() }).collect();
                let all = interleavings(&[a.clone(), b.clone()]);
                // quick: every interleaving of short pairs, a seeded sample of 8 for the 20-interleaving pairs
                let pick: Vec<usize> = if ctx.thorough || all.len() <= 10 { (0..all.len()).collect() } else {
                    let mut v: Vec<usize> = vec![0, all.len() - 1];
                    while v.len() < 8 { let x = rng.below(all.len() as u64) as usize; if !v.contains(&x) { v.push(x); } }
                    v
                };
                for i in pick { r.run(&mut rep, &Sched { nh: 2, init: init.clone(), steps: all[i].clone() }); }
            }
        }
        // three handles, 2 statements each, all 90 interleavings of a few triples
        use IStmt::*;
        let triples: Vec<[Vec<IStmt>; 3]> = vec![
            [vec![Begin, Upd(1, 11)], vec![Begin, Upd(1, 12)], vec![Read, Read]],
            [vec![Begin, Ins(5, 50)], vec![Begin, Read], vec![Del(2), Read]],
        ];
        for tr in &triples {
            let all = interleavings(&tr[..]);
            let n = if ctx.thorough { all.len() } else { 30 };
            for k in 0..n { let i = if ctx.thorough { k } else { rng.below(all.len() as u64) as usize }; r.run(&mut rep, &Sched { nh: 3, init: init.clone(), steps: all[i].clone() }); }
        }
        // random scripts
        let nrand = if ctx.thorough { 3000 } else { 150 };
        for _ in 0..nrand {
            let nh = if rng.chance(1, 4) { 3 } else { 2 };
            let mut scripts = vec![];
            let mut next_ins = 5u32;
            for _ in 0..nh {
                let len = rng.range(1, 3) as usize;
                let mut s = vec![];
                let mut in_txn = false;
                for _ in 0..len {
                    let k = *rng.pick(&[1u32, 2, 5, 6]);
                    let v = rng.range(30, 99) as u32;
                    s.push(match rng.below(10) {
                        0 | 1 if !in_txn => { in_txn = true; Begin }
                        2 if in_txn => { in_txn = false; Commit }
                        3 if in_txn => { in_txn = false; Rollback }
                        4 | 5 => Read,
                        6 => { next_ins += 1; Ins(next_ins - 1, v) }
                        7 | 8 => Upd(k, v),
                        _ => Del(k),
                    });
                }
                scripts.push(s);
            }
            let all = interleavings(&scripts);
            let i = rng.below(all.len() as u64) as usize;
            r.run(&mut rep, &Sched { nh, init: init.clone(), steps: all[i].clone() });
        }
    }
    if ctx.replay.is_none() {
        // longer scripts on few rows: repeated writes of one row inside one transaction
        use IStmt::*;
        let mut rng = Rng::new(ctx.seed ^ 0x10A6);
        let init = vec![(1u32, 10u32), (2, 20)];
        let nlong = if ctx.thorough { 1500 } else { 80 };
        for _ in 0..nlong {
            let mut a = vec![Begin];
            for _ in 0..rng.range(2, 4) {
                let k = *rng.pick(&[1u32, 1, 2]);
                a.push(match rng.below(8) { 0 => Del(k), 1 => Read, _ => Upd(k, rng.range(30, 99) as u32) });
            }
            a.push(if rng.chance(2, 3) { Rollback } else { Commit });
            let b = match rng.below(3) { 0 => vec![Read], 1 => vec![Read, Read], _ => vec![Upd(*rng.pick(&[1u32, 2]), rng.range(100, 120) as u32), Read] };
            let mut all = interleavings(&[a.clone(), b.clone()]);
            let i = rng.below(all.len() as u64) as usize;
            let mut steps = all.swap_remove(i);
            steps.push((1, Read));
            rep.count("layer:long-scripts");
            r.run(&mut rep, &Sched { nh: 2, init: init.clone(), steps });
        }
    }
    if ctx.replay.is_none() { super::sql_txn::shrink_rollback_scenario(ctx, &mut rep, "iso:aborted-write-visible-after-rollback:full-leaf-shrink"); }
    if let Some(db) = r.db.take() { let _ = guarded(std::panic::AssertUnwindSafe(move || drop(db))); let _ = std::fs::remove_dir_all(&r.dir); }
    rep.notes.push(format!("model requests {}", r.model.requests));
    rep
}
