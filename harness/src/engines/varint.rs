//! C27: encode_varint / decode_varint / varint_len vs the Lean model `TurVerif.Varint`.
use crate::common::*;
use turdb::encoding::varint::{decode_varint, encode_varint, varint_len};

fn impl_enc(v: u64) -> Result<(Vec<u8>, usize), String> {
    guarded(move || {
        let mut buf = [0u8; 9];
        let n = encode_varint(v, &mut buf);
        (buf[..n].to_vec(), n)
    })
}

fn impl_dec(b: &[u8]) -> String {
    let b2 = b.to_vec();
    match guarded(move || decode_varint(&b2).map_err(|e| e.to_string())) {
        Ok(Ok((v, n))) => format!("ok {v} {n}"),
        Ok(Err(_)) => "err".to_string(),
        Err(m) => format!("panic {m}"),
    }
}

pub fn run(ctx: &Ctx) -> Report {
    let mut rep = Report::new(
        "varint",
        "values: every class threshold ±2, powers of two ±1, random u64 of random bit width; \
         byte strings: all of length ≤2, every first byte × random tails of length 0..9, every \
         truncation of each valid encoding. non-trivial = distinct (value|byte string) whose \
         encoding is longer than one byte or whose decoding is an error/multi-byte value",
    );
    let mut rng = Rng::new(ctx.seed);
    let mut values: Vec<u64> = vec![];
    for t in [0u64, 240, 241, 2287, 2288, 67823, 67824, 0xFF_FFFF, 0x100_0000, 0xFFFF_FFFF, 0x1_0000_0000, u64::MAX] {
        for d in -2i64..=2 {
            values.push(t.wrapping_add(d as u64));
        }
    }
    for k in 0..64 {
        let p = 1u64 << k;
        values.extend([p - 1, p, p.wrapping_add(1)]);
    }
    let nrand = if ctx.thorough { 3_000_000 } else { 100_000 };
    for _ in 0..nrand {
        let w = rng.below(65);
        let v = if w == 0 { 0 } else { rng.next() >> (64 - w) };
        values.push(v);
    }
    for c in ctx.corpus_cases("C27") {
        let p: Vec<&str> = c.split_whitespace().collect();
        if p.len() == 2 && p[0] == "enc" {
            if let Ok(v) = p[1].parse() { values.push(v); }
        }
    }
    // ---- encode side
    let mut reqs = vec![];
    for v in &values {
        reqs.push(format!("enc {v}"));
        reqs.push(format!("len {v}"));
    }
    let resp = model_batch(&ctx.model_bin, "varint", &reqs);
    let mut strings: Vec<Vec<u8>> = vec![];
    for (i, v) in values.iter().enumerate() {
        let case = format!("enc {v}");
        let menc = &resp[2 * i];
        let mlen = &resp[2 * i + 1];
        let ilen = varint_len(*v);
        rep.count(&format!("len_class_{ilen}"));
        match impl_enc(*v) {
            Ok((bytes, n)) => {
                let h = hex(&bytes);
                rep.case(if n > 1 { Some(&case) } else { None });
                if i % 9973 == 0 { rep.sample(format!("{case} -> {h}")); }
                if &h != menc || mlen != &ilen.to_string() {
                    rep.disagree(case.clone(), format!("impl enc={h} len={ilen}; model enc={menc} len={mlen}"), "enc-differs".into());
                }
                // property oracle on the implementation
                let d = impl_dec(&bytes);
                if d != format!("ok {v} {ilen}") || n != ilen {
                    rep.oracle_fail(case.clone(), format!("decode(encode({v}))={d}, written={n}, varint_len={ilen}"), "roundtrip".into());
                }
                // with trailing bytes
                let mut ext = bytes.clone();
                ext.extend(rng.bytes(3));
                let d2 = impl_dec(&ext);
                if d2 != format!("ok {v} {ilen}") {
                    rep.oracle_fail(format!("dec {}", hex(&ext)), format!("decode(encode({v})++tail)={d2}"), "roundtrip-tail".into());
                }
                if i < 400 || i % 64 == 0 {
                    for k in 0..bytes.len() { strings.push(bytes[..k].to_vec()); }
                    strings.push(ext);
                }
            }
            Err(m) => {
                rep.case(Some(&case));
                rep.oracle_fail(case.clone(), format!("encode panicked: {m}"), "panic".into());
            }
        }
    }
    // ---- decode side
    strings.push(vec![]);
    for a in 0..=255u8 {
        strings.push(vec![a]);
        for b in 0..=255u8 { strings.push(vec![a, b]); }
        let ntails = if ctx.thorough { 4096 } else { 256 };
        for _ in 0..ntails {
            let n = rng.below(10) as usize;
            let mut s = vec![a];
            s.extend(rng.bytes(n));
            strings.push(s);
        }
    }
    for c in ctx.corpus_cases("C27") {
        let p: Vec<&str> = c.split_whitespace().collect();
        if p.len() == 2 && p[0] == "dec" { strings.push(unhex(p[1])); }
    }
    let reqs: Vec<String> = strings.iter().map(|s| format!("dec {}", hex(s))).collect();
    let resp = model_batch(&ctx.model_bin, "varint", &reqs);
    for (i, s) in strings.iter().enumerate() {
        let case = &reqs[i];
        let d = impl_dec(s);
        let m = &resp[i];
        let mcanon = if m.starts_with("err") { "err".to_string() } else { m.clone() };
        let class = if d.starts_with("ok") { "dec_ok" } else if d == "err" { "dec_err" } else { "dec_panic" };
        rep.count(class);
        rep.case(if s.len() > 1 || d == "err" { Some(case) } else { None });
        if i % 7919 == 0 { rep.sample(format!("{case} -> {d}")); }
        if d != mcanon {
            rep.disagree(case.clone(), format!("impl={d} model={m}"), "dec-differs".into());
        }
        // oracle: value or error, never panic; consumed ≤ len; re-encoding a decoded canonical value
        if d.starts_with("panic") {
            rep.oracle_fail(case.clone(), d.clone(), "panic".into());
        } else if d.starts_with("ok") {
            let p: Vec<&str> = d.split(' ').collect();
            let n: usize = p[2].parse().unwrap();
            if n > s.len() {
                rep.oracle_fail(case.clone(), format!("consumed {n} > input length {}", s.len()), "overread".into());
            }
        }
    }
    rep
}
