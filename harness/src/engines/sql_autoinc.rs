//! C12: AUTO_INCREMENT histories on the real engine vs the M-code model `TurVerif.AutoInc`, with the
//! property's own oracle evaluated independently of the model: every generated id is distinct from
//! every value the column has ever held and greater than every previously generated id.
//!
//! Case syntax (also the replay / corpus syntax), one history per line:
//!   `uniq=<0|1> ; insert N 5 N! ; delete 3 ; begin ; rollback ; commit ; reopen ; truncate <0|1>`
//! `N` = NULL id (generated), integer = explicit id, suffix `!` = the row violates NOT NULL on the
//! payload column (the statement fails at that row, after the id has been assigned).
use crate::common::*;
use crate::sqlgen::*;
use std::collections::HashMap;

#[derive(Clone, Debug, PartialEq)]
enum Tag { Live { failed: bool, epoch: u32 }, SameStmt, Deleted, RolledBack, Truncated }

#[derive(Clone, Debug)]
struct Cell { id: Option<i64>, bad: bool }

fn parse_cells(ws: &[&str]) -> Option<Vec<Cell>> {
    ws.iter().map(|w| {
        let bad = w.ends_with('!');
        let b = w.trim_end_matches('!');
        if b == "N" { Some(Cell { id: None, bad }) } else { b.parse::<i64>().ok().map(|i| Cell { id: Some(i), bad }) }
    }).collect()
}

struct Hist {
    dbh: Dbh,
    uniq: bool,
    serial: i64,
    held: HashMap<i64, Tag>,
    last_gen: i64,
    last_event: &'static str,
    epoch: u32,
    in_txn: bool,
    txn_inserted: Vec<i64>,
    /// an earlier statement failed after writing some of its rows: the engine skips the header
    /// update on failure, so later anomalies are attributed to that root cause
    poisoned: bool,
}

impl Hist {
    fn dump(&self) -> Result<Vec<(i64, i64)>, String> {
        // (id, payload); id NULL is impossible for written rows (generated or explicit)
        match self.dbh.exec("SELECT id, v FROM a") {
            Out::Rows(rs) => Ok(rs.iter().map(|r| {
                let g = |c: &String| c.strip_prefix('I').and_then(|x| x.parse::<i64>().ok()).unwrap_or(i64::MIN);
                (g(&r[0]), g(&r[1]))
            }).collect()),
            Out::Err(e) => Err(format!("err {e}")),
            Out::Panic(p) => Err(format!("panic {p}")),
            o => Err(format!("{o:?}")),
        }
    }
}

fn sorted_ids(d: &[(i64, i64)]) -> String {
    let mut v: Vec<i64> = d.iter().map(|x| x.0).collect();
    v.sort();
    if v.is_empty() { "-".into() } else { v.iter().map(|x| x.to_string()).collect::<Vec<_>>().join(",") }
}

fn run_history(ctx: &Ctx, rep: &mut Report, model: &mut Model, case: &str, tag: &str) {
    let parts: Vec<&str> = case.split(';').map(|s| s.trim()).filter(|s| !s.is_empty()).collect();
    if parts.is_empty() { return; }
    let uniq = parts[0] != "uniq=0";
    let dbh = Dbh::create(ctx, &format!("c12-{tag}"));
    dbh.must(&format!("CREATE TABLE a (id INT {}AUTO_INCREMENT, v INT NOT NULL)", if uniq { "PRIMARY KEY " } else { "" }));
    model.ask(&format!("reset {}", uniq as u8));
    let mut h = Hist { dbh, uniq, serial: 1000, held: HashMap::new(), last_gen: 0, last_event: "fresh", epoch: 0, in_txn: false, txn_inserted: vec![], poisoned: false };
    let mut script = vec![parts[0].to_string()];
    let mut nontrivial = false;
    for op in parts.iter().skip(1) {
        script.push(op.to_string());
        let so_far = script.join(" ; ");
        let ws: Vec<&str> = op.split_whitespace().collect();
        rep.count(&format!("op_{}", ws[0]));
        let before = match h.dump() { Ok(d) => d, Err(e) => { rep.oracle_fail(so_far, format!("dump failed: {e}"), "autoinc:dump:error".into()); return; } };
        let mresp = model.ask(op);
        if mresp == "bad-op" { rep.notes.push(format!("unparsable op in case: {op}")); return; }
        let m_ok = mresp.starts_with("ok ");
        let mfield = |k: &str| mresp.split_whitespace().find_map(|w| w.strip_prefix(k).map(|s| s.to_string())).unwrap_or_default();
        match ws[0] {
            "insert" => {
                let cells = match parse_cells(&ws[1..]) { Some(c) if !c.is_empty() => c, _ => { rep.notes.push(format!("bad cells: {op}")); return; } };
                let payloads: Vec<Option<i64>> = cells.iter().map(|c| if c.bad { None } else { h.serial += 1; Some(h.serial) }).collect();
                let all_null = cells.iter().all(|c| c.id.is_none());
                let omit_id = all_null && h.serial % 2 == 0;
                let sql = if omit_id {
                    format!("INSERT INTO a (v) VALUES {}", payloads.iter().map(|p| format!("({})", p.map(|x| x.to_string()).unwrap_or("NULL".into()))).collect::<Vec<_>>().join(", "))
                } else {
                    format!("INSERT INTO a (id, v) VALUES {}", cells.iter().zip(&payloads).map(|(c, p)| format!("({}, {})",
                        c.id.map(|x| if x < 0 { format!("({x})") } else { x.to_string() }).unwrap_or("NULL".into()), p.map(|x| x.to_string()).unwrap_or("NULL".into()))).collect::<Vec<_>>().join(", "))
                };
                let out = h.dbh.exec(&sql);
                let (e_ok, e_msg) = match &out { Out::Affected(..) => (true, String::new()), Out::Err(e) => (false, e.clone()), Out::Panic(p) => (false, format!("panic: {p}")), o => (false, format!("{o:?}")) };
                let after = match h.dump() { Ok(d) => d, Err(e) => { rep.oracle_fail(so_far, format!("dump failed: {e}"), "autoinc:dump:error".into()); return; } };
                // ids the engine gave to the cells of this statement, in row order
                let mut gens: Vec<i64> = vec![];
                let mut collided_user = false;
                let n_generated_cells = cells.iter().filter(|c| c.id.is_none()).count();
                if n_generated_cells > 0 { nontrivial = true; }
                for (c, p) in cells.iter().zip(&payloads) {
                    let written = p.and_then(|pl| after.iter().find(|r| r.1 == pl).map(|r| r.0));
                    match (c.id, written) {
                        (None, Some(g)) => {
                            gens.push(g);
                            // ---- the property, evaluated on the engine's own output
                            if let Some(t) = h.held.get(&g) {
                                let scen = match t {
                                    _ if h.poisoned => "after-failed-stmt",
                                    Tag::SameStmt => "explicit-in-same-stmt",
                                    Tag::Deleted => "after-delete",
                                    Tag::RolledBack => "after-rollback",
                                    Tag::Truncated => "after-truncate",
                                    Tag::Live { failed: true, .. } => "after-failed-stmt",
                                    Tag::Live { epoch, .. } if *epoch < h.epoch => "after-reopen",
                                    Tag::Live { .. } => "live-value",
                                };
                                rep.oracle_fail(so_far.clone(), format!("{sql}: generated id {g} was already held by the column ({t:?})"), format!("autoinc:{scen}:reused"));
                            } else if g <= h.last_gen {
                                rep.oracle_fail(so_far.clone(), format!("{sql}: generated id {g} is not greater than the previously generated {}", h.last_gen), format!("autoinc:{}:not-increasing", if h.poisoned { "after-failed-stmt" } else { h.last_event }));
                            }
                            if g > h.last_gen { h.last_gen = g; }
                            h.held.insert(g, Tag::SameStmt);
                            if h.in_txn { h.txn_inserted.push(g); }
                        }
                        (Some(p), Some(_)) => { h.held.insert(p, Tag::SameStmt); if h.in_txn { h.txn_inserted.push(p); } }
                        (Some(p), None) => {
                            // explicit id not written: the user's own value may be at fault
                            if p < 0 || (h.uniq && (before.iter().any(|r| r.0 == p) || matches!(h.held.get(&p), Some(Tag::SameStmt)))) { collided_user = true; }
                        }
                        (None, None) => {}
                    }
                }
                let has_bad = cells.iter().any(|c| c.bad);
                if !e_ok && !has_bad && !collided_user {
                    // nothing in the statement violates a constraint by itself: the generator produced a colliding id
                    let scen = if e_msg.contains("key already exists") && h.epoch > 0 { "after-reopen" } else if h.poisoned { "after-failed-stmt" } else if cells.iter().any(|c| c.id.is_some()) { "explicit-in-same-stmt" } else { h.last_event };
                    rep.oracle_fail(so_far.clone(), format!("{sql}: statement failed although no supplied value violates a constraint: {e_msg}"), format!("autoinc:{scen}:error"));
                }
                for t in h.held.values_mut() { if *t == Tag::SameStmt { *t = Tag::Live { failed: !e_ok, epoch: h.epoch }; } }
                if !e_ok { h.last_event = "after-failed-stmt"; if after.len() > before.len() { h.poisoned = true; } }
                // ---- correspondence with the M-code model
                let e_gen = if gens.is_empty() { "-".to_string() } else { gens.iter().map(|x| x.to_string()).collect::<Vec<_>>().join(",") };
                let e_live = sorted_ids(&after);
                if m_ok != e_ok || mfield("gen=") != e_gen || mfield("live=") != e_live {
                    rep.disagree(so_far.clone(), format!("{sql}: engine {} gen={e_gen} live={e_live} ({e_msg}); model {mresp}", if e_ok { "ok" } else { "err" }), "autoinc-model".into());
                    model.ask(&format!("setlive {e_live}"));
                }
            }
            "delete" => {
                let v: i64 = ws.get(1).and_then(|x| x.parse().ok()).unwrap_or(0);
                let out = h.dbh.exec(&format!("DELETE FROM a WHERE id = {v}"));
                let after = h.dump().unwrap_or_default();
                if let Some(t) = h.held.get_mut(&v) { if !after.iter().any(|r| r.0 == v) { *t = Tag::Deleted; } }
                h.last_event = "after-delete";
                let e_live = sorted_ids(&after);
                if !matches!(out, Out::Affected(..)) || mfield("live=") != e_live {
                    rep.disagree(so_far.clone(), format!("DELETE id={v}: engine {out:?} live={e_live}; model {mresp}"), "autoinc-model-delete".into());
                    model.ask(&format!("setlive {e_live}"));
                }
            }
            "begin" | "commit" | "rollback" => {
                let out = h.dbh.exec(&ws[0].to_uppercase());
                let e_ok = !matches!(out, Out::Err(_) | Out::Panic(_));
                let after = h.dump().unwrap_or_default();
                match ws[0] {
                    "begin" => { if e_ok { h.in_txn = true; h.txn_inserted.clear(); } }
                    "commit" => { h.in_txn = false; h.txn_inserted.clear(); }
                    _ => {
                        for g in h.txn_inserted.drain(..) { if !after.iter().any(|r| r.0 == g) { h.held.insert(g, Tag::RolledBack); } }
                        // values deleted in the transaction and restored by the rollback are live again
                        for r in &after { if let Some(t) = h.held.get_mut(&r.0) { if *t == Tag::Deleted { *t = Tag::Live { failed: false, epoch: h.epoch }; } } }
                        h.in_txn = false;
                        h.last_event = "after-rollback";
                    }
                }
                let e_live = sorted_ids(&after);
                if m_ok != e_ok || mfield("live=") != e_live {
                    // the undo log is not C12's subject (C07): resynchronise, count, go on
                    rep.count(&format!("resync_after_{}", ws[0]));
                    model.ask(&format!("setlive {e_live}"));
                }
            }
            "reopen" => {
                if let Err(e) = h.dbh.reopen() { rep.oracle_fail(so_far, format!("reopen failed: {e}"), "autoinc:after-reopen:error".into()); return; }
                h.epoch += 1;
                h.last_event = "after-reopen";
                let after = match h.dump() { Ok(d) => d, Err(e) => { rep.oracle_fail(so_far, format!("dump after reopen failed: {e}"), "autoinc:after-reopen:error".into()); return; } };
                let e_live = sorted_ids(&after);
                if mfield("live=") != e_live { rep.count("resync_after_reopen"); model.ask(&format!("setlive {e_live}")); }
            }
            "truncate" => {
                let restart = ws.get(1) == Some(&"1");
                let out = h.dbh.exec(if restart { "TRUNCATE TABLE a RESTART IDENTITY" } else { "TRUNCATE TABLE a" });
                if restart { h.held.clear(); h.last_gen = 0; h.last_event = "fresh"; h.poisoned = false; }
                else { for t in h.held.values_mut() { *t = Tag::Truncated; } h.last_event = "after-truncate"; }
                let after = h.dump().unwrap_or_default();
                let e_live = sorted_ids(&after);
                if !matches!(out, Out::Affected(..)) || mfield("live=") != e_live {
                    rep.disagree(so_far.clone(), format!("TRUNCATE: engine {out:?} live={e_live}; model {mresp}"), "autoinc-model-truncate".into());
                    model.ask(&format!("setlive {e_live}"));
                }
            }
            _ => { rep.notes.push(format!("unknown op {op}")); return; }
        }
    }
    rep.case(if nontrivial { Some(case) } else { None });
    rep.count(&format!("history_len_{}", (parts.len() - 1).min(30) / 5 * 5));
}

fn gen_history(rng: &mut Rng) -> String {
    let uniq = !rng.chance(1, 5);
    let mut ops = vec![format!("uniq={}", uniq as u8)];
    let n = 6 + rng.below(14);
    let mut in_txn = false;
    let mut hi: i64 = 0; // rough upper bound of ids in use, to aim explicit ids at the boundary
    // cells in the table B-tree (rows and tombstones) since the last TRUNCATE: kept <= 7 because a
    // leaf with >= 8 cells trips the known AVX2 leaf-search defect (C30), which makes DELETE,
    // TRUNCATE and the unique probe miss keys -- not C12's subject
    let mut tree = 0usize;
    let mut reopened = false;
    let mut deleted_ids: std::collections::BTreeSet<i64> = std::collections::BTreeSet::new();
    for _ in 0..n {
        let r = rng.below(100);
        if r < 50 {
            let k = match rng.below(10) { 0..=4 => 1, 5..=7 => 2, 8 => 3, _ => 4 + rng.below(3) } as usize;
            if tree + k > 7 {
                if in_txn { ops.push(if rng.chance(1, 2) { "rollback".into() } else { "commit".into() }); in_txn = false; }
                if rng.chance(1, 4) { ops.push("truncate 1".into()); hi = 0; } else { ops.push("truncate 0".into()); }
                tree = 0;
            }
            tree += k;
            let mut cells = vec![];
            for _ in 0..k {
                let bad = rng.chance(1, 12);
                let c = if rng.chance(2, 3) { hi += 1; "N".to_string() } else {
                    // explicit id around the counter: just above, far above, an existing one, rarely negative
                    let p = match rng.below(8) { 0 | 1 => hi + 1, 2 | 3 => hi + 2, 4 => hi + 1 + rng.below(6) as i64, 5 => 1 + rng.below(hi.max(1) as u64) as i64, 6 => hi + 10, _ => -1 - rng.below(3) as i64 };
                    if p > hi { hi = p; }
                    p.to_string()
                };
                cells.push(format!("{c}{}", if bad { "!" } else { "" }));
            }
            ops.push(format!("insert {}", cells.join(" ")));
        } else if r < 68 {
            // delete, biased to the maximum id
            let v = if rng.chance(1, 2) { hi } else { 1 + rng.below(hi.max(1) as u64) as i64 };
            // DELETE matches tombstones too (C05): deleting an already deleted id inside a transaction and
            // rolling back resurrects the row through the undo log (C07) - not C12's subject
            if in_txn && deleted_ids.contains(&v) { continue; }
            deleted_ids.insert(v);
            ops.push(format!("delete {v}"));
        } else if r < 80 {
            if in_txn { ops.push(if rng.chance(2, 3) { "rollback".into() } else { "commit".into() }); in_txn = false; }
            // after a reopen row keys collide (next_row_id restarts at 1); a collision inside a
            // transaction also leaves an undo entry whose ROLLBACK deletes the pre-existing row
            // (undo log, C07): not C12's subject, so no BEGIN once the history has reopened
            else if !reopened { ops.push("begin".into()); in_txn = true; }
        } else if r < 90 {
            if !in_txn { ops.push("reopen".into()); reopened = true; }
        } else if r < 96 {
            if !in_txn { ops.push("truncate 0".into()); tree = 0; }
        } else if !in_txn { ops.push("truncate 1".into()); hi = 0; tree = 0; }
    }
    if in_txn { ops.push("rollback".into()); ops.push("insert N".into()); }
    ops.join(" ; ")
}

const SYSTEMATIC: &[&str] = &[
    "uniq=1 ; insert N N N ; delete 3 ; insert N ; delete 4 ; delete 2 ; insert N N",
    "uniq=1 ; insert N N ; begin ; insert N N ; rollback ; insert N",
    "uniq=1 ; insert N N ; begin ; insert N ; delete 1 ; rollback ; insert N ; begin ; insert N ; commit ; insert N",
    "uniq=1 ; insert N N ; reopen ; insert N ; delete 3 ; reopen ; insert N",
    "uniq=1 ; insert N ; insert N 4 N N",
    "uniq=1 ; insert N ; insert N 3 N ; insert N",
    "uniq=0 ; insert N ; insert N 3 N N",
    "uniq=0 ; insert N 2",
    "uniq=1 ; insert N ; insert N N! ; insert N",
    "uniq=0 ; insert N ; insert N N! ; insert N",
    "uniq=1 ; insert N N N ; truncate 0 ; insert N ; truncate 1 ; insert N N",
    "uniq=1 ; insert 10 ; insert N ; insert 5 N ; insert N",
    "uniq=1 ; insert N N ; delete 1 ; delete 2 ; reopen ; insert N",
    "uniq=1 ; begin ; insert N ; commit ; reopen ; insert N ; begin ; insert N ; rollback ; reopen ; insert N",
    "uniq=1 ; insert -1 ; insert N ; insert 0 ; insert N",
    "uniq=1 ; insert N ; insert 1 ; insert N ; insert 2 N",
    "uniq=1 ; insert 3 ; insert N N N",
];

pub fn run(ctx: &Ctx) -> Report {
    let mut rep = Report::new(
        "sql_autoinc",
        "histories over `a(id INT [PRIMARY KEY] AUTO_INCREMENT, v INT NOT NULL)`: single and multi-row INSERTs mixing generated \
         (NULL / omitted) and explicit ids aimed at the counter boundary (counter+1, +2, existing, far above, negative), rows failing \
         NOT NULL mid-statement, DELETE biased to the maximum id, BEGIN/COMMIT/ROLLBACK, close+reopen, TRUNCATE [RESTART IDENTITY]; \
         a fixed systematic layer (17 scripts, one per scenario) runs first on every seed. oracle on the engine's own output: each \
         generated id is new for the column and above all earlier generated ids; correspondence: ok/err, generated ids and live ids \
         equal the M-code model after every statement. non-trivial = distinct history generating at least one id",
    );
    let mut rng = Rng::new(ctx.seed ^ 0xC12);
    let mut model = Model::spawn(&ctx.model_bin, "autoinc");
    let mut n = 0;
    for c in ctx.corpus_cases("C12") { n += 1; run_history(ctx, &mut rep, &mut model, &c, &format!("corpus{n}")); }
    for (i, c) in SYSTEMATIC.iter().enumerate() { run_history(ctx, &mut rep, &mut model, c, &format!("sys{i}")); }
    let nh = if ctx.thorough { 4000 } else { 300 };
    for i in 0..nh {
        let c = gen_history(&mut rng);
        if i % 40 == 0 { rep.sample(c.clone()); }
        run_history(ctx, &mut rep, &mut model, &c, &format!("r{i}"));
    }
    rep.notes.push(format!("model requests: {}", model.requests));
    rep
}
