//! C26: index key encoding (src/encoding/key.rs + OwnedValue glue) vs the Lean model
//! `TurVerif.KeyEnc`, and the property's own oracle (order / round trip / prefix-freeness /
//! column-wise order of composite keys) evaluated on the real code.
//!
//! Case syntax (corpus / replay files), values in the protocol syntax of lean/Driver/KeyEnc.lean:
//!   pair <val> <val>
//!   cols <n> <val>*n <m> <val>*m
//!   dec <hex>
//!   glue <owned> <owned>          (see keyenc_glue.rs)
//!   json <jval> <jval>            (see keyenc_glue.rs)
use super::keyenc_gen::*;
use super::keyenc_glue;
use super::keyenc_val::*;
use crate::common::*;
use std::cmp::Ordering;
use turdb::encoding::key::decode_key;

pub enum Case {
    Pair(KV, KV, String),
    Cols(Vec<KV>, Vec<KV>, String),
    Dec(Vec<u8>),
}

// ---------- parser for the case syntax (replay) ----------
fn p_i<T: std::str::FromStr>(t: &[&str], i: &mut usize) -> Option<T> {
    let v = t.get(*i)?.parse().ok()?;
    *i += 1;
    Some(v)
}
fn p_hex(t: &[&str], i: &mut usize) -> Option<Vec<u8>> {
    let s = t.get(*i)?;
    *i += 1;
    if *s != "-" && (s.len() % 2 != 0 || !s.bytes().all(|c| c.is_ascii_hexdigit())) {
        return None;
    }
    Some(unhex(s))
}
pub fn p_list(t: &[&str], i: &mut usize) -> Option<Vec<KV>> {
    let n: usize = p_i(t, i)?;
    let mut v = vec![];
    for _ in 0..n {
        v.push(p_val(t, i)?);
    }
    Some(v)
}
pub fn p_val(t: &[&str], i: &mut usize) -> Option<KV> {
    let tag = *t.get(*i)?;
    *i += 1;
    Some(match tag {
        "N" => KV::Null,
        "B" => KV::Bool(p_i::<u8>(t, i)? == 1),
        "I" => KV::Int(p_i(t, i)?),
        "F" => KV::Float(p_i(t, i)?),
        "T" => {
            let b = p_hex(t, i)?;
            std::str::from_utf8(&b).ok()?;
            KV::Text(b)
        }
        "X" => KV::Blob(p_hex(t, i)?),
        "D" => KV::Date(p_i(t, i)?),
        "TM" => KV::Time(p_i(t, i)?),
        "TS" => KV::Timestamp(p_i(t, i)?),
        "TZ" => KV::TimestampTz(p_i(t, i)?, p_i(t, i)?),
        "IV" => KV::Interval(p_i(t, i)?, p_i(t, i)?, p_i(t, i)?),
        "U" => KV::Uuid(p_hex(t, i)?.try_into().ok()?),
        "IN" => {
            let f = p_i::<u8>(t, i)? == 1;
            let p = p_i(t, i)?;
            let a = p_hex(t, i)?;
            if a.len() != if f { 16 } else { 4 } {
                return None;
            }
            KV::Inet(f, p, a)
        }
        "M" => KV::MacAddr(p_hex(t, i)?.try_into().ok()?),
        "E" => KV::Enum(p_i(t, i)?, p_i(t, i)?),
        "V" => {
            let n: usize = p_i(t, i)?;
            let mut v = vec![];
            for _ in 0..n {
                v.push(p_i(t, i)?);
            }
            KV::Vector(v)
        }
        "A" => KV::Array(p_list(t, i)?),
        "TU" => KV::Tuple(p_list(t, i)?),
        "C" => KV::Composite(p_i(t, i)?, p_list(t, i)?),
        "DO" => KV::Domain(p_i(t, i)?, Box::new(p_val(t, i)?)),
        _ => return None,
    })
}

fn parse_case(line: &str) -> Option<Case> {
    let t: Vec<&str> = line.split_whitespace().collect();
    let mut i = 1;
    match *t.first()? {
        "pair" => {
            let a = p_val(&t, &mut i)?;
            let b = p_val(&t, &mut i)?;
            Some(Case::Pair(a, b, "corpus".into()))
        }
        "cols" => {
            let a = p_list(&t, &mut i)?;
            let b = p_list(&t, &mut i)?;
            Some(Case::Cols(a, b, "corpus".into()))
        }
        "dec" => Some(Case::Dec(p_hex(&t, &mut i)?)),
        _ => None,
    }
}

fn fmt_list(vs: &[KV]) -> String {
    let mut s = format!("{}", vs.len());
    for v in vs {
        s.push(' ');
        s.push_str(&v.fmt());
    }
    s
}

fn real_key(v: &KV) -> Result<Vec<u8>, String> {
    let v2 = v.clone();
    guarded(move || v2.key())
}

/// real decode, rendered like the model driver's `dec` response; second = contains Json/Range
fn real_dec(b: &[u8]) -> (String, bool, Option<(KV, usize)>) {
    let b2 = b.to_vec();
    match guarded(move || decode_key(&b2).map_err(|e| e.to_string())) {
        Ok(Ok((d, n))) => {
            let v = from_decoded(&d);
            let outside = contains_outside(&v);
            (format!("ok {n} {}", v.fmt()), outside, Some((v, n)))
        }
        Ok(Err(_)) => ("err".into(), false, None),
        Err(m) => (format!("panic {m}"), false, None),
    }
}

fn lex(a: &[u8], b: &[u8]) -> Ordering {
    a.cmp(b)
}

fn is_proper_prefix(a: &[u8], b: &[u8]) -> bool {
    a.len() < b.len() && b[..a.len()] == *a
}

pub fn run(ctx: &Ctx) -> Report {
    let mut rep = Report::new(
        "keyenc",
        "pairs of key values of all 20 modelled kinds (same kind / neighbour by ±1, flipped sign, shared byte \
         prefix, appended/removed 00/FF bytes / identical / int-float mixes / different kinds; i64,i32,i16,u32 edges, \
         f64/f32 ±0, subnormals, ±inf, NaN payloads, 00/01/FE/FF-heavy bytes, empty strings, nested containers with \
         NULL elements), pairs of composite keys (shared column prefix, column-prefix, byte moved across a column \
         boundary), byte strings for decode (valid keys, every truncation, mutations, random tails), OwnedValue \
         pairs through encode_value_as_key, JSON key values. non-trivial = distinct case whose two sides differ \
         (pairs/cols) or whose input is longer than one byte (dec)",
    );
    let mut rng = Rng::new(ctx.seed ^ 0xC26);
    let mut cases: Vec<Case> = vec![];
    let mut extra_lines: Vec<String> = vec![];
    for c in ctx.corpus_cases("C26") {
        match parse_case(&c) {
            Some(x) => cases.push(x),
            None => extra_lines.push(c),
        }
    }
    // deterministic edge grid: every int edge against every int edge, same for floats
    for a in I64_EDGES {
        for b in I64_EDGES {
            cases.push(Case::Pair(KV::Int(a), KV::Int(b), "grid".into()));
        }
    }
    for a in F64_EDGES {
        for b in F64_EDGES {
            cases.push(Case::Pair(KV::Float(a), KV::Float(b), "grid".into()));
        }
        for b in I64_EDGES {
            cases.push(Case::Pair(KV::Float(a), KV::Int(b), "grid".into()));
        }
    }
    for a in F32_EDGES {
        for b in F32_EDGES {
            cases.push(Case::Pair(KV::Vector(vec![a]), KV::Vector(vec![b]), "grid".into()));
        }
    }
    let npairs = if ctx.thorough { 3_000_000 } else { 120_000 };
    let ncols = if ctx.thorough { 1_000_000 } else { 50_000 };
    for _ in 0..npairs {
        let (a, b, tag) = gen_pair(&mut rng);
        cases.push(Case::Pair(a, b, tag.into()));
    }
    for _ in 0..ncols {
        let (a, b, tag) = gen_cols_pair(&mut rng);
        cases.push(Case::Cols(a, b, tag.into()));
    }

    // ------------------------------------------------------------------ pairs and composite keys
    let mut dec_inputs: Vec<Vec<u8>> = vec![];
    let chunk = 20_000;
    let mut idx = 0usize;
    while idx < cases.len() {
        let end = (idx + chunk).min(cases.len());
        let mut reqs: Vec<String> = vec![];
        for c in &cases[idx..end] {
            match c {
                Case::Pair(a, b, _) => {
                    reqs.push(format!("enc {}", a.fmt()));
                    reqs.push(format!("enc {}", b.fmt()));
                    reqs.push(format!("cmp {} {}", a.fmt(), b.fmt()));
                    reqs.push(format!("canon {}", a.fmt()));
                    reqs.push(format!("wf {}", a.fmt()));
                }
                Case::Cols(a, b, _) => {
                    reqs.push(format!("cols {}", fmt_list(a)));
                    reqs.push(format!("cols {}", fmt_list(b)));
                    reqs.push(format!("cmpcols {} {}", fmt_list(a), fmt_list(b)));
                }
                Case::Dec(b) => {
                    dec_inputs.push(b.clone());
                }
            }
        }
        let resp = model_batch(&ctx.model_bin, "key", &reqs);
        let mut ri = 0usize;
        for (ci, c) in cases[idx..end].iter().enumerate() {
            match c {
                Case::Pair(a, b, tag) => {
                    let (m_ea, m_eb, m_cmp, m_canon, m_wf) =
                        (&resp[ri], &resp[ri + 1], &resp[ri + 2], &resp[ri + 3], &resp[ri + 4]);
                    ri += 5;
                    let case = format!("pair {} {}", a.fmt(), b.fmt());
                    rep.count(&format!("pair_{tag}"));
                    rep.count(&format!("kind_{}", a.kind()));
                    rep.case(if a != b { Some(&case) } else { None });
                    if (idx + ci) % 9001 == 0 {
                        rep.sample(case.clone());
                    }
                    let (ka, kb) = match (real_key(a), real_key(b)) {
                        (Ok(x), Ok(y)) => (x, y),
                        (x, y) => {
                            rep.oracle_fail(case.clone(), format!("encode panicked: {:?} {:?}", x.err(), y.err()),
                                format!("encode-panic:{}", a.sig_kind()));
                            continue;
                        }
                    };
                    // --- correspondence: bytes, spec order, wf
                    if &hex(&ka) != m_ea {
                        rep.disagree(format!("pair {} {}", a.fmt(), a.fmt()), format!("enc {}: impl={} model={}", a.fmt(), hex(&ka), m_ea), "enc-differs".into());
                    }
                    if &hex(&kb) != m_eb {
                        rep.disagree(format!("pair {} {}", b.fmt(), b.fmt()), format!("enc {}: impl={} model={}", b.fmt(), hex(&kb), m_eb), "enc-differs".into());
                    }
                    if m_wf != "1" {
                        rep.disagree(case.clone(), format!("model wf({})={m_wf} for a generated value", a.fmt()), "wf-differs".into());
                    }
                    let want = nat_cmp(a, b);
                    let skip_nan = a.contains_vec_nan() || b.contains_vec_nan();
                    if m_cmp != ord_s(want) && !skip_nan {
                        rep.disagree(case.clone(), format!("specification order: model cmpVal={m_cmp}, native Rust order={}", ord_s(want)), "cmp-differs".into());
                    }
                    // --- oracle on the implementation: memcmp order of real keys = order of the values
                    let got = lex(&ka, &kb);
                    rep.count(&format!("order_{}", ord_s(want)));
                    if skip_nan {
                        rep.count("order_skipped_vector_nan_dims");
                    } else if got != want {
                        rep.oracle_fail(case.clone(),
                            format!("values compare {} but keys {} / {} compare {}", ord_s(want), hex(&ka), hex(&kb), ord_s(got)),
                            format!("order:{}/{}:want={}:got={}", a.sig_kind(), b.sig_kind(), ord_s(want), ord_s(got)));
                    }
                    // --- oracle: no key is a proper prefix of another key
                    if is_proper_prefix(&ka, &kb) || is_proper_prefix(&kb, &ka) {
                        rep.oracle_fail(case.clone(), format!("key {} / {}: one is a proper prefix of the other", hex(&ka), hex(&kb)),
                            format!("prefix:{}/{}", a.sig_kind(), b.sig_kind()));
                    }
                    // --- oracle: decode(encode a) = a (mod documented canonicalisation), also with a tail
                    let exp = a.expected_roundtrip();
                    let (d, _, dv) = real_dec(&ka);
                    let ok = matches!(&dv, Some((v, n)) if *v == exp && *n == ka.len());
                    if !ok {
                        rep.oracle_fail(format!("pair {} {}", a.fmt(), a.fmt()),
                            format!("decode_key(encode({}))={d}, expected ok {} {}", a.fmt(), ka.len(), exp.fmt()),
                            format!("roundtrip:{}", a.sig_kind()));
                    }
                    let mut ext = ka.clone();
                    ext.extend(gen_bytes(&mut rng, 3));
                    let (d2, _, _) = real_dec(&ext);
                    if d2 != d {
                        rep.oracle_fail(format!("dec {}", hex(&ext)), format!("decode with trailing bytes {d2} differs from {d}"),
                            format!("roundtrip-tail:{}", a.sig_kind()));
                    }
                    // --- correspondence of canon: what the model says decode∘encode returns
                    if let Some((v, _)) = &dv {
                        if &v.fmt() != m_canon {
                            rep.disagree(format!("pair {} {}", a.fmt(), a.fmt()), format!("decode(encode({})): impl={} model canon={m_canon}", a.fmt(), v.fmt()), "canon-differs".into());
                        }
                    }
                    if (idx + ci) % 3 == 0 || ka.len() < 6 {
                        dec_inputs.push(ka);
                    }
                    if (idx + ci) % 7 == 0 {
                        dec_inputs.push(ext);
                    }
                }
                Case::Cols(a, b, tag) => {
                    let (m_ea, m_eb, m_cmp) = (&resp[ri], &resp[ri + 1], &resp[ri + 2]);
                    ri += 3;
                    let case = format!("cols {} {}", fmt_list(a), fmt_list(b));
                    rep.count(&format!("cols_{tag}"));
                    rep.count(&format!("cols_width_{}", a.len()));
                    rep.case(if a != b { Some(&case) } else { None });
                    if (idx + ci) % 9001 == 0 {
                        rep.sample(case.clone());
                    }
                    let enc_all = |vs: &Vec<KV>| -> Result<Vec<u8>, String> {
                        let vs = vs.clone();
                        guarded(move || {
                            let mut buf = vec![];
                            for v in &vs {
                                v.real_enc(&mut buf);
                            }
                            buf
                        })
                    };
                    let (ka, kb) = match (enc_all(a), enc_all(b)) {
                        (Ok(x), Ok(y)) => (x, y),
                        _ => {
                            rep.oracle_fail(case.clone(), "encode panicked".into(), "encode-panic:cols".into());
                            continue;
                        }
                    };
                    if &hex(&ka) != m_ea || &hex(&kb) != m_eb {
                        rep.disagree(case.clone(), format!("impl={} / {} model={m_ea} / {m_eb}", hex(&ka), hex(&kb)), "cols-enc-differs".into());
                    }
                    let skip_nan = a.iter().chain(b.iter()).any(|v| v.contains_vec_nan());
                    let want = cols_cmp(a, b);
                    if m_cmp != ord_s(want) && !skip_nan {
                        rep.disagree(case.clone(), format!("column-wise order: model={m_cmp} native={}", ord_s(want)), "cmpcols-differs".into());
                    }
                    let got = lex(&ka, &kb);
                    if !skip_nan && got != want {
                        // name the first column at which the two keys part (values or bytes differ)
                        let first = a.iter().zip(b.iter()).position(|(x, y)| nat_cmp(x, y) != Ordering::Equal || x.key() != y.key());
                        let kinds = |vs: &Vec<KV>| match first {
                            Some(i) => format!("col:{}", vs[i].sig_kind()),
                            None => format!("ncols:{}", vs.len()),
                        };
                        rep.oracle_fail(case.clone(),
                            format!("column-wise order {} but composite keys {} / {} compare {}", ord_s(want), hex(&ka), hex(&kb), ord_s(got)),
                            format!("cols-order:({})/({}):want={}:got={}", kinds(a), kinds(b), ord_s(want), ord_s(got)));
                    }
                    // decoding a composite key column by column gives the columns back
                    let mut off = 0usize;
                    for v in a {
                        let (d, _, dv) = real_dec(&ka[off..]);
                        match dv {
                            Some((x, n)) if x == v.expected_roundtrip() => off += n,
                            _ => {
                                rep.oracle_fail(case.clone(), format!("column {} decoded at offset {off} as {d}", v.fmt()),
                                    format!("cols-roundtrip:{}", v.sig_kind()));
                                break;
                            }
                        }
                    }
                }
                Case::Dec(_) => {}
            }
        }
        idx = end;
    }

    // ------------------------------------------------------------------ decoder on arbitrary input
    let base = dec_inputs.len();
    let mut strings: Vec<Vec<u8>> = vec![vec![]];
    for p in 0..=255u8 {
        strings.push(vec![p]);
        for _ in 0..(if ctx.thorough { 400 } else { 40 }) {
            let mut s = vec![p];
            s.extend(gen_bytes(&mut rng, 20));
            strings.push(s);
        }
    }
    for (i, k) in dec_inputs.iter().enumerate() {
        if i % 5 == 0 && k.len() <= 40 {
            for t in 0..k.len() {
                strings.push(k[..t].to_vec());
            }
        }
        if i % 2 == 0 && !k.is_empty() {
            let mut m = k.clone();
            let j = rng.below(m.len() as u64) as usize;
            match rng.below(4) {
                0 => m[j] = gen_byte(&mut rng),
                1 => m[j] = m[j].wrapping_add(1),
                2 => {
                    m.remove(j);
                }
                _ => m.insert(j, gen_byte(&mut rng)),
            }
            strings.push(m);
        }
    }
    strings.extend(dec_inputs.into_iter());
    rep.count_n("dec_inputs_from_valid_keys", base as u64);
    let mut i0 = 0usize;
    while i0 < strings.len() {
        let end = (i0 + 50_000).min(strings.len());
        let reqs: Vec<String> = strings[i0..end].iter().map(|s| format!("dec {}", hex(s))).collect();
        let resp = model_batch(&ctx.model_bin, "key", &reqs);
        for (j, s) in strings[i0..end].iter().enumerate() {
            let case = &reqs[j];
            let (d, outside, _) = real_dec(s);
            let m = &resp[j];
            let mc = if m.starts_with("err") { "err".to_string() } else { m.clone() };
            rep.case(if s.len() > 1 { Some(case) } else { None });
            if outside || (!s.is_empty() && (0x50..=0x56).contains(&s[0])) || (!s.is_empty() && s[0] == 0x62) {
                rep.count("dec_outside_model(json/range)");
                continue;
            }
            rep.count(if d.starts_with("ok") { "dec_ok" } else if d == "err" { "dec_err" } else { "dec_panic" });
            if (i0 + j) % 30011 == 0 {
                rep.sample(format!("{case} -> {d}"));
            }
            if d != mc {
                // the model has no Json/Range: a nested 0x50..0x56 / 0x62 prefix is an error there
                let nested_outside = m.starts_with("err prefix") && s.iter().any(|b| (0x50..=0x56).contains(b) || *b == 0x62);
                if nested_outside {
                    rep.count("dec_outside_model(json/range)");
                } else {
                    rep.disagree(case.clone(), format!("impl={d} model={m}"), "dec-differs".into());
                }
            }
        }
        i0 = end;
    }

    // ------------------------------------------------------------------ utf8 + memcmp correspondences
    {
        let mut reqs = vec![];
        let mut exp = vec![];
        for _ in 0..(if ctx.thorough { 200_000 } else { 20_000 }) {
            let b = if rng.chance(1, 2) {
                let mut t = gen_text(&mut rng, 4);
                if rng.chance(1, 2) && !t.is_empty() {
                    let j = rng.below(t.len() as u64) as usize;
                    t[j] = rng.next() as u8;
                }
                if rng.chance(1, 4) {
                    t.pop();
                }
                t
            } else {
                let n = rng.below(5) as usize;
                (0..n).map(|_| *rng.pick(&[0x7Fu8, 0x80, 0xBF, 0xC0, 0xC1, 0xC2, 0xDF, 0xE0, 0xA0, 0x9F, 0xED, 0xEF, 0xF0, 0x90, 0x8F, 0xF4, 0xF5, 0xFF, 0x41])).collect()
            };
            reqs.push(format!("utf8 {}", hex(&b)));
            exp.push(if std::str::from_utf8(&b).is_ok() { "1" } else { "0" });
            let c = gen_bytes(&mut rng, 4);
            reqs.push(format!("lex {} {}", hex(&b), hex(&c)));
            exp.push(ord_s(b.cmp(&c)));
        }
        let resp = model_batch(&ctx.model_bin, "key", &reqs);
        for (i, r) in resp.iter().enumerate() {
            rep.case(None);
            if r != exp[i] {
                rep.disagree(reqs[i].clone(), format!("std={} model={r}", exp[i]), "utf8-or-lex-differs".into());
            }
        }
        rep.count_n("utf8_lex_checks", resp.len() as u64);
    }

    keyenc_glue::run(ctx, &mut rng, &mut rep, &extra_lines);
    rep
}
