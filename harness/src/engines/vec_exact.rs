//! Exact arithmetic for the vector engines (C24/C25): arbitrary-precision integers and dyadic
//! rationals `m * 2^e`.  Every f32 is a dyadic rational; sums of products of f32 values are
//! computed here without any rounding, so the oracle does not depend on floating point.
use std::cmp::Ordering;

#[derive(Clone, Debug, PartialEq, Eq)]
pub struct Big {
    pub neg: bool,
    pub mag: Vec<u32>, // little endian, no trailing zero limbs; zero = empty, neg = false
}

fn trim(v: &mut Vec<u32>) {
    while let Some(&0) = v.last() {
        v.pop();
    }
}

fn cmp_mag(a: &[u32], b: &[u32]) -> Ordering {
    if a.len() != b.len() {
        return a.len().cmp(&b.len());
    }
    for i in (0..a.len()).rev() {
        if a[i] != b[i] {
            return a[i].cmp(&b[i]);
        }
    }
    Ordering::Equal
}

fn add_mag(a: &[u32], b: &[u32]) -> Vec<u32> {
    let (a, b) = if a.len() >= b.len() { (a, b) } else { (b, a) };
    let mut out = Vec::with_capacity(a.len() + 1);
    let mut carry = 0u64;
    for i in 0..a.len() {
        let s = a[i] as u64 + if i < b.len() { b[i] as u64 } else { 0 } + carry;
        out.push(s as u32);
        carry = s >> 32;
    }
    if carry > 0 {
        out.push(carry as u32);
    }
    out
}

/// a - b, requires |a| >= |b|
fn sub_mag(a: &[u32], b: &[u32]) -> Vec<u32> {
    let mut out = Vec::with_capacity(a.len());
    let mut borrow = 0i64;
    for i in 0..a.len() {
        let mut d = a[i] as i64 - borrow - if i < b.len() { b[i] as i64 } else { 0 };
        if d < 0 {
            d += 1 << 32;
            borrow = 1;
        } else {
            borrow = 0;
        }
        out.push(d as u32);
    }
    trim(&mut out);
    out
}

impl Big {
    pub fn zero() -> Big {
        Big { neg: false, mag: vec![] }
    }
    pub fn from_u64(v: u64) -> Big {
        let mut mag = vec![v as u32, (v >> 32) as u32];
        trim(&mut mag);
        Big { neg: false, mag }
    }
    pub fn from_i64(v: i64) -> Big {
        let mut b = Big::from_u64(v.unsigned_abs());
        b.neg = v < 0 && !b.mag.is_empty();
        b
    }
    pub fn is_zero(&self) -> bool {
        self.mag.is_empty()
    }
    pub fn neg(&self) -> Big {
        Big { neg: !self.neg && !self.is_zero(), mag: self.mag.clone() }
    }
    pub fn abs(&self) -> Big {
        Big { neg: false, mag: self.mag.clone() }
    }
    pub fn add(&self, o: &Big) -> Big {
        if self.neg == o.neg {
            return Big { neg: self.neg, mag: add_mag(&self.mag, &o.mag) };
        }
        match cmp_mag(&self.mag, &o.mag) {
            Ordering::Equal => Big::zero(),
            Ordering::Greater => Big { neg: self.neg, mag: sub_mag(&self.mag, &o.mag) },
            Ordering::Less => Big { neg: o.neg, mag: sub_mag(&o.mag, &self.mag) },
        }
    }
    pub fn sub(&self, o: &Big) -> Big {
        self.add(&o.neg())
    }
    pub fn mul(&self, o: &Big) -> Big {
        if self.is_zero() || o.is_zero() {
            return Big::zero();
        }
        let mut out = vec![0u32; self.mag.len() + o.mag.len()];
        for i in 0..self.mag.len() {
            let mut carry = 0u64;
            for j in 0..o.mag.len() {
                let t = out[i + j] as u64 + self.mag[i] as u64 * o.mag[j] as u64 + carry;
                out[i + j] = t as u32;
                carry = t >> 32;
            }
            let mut k = i + o.mag.len();
            while carry > 0 {
                let t = out[k] as u64 + carry;
                out[k] = t as u32;
                carry = t >> 32;
                k += 1;
            }
        }
        trim(&mut out);
        Big { neg: self.neg != o.neg, mag: out }
    }
    pub fn shl(&self, bits: u32) -> Big {
        if self.is_zero() {
            return Big::zero();
        }
        let limbs = (bits / 32) as usize;
        let r = bits % 32;
        let mut out = vec![0u32; limbs];
        let mut carry = 0u64;
        for &x in &self.mag {
            let t = ((x as u64) << r) | carry;
            out.push(t as u32);
            carry = t >> 32;
        }
        if carry > 0 {
            out.push(carry as u32);
        }
        trim(&mut out);
        Big { neg: self.neg, mag: out }
    }
    pub fn cmp(&self, o: &Big) -> Ordering {
        match (self.neg, o.neg) {
            (false, true) => Ordering::Greater,
            (true, false) => Ordering::Less,
            (false, false) => cmp_mag(&self.mag, &o.mag),
            (true, true) => cmp_mag(&o.mag, &self.mag),
        }
    }
    pub fn bit_len(&self) -> u32 {
        match self.mag.last() {
            None => 0,
            Some(&t) => (self.mag.len() as u32 - 1) * 32 + (32 - t.leading_zeros()),
        }
    }
    /// decimal integer with optional leading '-'
    pub fn from_dec(s: &str) -> Option<Big> {
        let (neg, digits) = match s.strip_prefix('-') {
            Some(r) => (true, r),
            None => (false, s),
        };
        if digits.is_empty() {
            return None;
        }
        let mut mag: Vec<u32> = vec![];
        for c in digits.bytes() {
            if !c.is_ascii_digit() {
                return None;
            }
            let mut carry = (c - b'0') as u64;
            for limb in mag.iter_mut() {
                let t = *limb as u64 * 10 + carry;
                *limb = t as u32;
                carry = t >> 32;
            }
            if carry > 0 {
                mag.push(carry as u32);
            }
        }
        trim(&mut mag);
        let z = mag.is_empty();
        Some(Big { neg: neg && !z, mag })
    }
    /// (top 64 bits as f64 mantissa, binary exponent): value ≈ f * 2^exp
    pub fn to_f64_exp(&self) -> (f64, i32) {
        let l = self.bit_len();
        if l == 0 {
            return (0.0, 0);
        }
        let mut top: u64 = 0;
        let take = l.min(64);
        let shift = l - take; // drop the low `shift` bits
        for k in 0..take {
            let bit = shift + k;
            let limb = self.mag[(bit / 32) as usize];
            if (limb >> (bit % 32)) & 1 == 1 {
                top |= 1u64 << k;
            }
        }
        let f = top as f64;
        (if self.neg { -f } else { f }, shift as i32)
    }
}

/// dyadic rational m * 2^e
#[derive(Clone, Debug)]
pub struct Dy {
    pub m: Big,
    pub e: i32,
}

impl Dy {
    pub fn zero() -> Dy {
        Dy { m: Big::zero(), e: 0 }
    }
    pub fn from_i64(v: i64) -> Dy {
        Dy { m: Big::from_i64(v), e: 0 }
    }
    pub fn pow2(e: i32) -> Dy {
        Dy { m: Big::from_u64(1), e }
    }
    /// exact value of a finite f32
    pub fn from_f32(x: f32) -> Option<Dy> {
        if !x.is_finite() {
            return None;
        }
        let bits = x.to_bits();
        let neg = bits >> 31 == 1;
        let e = ((bits >> 23) & 0xff) as i32;
        let frac = (bits & 0x7f_ffff) as u64;
        let (m, ex) = if e == 0 { (frac, -149) } else { (frac | 0x80_0000, e - 150) };
        let mut b = Big::from_u64(m);
        b.neg = neg && m != 0;
        Some(Dy { m: b, e: ex })
    }
    pub fn is_zero(&self) -> bool {
        self.m.is_zero()
    }
    fn align(a: &Dy, b: &Dy) -> (Big, Big, i32) {
        let e = a.e.min(b.e);
        (a.m.shl((a.e - e) as u32), b.m.shl((b.e - e) as u32), e)
    }
    pub fn add(&self, o: &Dy) -> Dy {
        if self.is_zero() {
            return o.clone();
        }
        if o.is_zero() {
            return self.clone();
        }
        let (x, y, e) = Dy::align(self, o);
        Dy { m: x.add(&y), e }
    }
    pub fn sub(&self, o: &Dy) -> Dy {
        self.add(&o.neg())
    }
    pub fn neg(&self) -> Dy {
        Dy { m: self.m.neg(), e: self.e }
    }
    pub fn abs(&self) -> Dy {
        Dy { m: self.m.abs(), e: self.e }
    }
    pub fn mul(&self, o: &Dy) -> Dy {
        Dy { m: self.m.mul(&o.m), e: self.e + o.e }
    }
    pub fn mul_i64(&self, k: i64) -> Dy {
        Dy { m: self.m.mul(&Big::from_i64(k)), e: self.e }
    }
    pub fn cmp(&self, o: &Dy) -> Ordering {
        if self.is_zero() && o.is_zero() {
            return Ordering::Equal;
        }
        if self.is_zero() {
            return if o.m.neg { Ordering::Greater } else { Ordering::Less };
        }
        if o.is_zero() {
            return if self.m.neg { Ordering::Less } else { Ordering::Greater };
        }
        let (x, y, _) = Dy::align(self, o);
        x.cmp(&y)
    }
    pub fn le(&self, o: &Dy) -> bool {
        self.cmp(o) != Ordering::Greater
    }
    pub fn lt(&self, o: &Dy) -> bool {
        self.cmp(o) == Ordering::Less
    }
    pub fn eq(&self, o: &Dy) -> bool {
        self.cmp(o) == Ordering::Equal
    }
    pub fn to_f64(&self) -> f64 {
        let (f, sh) = self.m.to_f64_exp();
        let mut e = self.e + sh;
        let mut v = f;
        // scale in steps to avoid intermediate overflow of powi
        while e > 0 {
            let s = e.min(500);
            v *= 2f64.powi(s);
            e -= s;
        }
        while e < 0 {
            let s = (-e).min(500);
            v /= 2f64.powi(s);
            e += s;
        }
        v
    }
    /// does the fraction `num/den` (decimal strings, den > 0) equal this value exactly?
    pub fn eq_fraction(&self, num: &str, den: &str) -> bool {
        let (n, d) = match (Big::from_dec(num), Big::from_dec(den)) {
            (Some(n), Some(d)) => (n, d),
            _ => return false,
        };
        // m * 2^e = n / d   <=>   m * 2^e * d = n
        if self.e >= 0 {
            self.m.shl(self.e as u32).mul(&d).cmp(&n) == Ordering::Equal
        } else {
            self.m.mul(&d).cmp(&n.shl((-self.e) as u32)) == Ordering::Equal
        }
    }
}

/// exact Σ (x_i - y_i)^2 over the common prefix
pub fn exact_l2sq(a: &[f32], b: &[f32]) -> Dy {
    let mut s = Dy::zero();
    for (x, y) in a.iter().zip(b.iter()) {
        let d = Dy::from_f32(*x).unwrap().sub(&Dy::from_f32(*y).unwrap());
        s = s.add(&d.mul(&d));
    }
    s
}

/// exact (Σ x_i y_i, Σ |x_i y_i|)
pub fn exact_dot(a: &[f32], b: &[f32]) -> (Dy, Dy) {
    let mut s = Dy::zero();
    let mut t = Dy::zero();
    for (x, y) in a.iter().zip(b.iter()) {
        let p = Dy::from_f32(*x).unwrap().mul(&Dy::from_f32(*y).unwrap());
        t = t.add(&p.abs());
        s = s.add(&p);
    }
    (s, t)
}

pub fn vec_hex(v: &[f32]) -> String {
    if v.is_empty() {
        return "-".into();
    }
    let mut s = String::with_capacity(v.len() * 8);
    for x in v {
        s.push_str(&format!("{:08x}", x.to_bits()));
    }
    s
}

pub fn vec_unhex(s: &str) -> Option<Vec<f32>> {
    if s == "-" {
        return Some(vec![]);
    }
    if s.len() % 8 != 0 {
        return None;
    }
    let mut v = vec![];
    for i in 0..s.len() / 8 {
        let w = u32::from_str_radix(&s[8 * i..8 * i + 8], 16).ok()?;
        let f = f32::from_bits(w);
        if !f.is_finite() {
            return None;
        }
        v.push(f);
    }
    Some(v)
}
