//! C28/C29 support: compact byte notation, abstraction function (raw page bytes -> decoded leaf /
//! interior), per-page and whole-tree structural validator (the C29 clauses). Independent of
//! turdb's own accessors: everything is read from the raw 16 KiB page images.
use std::collections::{BTreeMap, BTreeSet};

pub const PAGE: usize = 16384;
pub const LEAF_START: usize = 24;
pub const INT_START: usize = 16;

const HEXD: &[u8; 16] = b"0123456789abcdef";

pub fn hexs(b: &[u8]) -> String {
    let mut s = String::with_capacity(b.len() * 2);
    for x in b {
        s.push(HEXD[(x >> 4) as usize] as char);
        s.push(HEXD[(x & 15) as usize] as char);
    }
    s
}

/// compact notation: `-` | part(+part)*, part = hex | `*<n>:<hh>`
pub fn bn(b: &[u8]) -> String {
    if b.is_empty() {
        return "-".into();
    }
    let mut parts: Vec<String> = vec![];
    let mut lit: Vec<u8> = vec![];
    let mut i = 0;
    while i < b.len() {
        let mut j = i;
        while j < b.len() && b[j] == b[i] {
            j += 1;
        }
        if j - i >= 8 {
            if !lit.is_empty() {
                parts.push(hexs(&lit));
                lit.clear();
            }
            parts.push(format!("*{}:{:02x}", j - i, b[i]));
        } else {
            lit.extend_from_slice(&b[i..j]);
        }
        i = j;
    }
    if !lit.is_empty() {
        parts.push(hexs(&lit));
    }
    parts.join("+")
}

pub fn parse_bn(s: &str) -> Option<Vec<u8>> {
    if s == "-" {
        return Some(vec![]);
    }
    let mut out = vec![];
    for p in s.split('+') {
        if let Some(r) = p.strip_prefix('*') {
            let (n, h) = r.split_once(':')?;
            let n: usize = n.parse().ok()?;
            let b = u8::from_str_radix(h, 16).ok()?;
            out.extend(std::iter::repeat(b).take(n));
        } else {
            if p.len() % 2 != 0 {
                return None;
            }
            for i in 0..p.len() / 2 {
                out.push(u8::from_str_radix(&p[2 * i..2 * i + 2], 16).ok()?);
            }
        }
    }
    Some(out)
}

pub fn varint_len(v: usize) -> usize {
    if v <= 240 { 1 } else if v <= 2287 { 2 } else if v <= 67823 { 3 } else if v <= 0xFF_FFFF { 4 } else if v <= 0xFFFF_FFFF { 5 } else { 9 }
}

/// independent varint decoder (format of src/encoding/varint.rs)
pub fn varint_dec(b: &[u8]) -> Option<(u64, usize)> {
    let f = *b.first()? as u64;
    if f <= 240 {
        Some((f, 1))
    } else if f <= 248 {
        Some((240 + (f - 241) * 256 + *b.get(1)? as u64, 2))
    } else if f == 249 {
        Some((2288 + (*b.get(1)? as u64) * 256 + *b.get(2)? as u64, 3))
    } else if f == 250 {
        let mut v = 0u64;
        for i in 1..4 { v = v * 256 + *b.get(i)? as u64; }
        Some((v, 4))
    } else if f == 251 {
        let mut v = 0u64;
        for i in 1..5 { v = v * 256 + *b.get(i)? as u64; }
        Some((v, 5))
    } else if f == 255 {
        let mut v = 0u64;
        for i in 1..9 { v = v * 256 + *b.get(i)? as u64; }
        Some((v, 9))
    } else {
        None
    }
}

pub fn prefix4(k: &[u8]) -> [u8; 4] {
    let mut p = [0u8; 4];
    let n = k.len().min(4);
    p[..n].copy_from_slice(&k[..n]);
    p
}

fn u16at(p: &[u8], o: usize) -> usize {
    u16::from_le_bytes([p[o], p[o + 1]]) as usize
}
fn u32at(p: &[u8], o: usize) -> u32 {
    u32::from_le_bytes([p[o], p[o + 1], p[o + 2], p[o + 3]])
}

#[derive(Clone, Debug, PartialEq)]
pub struct DCell {
    pub pre: [u8; 4],
    pub off: usize,
    pub key: Vec<u8>,
    pub val: Vec<u8>,
    pub size: usize,
}

#[derive(Clone, Debug, PartialEq)]
pub struct DLeaf {
    pub fs: usize,
    pub fe: usize,
    pub frag: usize,
    pub next: u32,
    pub cells: Vec<DCell>,
}

#[derive(Clone, Debug, PartialEq)]
pub struct DSlot {
    pub pre: [u8; 4],
    pub child: u32,
    pub off: usize,
    pub key: Vec<u8>,
}

#[derive(Clone, Debug, PartialEq)]
pub struct DInt {
    pub fs: usize,
    pub fe: usize,
    pub right: u32,
    pub slots: Vec<DSlot>,
}

#[derive(Clone, Debug, PartialEq)]
pub enum DPage {
    Leaf(DLeaf),
    Int(DInt),
}

/// abstraction function for a leaf page; Err = the page cannot even be decoded
pub fn decode_leaf(p: &[u8]) -> Result<DLeaf, &'static str> {
    if p.len() != PAGE { return Err("page-size"); }
    if p[0] != 0x02 { return Err("not-a-leaf"); }
    let n = u16at(p, 2);
    if LEAF_START + 8 * n > PAGE { return Err("slot-array-outside-page"); }
    let mut cells = Vec::with_capacity(n);
    for i in 0..n {
        let so = LEAF_START + 8 * i;
        let pre = [p[so], p[so + 1], p[so + 2], p[so + 3]];
        let off = u16at(p, so + 4);
        let klen = u16at(p, so + 6);
        if off + klen > PAGE { return Err("key-outside-page"); }
        let vs = off + klen;
        let (vl, vn) = varint_dec(&p[vs..]).ok_or("value-length-undecodable")?;
        let vl = vl as usize;
        if vs + vn + vl > PAGE { return Err("value-outside-page"); }
        cells.push(DCell { pre, off, key: p[off..off + klen].to_vec(), val: p[vs + vn..vs + vn + vl].to_vec(), size: klen + vn + vl });
    }
    Ok(DLeaf { fs: u16at(p, 4), fe: u16at(p, 6), frag: p[8] as usize, next: u32at(p, 12), cells })
}

pub fn decode_interior(p: &[u8]) -> Result<DInt, &'static str> {
    if p.len() != PAGE { return Err("page-size"); }
    if p[0] != 0x01 { return Err("not-an-interior"); }
    let n = u16at(p, 2);
    if INT_START + 12 * n > PAGE { return Err("slot-array-outside-page"); }
    let mut slots = Vec::with_capacity(n);
    for i in 0..n {
        let so = INT_START + 12 * i;
        let pre = [p[so], p[so + 1], p[so + 2], p[so + 3]];
        let child = u32at(p, so + 4);
        let off = u16at(p, so + 8);
        let klen = u16at(p, so + 10);
        if off + klen > PAGE { return Err("key-outside-page"); }
        slots.push(DSlot { pre, child, off, key: p[off..off + klen].to_vec() });
    }
    Ok(DInt { fs: u16at(p, 4), fe: u16at(p, 6), right: u32at(p, 12), slots })
}

fn overlaps(mut ext: Vec<(usize, usize)>) -> bool {
    ext.sort();
    ext.windows(2).any(|w| w[0].0 + w[0].1 > w[1].0)
}

/// C29 per-leaf clauses; returns the names of the violated clauses
pub fn wf_leaf(d: &DLeaf) -> Vec<&'static str> {
    let mut v = vec![];
    let n = d.cells.len();
    if d.fs != LEAF_START + 8 * n { v.push("free-start-not-slot-array-end"); }
    if d.fs > d.fe { v.push("slot-area-overlaps-cell-area"); }
    if d.fe > PAGE { v.push("free-end-outside-page"); }
    if d.cells.iter().any(|c| c.off < d.fe || c.off + c.size > PAGE) { v.push("cell-outside-cell-area"); }
    if overlaps(d.cells.iter().map(|c| (c.off, c.size)).collect()) { v.push("cells-overlap"); }
    if d.cells.iter().any(|c| c.pre != prefix4(&c.key)) { v.push("slot-prefix"); }
    if d.cells.windows(2).any(|w| w[0].key >= w[1].key) { v.push("leaf-keys-not-increasing"); }
    v
}

pub fn wf_interior(d: &DInt) -> Vec<&'static str> {
    let mut v = vec![];
    let n = d.slots.len();
    if d.fs != INT_START + 12 * n { v.push("int-free-start-not-slot-array-end"); }
    if d.fs > d.fe { v.push("int-slot-area-overlaps-cell-area"); }
    if d.fe > PAGE { v.push("int-free-end-outside-page"); }
    if d.slots.iter().any(|s| s.off < d.fe || s.off + s.key.len() > PAGE) { v.push("int-key-outside-cell-area"); }
    if overlaps(d.slots.iter().filter(|s| !s.key.is_empty()).map(|s| (s.off, s.key.len())).collect()) { v.push("int-keys-overlap"); }
    if d.slots.iter().any(|s| s.pre != prefix4(&s.key)) { v.push("int-slot-prefix"); }
    if d.slots.windows(2).any(|w| w[0].key >= w[1].key) { v.push("separators-not-increasing"); }
    v
}

/// decoded view of everything reachable from the root
#[derive(Clone, Debug, Default)]
pub struct TreeView {
    pub root: u32,
    pub pages: BTreeMap<u32, DPage>,
    /// leaves in key (in-order traversal) order
    pub leaves: Vec<u32>,
    pub depth: usize,
    /// violated C29 clauses (deduplicated names)
    pub violations: BTreeSet<String>,
}

impl TreeView {
    pub fn leaf(&self, p: u32) -> Option<&DLeaf> {
        match self.pages.get(&p) { Some(DPage::Leaf(l)) => Some(l), _ => None }
    }
    pub fn entries(&self) -> Vec<(Vec<u8>, Vec<u8>)> {
        let mut v = vec![];
        for p in &self.leaves {
            if let Some(l) = self.leaf(*p) {
                for c in &l.cells { v.push((c.key.clone(), c.val.clone())); }
            }
        }
        v
    }
    /// the leaf the code's descent (`find_child`: key < separator goes left) reaches
    pub fn descend(&self, key: &[u8]) -> Option<u32> {
        let mut p = self.root;
        for _ in 0..64 {
            match self.pages.get(&p)? {
                DPage::Leaf(_) => return Some(p),
                DPage::Int(i) => {
                    let idx = i.slots.iter().position(|s| key < s.key.as_slice());
                    p = match idx { Some(j) => i.slots[j].child, None => i.right };
                }
            }
        }
        None
    }
    pub fn empty_nonroot_leaves(&self) -> usize {
        self.leaves.iter().filter(|p| **p != self.root && self.leaf(**p).map(|l| l.cells.is_empty()).unwrap_or(false)).count()
    }
}

struct Walk<'a> {
    page_of: &'a dyn Fn(u32) -> Option<Vec<u8>>,
    view: TreeView,
    leaf_depths: BTreeSet<usize>,
}

impl<'a> Walk<'a> {
    fn visit(&mut self, p: u32, lo: Option<&[u8]>, hi: Option<&[u8]>, depth: usize) {
        if depth > 40 {
            self.view.violations.insert("depth-unbounded".into());
            return;
        }
        if self.view.pages.contains_key(&p) {
            self.view.violations.insert("page-reachable-twice".into());
            return;
        }
        let data = match (self.page_of)(p) {
            Some(d) => d,
            None => {
                self.view.violations.insert("child-pointer-outside-file".into());
                return;
            }
        };
        let inb = |k: &[u8]| lo.map(|l| l <= k).unwrap_or(true) && hi.map(|h| k < h).unwrap_or(true);
        match data[0] {
            0x02 => match decode_leaf(&data) {
                Ok(l) => {
                    for c in wf_leaf(&l) { self.view.violations.insert(c.into()); }
                    if l.cells.iter().any(|c| !inb(&c.key)) {
                        self.view.violations.insert("leaf-key-outside-separator-bounds".into());
                    }
                    self.leaf_depths.insert(depth);
                    self.view.leaves.push(p);
                    self.view.pages.insert(p, DPage::Leaf(l));
                }
                Err(e) => {
                    self.view.violations.insert(format!("leaf-undecodable-{e}"));
                }
            },
            0x01 => match decode_interior(&data) {
                Ok(i) => {
                    for c in wf_interior(&i) { self.view.violations.insert(c.into()); }
                    if i.slots.iter().any(|s| !inb(&s.key)) {
                        self.view.violations.insert("separator-outside-parent-bounds".into());
                    }
                    self.view.pages.insert(p, DPage::Int(i.clone()));
                    let mut cur_lo: Option<Vec<u8>> = lo.map(|x| x.to_vec());
                    for s in &i.slots {
                        self.visit(s.child, cur_lo.as_deref(), Some(&s.key), depth + 1);
                        cur_lo = Some(s.key.clone());
                    }
                    self.visit(i.right, cur_lo.as_deref(), hi, depth + 1);
                }
                Err(e) => {
                    self.view.violations.insert(format!("interior-undecodable-{e}"));
                }
            },
            _ => {
                self.view.violations.insert("reachable-page-not-btree".into());
            }
        }
    }
}

/// decode and validate everything reachable from `root`
pub fn walk_tree(root: u32, page_of: &dyn Fn(u32) -> Option<Vec<u8>>) -> TreeView {
    let mut w = Walk { page_of, view: TreeView { root, ..Default::default() }, leaf_depths: BTreeSet::new() };
    w.visit(root, None, None, 0);
    if w.leaf_depths.len() > 1 {
        w.view.violations.insert("leaves-at-different-depths".into());
    }
    w.view.depth = w.leaf_depths.iter().next().copied().unwrap_or(0);
    // leaf chain = in-order leaves, each exactly once, terminated by 0
    let mut chain = vec![];
    if let Some(first) = w.view.leaves.first().copied() {
        let mut p = first;
        for _ in 0..w.view.leaves.len() + 2 {
            chain.push(p);
            let nx = match w.view.leaf(p) {
                Some(l) => l.next,
                None => match (w.page_of)(p).and_then(|d| decode_leaf(&d).ok()) { Some(l) => l.next, None => { chain.push(u32::MAX); 0 } },
            };
            if nx == 0 { break; }
            p = nx;
        }
    }
    if chain != w.view.leaves {
        w.view.violations.insert("leaf-chain-differs-from-inorder-leaves".into());
    }
    w.view
}
