use crate::common::*;
pub mod varint;
pub mod sqlprobe;
pub mod sql_where;
pub mod budget;
pub mod pagelocks;
pub mod groupcommit;
pub mod commitorder;
pub mod keyenc;
pub mod keyenc_gen;
pub mod keyenc_glue;
pub mod keyenc_val;
pub mod simd;
pub mod sql_join;
pub mod sql_join_op;
pub mod sql_subq;
pub mod cal;
pub mod json;
pub mod sqlx;
pub mod sql_order;
pub mod sql_agg;
pub mod sql_fn;
pub mod sql_rewrite;
pub mod sql_dml;
pub mod rowserde;
pub mod record;
pub mod sql_autoinc;
pub mod sql_cons;
pub mod vec_exact;
pub mod vecdist;
pub mod hnsw;
pub mod freelist;
pub mod sieve;
#[path = "../sqlgen_txn.rs"]
pub mod sqlgen_txn;
pub mod sql_txn;
pub mod sql_iso;

pub fn run(engine: &str, ctx: &Ctx) -> Report {
    match engine {
        "varint" => varint::run(ctx),
        "sqlprobe" => sqlprobe::run(ctx),
        "sql_where" => sql_where::run(ctx),
        "budget" => budget::run(ctx),
        "pagelocks" => pagelocks::run(ctx),
        "groupcommit" => groupcommit::run(ctx),
        "commitorder" => commitorder::run(ctx),
        "keyenc" => keyenc::run(ctx),
        "simd" => simd::run(ctx),
        "sql_join" => sql_join::run(ctx),
        "sql_subq" => sql_subq::run(ctx),
        "cal" => cal::run(ctx),
        "json" => json::run(ctx),
        "sql_order" => sql_order::run(ctx),
        "sql_agg" => sql_agg::run(ctx),
        "sql_fn" => sql_fn::run(ctx),
        "sql_rewrite" => sql_rewrite::run(ctx),
        "sql_dml" => sql_dml::run(ctx),
        "sql_dml_atomic" => sql_dml::run_atomic(ctx),
        "rowserde" => rowserde::run(ctx),
        "record" => record::run(ctx),
        "sql_autoinc" => sql_autoinc::run(ctx),
        "sql_cons" => sql_cons::run(ctx),
        "vecdist" => vecdist::run(ctx),
        "hnsw" => hnsw::run(ctx),
        "freelist" => freelist::run(ctx),
        "sieve" => sieve::run(ctx),
        "sql_txn" => sql_txn::run(ctx),
        "sql_iso" => sql_iso::run(ctx),
        _ => {
            eprintln!("unknown engine {engine}");
            std::process::exit(2);
        }
    }
}
