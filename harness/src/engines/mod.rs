use crate::common::*;
pub mod varint;
pub mod sqlprobe;

pub fn run(engine: &str, ctx: &Ctx) -> Report {
    match engine {
        "varint" => varint::run(ctx),
        "sqlprobe" => sqlprobe::run(ctx),
        _ => {
            eprintln!("unknown engine {engine}");
            std::process::exit(2);
        }
    }
}
