//! C17: joins return the SQL-defined bag under any join memory budget.
//!
//! Phase A (SQL level, M-spec): generated 2- and 3-table joins of all five kinds (equi / multi-key /
//! equi+residual / non-equi / OR / expression / constant ON conditions, extra WHERE on either side,
//! NULL keys, duplicate keys, empty sides) run through `Database::execute` under
//! `PRAGMA join_memory_budget` in {1 byte, 64 KiB, 10 MiB (default), 1 TiB}.  All budgets must agree
//! with each other and with the reference bag `TurVerif.Sql.join` (driver family `sql`).
//!
//! Phase B (operator level, M-code): the executor operators `DynamicExecutor::GraceHashJoin`
//! (in memory and spilling through `PartitionSpiller`, 1..16 partitions) and
//! `DynamicExecutor::StreamingHashJoin` are driven directly on materialised inputs and compared
//! row-for-row (emission order) with the Lean transcription `TurVerif.SqlJoin.graceJoin/hashJoin`
//! (driver family `sqljoin`, the real SipHash values are handed to the model as the hash function);
//! the property oracle is bag equality with the nested-loop definition.
//!
//! Signatures (finite alphabet):
//!   `join:<n>way:<kinds>:on=<shapes>:where=<shape>:<same|budget-dependent>:<missing|extra|both|err-..|panic>`
//!   `graceop:<op>:<kind>:<keys>:<spill>:<missing|extra|both|err>`
use crate::common::*;
use crate::sqlgen::*;
use crate::sqlgen_sub::*;

const BUDGETS: &[(&str, u64)] = &[("tiny", 1), ("64k", 65536), ("default", 10 * 1024 * 1024), ("huge", 1 << 40)];

fn col(i: usize) -> Box<E> { Box::new(E::Col(i)) }
fn int(i: i64) -> Box<E> { Box::new(E::Lit(V::Int(i))) }
fn bin(op: Op, a: Box<E>, b: Box<E>) -> E { E::Bin(op, a, b) }

/// table `name(id INT, k INT, <p> INT, s TEXT)`: unique id, small colliding key domain with NULLs
fn jtable(rng: &mut Rng, name: &str, p: &str, nrows: usize, null_pct: u64) -> TableSpec {
    let cols = vec![("id".to_string(), Ty::Int), ("k".to_string(), Ty::Int), (p.to_string(), Ty::Int), ("s".to_string(), Ty::Text)];
    let mut rows = vec![];
    for r in 0..nrows {
        let k = if rng.chance(null_pct, 100) { V::Null } else { V::Int(*rng.pick(&[1i64, 1, 2, 2, 3, 5, 7])) };
        let a = if rng.chance(null_pct / 2, 100) { V::Null } else { V::Int(*rng.pick(&[10i64, 20, 30, 40, 50])) };
        let s = if rng.chance(null_pct, 100) { V::Null } else { V::Text(rng.pick(&["a", "b", "c", "a"]).to_string()) };
        rows.push(vec![V::Int(r as i64 + 1), k, a, s]);
    }
    TableSpec { name: name.into(), cols, rows }
}

fn fixed_tables() -> Vec<TableSpec> {
    let mk = |name: &str, p: &str, rows: Vec<(i64, Option<i64>, Option<i64>, Option<&str>)>| TableSpec {
        name: name.into(),
        cols: vec![("id".to_string(), Ty::Int), ("k".to_string(), Ty::Int), (p.to_string(), Ty::Int), ("s".to_string(), Ty::Text)],
        rows: rows.into_iter().map(|(i, k, a, s)| vec![V::Int(i), k.map(V::Int).unwrap_or(V::Null), a.map(V::Int).unwrap_or(V::Null), s.map(|x| V::Text(x.into())).unwrap_or(V::Null)]).collect(),
    };
    vec![
        mk("t", "a", vec![(1, Some(1), Some(10), Some("a")), (2, Some(1), Some(20), Some("b")), (3, Some(2), Some(30), None), (4, None, Some(40), Some("a")), (5, Some(7), Some(50), Some("c")), (6, Some(2), None, Some("b"))]),
        mk("u", "b", vec![(1, Some(1), Some(15), Some("a")), (2, Some(2), Some(200), Some("b")), (3, Some(2), Some(25), None), (4, None, Some(400), Some("a")), (5, Some(9), Some(35), Some("q")), (6, Some(3), None, Some("c"))]),
        mk("w", "c", vec![(1, Some(1), Some(5), Some("a")), (2, Some(2), Some(25), Some("b")), (3, None, Some(7), None), (4, Some(3), Some(45), Some("c")), (5, Some(2), Some(10), Some("a"))]),
    ]
}

/// ON-condition shapes between a left column block starting at `lo` and a right block at `ro`
/// (block layout: id, k, payload, s)
const ON_SHAPES: &[&str] = &["equi", "equi-text", "equi2", "equi+resid-both", "equi+resid-l", "equi+resid-r", "nonequi", "or-eq", "expr-eq", "true", "false"];

fn on_expr(shape: &str, lo: usize, ro: usize, c: i64) -> E {
    let keq = || bin(Op::Eq, col(lo + 1), col(ro + 1));
    match shape {
        "equi" => keq(),
        "equi-text" => bin(Op::Eq, col(lo + 3), col(ro + 3)),
        "equi2" => bin(Op::And, Box::new(keq()), Box::new(bin(Op::Eq, col(lo + 3), col(ro + 3)))),
        "equi+resid-both" => bin(Op::And, Box::new(keq()), Box::new(bin(Op::Lt, col(lo + 2), col(ro + 2)))),
        "equi+resid-l" => bin(Op::And, Box::new(keq()), Box::new(bin(Op::Gt, col(lo + 2), int(c)))),
        "equi+resid-r" => bin(Op::And, Box::new(keq()), Box::new(bin(Op::Gt, col(ro + 2), int(c)))),
        "nonequi" => bin(Op::Lt, col(lo + 1), col(ro + 1)),
        "or-eq" => bin(Op::Or, Box::new(keq()), Box::new(bin(Op::Eq, col(lo + 3), col(ro + 3)))),
        "expr-eq" => bin(Op::Eq, Box::new(bin(Op::Add, col(lo + 1), int(1))), col(ro + 1)),
        "true" => E::Lit(V::Bool(true)),
        _ => E::Lit(V::Bool(false)),
    }
}

const WHERE_SHAPES: &[&str] = &["none", "l", "r", "both", "r-isnull", "l-isnull", "key-eq", "l-and-r"];

/// WHERE shapes over the first table block `lo` and the last table block `ro`
fn where_expr(shape: &str, lo: usize, ro: usize, c: i64) -> Option<E> {
    match shape {
        "none" => None,
        "l" => Some(bin(Op::Gt, col(lo + 2), int(c))),
        "r" => Some(bin(Op::Gt, col(ro + 2), int(c))),
        "both" => Some(bin(Op::Lt, col(lo + 2), col(ro + 2))),
        "r-isnull" => Some(E::IsNull(col(ro), false)),
        "l-isnull" => Some(E::IsNull(col(lo), false)),
        "key-eq" => Some(bin(Op::Eq, col(lo + 1), col(ro + 1))),
        _ => Some(bin(Op::And, Box::new(bin(Op::Gt, col(lo + 2), int(c))), Box::new(bin(Op::Le, col(ro + 2), int(c + 20))))),
    }
}

struct JQuery {
    meta: String,
    sel: Sel,
}

fn scope_of(ts: &[&TableSpec]) -> Scope { ts.iter().flat_map(|t| t.scope()).collect() }

fn two_way(t: &TableSpec, u: &TableSpec, kind: &'static str, on: &str, wh: &str, c: i64) -> JQuery {
    let from = FromItem::Join(kind, Box::new(FromItem::Table(t.name.clone())), Box::new(FromItem::Table(u.name.clone())), if kind == "cross" { E::Lit(V::Bool(true)) } else { on_expr(on, 0, 4, c) });
    let mut sel = Sel::simple(&t.name, scope_of(&[t, u]));
    sel.from = from;
    sel.whr = where_expr(wh, 0, 4, c);
    sel.items = vec![E::Col(0), E::Col(4), E::Col(1), E::Col(6)];
    let on_s = if kind == "cross" { "none" } else { on };
    JQuery { meta: format!("join:2way:{kind}:on={on_s}:where={wh}"), sel }
}

/// left-deep `t k1 u ON on1(t,u) k2 w ON on2(x,w)` where x = u ("prev") or t ("first")
fn three_way(t: &TableSpec, u: &TableSpec, w: &TableSpec, k1: &'static str, on1: &str, k2: &'static str, on2: &str, anchor: &str, wh: &str, c: i64) -> JQuery {
    let j1 = FromItem::Join(k1, Box::new(FromItem::Table(t.name.clone())), Box::new(FromItem::Table(u.name.clone())), if k1 == "cross" { E::Lit(V::Bool(true)) } else { on_expr(on1, 0, 4, c) });
    let lo2 = if anchor == "first" { 0 } else { 4 };
    let from = FromItem::Join(k2, Box::new(j1), Box::new(FromItem::Table(w.name.clone())), if k2 == "cross" { E::Lit(V::Bool(true)) } else { on_expr(on2, lo2, 8, c) });
    let mut sel = Sel::simple(&t.name, scope_of(&[t, u, w]));
    sel.from = from;
    sel.whr = where_expr(wh, 0, 8, c);
    sel.items = vec![E::Col(0), E::Col(4), E::Col(8), E::Col(1), E::Col(10)];
    let o1 = if k1 == "cross" { "none" } else { on1 };
    let o2 = if k2 == "cross" { "none".to_string() } else { format!("{on2}@{anchor}") };
    JQuery { meta: format!("join:3way:{k1}+{k2}:on={o1}+{o2}:where={wh}"), sel }
}

const KINDS: &[&str] = &["inner", "left", "right", "full", "cross"];

fn mk_case(q: &JQuery, tables: &[TableSpec]) -> SqlCase {
    let mut setup = vec![];
    let mut model_setup = vec!["reset".to_string()];
    for t in tables {
        setup.push(t.create_sql());
        setup.extend(t.insert_sqls());
        model_setup.extend(t.model_lines());
    }
    SqlCase { meta: q.meta.clone(), setup, model_setup, family: "sql".into(), request: format!("query {}", q.sel.sx()), sql: q.sel.sql(), probe: vec![] }
}

fn is_nullext(r: &[String]) -> bool { r.first().map(|c| c == "N").unwrap_or(false) || r.get(1).map(|c| c == "N").unwrap_or(false) }

/// run one SQL-level case on an open database whose tables are already loaded (model likewise)
fn run_sql_case(rep: &mut Report, dbh: &Dbh, model: &mut Model, case: &SqlCase) {
    let resp = model.ask(&case.request);
    let expected = match parse_model_rows(&resp) {
        Ok(r) => r,
        Err(e) => {
            if e == "bad-op" { rep.disagree(case.to_line(), format!("model rejected request: {}", case.request), "model-bad-op".into()); }
            rep.count("skipped_model_error");
            return;
        }
    };
    let key = format!("{} ## {}", case.sql, fnv(&case.setup.join(";")));
    rep.case(if !expected.is_empty() { Some(&key) } else { None });
    rep.count(&format!("shape_{}", case.meta.split(':').take(3).collect::<Vec<_>>().join(":")));
    rep.count(&format!("expected_rows_{}", match expected.len() { 0 => "0", 1..=5 => "1-5", 6..=20 => "6-20", _ => ">20" }));
    if expected.iter().any(|r| is_nullext(r)) { rep.count("expected_has_null_extended_rows"); }
    if rep.evaluations % 97 == 0 { rep.sample(format!("{}  -- {} reference rows", case.sql, expected.len())); }
    let mut outs: Vec<(String, Result<Vec<Vec<String>>, String>)> = vec![];
    for (bn, bv) in BUDGETS {
        match dbh.exec(&format!("PRAGMA join_memory_budget = {bv}")) {
            Out::Err(e) => { rep.oracle_fail(case.to_line(), format!("PRAGMA join_memory_budget = {bv}: {e}"), format!("join:pragma-error:{bn}")); }
            Out::Panic(p) => { rep.oracle_fail(case.to_line(), format!("PRAGMA join_memory_budget = {bv}: panic {p}"), format!("join:pragma-panic:{bn}")); }
            _ => {}
        }
        let o = match dbh.exec(&case.sql) {
            Out::Rows(r) => Ok(r),
            Out::Err(e) => Err(format!("err-{}", error_class(&e))),
            Out::Panic(p) => Err(format!("panic:{}", p.chars().take(80).collect::<String>())),
            o => Err(format!("unexpected:{o:?}")),
        };
        outs.push((bn.to_string(), o));
    }
    // budgets must agree with each other
    let first = &outs[0].1;
    let mut budget_dep: Option<String> = None;
    for (bn, o) in outs.iter().skip(1) {
        let same = match (first, o) {
            (Ok(a), Ok(b)) => rows_agree_bag(a, b),
            (Err(a), Err(b)) => a == b,
            _ => false,
        };
        if !same { budget_dep = Some(bn.clone()); break; }
    }
    if let Some(bn) = &budget_dep {
        rep.oracle_fail(case.to_line(), format!("{}: result under budget 'tiny' differs from budget '{}': {:?} vs {:?}", case.sql, bn, outs[0].1.as_ref().map(|r| show_rows(r)), outs.iter().find(|x| &x.0 == bn).map(|x| x.1.as_ref().map(|r| show_rows(r)))),
            format!("{}:budget-dependent:{}", case.meta, bn));
    }
    // every budget must equal the reference bag
    if std::env::var("VERIF_DEBUG").is_ok() {
        let ok = outs.iter().all(|(_, o)| matches!(o, Ok(r) if rows_agree_bag(&expected, r)));
        rep.count(&format!("dbg_{}_{}", if ok { "pass" } else { "fail" }, case.meta));
    }
    let mut reported = std::collections::BTreeSet::new();
    for (bn, o) in &outs {
        let cls = match o {
            Ok(rows) => {
                if rows_agree_bag(&expected, rows) { continue; }
                let (missing, extra) = bag_diff(&expected, rows);
                let d = match (missing.is_empty(), extra.is_empty()) { (false, true) => "missing", (true, false) => "extra", _ => "both" };
                let ne = if missing.iter().chain(extra.iter()).all(|r| is_nullext(r)) { "-nullext" } else { "" };
                (format!("{d}{ne}"), format!("missing {} extra {}", show_rows(&missing), show_rows(&extra)))
            }
            Err(e) => {
                let c = if e.starts_with("panic") { "panic".to_string() } else { e.clone() };
                (c, e.clone())
            }
        };
        let sig = format!("{}:{}:{}", case.meta, if budget_dep.is_some() { bn.as_str() } else { "same" }, cls.0);
        if reported.insert(sig.clone()) {
            rep.oracle_fail(case.to_line(), format!("{} [budget {}]: reference {} rows, engine differs: {}", case.sql, bn, expected.len(), cls.1), sig);
        }
    }
}

fn load(dbh: &Dbh, model: &mut Model, tables: &[TableSpec]) {
    model.ask("reset");
    for t in tables {
        dbh.must(&t.create_sql());
        for s in t.insert_sqls() { dbh.must(&s); }
        for l in t.model_lines() { model.ask(&l); }
    }
}

fn systematic_queries(ts: &[TableSpec], c: i64) -> Vec<JQuery> {
    let (t, u, w) = (&ts[0], &ts[1], &ts[2]);
    let mut v = vec![];
    for k in KINDS {
        if *k == "cross" {
            for wh in ["none", "key-eq", "l", "both"] { v.push(two_way(t, u, k, "none", wh, c)); }
            continue;
        }
        for on in ON_SHAPES { v.push(two_way(t, u, k, on, "none", c)); }
        for on in ["equi", "nonequi", "equi+resid-both"] {
            for wh in WHERE_SHAPES.iter().skip(1) { if *wh != "key-eq" { v.push(two_way(t, u, k, on, wh, c)); } }
        }
    }
    for k1 in KINDS {
        for k2 in KINDS {
            for (on1, on2, anchor) in [("equi", "equi", "prev"), ("equi", "equi", "first"), ("nonequi", "equi", "prev"), ("equi", "nonequi", "prev"), ("nonequi", "nonequi", "first")] {
                if (*k1 == "cross" && on1 != "equi") || (*k2 == "cross" && (on2 != "equi" || anchor != "prev")) { continue; }
                v.push(three_way(t, u, w, k1, on1, k2, on2, anchor, "none", c));
            }
            v.push(three_way(t, u, w, k1, "equi", k2, "equi", "prev", "l", c));
        }
    }
    v
}

fn random_query(rng: &mut Rng, ts: &[TableSpec]) -> JQuery {
    let c = *rng.pick(&[10i64, 20, 30]);
    let (t, u, w) = (&ts[0], &ts[1], &ts[2]);
    if rng.chance(7, 10) {
        let k = *rng.pick(KINDS);
        let on = if rng.chance(1, 2) { *rng.pick(&["equi", "equi-text", "equi2", "nonequi", "true", "false", "expr-eq"]) } else { *rng.pick(ON_SHAPES) };
        let wh = if rng.chance(1, 2) { "none" } else { *rng.pick(WHERE_SHAPES) };
        let wh = if k != "cross" && wh == "key-eq" { "none" } else { wh };
        two_way(t, u, k, on, wh, c)
    } else {
        let k1 = *rng.pick(KINDS);
        let k2 = *rng.pick(KINDS);
        let on1 = *rng.pick(&["equi", "nonequi", "equi-text"]);
        let on2 = *rng.pick(&["equi", "nonequi", "equi-text"]);
        let anchor = if k2 == "cross" { "prev" } else { *rng.pick(&["prev", "first"]) };
        let wh = *rng.pick(&["none", "none", "l", "r"]);
        three_way(t, u, w, k1, on1, k2, on2, anchor, wh, c)
    }
}

pub fn run(ctx: &Ctx) -> Report {
    let mut rep = Report::new(
        "sql_join",
        "Phase A: tables t,u,w(id unique, k INT from a small colliding domain with NULLs, INT payload, TEXT s with NULLs), 0-9 rows; \
         a systematic layer (every join kind x every ON shape, x WHERE shapes, all 25 kind pairs of left-deep 3-way joins) on a fixed data set \
         and on per-seed random data sets, plus random queries; every query runs under PRAGMA join_memory_budget in {1, 65536, 10485760, 2^40}; \
         select lists are explicit qualified columns starting with t.id (dodges the known projection defect of C14). \
         Phase B: GraceHashJoin (1/2/3/16 partitions, in memory and spilling with budget 1 byte / 4 KiB) and StreamingHashJoin operators on \
         materialised inputs with NULL, duplicate, text, two-column and mixed INT/DOUBLE keys, compared in emission order with the Lean M-code model. \
         non-trivial = case whose reference result is non-empty",
    );
    let mut rng = Rng::new(ctx.seed);
    let mut model = Model::spawn(&ctx.model_bin, "sql");

    // ---- corpus / replay first
    for (i, line) in ctx.corpus_cases("C17").iter().enumerate() {
        if line.starts_with("graceop ") { continue; }
        let Some(case) = SqlCase::from_line(line) else { rep.notes.push(format!("unparsable corpus line {i}")); continue };
        let dbh = Dbh::create(ctx, &format!("c17-corpus-{i}"));
        for s in &case.setup { dbh.must(s); }
        for l in &case.model_setup { model.ask(l); }
        run_sql_case(&mut rep, &dbh, &mut model, &case);
        rep.count("corpus_cases");
    }

    // ---- Phase A
    let ndata = if ctx.thorough { 24 } else { 7 };
    let nrandom = if ctx.thorough { 400 } else { 250 };
    for di in 0..=ndata {
        let tables: Vec<TableSpec> = if di == 0 { fixed_tables() } else {
            let sizes: [usize; 3] = match di % 5 { 1 => [6, 7, 4], 2 => [0, 5, 3], 3 => [5, 0, 4], 4 => [8, 9, 0], _ => [9, 8, 6] };
            let np = *rng.pick(&[0u64, 20, 35]);
            vec![jtable(&mut rng, "t", "a", sizes[0], np), jtable(&mut rng, "u", "b", sizes[1], np), jtable(&mut rng, "w", "c", sizes[2], np)]
        };
        let dbh = Dbh::create(ctx, &format!("c17-{di}"));
        load(&dbh, &mut model, &tables);
        rep.count(&format!("dataset_sizes_{}x{}x{}", tables[0].rows.len(), tables[1].rows.len(), tables[2].rows.len()));
        let mut qs = if di <= 2 || ctx.thorough { systematic_queries(&tables, if di % 2 == 0 { 20 } else { 30 }) } else { vec![] };
        for _ in 0..nrandom { qs.push(random_query(&mut rng, &tables)); }
        for q in &qs {
            let case = mk_case(q, &tables);
            run_sql_case(&mut rep, &dbh, &mut model, &case);
        }
        // restore the default budget
        let _ = dbh.exec("PRAGMA join_memory_budget = 10485760");

        // ---- the same data with secondary indexes on the join key and the payload column of every
        // table: the planner may now choose the index-nested-loop join; 2-way joins only, signatures
        // carry the prefix `idx:`
        if di <= 3 || ctx.thorough {
            let dbi = Dbh::create(ctx, &format!("c17-idx-{di}"));
            load(&dbi, &mut model, &tables);
            for t in &tables {
                let _ = dbi.exec(&format!("CREATE INDEX ix_{}_k ON {} (k)", t.name, t.name));
                let _ = dbi.exec(&format!("CREATE INDEX ix_{}_p ON {} ({})", t.name, t.name, t.cols[2].0));
            }
            let mut qi: Vec<JQuery> = vec![];
            let (t, u) = (&tables[0], &tables[1]);
            for k in KINDS {
                if *k == "cross" { continue; }
                for on in ON_SHAPES { qi.push(two_way(t, u, k, on, "none", 20)); qi.push(two_way(u, t, k, on, "none", 20)); }
                for wh in WHERE_SHAPES.iter().skip(1) { if *wh != "key-eq" { qi.push(two_way(t, u, k, "equi", wh, 20)); } }
            }
            for q in &mut qi { q.meta = format!("idx:{}", q.meta); }
            for q in &qi {
                let case = mk_case(q, &tables);
                run_sql_case(&mut rep, &dbi, &mut model, &case);
                rep.count("indexed_cases");
            }
        }
    }
    rep.notes.push(format!("sql model requests: {}", model.requests));
    drop(model);

    // ---- Phase B
    super::sql_join_op::run_ops(ctx, &mut rng, &mut rep);
    rep
}
