//! C17 phase B: M-code correspondence for the hash-join operators of `src/sql/executor.rs`.
//!
//! Drives `DynamicExecutor::GraceHashJoin` (built with `ExecutorBuilder::build_grace_hash_join`, in
//! memory and spilling through `PartitionSpiller`) and `DynamicExecutor::StreamingHashJoin` on
//! materialised inputs and compares the emitted rows, in order, with `TurVerif.SqlJoin.graceJoin` /
//! `hashJoin` (driver family `sqljoin`).  The model's hash function is the table of the real
//! `hash_keys_static` values of every key occurring in the inputs.  Oracle: the output is, as a
//! bag, the nested-loop join over `keys_match_static` (`nlJoinP`), which the Lean theorems
//! `hash_eq_nl` / `grace_eq_nl` prove for every hash function that is compatible with key equality.
//!
//! Case line: `graceop <op> <kind> <n> <spill> lk=<i,j> rk=<i,j> wl=<n> wr=<n> L=<rows> R=<rows>`
//! with rows as `(v v ..)(v v ..)` in the model's value syntax.
use crate::common::*;
use crate::sqlgen::*;
use turdb::sql::ast::JoinType;
use turdb::sql::builder::ExecutorBuilder;
use turdb::sql::context::ExecutionContext;
use turdb::sql::executor::{DynamicExecutor, Executor, MaterializedRowSource, TableScanExecutor};
use turdb::sql::state::StreamingHashJoinState;
use turdb::types::Value;
use turdb::OwnedValue;

fn to_owned(v: &V) -> OwnedValue {
    match v {
        V::Null => OwnedValue::Null,
        V::Bool(b) => OwnedValue::Int(*b as i64),
        V::Int(i) => OwnedValue::Int(*i),
        V::Flt(n, d) => OwnedValue::Float(*n as f64 / *d as f64),
        V::Text(s) => OwnedValue::Text(s.clone()),
    }
}

fn to_value(v: &V) -> Value<'static> {
    match v {
        V::Null => Value::Null,
        V::Bool(b) => Value::Int(*b as i64),
        V::Int(i) => Value::Int(*i),
        V::Flt(n, d) => Value::Float(*n as f64 / *d as f64),
        V::Text(s) => Value::Text(std::borrow::Cow::Owned(s.clone())),
    }
}

fn cell_of_value(v: &Value) -> String {
    match v {
        Value::Null => "N".into(),
        Value::Int(i) => format!("I{i}"),
        Value::Float(f) => format!("F{f:?}"),
        Value::Text(s) => format!("T{}", hex(s.as_bytes())),
        other => format!("O{other:?}").replace([' ', ',', ';'], "_"),
    }
}

fn jt(kind: &str) -> JoinType {
    match kind { "inner" => JoinType::Inner, "left" => JoinType::Left, "right" => JoinType::Right, _ => JoinType::Full }
}

#[derive(Clone, Debug)]
pub struct OpCase {
    pub op: String, // grace | stream
    pub kind: String,
    pub n: usize,
    pub spill: String, // mem | spill1 | spill4k
    pub lk: Vec<usize>,
    pub rk: Vec<usize>,
    pub wl: usize,
    pub wr: usize,
    pub l: Vec<Vec<V>>,
    pub r: Vec<Vec<V>>,
    pub keys: String, // key kind tag for signatures
}

fn rows_str(rows: &[Vec<V>]) -> String {
    if rows.is_empty() { return "-".into(); }
    rows.iter().map(|r| format!("({})", r.iter().map(|v| v.sx()).collect::<Vec<_>>().join(" "))).collect::<Vec<_>>().join("")
}

fn parse_v(tok: &[&str], i: &mut usize) -> Option<V> {
    // tokens: "(" kind args ")"
    if tok.get(*i)? != &"(" { return None; }
    let kind = *tok.get(*i + 1)?;
    let v = match kind {
        "null" => { *i += 3; V::Null }
        "bool" => { let b = *tok.get(*i + 2)? == "1"; *i += 4; V::Bool(b) }
        "int" => { let n = tok.get(*i + 2)?.parse().ok()?; *i += 4; V::Int(n) }
        "flt" => { let n = tok.get(*i + 2)?.parse().ok()?; let d = tok.get(*i + 3)?.parse().ok()?; *i += 5; V::Flt(n, d) }
        "text" => { let s = String::from_utf8(unhex(tok.get(*i + 2)?)).ok()?; *i += 4; V::Text(s) }
        _ => return None,
    };
    Some(v)
}

fn parse_rows(s: &str) -> Option<Vec<Vec<V>>> {
    if s == "-" { return Some(vec![]); }
    let spaced = s.replace('(', " ( ").replace(')', " ) ");
    let tok: Vec<&str> = spaced.split_whitespace().collect();
    let mut i = 0;
    let mut rows = vec![];
    while i < tok.len() {
        if tok[i] != "(" { return None; }
        i += 1;
        let mut row = vec![];
        while i < tok.len() && tok[i] == "(" { row.push(parse_v(&tok, &mut i)?); }
        if tok.get(i)? != &")" { return None; }
        i += 1;
        rows.push(row);
    }
    Some(rows)
}

impl OpCase {
    pub fn to_line(&self) -> String {
        let ix = |v: &[usize]| if v.is_empty() { "-".to_string() } else { v.iter().map(|x| x.to_string()).collect::<Vec<_>>().join(",") };
        format!("graceop {} {} {} {} lk={} rk={} wl={} wr={} keys={} L={} R={}", self.op, self.kind, self.n, self.spill, ix(&self.lk), ix(&self.rk), self.wl, self.wr, self.keys, rows_str(&self.l), rows_str(&self.r))
    }
    pub fn from_line(l: &str) -> Option<OpCase> {
        let (head, rest) = l.split_once(" L=")?;
        let (ls, rs) = rest.split_once(" R=")?;
        let p: Vec<&str> = head.split_whitespace().collect();
        if p.len() != 10 || p[0] != "graceop" { return None; }
        let ix = |s: &str| -> Option<Vec<usize>> { let s = s.split_once('=')?.1; if s == "-" { Some(vec![]) } else { s.split(',').map(|x| x.parse().ok()).collect() } };
        Some(OpCase { op: p[1].into(), kind: p[2].into(), n: p[3].parse().ok()?, spill: p[4].into(), lk: ix(p[5])?, rk: ix(p[6])?,
            wl: p[7].split_once('=')?.1.parse().ok()?, wr: p[8].split_once('=')?.1.parse().ok()?, keys: p[9].split_once('=')?.1.to_string(),
            l: parse_rows(ls.trim())?, r: parse_rows(rs.trim())? })
    }
}

/// run the real operator; rows in emission order
fn run_real(ctx: &Ctx, c: &OpCase, qid: u64) -> Result<Vec<Vec<String>>, String> {
    let lrows: Vec<Vec<OwnedValue>> = c.l.iter().map(|r| r.iter().map(to_owned).collect()).collect();
    let rrows: Vec<Vec<OwnedValue>> = c.r.iter().map(|r| r.iter().map(to_owned).collect()).collect();
    let spill_dir = if c.spill == "mem" { None } else { Some(std::path::PathBuf::from(format!("{}/spill-{}-{}", ctx.scratch, std::process::id(), qid))) };
    let mem = match c.spill.as_str() { "spill1" => 1usize, "spill4k" => 4096, s if s.starts_with("spillb") => s[6..].parse().unwrap_or(4096), _ => 1 << 20 };
    let c2 = c.clone();
    let sd = spill_dir.clone();
    let res = guarded(std::panic::AssertUnwindSafe(move || -> Result<Vec<Vec<String>>, String> {
        let arena = bumpalo::Bump::new();
        let ectx = ExecutionContext::new(&arena);
        let b = ExecutorBuilder::new(&ectx);
        let left = DynamicExecutor::TableScan(TableScanExecutor::new(MaterializedRowSource::new(lrows), &arena));
        let right = DynamicExecutor::TableScan(TableScanExecutor::new(MaterializedRowSource::new(rrows), &arena));
        let mut ex = if c2.op == "grace" {
            let st = b.build_grace_hash_join(left, right, c2.lk.clone(), c2.rk.clone(), c2.n, jt(&c2.kind), c2.wl, c2.wr, sd, mem, qid);
            DynamicExecutor::GraceHashJoin(Box::new(st))
        } else {
            DynamicExecutor::StreamingHashJoin(StreamingHashJoinState {
                build: Box::new(left),
                probe: Box::new(right),
                build_key_indices: c2.lk.iter().copied().collect(),
                probe_key_indices: c2.rk.iter().copied().collect(),
                arena: &arena,
                hash_table: Default::default(),
                build_rows: Vec::new(),
                current_probe_row: None,
                current_matches: Default::default(),
                current_match_idx: 0,
                join_type: jt(&c2.kind),
                probe_row_matched: false,
                build_matched: Vec::new(),
                emitting_unmatched_build: false,
                unmatched_build_idx: 0,
                build_col_count: c2.wl,
                probe_col_count: c2.wr,
                built: false,
                swapped: false,
                memory_budget: None,
                last_reported_bytes: 0,
            })
        };
        ex.open().map_err(|e| format!("open: {e:#}"))?;
        let mut out = vec![];
        let mut guard = 0usize;
        loop {
            match ex.next() {
                Ok(Some(row)) => out.push(row.values.iter().map(cell_of_value).collect()),
                Ok(None) => break,
                Err(e) => return Err(format!("next: {e:#}")),
            }
            guard += 1;
            if guard > 200_000 { return Err("runaway: more than 200000 rows".into()); }
        }
        ex.close().map_err(|e| format!("close: {e:#}"))?;
        Ok(out)
    }));
    if let Some(d) = spill_dir { let _ = std::fs::remove_dir_all(d); }
    match res { Ok(r) => r, Err(p) => Err(format!("panic: {p}")) }
}

fn run_op_case(ctx: &Ctx, rep: &mut Report, model: &mut Model, c: &OpCase, qid: u64) {
    let line = c.to_line();
    // model setup: rows + the real hash of every key
    model.ask("reset");
    let mut seen = std::collections::HashSet::new();
    for (rows, idx, tag) in [(&c.l, &c.lk, "L"), (&c.r, &c.rk, "R")] {
        for r in rows.iter() {
            model.ask(&format!("{tag} ({})", r.iter().map(|v| v.sx()).collect::<Vec<_>>().join(" ")));
            let vals: Vec<Value<'static>> = r.iter().map(to_value).collect();
            let h = turdb::sql::util::hash_keys_static(&vals, idx);
            let key: Vec<String> = idx.iter().filter_map(|i| r.get(*i)).map(|v| v.sx()).collect();
            let ks = key.join(" ");
            if seen.insert(ks.clone()) { model.ask(&format!("hash {h} ({ks})")); }
        }
    }
    let ix = |v: &[usize]| v.iter().map(|x| x.to_string()).collect::<Vec<_>>().join(" ");
    let args = format!("({}) ({}) {} {}", ix(&c.lk), ix(&c.rk), c.wl, c.wr);
    let mresp = if c.op == "grace" { model.ask(&format!("grace {} {} {}", c.kind, c.n, args)) } else { model.ask(&format!("stream {} {}", c.kind, args)) };
    let nl = model.ask(&format!("nl {} {}", c.kind, args));
    let (mrows, nlrows) = match (parse_model_rows(&mresp), parse_model_rows(&nl)) {
        (Ok(a), Ok(b)) => (a, b),
        _ => { rep.disagree(line, format!("model responses: {mresp} / {nl}"), "graceop:model-error".into()); return; }
    };
    rep.case(if !nlrows.is_empty() { Some(&line) } else { None });
    rep.count(&format!("op_{}_{}_{}", c.op, c.kind, c.spill));
    rep.count(&format!("op_partitions_{}", c.n));
    rep.count(&format!("op_keys_{}", c.keys));
    if rep.evaluations % 61 == 0 { rep.sample(format!("{}  -- {} rows", line.chars().take(220).collect::<String>(), nlrows.len())); }
    let got = run_real(ctx, c, qid);
    match got {
        Ok(rows) => {
            if !rows_agree_ordered(&mrows, &rows) {
                rep.disagree(line.clone(), format!("operator emitted [{}], M-code model [{}]", show_rows(&rows), show_rows(&mrows)), format!("graceop:{}:order-or-content", c.op));
            }
            if !rows_agree_bag(&nlrows, &rows) {
                let (missing, extra) = crate::sqlgen_sub::bag_diff(&nlrows, &rows);
                let d = match (missing.is_empty(), extra.is_empty()) { (false, true) => "missing", (true, false) => "extra", _ => "both" };
                rep.oracle_fail(line, format!("operator output is not the nested-loop bag: missing [{}] extra [{}]", show_rows(&missing), show_rows(&extra)),
                    format!("graceop:{}:{}:{}:{}:{}", c.op, c.kind, c.keys, if c.spill == "mem" { "mem" } else { "spill" }, d));
            }
        }
        Err(e) => {
            let cls = if e.starts_with("panic") { "panic" } else { "err" };
            rep.oracle_fail(line, format!("operator failed: {e}"), format!("graceop:{}:{}:{}:{}:{}", c.op, c.kind, c.keys, if c.spill == "mem" { "mem" } else { "spill" }, cls));
        }
    }
}

fn gen_rows(rng: &mut Rng, n: usize, keys: &str, base: i64, null_pct: u64) -> Vec<Vec<V>> {
    // layout: [payload id, key1, key2]
    (0..n).map(|i| {
        let k1 = if rng.chance(null_pct, 100) { V::Null } else {
            match keys {
                "text" => V::Text(rng.pick(&["a", "b", "", "ab", "é"]).to_string()),
                "mixed" => if rng.chance(1, 2) { V::Int(*rng.pick(&[0i64, 1, 2])) } else { V::Flt(*rng.pick(&[0i64, 4, 8, 6]), 4) },
                "float" => V::Flt(*rng.pick(&[0i64, 2, 4, 4, -4]), 4),
                _ => V::Int(*rng.pick(&[1i64, 1, 2, 3, 3, -5, 1 << 40])),
            }
        };
        let k2 = if rng.chance(null_pct, 100) { V::Null } else { V::Int(*rng.pick(&[7i64, 8])) };
        vec![V::Int(base + i as i64), k1, k2]
    }).collect()
}

pub fn run_ops(ctx: &Ctx, rng: &mut Rng, rep: &mut Report) {
    let mut model = Model::spawn(&ctx.model_bin, "sqljoin");
    let mut qid = 1u64;
    for line in ctx.corpus_cases("C17") {
        if !line.starts_with("graceop ") { continue; }
        match OpCase::from_line(&line) {
            Some(c) => { run_op_case(ctx, rep, &mut model, &c, qid); qid += 1; rep.count("corpus_cases"); }
            None => rep.notes.push(format!("unparsable graceop corpus line: {}", line.chars().take(80).collect::<String>())),
        }
    }
    let reps = if ctx.thorough { 12 } else { 3 };
    for round in 0..reps {
        for keys in ["int", "text", "two", "float", "mixed"] {
            for kind in ["inner", "left", "right", "full"] {
                for (op, n, spill) in [("grace", 1usize, "mem"), ("grace", 2, "mem"), ("grace", 3, "spill1"), ("grace", 16, "mem"), ("grace", 16, "spill1"), ("grace", 4, "spill4k"), ("stream", 1, "mem")] {
                    let (nl, nr) = match (round + n) % 4 { 0 => (0, 5), 1 => (6, 0), 2 => (7, 9), _ => (12, 5) };
                    let np = *rng.pick(&[0u64, 25]);
                    let l = gen_rows(rng, nl, keys, 100, np);
                    let r = gen_rows(rng, nr, keys, 200, np);
                    let (lk, rk) = if keys == "two" { (vec![1, 2], vec![1, 2]) } else { (vec![1], vec![1]) };
                    let c = OpCase { op: op.into(), kind: kind.into(), n, spill: spill.into(), lk, rk, wl: 3, wr: 3, l, r, keys: keys.into() };
                    run_op_case(ctx, rep, &mut model, &c, qid);
                    qid += 1;
                }
            }
        }
    }
    // mixed spill state: 16 partitions, a few hundred rows per side (mostly distinct keys, three hot keys, NULL keys),
    // budgets at which SOME partitions are spilled while later ones are still in memory
    let big_rows = |rng: &mut Rng, n: usize, base: i64| -> Vec<Vec<V>> {
        (0..n).map(|i| {
            let k1 = match rng.below(10) { 0 => V::Null, 1 => V::Int(*rng.pick(&[100_001i64, 100_002, 100_003])), _ => V::Int(rng.below(n as u64 * 2) as i64) };
            vec![V::Int(base + i as i64), k1, V::Int(*rng.pick(&[7i64, 8]))]
        }).collect()
    };
    let nbig = if ctx.thorough { 6 } else { 1 };
    for _ in 0..nbig {
        for kind in ["inner", "left", "right", "full"] {
            for bytes in [2048usize, 8192, 16384, 24576] {
                let (nl, nr) = (200 + rng.below(200) as usize, 200 + rng.below(200) as usize);
                let l = big_rows(rng, nl, 10_000);
                let r = big_rows(rng, nr, 50_000);
                let c = OpCase { op: "grace".into(), kind: kind.into(), n: 16, spill: format!("spillb{bytes}"), lk: vec![1], rk: vec![1], wl: 3, wr: 3, l, r, keys: "int".into() };
                run_op_case(ctx, rep, &mut model, &c, qid);
                rep.count("mixed_spill_cases");
                qid += 1;
            }
        }
    }
    rep.notes.push(format!("sqljoin model requests: {}", model.requests));
}
