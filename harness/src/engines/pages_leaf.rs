//! C28/C29 leaf-page stage: operation sequences applied directly to `LeafNodeMut` on a page
//! buffer, compared after every op with the Lean model `TurVerif.Leaf` (family `leaf`), plus the
//! C29 per-leaf clauses and the sorted-assoc-list oracle evaluated on the decoded real page.
use super::pages_dec::*;
use crate::common::*;
use std::collections::BTreeMap;
use turdb::btree::{LeafNode, LeafNodeMut, SearchResult};

pub fn mix(h: u64, x: u64) -> u64 {
    (h * 1000003 + x + 1) % 2147483629
}

pub fn shape_hash(d: &DLeaf) -> u64 {
    d.cells.iter().fold(7u64, |h, c| mix(mix(mix(h, c.off as u64), c.key.len() as u64), c.val.len() as u64))
}

pub fn content_hash(d: &DLeaf) -> u64 {
    d.cells.iter().fold(11u64, |h, c| {
        let h = c.pre.iter().fold(h, |h, b| mix(h, *b as u64));
        let h = c.key.iter().fold(mix(h, 300), |h, b| mix(h, *b as u64));
        c.val.iter().fold(mix(h, 301), |h, b| mix(h, *b as u64))
    })
}

/// the model driver's `summary` computed from the decoded real page
pub fn summary(d: &DLeaf) -> String {
    let sc = if d.frag > (PAGE - LEAF_START) / 4 { 1 } else { 0 };
    format!("{} {} {} {} {} {} {}", d.cells.len(), d.fs, d.fe, d.frag, d.next, sc, shape_hash(d))
}

pub fn load_line(p: u32, d: &DLeaf) -> String {
    let mut s = format!("load {} {} {} {} {}", p, d.fs, d.fe, d.frag, d.next);
    for c in &d.cells {
        s.push_str(&format!(" {}:{}:{}:{}", hexs(&c.pre), c.off, bn(&c.key), bn(&c.val)));
    }
    s
}

pub fn err_kind(msg: &str) -> &'static str {
    if msg.contains("not enough free space") { "nospace" }
    else if msg.contains("key already exists") { "exists" }
    else if msg.contains("out of bounds") { "oob" }
    else if msg.contains("value size mismatch") { "mismatch" }
    else if msg.contains("value not shrinking") { "notshrinking" }
    else { "other" }
}

#[derive(Clone, Debug)]
pub enum LOp {
    Ins(Vec<u8>, Vec<u8>),
    InsAtFound(Vec<u8>, Vec<u8>),
    InsEnd(Vec<u8>, Vec<u8>),
    Del(usize),
    Upd(usize, Vec<u8>),
    Shr(usize, Vec<u8>),
    Compact,
    SetNext(u32),
    Find(Vec<u8>),
}

impl LOp {
    pub fn tok(&self) -> String {
        match self {
            LOp::Ins(k, v) => format!("i:{}:{}", bn(k), bn(v)),
            LOp::InsAtFound(k, v) => format!("p:{}:{}", bn(k), bn(v)),
            LOp::InsEnd(k, v) => format!("e:{}:{}", bn(k), bn(v)),
            LOp::Del(i) => format!("d:{i}"),
            LOp::Upd(i, v) => format!("u:{i}:{}", bn(v)),
            LOp::Shr(i, v) => format!("s:{i}:{}", bn(v)),
            LOp::Compact => "c".into(),
            LOp::SetNext(n) => format!("x:{n}"),
            LOp::Find(k) => format!("f:{}", bn(k)),
        }
    }
    pub fn parse(t: &str) -> Option<LOp> {
        let p: Vec<&str> = t.split(':').collect();
        // byte strings may themselves contain ':' (`*n:hh`), so re-join carefully
        fn two(rest: &str) -> Option<(Vec<u8>, Vec<u8>)> {
            // split at the ':' that separates two bn strings: try every ':' position
            for (i, ch) in rest.char_indices() {
                if ch == ':' {
                    if let (Some(a), Some(b)) = (parse_bn(&rest[..i]), parse_bn(&rest[i + 1..])) {
                        return Some((a, b));
                    }
                }
            }
            None
        }
        let rest = || t.get(2..).unwrap_or("");
        match p.first().copied()? {
            "i" => two(rest()).map(|(k, v)| LOp::Ins(k, v)),
            "p" => two(rest()).map(|(k, v)| LOp::InsAtFound(k, v)),
            "e" => two(rest()).map(|(k, v)| LOp::InsEnd(k, v)),
            "d" => Some(LOp::Del(p.get(1)?.parse().ok()?)),
            "u" | "s" => {
                let r = rest();
                let (i, v) = r.split_once(':')?;
                let i = i.parse().ok()?;
                let v = parse_bn(v)?;
                Some(if p[0] == "u" { LOp::Upd(i, v) } else { LOp::Shr(i, v) })
            }
            "c" => Some(LOp::Compact),
            "x" => Some(LOp::SetNext(p.get(1)?.parse().ok()?)),
            "f" => parse_bn(rest()).map(LOp::Find),
            _ => None,
        }
    }
}

pub fn case_string(ops: &[LOp]) -> String {
    let mut s = String::from("L");
    for o in ops {
        s.push(' ');
        s.push_str(&o.tok());
    }
    s
}

/// key families (boundary heavy)
pub fn gen_key(rng: &mut Rng, fam: u64) -> Vec<u8> {
    match fam {
        0 => { // very short keys over a tiny alphabet: many shared prefixes, keys shorter than 4 bytes
            let n = rng.below(6) as usize;
            (0..n).map(|_| *rng.pick(&[0u8, 1, 0xff])).collect()
        }
        1 => (rng.below(600) as u64 * 2).to_be_bytes().to_vec(), // 8-byte BE integers (even)
        2 => { // common 6-byte prefix, differing tail
            let mut k = b"prefix".to_vec();
            let n = rng.below(4) as usize;
            k.extend((0..n).map(|_| rng.below(4) as u8));
            k
        }
        3 => { // long keys
            let n = 50 + rng.below(1500) as usize;
            let b = rng.below(8) as u8;
            let mut k = vec![b; n];
            k.push(rng.below(256) as u8);
            k
        }
        _ => { let nb = 1 + rng.below(12) as usize; rng.bytes(nb) }
    }
}

pub fn gen_val_len(rng: &mut Rng) -> usize {
    match rng.below(12) {
        0 => 0,
        1 => 1,
        2 => 239 + rng.below(4) as usize,   // varint 1->2 byte boundary (240/241)
        3 => 2286 + rng.below(4) as usize,  // varint 2->3 byte boundary (2287/2288)
        4 => 255 + rng.below(3) as usize,   // `cell_size as u8` wrap
        5 => 500 + rng.below(3000) as usize,
        _ => rng.below(64) as usize,
    }
}

pub fn gen_val(rng: &mut Rng, n: usize) -> Vec<u8> {
    let b = rng.below(256) as u8;
    if n > 32 { let mut v = vec![b; n]; v[0] = rng.below(256) as u8; v } else { rng.bytes(n) }
}

pub fn gen_leaf_ops(rng: &mut Rng, n: usize) -> Vec<LOp> {
    // generation needs the evolving key set: track an approximate shadow (sorted keys with value lens)
    let mut shadow: BTreeMap<Vec<u8>, usize> = BTreeMap::new();
    let fam = rng.below(6);
    let mut ops = vec![];
    let mut free: i64 = (PAGE - LEAF_START) as i64;
    for _ in 0..n {
        let keyfam = if fam == 5 { rng.below(5) } else { fam };
        let r = rng.below(100);
        if r < 45 || shadow.is_empty() {
            let k = if rng.chance(1, 12) && !shadow.is_empty() {
                shadow.keys().nth(rng.below(shadow.len() as u64) as usize).unwrap().clone() // duplicate
            } else { gen_key(rng, keyfam) };
            let mut vl = gen_val_len(rng);
            // exact-fit boundary: sometimes size the value so that the cell needs free-1, free, free+1 bytes
            if rng.chance(1, 10) && free > (k.len() + 12) as i64 {
                let target = free - 8 - k.len() as i64 + rng.range(-1, 1);
                let mut v = target.max(1) as usize;
                v = v.saturating_sub(varint_len(v));
                vl = v;
            }
            let v = gen_val(rng, vl);
            let cs = (k.len() + varint_len(vl) + vl + 8) as i64;
            let fits = cs <= free;
            let dup = shadow.contains_key(&k);
            let kind = rng.below(10);
            let greatest = shadow.keys().next_back().map(|m| &k > m).unwrap_or(true);
            if kind < 2 && greatest {
                ops.push(LOp::InsEnd(k.clone(), v));
                if fits { shadow.insert(k, vl); free -= cs; }
            } else if kind < 5 {
                ops.push(LOp::InsAtFound(k.clone(), v));
                if fits && !dup { shadow.insert(k, vl); free -= cs; }
            } else {
                ops.push(LOp::Ins(k.clone(), v));
                if fits && !dup { shadow.insert(k, vl); free -= cs; }
            }
        } else if r < 65 {
            let i = if rng.chance(1, 15) { shadow.len() + rng.below(3) as usize } else { rng.below(shadow.len() as u64) as usize };
            ops.push(LOp::Del(i));
            if i < shadow.len() {
                let k = shadow.keys().nth(i).unwrap().clone();
                shadow.remove(&k);
                free += 8;
            }
        } else if r < 75 {
            let i = rng.below(shadow.len() as u64) as usize;
            let vl = *shadow.values().nth(i).unwrap();
            let nl = if rng.chance(1, 8) { vl + 1 } else { vl };
            ops.push(LOp::Upd(i, gen_val(rng, nl)));
        } else if r < 85 {
            let i = rng.below(shadow.len() as u64) as usize;
            let vl = *shadow.values().nth(i).unwrap();
            let nl = if vl == 0 || rng.chance(1, 8) { vl } else { rng.below(vl as u64) as usize };
            ops.push(LOp::Shr(i, gen_val(rng, nl)));
            if nl < vl {
                let k = shadow.keys().nth(i).unwrap().clone();
                shadow.insert(k, nl);
            }
        } else if r < 90 {
            ops.push(LOp::Compact);
            free = (PAGE - LEAF_START) as i64 - shadow.iter().map(|(k, v)| (k.len() + varint_len(*v) + v + 8) as i64).sum::<i64>();
        } else if r < 93 {
            ops.push(LOp::SetNext(rng.below(1000) as u32));
        } else {
            let k = if rng.chance(1, 2) { shadow.keys().nth(rng.below(shadow.len() as u64) as usize).unwrap().clone() } else { gen_key(rng, keyfam) };
            ops.push(LOp::Find(k));
        }
    }
    ops
}

fn res_str(r: Result<eyre::Result<()>, String>) -> String {
    match r {
        Ok(Ok(())) => "ok".into(),
        Ok(Err(e)) => format!("err {}", err_kind(&e.to_string())),
        Err(p) => format!("panic {p}"),
    }
}

/// Run one leaf-level case on the real code and the model. Returns false if the case broke.
pub fn run_leaf_case(ops: &[LOp], model: &mut Model, rep: &mut Report, pid: u32, check_content_every: usize) -> bool {
    let mut page = vec![0u8; PAGE];
    {
        let p: &mut [u8] = &mut page;
        if LeafNodeMut::init(p).is_err() {
            rep.disagree(case_string(ops), "LeafNodeMut::init failed".into(), "leaf-init".into());
            return false;
        }
    }
    let m = model.ask(&format!("init {pid}"));
    let d0 = decode_leaf(&page).unwrap();
    if m != format!("ok {}", summary(&d0)) {
        rep.disagree(case_string(&[]), format!("init: impl {} model {m}", summary(&d0)), "leaf-init".into());
        return false;
    }
    for (n, op) in ops.iter().enumerate() {
        let case = || case_string(&ops[..=n]);
        let before = decode_leaf(&page).unwrap();
        let before_map: Vec<(Vec<u8>, Vec<u8>)> = before.cells.iter().map(|c| (c.key.clone(), c.val.clone())).collect();
        if let LOp::InsEnd(k, _) = op {
            // documented precondition of insert_at_end: key greater than every key in the page
            if before.cells.last().map(|c| &c.key >= k).unwrap_or(false) {
                rep.count("leafop_e_skipped-precondition");
                continue;
            }
        }
        // ---- real code
        let mut pg = std::mem::take(&mut page);
        let op2 = op.clone();
        let (pg, impl_res): (Vec<u8>, String) = {
            let r = std::panic::catch_unwind(std::panic::AssertUnwindSafe(|| {
                let data: &mut [u8] = &mut pg;
                let mut leaf = LeafNodeMut::from_page(data).unwrap();
                match &op2 {
                    LOp::Ins(k, v) => res_str(Ok(leaf.insert_cell(k, v))),
                    LOp::InsAtFound(k, v) => match leaf.find_key(k) {
                        SearchResult::Found(_) => "err exists".to_string(),
                        SearchResult::NotFound(pos) => res_str(Ok(leaf.insert_cell_at(k, v, pos))),
                    },
                    LOp::InsEnd(k, v) => res_str(Ok(leaf.insert_at_end(k, v))),
                    LOp::Del(i) => res_str(Ok(leaf.delete_cell(*i))),
                    LOp::Upd(i, v) => res_str(Ok(leaf.update_cell_value_in_place(*i, v))),
                    LOp::Shr(i, v) => res_str(Ok(leaf.update_cell_value_shrink(*i, v))),
                    LOp::Compact => res_str(Ok(leaf.verif_compact())),
                    LOp::SetNext(x) => res_str(Ok(leaf.set_next_leaf(*x))),
                    LOp::Find(k) => match leaf.find_key(k) {
                        SearchResult::Found(i) => format!("F{i}"),
                        SearchResult::NotFound(i) => format!("N{i}"),
                    },
                }
            }));
            match r {
                Ok(s) => (pg, s),
                Err(_) => (pg, "panic".to_string()),
            }
        };
        page = pg;
        // ---- model
        let (mline, is_find) = match op {
            LOp::Ins(k, v) => (format!("ins {pid} {} {}", bn(k), bn(v)), false),
            LOp::InsAtFound(k, v) => {
                let f = model.ask(&format!("find {pid} {}", bn(k)));
                if let Some(pos) = f.strip_prefix('N') {
                    (format!("insat {pid} {} {} {pos}", bn(k), bn(v)), false)
                } else {
                    (String::new(), false)
                }
            }
            LOp::InsEnd(k, v) => (format!("insend {pid} {} {}", bn(k), bn(v)), false),
            LOp::Del(i) => (format!("del {pid} {i}"), false),
            LOp::Upd(i, v) => (format!("upd {pid} {i} {}", bn(v)), false),
            LOp::Shr(i, v) => (format!("shr {pid} {i} {}", bn(v)), false),
            LOp::Compact => (format!("compact {pid}"), false),
            LOp::SetNext(x) => (format!("setnext {pid} {x}"), false),
            LOp::Find(k) => (format!("find {pid} {}", bn(k)), true),
        };
        let mres = if mline.is_empty() { "err exists".to_string() } else { model.ask(&mline) };
        let after = match decode_leaf(&page) {
            Ok(d) => d,
            Err(e) => {
                rep.oracle_fail(case(), format!("page undecodable after op: {e}"), format!("btree:wf:leaf-undecodable-{e}:leafop-{}", &op.tok()[..1]));
                return false;
            }
        };
        let opk = &op.tok()[..1];
        rep.count(&format!("leafop_{opk}_{}", impl_res.split(' ').take(2).collect::<Vec<_>>().join("-").chars().take(16).collect::<String>()));
        // correspondence
        let expect = if is_find { impl_res.clone() } else if impl_res == "ok" { format!("ok {}", summary(&after)) } else { impl_res.clone() };
        if mres != expect {
            rep.disagree(case(), format!("op {} : impl `{expect}` model `{mres}`", op.tok().chars().take(80).collect::<String>()), format!("leaf-op-{opk}"));
            return false;
        }
        if impl_res != "ok" && !is_find && after != before {
            // the model leaves the state unchanged on error
            rep.disagree(case(), format!("op {} failed with `{impl_res}` but changed the page", op.tok().chars().take(80).collect::<String>()), format!("leaf-op-{opk}-err-changes-page"));
            return false;
        }
        if check_content_every > 0 && (n % check_content_every == check_content_every - 1 || n + 1 == ops.len()) {
            let mc = model.ask(&format!("chk {pid}"));
            if mc != content_hash(&after).to_string() {
                rep.disagree(case(), format!("content differs: impl hash {} model {mc}; model dump: {}", content_hash(&after), model.ask(&format!("dump {pid}")).chars().take(400).collect::<String>()), "leaf-content".into());
                return false;
            }
        }
        // ---- property oracle on the real page: C29 clauses + C28 sorted-assoc-list semantics
        let bad = wf_leaf(&after);
        if !bad.is_empty() {
            rep.oracle_fail(case(), format!("after op: violated {:?}", bad), format!("btree:wf:{}:leafop-{opk}", bad[0]));
            return false;
        }
        let after_map: Vec<(Vec<u8>, Vec<u8>)> = after.cells.iter().map(|c| (c.key.clone(), c.val.clone())).collect();
        let mut exp: BTreeMap<Vec<u8>, Vec<u8>> = before_map.iter().cloned().collect();
        let mut exp_res: Option<&str> = None;
        match op {
            LOp::Ins(k, v) | LOp::InsAtFound(k, v) | LOp::InsEnd(k, v) => {
                if impl_res == "ok" { if exp.insert(k.clone(), v.clone()).is_some() { exp_res = Some("duplicate-accepted"); } }
                else if impl_res == "err exists" { if !exp.contains_key(k) { exp_res = Some("spurious-exists"); } }
                else if impl_res == "err nospace" {
                    if before.fe - before.fs >= k.len() + varint_len(v.len()) + v.len() + 8 { exp_res = Some("spurious-nospace"); }
                } else { exp_res = Some("unexpected-error"); }
            }
            LOp::Del(i) => {
                if *i < before_map.len() { exp.remove(&before_map[*i].0); if impl_res != "ok" { exp_res = Some("delete-failed"); } }
                else if impl_res != "err oob" { exp_res = Some("delete-oob-accepted"); }
            }
            LOp::Upd(i, v) | LOp::Shr(i, v) => {
                if impl_res == "ok" {
                    if *i < before_map.len() { exp.insert(before_map[*i].0.clone(), v.clone()); } else { exp_res = Some("update-oob-accepted"); }
                }
            }
            LOp::Find(k) => {
                let pos = before_map.iter().position(|(kk, _)| kk >= k).unwrap_or(before_map.len());
                let e = if pos < before_map.len() && &before_map[pos].0 == k { format!("F{pos}") } else { format!("N{pos}") };
                if e != impl_res { exp_res = Some("find-wrong"); }
            }
            _ => {}
        }
        let exp_vec: Vec<(Vec<u8>, Vec<u8>)> = exp.into_iter().collect();
        if exp_res.is_some() || exp_vec != after_map {
            rep.oracle_fail(case(), format!("leaf op {} result `{impl_res}`: content differs from sorted-map semantics ({:?})", op.tok().chars().take(60).collect::<String>(), exp_res), format!("btree:leaf-omap:{}:leafop-{opk}", exp_res.unwrap_or("content")));
            return false;
        }
        // LeafNode read API agrees with the decoded page
        if n % 16 == 0 {
            if let Ok(ln) = LeafNode::from_page(&page) {
                for (i, c) in after.cells.iter().enumerate() {
                    let ok = ln.key_at(i).map(|k| k == c.key.as_slice()).unwrap_or(false) && ln.value_at(i).map(|v| v == c.val.as_slice()).unwrap_or(false);
                    if !ok {
                        rep.oracle_fail(case(), format!("key_at/value_at({i}) differs from decoded cell"), "btree:leaf-read:accessor-differs".into());
                        return false;
                    }
                }
            }
        }
    }
    true
}
