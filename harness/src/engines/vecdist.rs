//! C24: distance kernels of src/hnsw/distance.rs (scalar / AVX2 / dispatch) vs the Lean model
//! `TurVerif.Dist` (exact, over Rat) and SQL `ORDER BY vec <-> q [LIMIT k]` / `<=>`.
//!
//! Case syntax (corpus / replay lines):
//!   `k AHEX BHEX`                         one kernel case (all kernels, all dispatch paths)
//!   `sql METRIC K QHEX V1HEX V2HEX ...`   one table + one query (METRIC l2|cos, K = all|number)
//! vectors are strings of 8-hex-digit f32 bit patterns, `-` = empty.
use super::vec_exact::*;
use crate::common::*;
use std::cmp::Ordering;
use turdb::hnsw::distance as d;
use turdb::hnsw::DistanceFunction;
use turdb::{Database, OwnedValue};

const U_BITS: i32 = 24; // unit roundoff u = 2^-24

fn have_avx2() -> bool {
    #[cfg(target_arch = "x86_64")]
    {
        is_x86_feature_detected!("avx2") && is_x86_feature_detected!("fma")
    }
    #[cfg(not(target_arch = "x86_64"))]
    {
        false
    }
}

fn nclass(n: usize) -> &'static str {
    if n < 8 {
        "n<8"
    } else if n % 8 == 0 {
        "n%8=0"
    } else {
        "n%8!=0"
    }
}

/// |impl - exact| <= gamma_k * abs_sum  with gamma_k = k u / (1 - k u), evaluated exactly
fn within_gamma(imp: f32, exact: &Dy, abs_sum: &Dy, k: i64) -> bool {
    let iv = match Dy::from_f32(imp) {
        Some(v) => v,
        None => return false,
    };
    let diff = iv.sub(exact).abs();
    // diff * (2^24 - k) <= k * abs_sum
    let lhs = diff.mul_i64((1i64 << U_BITS) - k);
    let rhs = abs_sum.mul_i64(k);
    lhs.le(&rhs)
}

fn in_range(x: &Dy) -> bool {
    // zero, or 2^-100 <= |x| < 2^120 : no overflow / underflow in the f32 evaluation
    x.is_zero() || (x.abs().lt(&Dy::pow2(120)) && Dy::pow2(-100).le(&x.abs()))
}

type K = fn(&[f32], &[f32]) -> f32;

fn call(f: K, a: &[f32], b: &[f32]) -> Result<f32, String> {
    let (a, b) = (a.to_vec(), b.to_vec());
    guarded(move || f(&a, &b))
}

#[cfg(target_arch = "x86_64")]
fn l2_avx2(a: &[f32], b: &[f32]) -> f32 {
    unsafe { d::euclidean_squared_avx2(a, b) }
}
#[cfg(target_arch = "x86_64")]
fn l2r_avx2(a: &[f32], b: &[f32]) -> f32 {
    unsafe { d::euclidean_avx2(a, b) }
}
#[cfg(target_arch = "x86_64")]
fn dot_avx2(a: &[f32], b: &[f32]) -> f32 {
    unsafe { d::dot_product_avx2(a, b) }
}
#[cfg(target_arch = "x86_64")]
fn ip_avx2(a: &[f32], b: &[f32]) -> f32 {
    unsafe { d::inner_product_avx2(a, b) }
}
#[cfg(target_arch = "x86_64")]
fn cos_avx2(a: &[f32], b: &[f32]) -> f32 {
    unsafe { d::cosine_avx2(a, b) }
}
fn l2_dispatch(a: &[f32], b: &[f32]) -> f32 {
    d::euclidean_squared(a, b)
}
fn l2_sel_sq(a: &[f32], b: &[f32]) -> f32 {
    d::select_squared_distance_fn(DistanceFunction::L2)(a, b)
}
fn l2_sel(a: &[f32], b: &[f32]) -> f32 {
    d::select_distance_fn(DistanceFunction::L2)(a, b)
}
fn cos_sel(a: &[f32], b: &[f32]) -> f32 {
    d::select_distance_fn(DistanceFunction::Cosine)(a, b)
}
fn ip_sel(a: &[f32], b: &[f32]) -> f32 {
    d::select_distance_fn(DistanceFunction::InnerProduct)(a, b)
}

struct KCase {
    a: Vec<f32>,
    b: Vec<f32>,
    full_model: bool,
}

fn rand_f32(rng: &mut Rng, emin: i32, emax: i32) -> f32 {
    let e = rng.range(emin as i64, emax as i64) as i32;
    let m = (rng.next() & 0x7f_ffff) as u32;
    let s = (rng.next() & 1) as u32;
    f32::from_bits((s << 31) | (((e + 127) as u32) << 23) | m)
}

fn gen_vec(rng: &mut Rng, n: usize, regime: u64) -> Vec<f32> {
    (0..n)
        .map(|i| match regime {
            0 => rng.range(-8, 8) as f32,                 // small integers (many ties, exact)
            1 => rng.range(-64, 64) as f32 / 4.0,         // quarter grid
            2 => rand_f32(rng, -3, 3),                    // unit scale, full mantissas
            3 => rand_f32(rng, 10, 25),                   // large
            4 => rand_f32(rng, -25, -10),                 // tiny
            5 => {
                // mixed magnitudes incl. zeros
                match rng.below(4) {
                    0 => 0.0,
                    1 => rand_f32(rng, 10, 25),
                    2 => rand_f32(rng, -25, -10),
                    _ => rand_f32(rng, -3, 3),
                }
            }
            8 => rand_f32(rng, 60, 66),                   // huge: a difference squared leaves the f32 range, not the f64 range
            9 => rand_f32(rng, -70, -60),                 // minute: a difference squared underflows in f32, not in f64
            6 => {
                // all equal components (cancellation in a-b, sign patterns)
                if i % 2 == 0 { 1.5 } else { -1.5 }
            }
            _ => {
                // same large offset + small perturbation (catastrophic cancellation in x-y)
                1024.0 + rng.range(-4, 4) as f32 / 1024.0
            }
        })
        .collect()
}

fn kernel_cases(ctx: &Ctx, rng: &mut Rng) -> Vec<KCase> {
    let mut cases = vec![];
    for c in ctx.corpus_cases("C24") {
        let p: Vec<&str> = c.split_whitespace().collect();
        if p.len() == 3 && p[0] == "k" {
            if let (Some(a), Some(b)) = (vec_unhex(p[1]), vec_unhex(p[2])) {
                if a.len() == b.len() {
                    cases.push(KCase { a, b, full_model: true });
                }
            }
        }
    }
    let maxn = if ctx.thorough { 160 } else { 72 };
    let reps = if ctx.thorough { 12 } else { 3 };
    // systematic: one-hot and two-hot probes at every index of every length: a missed or a
    // doubly counted index changes the result by a whole term, far outside any rounding bound
    for n in 1..=maxn {
        for i in 0..n {
            let mut a = vec![0.0f32; n];
            let b = vec![0.0f32; n];
            a[i] = 1.0 + (i % 7) as f32;
            cases.push(KCase { a: a.clone(), b: b.clone(), full_model: n <= 20 || i + 9 >= n });
            // all ones except index i: the complement probe
            let mut a2 = vec![1.0f32; n];
            a2[i] = 0.0;
            let b2 = vec![0.0f32; n];
            cases.push(KCase { a: a2, b: b2, full_model: false });
            let _ = a;
        }
    }
    for n in 0..=maxn {
        for regime in 0..8u64 {
            for r in 0..reps {
                let a = gen_vec(rng, n, regime);
                let b = match (regime, r) {
                    (_, 0) if regime < 6 => a.clone(), // identical vectors: distance exactly 0
                    (_, 1) if regime < 3 => vec![0.0; n], // zero vector
                    _ => {
                        let rg = if rng.chance(1, 5) { rng.below(8) } else { regime };
                        gen_vec(rng, n, rg)
                    }
                };
                cases.push(KCase { a, b, full_model: true });
            }
        }
    }
    cases
}

fn frac(s: &str) -> Option<(&str, &str)> {
    let mut it = s.split('/');
    let n = it.next()?;
    let dn = it.next()?;
    Some((n, dn))
}

fn run_kernels(ctx: &Ctx, rep: &mut Report, rng: &mut Rng) {
    let avx2 = have_avx2();
    rep.notes.push(format!("avx2+fma detected: {avx2}"));
    let cases = kernel_cases(ctx, rng);
    // ---- model requests
    let mut reqs: Vec<String> = vec![];
    let mut req_ix: Vec<usize> = vec![]; // first request index of each case
    for c in &cases {
        req_ix.push(reqs.len());
        let (ah, bh) = (vec_hex(&c.a), vec_hex(&c.b));
        reqs.push(format!("l2 8 {ah} {bh}"));
        reqs.push(format!("dot 8 {ah} {bh}"));
        if c.full_model {
            reqs.push(format!("l2 0 {ah} {bh}"));
            reqs.push(format!("l2 4 {ah} {bh}"));
            reqs.push(format!("l2 1000 {ah} {bh}"));
            reqs.push(format!("dot 0 {ah} {bh}"));
            reqs.push(format!("cos 8 {ah} {bh}"));
            reqs.push(format!("cos 0 {ah} {bh}"));
        }
    }
    let resp = model_batch(&ctx.model_bin, "dist", &reqs);
    for (ci, c) in cases.iter().enumerate() {
        let n = c.a.len();
        let case = format!("k {} {}", vec_hex(&c.a), vec_hex(&c.b));
        let ex_l2 = exact_l2sq(&c.a, &c.b);
        let (ex_dot, abs_dot) = exact_dot(&c.a, &c.b);
        let (ex_na, _) = exact_dot(&c.a, &c.a);
        let (ex_nb, _) = exact_dot(&c.b, &c.b);
        let nontrivial = n >= 1 && (!ex_na.is_zero() || !ex_nb.is_zero());
        rep.case(if nontrivial { Some(&case) } else { None });
        rep.count(&format!("kernel_len_{}", nclass(n)));
        if ex_l2.is_zero() {
            rep.count("kernel_l2_exact_zero");
        }
        if ci % 1499 == 0 {
            rep.sample(format!("{case} -> l2sq={}", ex_l2.to_f64()));
        }
        // ---- model (exact kernel values) vs the harness's own exact definition
        let r0 = req_ix[ci];
        let nm = if c.full_model { 8 } else { 2 };
        let mut model_ok = true;
        for j in 0..nm {
            let line = &resp[r0 + j];
            let req = &reqs[r0 + j];
            let want: Option<&Dy> = if req.starts_with("l2 ") {
                Some(&ex_l2)
            } else if req.starts_with("dot ") {
                Some(&ex_dot)
            } else {
                None
            };
            let ok = match want {
                Some(w) => frac(line).map(|(nu, de)| w.eq_fraction(nu, de)).unwrap_or(false),
                None => {
                    // cos: DOT NA NB KEY
                    let p: Vec<&str> = line.split(' ').collect();
                    p.len() == 4
                        && frac(p[0]).map(|(a, b)| ex_dot.eq_fraction(a, b)).unwrap_or(false)
                        && frac(p[1]).map(|(a, b)| ex_na.eq_fraction(a, b)).unwrap_or(false)
                        && frac(p[2]).map(|(a, b)| ex_nb.eq_fraction(a, b)).unwrap_or(false)
                }
            };
            if !ok {
                model_ok = false;
                rep.disagree(
                    case.clone(),
                    format!("model `{}` returned {line}; exact definition computed by the harness: l2sq={} dot={}", req.split(' ').take(2).collect::<Vec<_>>().join(" "), ex_l2.to_f64(), ex_dot.to_f64()),
                    "model-vs-exact-definition".into(),
                );
            }
        }
        let _ = model_ok;
        // ---- implementation within the a-priori rounding bound of the exact value
        let dom_l2 = in_range(&ex_l2) && in_range(&ex_na) && in_range(&ex_nb);
        let kk = n as i64 + 3;
        let mut l2_impls: Vec<(&str, K)> = vec![("scalar", d::euclidean_squared_scalar), ("dispatch", l2_dispatch), ("dispatch", l2_sel_sq)];
        let mut dot_impls: Vec<(&str, K)> = vec![("scalar", d::dot_product_scalar)];
        let mut cos_impls: Vec<(&str, K)> = vec![("scalar", d::cosine_scalar), ("dispatch", cos_sel)];
        #[cfg(target_arch = "x86_64")]
        if avx2 {
            l2_impls.push(("avx2", l2_avx2));
            dot_impls.push(("avx2", dot_avx2));
            cos_impls.push(("avx2", cos_avx2));
        }
        let fail = |rep: &mut Report, kernel: &str, disp: &str, what: &str, detail: String| {
            let sig = format!("dist:{kernel}:{disp}:{}:{what}", nclass(n));
            rep.oracle_fail(case.clone(), detail.clone(), sig.clone());
            rep.disagree(case.clone(), format!("[{sig}] {detail}"), sig);
        };
        if !dom_l2 {
            rep.count("kernel_out_of_domain");
        }
        let mut l2_vals: Vec<(&str, f32)> = vec![];
        for (disp, f) in &l2_impls {
            match call(*f, &c.a, &c.b) {
                Err(m) => fail(rep, "l2", disp, "panic", m),
                Ok(v) => {
                    l2_vals.push((disp, v));
                    if dom_l2 && !within_gamma(v, &ex_l2, &ex_l2, kk) {
                        fail(rep, "l2", disp, "exceeds-bound", format!("impl={v:e} exact={:e} n={n} bound=gamma_{kk}*sum", ex_l2.to_f64()));
                    }
                }
            }
        }
        // sqrt variants: bitwise sqrt of the squared kernel of the same dispatch path
        let mut sq_pairs: Vec<(&str, K, K)> = vec![("scalar", d::euclidean_squared_scalar, d::euclidean_scalar), ("dispatch", l2_dispatch, l2_sel)];
        #[cfg(target_arch = "x86_64")]
        if avx2 {
            sq_pairs.push(("avx2", l2_avx2, l2r_avx2));
        }
        for (disp, fsq, fr) in sq_pairs {
            if let (Ok(s), Ok(r)) = (call(fsq, &c.a, &c.b), call(fr, &c.a, &c.b)) {
                if s.sqrt().to_bits() != r.to_bits() {
                    fail(rep, "l2", disp, "sqrt-mismatch", format!("sqrt(sq)={:e} euclidean={:e}", s.sqrt(), r));
                }
            }
        }
        // dispatch must be bit-identical to the path it selects
        if let Some((_, dv)) = l2_vals.iter().find(|(k, _)| *k == "dispatch") {
            let want = if avx2 { "avx2" } else { "scalar" };
            if let Some((_, wv)) = l2_vals.iter().find(|(k, _)| *k == want) {
                if dv.to_bits() != wv.to_bits() {
                    fail(rep, "l2", "dispatch", "dispatch-differs", format!("dispatch={dv:e} {want}={wv:e}"));
                }
            }
        }
        let dom_dot = in_range(&abs_dot) && dom_l2;
        for (disp, f) in &dot_impls {
            match call(*f, &c.a, &c.b) {
                Err(m) => fail(rep, "dot", disp, "panic", m),
                Ok(v) => {
                    if dom_dot && !within_gamma(v, &ex_dot, &abs_dot, kk) {
                        fail(rep, "dot", disp, "exceeds-bound", format!("impl={v:e} exact={:e} n={n}", ex_dot.to_f64()));
                    }
                }
            }
        }
        // inner product = -dot, bitwise
        {
            let mut ips: Vec<(&str, K, K)> = vec![("scalar", d::dot_product_scalar, d::inner_product_scalar)];
            #[cfg(target_arch = "x86_64")]
            if avx2 {
                ips.push(("avx2", dot_avx2, ip_avx2));
                ips.push(("dispatch", dot_avx2, ip_sel));
            }
            for (disp, fd, fi) in ips {
                if let (Ok(x), Ok(y)) = (call(fd, &c.a, &c.b), call(fi, &c.a, &c.b)) {
                    if (-x).to_bits() != y.to_bits() {
                        fail(rep, "ip", disp, "not-neg-dot", format!("dot={x:e} ip={y:e}"));
                    }
                }
            }
        }
        // cosine
        let np = ex_na.mul(&ex_nb);
        let dom_cos = dom_dot && in_range(&np);
        let guard = np.is_zero();
        if guard {
            rep.count("kernel_cos_zero_norm");
        }
        for (disp, f) in &cos_impls {
            match call(*f, &c.a, &c.b) {
                Err(m) => fail(rep, "cos", disp, "panic", m),
                Ok(v) => {
                    if !dom_cos {
                        continue;
                    }
                    if guard {
                        if v != 1.0 {
                            fail(rep, "cos", disp, "zero-norm-guard", format!("impl={v:e}, expected 1.0"));
                        }
                    } else {
                        let sim = ex_dot.to_f64() / np.to_f64().sqrt();
                        let eps = (2.0 * (n as f64 + 3.0) + 8.0) * 2f64.powi(-U_BITS) * 1.01 + 1e-12;
                        if !(((v as f64) - (1.0 - sim)).abs() <= eps) {
                            fail(rep, "cos", disp, "exceeds-bound", format!("impl={v:e} exact={:e} eps={eps:e} n={n}", 1.0 - sim));
                        }
                    }
                }
            }
        }
    }
}

// ------------------------------------------------------------------------------------------
// SQL k-NN

struct SqlCase {
    metric: String, // l2 | cos
    k: Option<usize>,
    q: Vec<f32>,
    rows: Vec<Vec<f32>>,
}

impl SqlCase {
    fn line(&self) -> String {
        format!(
            "sql {} {} {} {}",
            self.metric,
            self.k.map(|k| k.to_string()).unwrap_or("all".into()),
            vec_hex(&self.q),
            self.rows.iter().map(|r| vec_hex(r)).collect::<Vec<_>>().join(" ")
        )
    }
}

fn vec_lit(v: &[f32]) -> String {
    format!("[{}]", v.iter().map(|x| format!("{x}")).collect::<Vec<_>>().join(","))
}

/// exact ordering key: smaller = nearer.  L2: exact squared distance.  cos: None when a norm is 0
enum Key {
    L2(Dy),
    Cos(Option<f64>), // cosine distance 1 - sim computed in f64 from exact sums (error ~1e-15)
}

fn key_of(metric: &str, row: &[f32], q: &[f32]) -> Key {
    if metric == "l2" {
        Key::L2(exact_l2sq(row, q))
    } else {
        let (dt, _) = exact_dot(row, q);
        let (na, _) = exact_dot(row, row);
        let (nb, _) = exact_dot(q, q);
        let np = na.mul(&nb);
        if np.is_zero() {
            Key::Cos(None)
        } else {
            Key::Cos(Some(1.0 - dt.to_f64() / np.to_f64().sqrt()))
        }
    }
}

/// is `a` farther than `b` by more than the rounding bound (i.e. returning a before b is wrong)?
fn clearly_farther(a: &Key, b: &Key, n: usize) -> bool {
    match (a, b) {
        (Key::L2(x), Key::L2(y)) => {
            if !y.lt(x) {
                return false;
            }
            let kk = n as i64 + 3;
            // (x - y) * (2^24 - k) > k * (x + y)
            let lhs = x.sub(y).mul_i64((1i64 << U_BITS) - kk);
            let rhs = x.add(y).mul_i64(kk);
            rhs.lt(&lhs)
        }
        (Key::Cos(Some(x)), Key::Cos(Some(y))) => {
            let eps = 2.0 * ((2.0 * (n as f64 + 3.0) + 8.0) * 2f64.powi(-U_BITS) * 1.01 + 1e-12);
            x - y > eps
        }
        _ => false, // undefined cosine distance (zero vector): no ordering demanded
    }
}

fn gen_sql_cases(ctx: &Ctx, rng: &mut Rng) -> Vec<SqlCase> {
    let mut out = vec![];
    for c in ctx.corpus_cases("C24") {
        let p: Vec<&str> = c.split_whitespace().collect();
        if p.len() >= 5 && p[0] == "sql" && (p[1] == "l2" || p[1] == "cos") {
            let k = if p[2] == "all" { None } else { p[2].parse().ok() };
            if let Some(q) = vec_unhex(p[3]) {
                let rows: Option<Vec<Vec<f32>>> = p[4..].iter().map(|h| vec_unhex(h)).collect();
                if let Some(rows) = rows {
                    if rows.iter().all(|r| r.len() == q.len()) && !q.is_empty() {
                        out.push(SqlCase { metric: p[1].into(), k, q, rows });
                    }
                }
            }
        }
    }
    let ntables = if ctx.thorough { 700 } else { 140 };
    for t in 0..ntables {
        // every dimension 1..70 is used at least twice per run
        let n = if t < 140 { 1 + (t % 70) } else { 1 + rng.below(70) as usize };
        let regime = if t % 10 == 9 { [8u64, 9][(t / 10) % 2] } else { [0u64, 1, 2, 3, 4, 5, 7][rng.below(7) as usize] };
        let nrows = 2 + rng.below(13) as usize;
        let mut rows: Vec<Vec<f32>> = (0..nrows).map(|_| gen_vec(rng, n, regime)).collect();
        // ties: duplicates and mirror images at the same distance from the origin
        if rng.chance(1, 2) && nrows >= 3 {
            let i = rng.below(nrows as u64) as usize;
            let j = rng.below(nrows as u64) as usize;
            rows[j] = rows[i].clone();
        }
        if rng.chance(1, 3) {
            let i = rng.below(nrows as u64) as usize;
            let j = rng.below(nrows as u64) as usize;
            rows[j] = rows[i].iter().map(|x| -x).collect();
        }
        let with_zero = rng.chance(1, 4);
        if with_zero {
            let i = rng.below(nrows as u64) as usize;
            rows[i] = vec![0.0; n];
        }
        let mut qs: Vec<Vec<f32>> = vec![gen_vec(rng, n, regime), rows[rng.below(nrows as u64) as usize].clone()];
        if rng.chance(1, 3) {
            qs.push(vec![0.0; n]);
        }
        for q in qs {
            for metric in ["l2", "cos"] {
                let ks: Vec<Option<usize>> = vec![None, Some(1), Some(1 + rng.below(nrows as u64) as usize), Some(nrows + 2)];
                for k in ks {
                    out.push(SqlCase { metric: metric.into(), k, q: q.clone(), rows: rows.clone() });
                }
            }
        }
    }
    out
}

fn run_sql(ctx: &Ctx, rep: &mut Report, rng: &mut Rng) {
    let cases = gen_sql_cases(ctx, rng);
    let dir = format!("{}/vecdist-{}", ctx.scratch, std::process::id());
    let _ = std::fs::remove_dir_all(&dir);
    let db = match guarded(std::panic::AssertUnwindSafe(|| Database::create(&dir))) {
        Ok(Ok(db)) => db,
        other => {
            rep.oracle_fail("sql-setup".into(), format!("cannot create database: {:?}", other.err()), "knn-sql:setup:error".into());
            return;
        }
    };
    // model reference rankings
    let reqs: Vec<String> = cases
        .iter()
        .map(|c| {
            format!(
                "knn {} {} {} {}",
                c.metric,
                c.k.map(|k| k.to_string()).unwrap_or("all".into()),
                vec_hex(&c.q),
                c.rows.iter().map(|r| vec_hex(r)).collect::<Vec<_>>().join(" ")
            )
        })
        .collect();
    let resp = model_batch(&ctx.model_bin, "dist", &reqs);
    let mut table_of: std::collections::HashMap<String, (String, Vec<Vec<f32>>)> = std::collections::HashMap::new();
    let mut tno = 0usize;
    for (ci, c) in cases.iter().enumerate() {
        let n = c.q.len();
        let case = c.line();
        // ---- table (shared by the cases with the same rows)
        let tkey = c.rows.iter().map(|r| vec_hex(r)).collect::<Vec<_>>().join(" ");
        if !table_of.contains_key(&tkey) {
            tno += 1;
            let name = format!("v{tno}");
            let mut ok = true;
            let mut stmts = vec![format!("CREATE TABLE {name} (id BIGINT PRIMARY KEY, vec VECTOR({n}))")];
            for (i, r) in c.rows.iter().enumerate() {
                stmts.push(format!("INSERT INTO {name} (id, vec) VALUES ({}, '{}')", i + 1, vec_lit(r)));
            }
            for s in &stmts {
                let dbr = &db;
                let s2 = s.clone();
                match guarded(std::panic::AssertUnwindSafe(move || dbr.execute(&s2).map(|_| ()).map_err(|e| e.to_string()))) {
                    Ok(Ok(())) => {}
                    other => {
                        ok = false;
                        rep.oracle_fail(case.clone(), format!("setup statement failed: {s}: {other:?}"), "knn-sql:setup:error".into());
                        break;
                    }
                }
            }
            // read the stored vectors back: the oracle is evaluated on what the table holds
            let mut stored = c.rows.clone();
            if ok {
                let dbr = &db;
                let qy = format!("SELECT id, vec FROM {name} WHERE id > 0");
                if let Ok(Ok(rs)) = guarded(std::panic::AssertUnwindSafe(move || dbr.query(&qy))) {
                    for r in rs {
                        if let (Some(OwnedValue::Int(id)), Some(OwnedValue::Vector(v))) = (r.values.first(), r.values.get(1)) {
                            let ix = (*id - 1) as usize;
                            if ix < stored.len() {
                                if v.iter().map(|x| x.to_bits()).ne(stored[ix].iter().map(|x| x.to_bits())) {
                                    rep.count("sql_stored_vector_differs_from_literal");
                                }
                                if v.len() == n && v.iter().all(|x| x.is_finite()) {
                                    stored[ix] = v.to_vec();
                                }
                            }
                        }
                    }
                }
            }
            table_of.insert(tkey.clone(), (if ok { name } else { String::new() }, stored));
        }
        let (tname, stored) = table_of.get(&tkey).unwrap().clone();
        if tname.is_empty() {
            continue;
        }
        let op = if c.metric == "l2" { "<->" } else { "<=>" };
        let sql = format!(
            "SELECT id FROM {tname} ORDER BY vec {op} '{}'{}",
            vec_lit(&c.q),
            c.k.map(|k| format!(" LIMIT {k}")).unwrap_or_default()
        );
        let keys: Vec<Key> = stored.iter().map(|r| key_of(&c.metric, r, &c.q)).collect();
        let has_undef = keys.iter().any(|k| matches!(k, Key::Cos(None)));
        let opname = if has_undef { "cos-zero" } else { c.metric.as_str() };
        let lim = if c.k.is_some() { "limit" } else { "nolimit" };
        // distinct-distance count for the non-triviality rule
        let mut distinct = 0;
        for i in 0..keys.len() {
            if (0..i).all(|j| clearly_farther(&keys[i], &keys[j], n) || clearly_farther(&keys[j], &keys[i], n)) {
                distinct += 1;
            }
        }
        rep.case(if distinct >= 2 { Some(&case) } else { None });
        rep.count(&format!("sql_{opname}_{lim}"));
        rep.count(&format!("sql_dim_{}", if n < 8 { "1-7" } else if n < 32 { "8-31" } else { "32-70" }));
        if ci % 397 == 0 {
            rep.sample(sql.chars().take(200).collect());
        }
        let dbr = &db;
        let sql2 = sql.clone();
        let got = guarded(std::panic::AssertUnwindSafe(move || dbr.query(&sql2).map_err(|e| e.to_string())));
        let ids: Vec<usize> = match got {
            Err(m) => {
                rep.oracle_fail(case.clone(), format!("{sql}: panic {m}"), format!("knn-sql:{opname}:{lim}:panic"));
                continue;
            }
            Ok(Err(e)) => {
                rep.oracle_fail(case.clone(), format!("{sql}: error {e}"), format!("knn-sql:{opname}:{lim}:error"));
                continue;
            }
            Ok(Ok(rs)) => rs
                .iter()
                .map(|r| match r.values.first() {
                    Some(OwnedValue::Int(i)) => *i as usize,
                    _ => 0,
                })
                .collect(),
        };
        let want_len = c.k.map(|k| k.min(stored.len())).unwrap_or(stored.len());
        let mut seen = vec![false; stored.len() + 1];
        let mut bad = ids.len() != want_len;
        for &i in &ids {
            if i == 0 || i > stored.len() || seen[i] {
                bad = true;
            } else {
                seen[i] = true;
            }
        }
        if bad {
            rep.oracle_fail(case.clone(), format!("{sql}: returned ids {ids:?}, expected {want_len} distinct ids of the table"), format!("knn-sql:{opname}:{lim}:wrong-rows"));
            continue;
        }
        // order: no returned row may be clearly farther than a later returned row
        let mut misordered = None;
        'o: for x in 0..ids.len() {
            for y in x + 1..ids.len() {
                if clearly_farther(&keys[ids[x] - 1], &keys[ids[y] - 1], n) {
                    misordered = Some((ids[x], ids[y]));
                    break 'o;
                }
            }
        }
        if let Some((x, y)) = misordered {
            rep.oracle_fail(case.clone(), format!("{sql}: id {x} is returned before id {y} but is farther by more than the rounding bound; ids={ids:?}"), format!("knn-sql:{opname}:{lim}:misordered"));
        }
        // LIMIT: no returned row clearly farther than a row that was left out
        let mut notk = None;
        'k: for &x in &ids {
            for y in 1..=stored.len() {
                if !seen[y] && clearly_farther(&keys[x - 1], &keys[y - 1], n) {
                    notk = Some((x, y));
                    break 'k;
                }
            }
        }
        if let Some((x, y)) = notk {
            rep.oracle_fail(case.clone(), format!("{sql}: id {x} is returned but id {y}, which is nearer by more than the rounding bound, is not; ids={ids:?}"), format!("knn-sql:{opname}:{lim}:not-k-nearest"));
        }
        // ---- model ranking (specification `knn` on the literal vectors) vs the engine: equal,
        // or different only by swaps inside the rounding bound (already judged above)
        let model_ids: Vec<usize> = if resp[ci] == "-" { vec![] } else { resp[ci].split(' ').filter_map(|s| s.parse::<usize>().ok()).map(|i| i + 1).collect() };
        if resp[ci] == "bad-op" {
            rep.disagree(case.clone(), "model rejected the request".into(), "model-bad-op".into());
        } else if !has_undef && stored.iter().zip(c.rows.iter()).all(|(a, b)| a == b) {
            if model_ids.len() != ids.len() {
                rep.disagree(case.clone(), format!("model returns {} rows, engine {}", model_ids.len(), ids.len()), "knn-length".into());
            } else {
                for (mi, ei) in model_ids.iter().zip(ids.iter()) {
                    if mi != ei {
                        // must be an exact or near tie
                        let (a, b) = (&keys[*mi - 1], &keys[*ei - 1]);
                        if clearly_farther(a, b, n) || clearly_farther(b, a, n) {
                            rep.disagree(case.clone(), format!("{sql}: model ranks id {mi} where the engine returns id {ei}; model={model_ids:?} engine={ids:?}"), "knn-rank".into());
                            break;
                        }
                    }
                }
                rep.count(if model_ids == ids { "sql_same_as_model" } else { "sql_differs_within_bound" });
            }
        }
    }
    drop(db);
    let _ = std::fs::remove_dir_all(&dir);
}

pub fn run(ctx: &Ctx) -> Report {
    let mut rep = Report::new(
        "vecdist",
        "kernels: every length 0..72 (thorough 0..160) x 8 value regimes (small ints, quarter grid, unit scale with full \
         mantissas, large 2^10..2^25, tiny 2^-25..2^-10, (SQL layer only: huge 2^60..2^66 and minute 2^-70..2^-60, whose squared differences leave the f32 range) mixed incl. zeros, alternating signs, large offset + small \
         perturbation) x {identical, zero, random} second operand, plus one-hot and all-but-one probes at EVERY index of \
         every length; each through scalar, AVX2 (if detected) and the dispatch functions; oracle |impl-exact| <= \
         gamma_(n+3)*sum|terms| with exact dyadic arithmetic (cosine: (2(n+3)+8)u absolute), only where no overflow/underflow \
         can occur (all sums in [2^-100, 2^120)). SQL: tables of 2..14 rows in every dimension 1..70, ties/mirrors/zero \
         vectors, ORDER BY <-> / <=> with no LIMIT, LIMIT 1, random k, k > rows (LIMIT 0 is not used: it panics in the TopK \
         path, a C15 finding). non-trivial = kernel case with a non-zero operand / table with >= 2 clearly distinct distances",
    );
    let mut rng = Rng::new(ctx.seed ^ 0xC24);
    run_kernels(ctx, &mut rep, &mut rng);
    run_sql(ctx, &mut rep, &mut rng);
    rep
}

#[allow(dead_code)]
fn _unused(_: Ordering) {}
