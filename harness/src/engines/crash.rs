//! C01 / C02 / C40: crash engine (DESIGN §5.C01/C02, §5.C40, §6).
//!
//! No process is killed.  The `io_event` hook (cfg kahflane_turdb_verif) numbers every I/O-relevant
//! event of the real engine (page mutation, mmap grow/msync, WAL frame write / flush / fdatasync /
//! truncate / rotate / segment create, catalog + meta write steps, file create/remove).  At every
//! event the recorder takes
//!   * the **kill** snapshot: the database directory exactly as the OS sees it (file contents incl.
//!     MAP_SHARED pages; user-space `BufWriter` content is not in the files and is therefore lost),
//!   * the **power** snapshot: per file the content at its last sync event (msync / fdatasync /
//!     sync_all); metadata operations (create, set_len, truncate, remove, rename) are durable at
//!     once, appended or overwritten data is durable only after a sync of that file.
//! The workload then continues, so one run yields a snapshot for every crash point.  Every distinct
//! snapshot is materialised, opened with the real `Database::open` (automatic recovery) and dumped
//! (full scan of every table + equality probes through every index).  The oracle is the property
//! statement itself: the dump must equal the state after the acknowledged prefix, or that plus the
//! whole in-flight unit (statement or BEGIN..COMMIT), where the reference states come from a
//! crash-free run of the same prefix on a fresh database (and, for generated DML, from the Lean
//! `sqldb` reference model).  A sample of snapshots is also recovered through the degraded-mode
//! `PRAGMA recover_wal` (streaming) path and both dumps must agree.
//!
//! case syntax (one line, self-contained):
//!   `crash <kill|power> <class> k=<event index> :: <universe> :: <setup sql ;; ..> :: <workload sql ;; ..>`
//! universe = `t:ncols:probe,probe;u:..` (table : number of columns : probed column positions)
//! `k=all` checks every crash point.  Pseudo statements: `@checkpoint` (Database::checkpoint()).
use crate::common::*;
use std::collections::{BTreeMap, BTreeSet, HashMap};
use std::path::{Path, PathBuf};
use std::sync::{Arc, Mutex};
use turdb::{Database, ExecuteResult, OwnedValue};

pub const PAGE: usize = 16384;

// ------------------------------------------------------------------------------------ recorder

#[derive(Clone, Debug)]
pub struct Ev {
    pub kind: String,
    pub name: String, // path relative to the database root ("" for harness marks)
    pub a: u64,
    pub b: u64,
    pub kill: usize,  // snapshot ids
    pub power: usize,
}

#[derive(Clone, Default)]
pub struct Snapshot {
    pub files: Vec<(String, u64)>, // relative path, content hash (content in Recorder.store)
    pub dirs: Vec<String>,
}

#[derive(Default)]
pub struct Recorder {
    root: PathBuf,
    pub events: Vec<Ev>,
    pub snaps: Vec<Snapshot>,
    snap_ix: HashMap<u64, usize>,
    pub store: HashMap<u64, Arc<Vec<u8>>>,
    durable: BTreeMap<String, u64>,
    dirs: BTreeSet<String>,
    active: bool,
}

static REC: Mutex<Option<Recorder>> = Mutex::new(None);

pub fn hash_bytes(b: &[u8]) -> u64 {
    // 8 bytes at a time; collisions are irrelevant for correctness of verdicts only in the sense
    // that two different contents with equal (len, hash) would be checked once (2^-64)
    let mut h: u64 = 0x9E37_79B9_7F4A_7C15 ^ (b.len() as u64);
    let mut it = b.chunks_exact(8);
    for c in &mut it {
        let w = u64::from_le_bytes(c.try_into().unwrap());
        h = (h ^ w).wrapping_mul(0x2545_F491_4F6C_DD1D);
        h ^= h >> 29;
    }
    for x in it.remainder() {
        h = (h ^ *x as u64).wrapping_mul(0x100_0000_01b3);
    }
    h ^ (h >> 32)
}

impl Recorder {
    fn put(&mut self, bytes: Vec<u8>) -> u64 {
        let h = hash_bytes(&bytes);
        self.store.entry(h).or_insert_with(|| Arc::new(bytes));
        h
    }
    fn rel(&self, p: &str) -> String {
        let root = self.root.to_string_lossy().to_string();
        p.strip_prefix(&root).map(|r| r.trim_start_matches('/').to_string()).unwrap_or_else(|| p.to_string())
    }
    fn read_rel(&self, rel: &str) -> Option<Vec<u8>> {
        std::fs::read(self.root.join(rel)).ok()
    }
    fn walk(&self, dir: &Path, rel: &str, files: &mut Vec<(String, Vec<u8>)>, dirs: &mut Vec<String>) {
        let mut ents: Vec<_> = match std::fs::read_dir(dir) {
            Ok(r) => r.filter_map(|e| e.ok()).collect(),
            Err(_) => return,
        };
        ents.sort_by_key(|e| e.file_name());
        for e in ents {
            let name = e.file_name().to_string_lossy().to_string();
            let r = if rel.is_empty() { name.clone() } else { format!("{rel}/{name}") };
            let p = e.path();
            if p.is_dir() {
                dirs.push(r.clone());
                self.walk(&p, &r, files, dirs);
            } else if let Ok(b) = std::fs::read(&p) {
                files.push((r, b));
            }
        }
    }
    fn intern_snapshot(&mut self, s: Snapshot) -> usize {
        let mut key = String::new();
        for (n, h) in &s.files {
            key.push_str(n);
            key.push_str(&format!(":{h:x};"));
        }
        for d in &s.dirs {
            key.push_str(d);
            key.push('/');
        }
        let k = fnv(&key);
        if let Some(i) = self.snap_ix.get(&k) {
            return *i;
        }
        self.snaps.push(s);
        self.snap_ix.insert(k, self.snaps.len() - 1);
        self.snaps.len() - 1
    }
    fn kill_snapshot(&mut self) -> usize {
        let mut files = vec![];
        let mut dirs = vec![];
        let root = self.root.clone();
        self.walk(&root, "", &mut files, &mut dirs);
        let files: Vec<(String, u64)> = files.into_iter().map(|(n, b)| (n, self.put(b))).collect();
        self.intern_snapshot(Snapshot { files, dirs })
    }
    fn power_snapshot(&mut self) -> usize {
        let files: Vec<(String, u64)> = self.durable.iter().map(|(n, h)| (n.clone(), *h)).collect();
        let dirs: Vec<String> = self.dirs.iter().cloned().collect();
        self.intern_snapshot(Snapshot { files, dirs })
    }
    /// baseline: everything on disk now is durable (the crash happens after a cleanly synced setup)
    fn baseline(&mut self) {
        let mut files = vec![];
        let mut dirs = vec![];
        let root = self.root.clone();
        self.walk(&root, "", &mut files, &mut dirs);
        self.durable.clear();
        for (n, b) in files {
            let h = self.put(b);
            self.durable.insert(n, h);
        }
        self.dirs = dirs.into_iter().collect();
    }
    fn durable_set_current(&mut self, rel: &str) {
        if let Some(b) = self.read_rel(rel) {
            let h = self.put(b);
            self.durable.insert(rel.to_string(), h);
        }
    }
    fn durable_set(&mut self, rel: &str, bytes: Vec<u8>) {
        let h = self.put(bytes);
        self.durable.insert(rel.to_string(), h);
    }
    fn on_event(&mut self, kind: &str, name: &str, a: u64, b: u64) {
        let rel = self.rel(name);
        match kind {
            // metadata operations: durable at once
            "mmap_create" => self.durable_set(&rel, vec![0u8; a as usize * PAGE]),
            "mmap_grow" => {
                let mut cur = self.durable.get(&rel).and_then(|h| self.store.get(h)).map(|x| x.as_ref().clone()).unwrap_or_default();
                if cur.len() < a as usize * PAGE {
                    cur.resize(a as usize * PAGE, 0);
                }
                self.durable_set(&rel, cur);
            }
            "wal_seg_create" | "cat_create" | "wal_truncate" => self.durable_set(&rel, vec![]),
            "wal_remove" | "fm_remove" => {
                self.durable.remove(&rel);
            }
            "fm_mkdir" => {
                self.dirs.insert(rel.clone());
            }
            "fm_rename" | "cat_rename" => {
                if let Some((o, n)) = name.split_once('|') {
                    let (o, n) = (self.rel(o), self.rel(n));
                    if let Some(h) = self.durable.remove(&o) {
                        self.durable.insert(n, h);
                    }
                }
            }
            // data syncs: the file's current content becomes durable
            "mmap_sync" | "wal_sync" | "cat_sync" | "meta_sync" => self.durable_set_current(&rel),
            // data writes without sync (page_mut, wal_frame, wal_flush, cat_header, cat_body,
            // meta_write, meta_create), marks: nothing durable changes
            _ => {}
        }
        let kill = self.kill_snapshot();
        let power = self.power_snapshot();
        self.events.push(Ev { kind: kind.to_string(), name: rel, a, b, kill, power });
    }
}

fn io_hook(kind: &'static str, name: &str, a: u64, b: u64) {
    let mut g = REC.lock().unwrap_or_else(|e| e.into_inner());
    if let Some(r) = g.as_mut() {
        if r.active {
            r.on_event(kind, name, a, b);
        }
    }
}

fn mark(kind: &'static str, a: u64) {
    io_hook(kind, "", a, 0);
}

// ------------------------------------------------------------------------------------ case

#[derive(Clone, Debug)]
pub struct TableU {
    pub name: String,
    pub ncols: usize,
    pub probes: Vec<usize>,
}

#[derive(Clone, Debug)]
pub struct Case {
    pub model: String, // kill | power | both
    pub class: String,
    pub k: Option<usize>,
    pub universe: Vec<TableU>,
    pub setup: Vec<String>,
    pub work: Vec<String>,
    /// optional prefix-form statements for the Lean sqldb reference (same length as `work`, "-" = not modelled)
    pub sx: Vec<String>,
    /// sqldb `create` lines for the tables of the setup (generated cases only)
    pub sx_setup: Vec<String>,
}

impl Case {
    pub fn line(&self, model: &str, k: Option<usize>) -> String {
        let uni: Vec<String> = self
            .universe
            .iter()
            .map(|t| format!("{}:{}:{}", t.name, t.ncols, t.probes.iter().map(|p| p.to_string()).collect::<Vec<_>>().join(",")))
            .collect();
        format!(
            "crash {} {} k={} :: {} :: {} :: {}",
            model,
            self.class,
            k.map(|k| k.to_string()).unwrap_or_else(|| "all".into()),
            uni.join(";"),
            self.setup.join(" ;; "),
            self.work.join(" ;; ")
        )
    }
    pub fn parse(line: &str) -> Option<Case> {
        let parts: Vec<&str> = line.split(" :: ").collect();
        if parts.len() != 4 {
            return None;
        }
        let head: Vec<&str> = parts[0].split_whitespace().collect();
        if head.len() != 4 || head[0] != "crash" {
            return None;
        }
        let k = head[3].strip_prefix("k=")?;
        let k = if k == "all" { None } else { Some(k.parse().ok()?) };
        let mut universe = vec![];
        for t in parts[1].split(';').filter(|s| !s.trim().is_empty()) {
            let f: Vec<&str> = t.trim().split(':').collect();
            if f.len() != 3 {
                return None;
            }
            universe.push(TableU {
                name: f[0].to_string(),
                ncols: f[1].parse().ok()?,
                probes: f[2].split(',').filter(|s| !s.is_empty()).filter_map(|s| s.parse().ok()).collect(),
            });
        }
        let split = |s: &str| -> Vec<String> { s.split(" ;; ").map(|x| x.trim().to_string()).filter(|x| !x.is_empty()).collect() };
        let work = split(parts[3]);
        Some(Case {
            model: head[1].to_string(),
            class: head[2].to_string(),
            k,
            universe,
            setup: split(parts[2]),
            sx: vec!["-".to_string(); work.len()],
            work,
            sx_setup: vec![],
        })
    }
}

// ------------------------------------------------------------------------------------ dump

#[derive(Clone, Debug, PartialEq, Eq)]
pub enum TDump {
    Missing,
    Err(String),
    Rows(Vec<Vec<String>>), // sorted
}

pub type Dump = Vec<TDump>;

pub fn cell_of(v: &OwnedValue) -> String {
    match v {
        OwnedValue::Null => "N".into(),
        OwnedValue::Bool(b) => format!("B{}", *b as u8),
        OwnedValue::Int(i) => format!("I{i}"),
        OwnedValue::Float(f) => format!("F{:?}", f),
        OwnedValue::Text(s) => format!("T{}", s),
        OwnedValue::Blob(b) => format!("X{}", hex(b)),
        other => format!("O{:?}", other).replace([' ', ',', ';'], "_"),
    }
}

thread_local! {
    /// the prepared `INSERT INTO t VALUES (?, ?, ?)` of pseudo statement `@cached`, per database handle
    static CACHED_INSERT: std::cell::RefCell<Option<(usize, turdb::PreparedStatement)>> = const { std::cell::RefCell::new(None) };
}

fn run_sql(db: &Database, sql: &str) -> Result<Result<ExecuteResult, String>, String> {
    let s = sql.to_string();
    guarded(std::panic::AssertUnwindSafe(move || {
        if s == "@checkpoint" {
            db.checkpoint().map(|_| ExecuteResult::Commit).map_err(|e| format!("{e:#}"))
        } else if let Some(rest) = s.strip_prefix("@cached ") {
            // `@cached <id> <a> <text>`: the same PreparedStatement object every time (its cached plan is what
            // routes the execution through insert_cached from the second execution on)
            let f: Vec<&str> = rest.splitn(3, ' ').collect();
            let params = vec![OwnedValue::Int(f[0].parse().unwrap_or(0)), OwnedValue::Int(f[1].parse().unwrap_or(0)), OwnedValue::Text(f.get(2).unwrap_or(&"").to_string())];
            let key = db as *const Database as usize;
            CACHED_INSERT.with(|c| {
                let mut c = c.borrow_mut();
                if c.as_ref().map(|x| x.0) != Some(key) {
                    *c = Some((key, db.prepare("INSERT INTO t VALUES (?, ?, ?)").map_err(|e| format!("{e:#}"))?));
                }
                db.execute_with_cached_plan(&c.as_ref().unwrap().1, &params).map_err(|e| format!("{e:#}"))
            })
        } else {
            db.execute(&s).map_err(|e| format!("{e:#}"))
        }
    }))
}

fn select_rows(db: &Database, sql: &str) -> TDump {
    match run_sql(db, sql) {
        Err(p) => TDump::Err(format!("panic:{}", p.chars().take(60).collect::<String>())),
        Ok(Err(e)) => {
            let m = e.to_lowercase();
            if std::env::var("VERIF_CRASH_TRACE").is_ok() {
                eprintln!("select error: {sql}: {}", e.chars().take(300).collect::<String>());
            }
            if m.contains("table") && (m.contains("not found") || m.contains("does not exist") || m.contains("no such") || m.contains("unknown table")) {
                TDump::Missing
            } else {
                TDump::Err(e.chars().take(80).collect())
            }
        }
        Ok(Ok(ExecuteResult::Select { rows, .. })) => {
            let mut r: Vec<Vec<String>> = rows.iter().map(|r| r.values.iter().map(cell_of).collect()).collect();
            r.sort();
            TDump::Rows(r)
        }
        Ok(Ok(o)) => TDump::Err(format!("not-a-select:{o:?}").chars().take(60).collect()),
    }
}

pub fn dump(db: &Database, uni: &[TableU]) -> Dump {
    uni.iter().map(|t| select_rows(db, &format!("SELECT * FROM {}", t.name))).collect()
}

fn lit_of_cell(c: &str) -> Option<String> {
    match c.as_bytes().first()? {
        b'I' => Some(c[1..].to_string()),
        b'T' => {
            let s = &c[1..];
            if s.chars().all(|ch| ch.is_ascii_alphanumeric() || ch == '_') {
                Some(format!("'{s}'"))
            } else {
                None
            }
        }
        _ => None,
    }
}

/// equality probes through every probed column: `SELECT * FROM t WHERE c = v` must be the scan filtered by c = v.
/// returns the list of disagreements (empty = indexes agree with the table)
pub fn probe(db: &Database, uni: &[TableU], cols: &HashMap<String, Vec<String>>, d: &Dump, extra_vals: &[&Dump]) -> Vec<String> {
    let mut bad = vec![];
    for (ti, t) in uni.iter().enumerate() {
        let rows = match &d[ti] {
            TDump::Rows(r) => r,
            _ => continue,
        };
        let names = match cols.get(&t.name) {
            Some(n) => n,
            None => continue,
        };
        for &c in &t.probes {
            if c >= names.len() {
                continue;
            }
            let mut vals: BTreeSet<String> = rows.iter().filter_map(|r| r.get(c).cloned()).collect();
            for e in extra_vals {
                if let Some(TDump::Rows(rs)) = e.get(ti) {
                    vals.extend(rs.iter().filter_map(|r| r.get(c).cloned()));
                }
            }
            for v in vals.iter().take(24) {
                let lit = match lit_of_cell(v) {
                    Some(l) => l,
                    None => continue,
                };
                let got = select_rows(db, &format!("SELECT * FROM {} WHERE {} = {}", t.name, names[c], lit));
                let want: Vec<Vec<String>> = rows.iter().filter(|r| r.get(c) == Some(v)).cloned().collect();
                if got != TDump::Rows(want.clone()) {
                    bad.push(format!("{}.{}={}: lookup {:?} scan {:?}", t.name, names[c], lit, got, want));
                }
            }
        }
    }
    bad
}

fn show_dump(d: &Dump) -> String {
    d.iter()
        .map(|t| match t {
            TDump::Missing => "missing".to_string(),
            TDump::Err(e) => format!("err({e})"),
            TDump::Rows(r) => format!("[{}]", r.iter().map(|x| x.iter().map(|c| if c.len() > 10 { format!("{}..{}", &c[..8], c.len()) } else { c.clone() }).collect::<Vec<_>>().join(",")).collect::<Vec<_>>().join(";")),
        })
        .collect::<Vec<_>>()
        .join(" | ")
}

// ------------------------------------------------------------------------------------ units

/// units of the workload: (first stmt index, last stmt index, is_txn)
fn units(work: &[String]) -> Vec<(usize, usize, bool)> {
    let mut u = vec![];
    let mut i = 0;
    while i < work.len() {
        if work[i].to_uppercase().starts_with("BEGIN") {
            let mut j = i + 1;
            while j < work.len() && !work[j].to_uppercase().starts_with("COMMIT") {
                j += 1;
            }
            let j = j.min(work.len() - 1);
            u.push((i, j, true));
            i = j + 1;
        } else {
            u.push((i, i, false));
            i += 1;
        }
    }
    u
}

fn fresh_db(dir: &str, setup: &[String]) -> Result<Database, String> {
    let _ = std::fs::remove_dir_all(dir);
    let db = guarded({
        let d = dir.to_string();
        move || Database::create(&d).map_err(|e| format!("{e:#}"))
    })??;
    for s in setup {
        match run_sql(&db, s) {
            Ok(Ok(_)) => {}
            Ok(Err(e)) => return Err(format!("setup `{s}` failed: {e}")),
            Err(p) => return Err(format!("setup `{s}` panicked: {p}")),
        }
    }
    Ok(db)
}

fn column_names(db: &Database, uni: &[TableU]) -> HashMap<String, Vec<String>> {
    let mut m = HashMap::new();
    for t in uni {
        if let Ok(Ok(ExecuteResult::Select { columns, .. })) = run_sql(db, &format!("SELECT * FROM {} WHERE 1 = 0", t.name)) {
            if !columns.is_empty() {
                m.insert(t.name.clone(), columns);
                continue;
            }
        }
        if let Ok((columns, _)) = db.query_with_columns(&format!("SELECT * FROM {}", t.name)) {
            m.insert(t.name.clone(), columns);
        }
    }
    m
}

/// crash-free reference run: dump after every unit. ref_dumps[0] = after setup, [u+1] = after unit u.
pub struct Reference {
    pub dumps: Vec<Dump>,
    pub stmt_ok: Vec<bool>,
    pub cols: HashMap<String, Vec<String>>,
    pub probe_clean: Vec<bool>,
}

fn reference_run(dir: &str, case: &Case) -> Result<Reference, String> {
    let db = fresh_db(dir, &case.setup)?;
    let us = units(&case.work);
    let mut dumps = vec![dump(&db, &case.universe)];
    let mut stmt_ok = vec![];
    let mut cols = column_names(&db, &case.universe);
    let mut probe_clean = vec![true];
    for (a, b, _) in &us {
        for i in *a..=*b {
            match run_sql(&db, &case.work[i]) {
                Ok(Ok(_)) => stmt_ok.push(true),
                Ok(Err(_)) => stmt_ok.push(false),
                Err(p) => return Err(format!("reference run panicked at `{}`: {p}", case.work[i])),
            }
        }
        for (k, v) in column_names(&db, &case.universe) {
            cols.insert(k, v);
        }
        let d = dump(&db, &case.universe);
        let pb = probe(&db, &case.universe, &cols, &d, &[]);
        if !pb.is_empty() {
            if std::env::var("VERIF_CRASH_TRACE").is_ok() {
                eprintln!("reference probe not clean after `{}`: {:?}", case.work[*b], pb.iter().map(|x| x.chars().take(200).collect::<String>()).collect::<Vec<_>>());
            }
        }
        probe_clean.push(pb.is_empty());
        dumps.push(d);
    }
    drop(db);
    let _ = std::fs::remove_dir_all(dir);
    Ok(Reference { dumps, stmt_ok, cols, probe_clean })
}

/// crash run: returns the recorder (events + snapshots). Marks: unit_begin(u), commit_begin(u), ack(u).
fn crash_run(dir: &str, case: &Case, reference: &Reference) -> Result<Recorder, String> {
    let db = fresh_db(dir, &case.setup)?;
    {
        let mut r = Recorder { root: PathBuf::from(dir), active: true, ..Default::default() };
        r.baseline();
        *REC.lock().unwrap_or_else(|e| e.into_inner()) = Some(r);
    }
    turdb::verif_hooks::set_io_hook(Some(io_hook));
    let us = units(&case.work);
    let mut err = None;
    mark("start", 0);
    'outer: for (u, (a, b, is_txn)) in us.iter().enumerate() {
        mark("unit_begin", u as u64);
        for i in *a..=*b {
            if *is_txn && i == *b {
                mark("commit_begin", u as u64);
            }
            let r = run_sql(&db, &case.work[i]);
            let ok = matches!(r, Ok(Ok(_)));
            if let Err(p) = &r {
                err = Some(format!("crash run panicked at `{}`: {p}", case.work[i]));
                break 'outer;
            }
            if ok != reference.stmt_ok[i] {
                err = Some(format!("statement `{}` outcome differs between reference and crash run", case.work[i]));
                break 'outer;
            }
        }
        mark("ack", u as u64);
    }
    turdb::verif_hooks::set_io_hook(None);
    let rec = REC.lock().unwrap_or_else(|e| e.into_inner()).take().unwrap();
    if std::env::var("VERIF_CRASH_TRACE").is_ok() {
        for (i, e) in rec.events.iter().enumerate() {
            let note = if e.kind == "unit_begin" { us.get(e.a as usize).map(|u| case.work[u.0].chars().take(70).collect::<String>()).unwrap_or_default() } else { String::new() };
            eprintln!("ev {i:4} {:14} {:28} a={} b={} kill#{} power#{} {}", e.kind, e.name, e.a, e.b, e.kill, e.power, note);
        }
    }
    drop(db);
    let _ = std::fs::remove_dir_all(dir);
    match err {
        Some(e) => Err(e),
        None => Ok(rec),
    }
}

pub fn materialise_pub(rec: &Recorder, snap: usize, dir: &str) {
    materialise(rec, snap, dir)
}

fn materialise(rec: &Recorder, snap: usize, dir: &str) {
    let _ = std::fs::remove_dir_all(dir);
    let _ = std::fs::create_dir_all(dir);
    let s = &rec.snaps[snap];
    for d in &s.dirs {
        let _ = std::fs::create_dir_all(Path::new(dir).join(d));
    }
    for (n, h) in &s.files {
        let p = Path::new(dir).join(n);
        if let Some(par) = p.parent() {
            let _ = std::fs::create_dir_all(par);
        }
        let _ = std::fs::write(&p, rec.store.get(h).map(|b| b.as_slice()).unwrap_or(&[]));
    }
}

#[derive(Clone, Debug, PartialEq, Eq)]
pub enum Recovered {
    OpenErr(String),
    OpenPanic(String),
    State { dump: Dump, probe_bad: Vec<String> },
}

fn wal_nonempty(rec: &Recorder, snap: usize) -> bool {
    rec.snaps[snap].files.iter().any(|(n, h)| n.starts_with("wal/") && rec.store.get(h).map(|b| b.len() >= PAGE + 32).unwrap_or(false))
}

/// open a materialised snapshot through the automatic path, dump, probe
fn recover_auto(dir: &str, case: &Case, reference: &Reference, extra: &[&Dump]) -> Recovered {
    let d = dir.to_string();
    match guarded(move || Database::open(&d).map_err(|e| format!("{e:#}"))) {
        Err(p) => Recovered::OpenPanic(p),
        Ok(Err(e)) => Recovered::OpenErr(e),
        Ok(Ok(db)) => {
            let dmp = dump(&db, &case.universe);
            let mut cols = reference.cols.clone();
            for (k, v) in column_names(&db, &case.universe) {
                cols.insert(k, v);
            }
            let probe_bad = probe(&db, &case.universe, &cols, &dmp, extra);
            let _ = guarded(std::panic::AssertUnwindSafe(move || drop(db)));
            Recovered::State { dump: dmp, probe_bad }
        }
    }
}

/// open in forced degraded mode and run PRAGMA recover_wal (streaming recovery), then dump on a fresh handle
fn recover_streaming(dir: &str, case: &Case) -> Recovered {
    let d = dir.to_string();
    turdb::verif_hooks::set_force_degraded(true);
    let r = guarded(move || Database::open(&d).map_err(|e| format!("{e:#}")));
    turdb::verif_hooks::set_force_degraded(false);
    match r {
        Err(p) => Recovered::OpenPanic(p),
        Ok(Err(e)) => Recovered::OpenErr(e),
        Ok(Ok(db)) => {
            let pr = run_sql(&db, "PRAGMA recover_wal");
            if let Ok(Err(e)) = &pr {
                return Recovered::OpenErr(format!("recover_wal: {e}"));
            }
            if let Err(p) = &pr {
                return Recovered::OpenPanic(format!("recover_wal: {p}"));
            }
            let dmp = dump(&db, &case.universe);
            let _ = guarded(std::panic::AssertUnwindSafe(move || drop(db)));
            Recovered::State { dump: dmp, probe_bad: vec![] }
        }
    }
}

/// what went wrong, given allowed states a (acked prefix) and b (a + in-flight unit, if any)
fn classify(r: &Dump, a: &Dump, b: Option<&Dump>, older: &[Dump]) -> &'static str {
    let b = b.unwrap_or(a);
    let mut lost = false;
    let mut extra = false;
    let mut tlost = false;
    let mut rerr = false;
    for i in 0..r.len() {
        match (&r[i], &a[i], &b[i]) {
            (TDump::Missing, TDump::Rows(_), TDump::Rows(_)) => tlost = true,
            (TDump::Missing, _, _) | (_, TDump::Missing, TDump::Missing) => {
                if r[i] != a[i] && r[i] != b[i] {
                    extra = true;
                }
            }
            (TDump::Err(_), _, _) => rerr = true,
            (TDump::Rows(rr), x, y) => {
                let empty = vec![];
                let ra = if let TDump::Rows(v) = x { v } else { &empty };
                let rb = if let TDump::Rows(v) = y { v } else { &empty };
                let sr: BTreeSet<&Vec<String>> = rr.iter().collect();
                let sa: BTreeSet<&Vec<String>> = ra.iter().collect();
                let sb: BTreeSet<&Vec<String>> = rb.iter().collect();
                if sa.intersection(&sb).any(|x| !sr.contains(*x)) {
                    lost = true;
                }
                if sr.iter().any(|x| !sa.contains(*x) && !sb.contains(*x)) {
                    extra = true;
                }
            }
        }
    }
    if tlost {
        "table-lost"
    } else if rerr {
        "table-unreadable"
    } else if older.iter().any(|o| o == r) {
        "acked-lost"
    } else if lost {
        "acked-lost"
    } else if extra {
        "phantom-rows"
    } else {
        "partial-stmt"
    }
}

// ------------------------------------------------------------------------------------ check one case

pub struct CaseStats {
    pub events: usize,
    pub checked: usize,
    pub stream_checked: usize,
}

#[derive(Clone, Copy)]
pub struct Focus {
    pub prop: &'static str,
    /// failure kinds this property reports (the others belong to a sibling property)
    pub whats: &'static [&'static str],
    /// only crash points inside DDL units, and only tables that existed before the unit (C40)
    pub ddl_only: bool,
}

impl Focus {
    fn wants(&self, what: &str) -> bool {
        self.whats.contains(&what)
    }
}

pub const FOCUS_C01: Focus = Focus { prop: "C01", whats: &["acked-lost", "table-lost", "table-unreadable", "open-error", "open-panic"], ddl_only: false };
pub const FOCUS_C02: Focus = Focus { prop: "C02", whats: &["partial-stmt", "phantom-rows", "index-disagrees", "paths-differ", "table-unreadable", "open-error", "open-panic", "acked-lost", "table-lost"], ddl_only: false };
pub const FOCUS_C40: Focus = Focus { prop: "C40", whats: &["table-lost", "table-unreadable", "open-error", "open-panic", "acked-lost", "phantom-rows", "partial-stmt"], ddl_only: true };

fn is_ddl(sql: &str) -> bool {
    let u = sql.trim_start().to_uppercase();
    u.starts_with("CREATE") || u.starts_with("DROP") || u.starts_with("ALTER")
}

pub fn check_case(ctx: &Ctx, case: &Case, rep: &mut Report, tag: &str, focus: Focus) -> Option<CaseStats> {
    let dir_ref = format!("{}/crash-ref-{}", ctx.scratch, tag);
    let dir_run = format!("{}/crash-run-{}", ctx.scratch, tag);
    let dir_snap = format!("{}/crash-snap-{}", ctx.scratch, tag);
    let reference = match reference_run(&dir_ref, case) {
        Ok(r) => r,
        Err(e) => {
            rep.count("skipped:reference-run-failed");
            rep.notes.push(format!("reference run failed ({}): {}", case.class, e.chars().take(160).collect::<String>()));
            return None;
        }
    };
    // cut the workload at the first unit whose crash-free state is unreadable or contradicts the Lean reference
    let mut good_units = reference.dumps.len() - 1;
    if let Some(n) = cross_check_sqldb(ctx, case, rep, &reference) {
        good_units = good_units.min(n);
    }
    for (j, d) in reference.dumps.iter().enumerate() {
        if d.iter().any(|t| matches!(t, TDump::Err(_))) {
            rep.count("reference-unreadable-without-crash(workload cut)");
            good_units = good_units.min(j.saturating_sub(1));
            break;
        }
    }
    let mut case_cut;
    let mut reference = reference;
    let case = if good_units < reference.dumps.len() - 1 {
        let us = units(&case.work);
        let nst = if good_units == 0 { 0 } else { us[good_units - 1].1 + 1 };
        case_cut = case.clone();
        case_cut.work.truncate(nst);
        case_cut.sx.truncate(nst);
        reference.dumps.truncate(good_units + 1);
        reference.probe_clean.truncate(good_units + 1);
        reference.stmt_ok.truncate(nst);
        &case_cut
    } else {
        case
    };
    if case.work.is_empty() {
        rep.count("skipped:nothing-left-after-cut");
        return None;
    }
    rep.count_n("reference-probe-not-clean-units", reference.probe_clean.iter().filter(|x| !**x).count() as u64);
    let rec = match crash_run(&dir_run, case, &reference) {
        Ok(r) => r,
        Err(e) => {
            rep.count("skipped:crash-run-failed");
            rep.notes.push(format!("crash run failed ({}): {}", case.class, e.chars().take(160).collect::<String>()));
            return None;
        }
    };
    if focus.prop == "C01" && (tag.contains("-0-") || tag.contains("-c")) {
        let (n, pts) = super::crash_pages::check(ctx, case, &rec, rep, tag);
        rep.count_n("pages:images-compared-with-commit-model", n);
        rep.count_n("pages:crash-points-compared", pts);
    }
    // walk the events; state machine over marks gives (acked units, in-flight?)
    let us = units(&case.work);
    let mut acked = 0usize; // number of acked units
    let mut inflight = false; // a unit may have taken effect (autocommit stmt started / COMMIT started)
    let mut in_unit = false;
    let mut cur_unit_ddl = false;
    let mut seen: BTreeSet<(usize, usize, bool, bool)> = BTreeSet::new();
    // C40: what a crash right before the DDL statement recovers to (per model); None = not recoverable even then
    let mut ddl_base: HashMap<String, Option<Dump>> = HashMap::new(); // (snapshot, acked, inflight, in_unit)
    let mut stats = CaseStats { events: rec.events.len(), checked: 0, stream_checked: 0 };
    let models: Vec<&str> = match case.model.as_str() {
        "kill" => vec!["kill"],
        "power" => vec!["power"],
        _ => vec!["kill", "power"],
    };
    for (k, ev) in rec.events.iter().enumerate() {
        match ev.kind.as_str() {
            "unit_begin" => {
                in_unit = true;
                cur_unit_ddl = is_ddl(&case.work[us[ev.a as usize].0]);
                inflight = !us[ev.a as usize].2; // autocommit statement: in flight from its start
            }
            "commit_begin" => inflight = true,
            "ack" => {
                acked = ev.a as usize + 1;
                inflight = false;
                in_unit = false;
            }
            _ => {}
        }
        rep.count(&format!("event:{}", ev.kind));
        if let Some(only) = case.k {
            if only != k {
                continue;
            }
        }
        if focus.ddl_only && !(in_unit && cur_unit_ddl) {
            continue;
        }
        if case.class == "bigtxn" && case.k.is_none() && !ctx.thorough && ev.kind == "page_mut" && k % 12 != 0 {
            rep.count("crashpoint:bigtxn-page_mut-sampled-out");
            continue;
        }
        for model in &models {
            let snap = if *model == "kill" { ev.kill } else { ev.power };
            if !seen.insert((snap, acked, inflight, in_unit)) {
                rep.count("crashpoint:duplicate-snapshot");
                continue;
            }
            let a = &reference.dumps[acked];
            let b = if inflight && acked + 1 < reference.dumps.len() { Some(&reference.dumps[acked + 1]) } else { None };
            // C40: only tables that existed before the DDL statement (and are not dropped by it) are under
            // test, and the yardstick is what a crash immediately *before* the statement recovers to, so
            // that the effect of the DDL's own I/O is isolated from the C01/C02 findings
            let is_base_event = focus.ddl_only && ev.kind == "unit_begin";
            let base = if focus.ddl_only && !is_base_event { ddl_base.get(*model).cloned().flatten() } else { None };
            if focus.ddl_only && !is_base_event && base.is_none() {
                rep.count("c40:baseline-not-recoverable(skipped)");
                continue;
            }
            let after = &reference.dumps[(acked + 1).min(reference.dumps.len() - 1)];
            let pre: Vec<bool> = (0..a.len())
                .map(|i| !focus.ddl_only || (matches!(a[i], TDump::Rows(_)) && matches!(after[i], TDump::Rows(_)) && base.as_ref().map(|bd| matches!(bd[i], TDump::Rows(_))).unwrap_or(true)))
                .collect();
            let mask = |d: &Dump| -> Dump { d.iter().zip(&pre).map(|(t, keep)| if *keep { t.clone() } else { TDump::Missing }).collect() };
            let (a_m, b_m) = match &base {
                Some(bd) => (mask(bd), None),
                None => (mask(a), b.map(|b| mask(b))),
            };
            let (a, b) = (&a_m, b_m.as_ref());
            materialise(&rec, snap, &dir_snap);
            let mut extra: Vec<&Dump> = vec![a];
            if let Some(b) = b {
                extra.push(b);
            }
            let r = recover_auto(&dir_snap, case, &reference, &extra);
            stats.checked += 1;
            let case_line = case.line(model, Some(k));
            rep.case(Some(&format!("{}:{}:{}:{}", model, case.class, snap, acked)));
            rep.count(&format!("crashpoint:{}:{}", model, if inflight { "in-flight" } else if in_unit { "in-open-txn" } else { "quiescent" }));
            let sig = |what: &str| format!("crash:{}:{}:{}:{}", model, case.class, ev.kind, what);
            let mut auto_dump: Option<Dump> = None;
            if is_base_event {
                ddl_base.insert(model.to_string(), match &r { Recovered::State { dump, .. } => Some(dump.clone()), _ => None });
                continue;
            }
            match &r {
                Recovered::OpenErr(_) | Recovered::OpenPanic(_) if !focus.wants("open-error") => rep.count("other-property:open-error"),
                Recovered::OpenErr(e) => rep.oracle_fail(case_line.clone(), format!("Database::open failed after crash at event {k} ({} {}): {}", ev.kind, ev.name, e.chars().take(300).collect::<String>()), sig("open-error")),
                Recovered::OpenPanic(p) => rep.oracle_fail(case_line.clone(), format!("Database::open panicked after crash at event {k} ({} {}): {}", ev.kind, ev.name, p.chars().take(300).collect::<String>()), sig("open-panic")),
                Recovered::State { dump: d, probe_bad } => {
                    auto_dump = Some(d.clone());
                    let d = &mask(d);
                    let ok = d == a || b.map(|b| d == b).unwrap_or(false);
                    let what = if ok { "" } else { classify(d, a, b, &reference.dumps[..acked]) };
                    if !ok && !focus.wants(what) {
                        rep.count(&format!("other-property:{what}"));
                    }
                    if !ok && focus.wants(what) {
                        rep.oracle_fail(
                            case_line.clone(),
                            format!(
                                "crash at event {k} ({} {} a={} b={}), {} units acked, in-flight={}: recovered {} ; allowed {}{}",
                                ev.kind, ev.name, ev.a, ev.b, acked, inflight,
                                show_dump(d), show_dump(a),
                                b.map(|b| format!(" or {}", show_dump(b))).unwrap_or_default()
                            ),
                            sig(what),
                        );
                    }
                    if !probe_bad.is_empty() && reference.probe_clean[acked] && (b.is_none() || reference.probe_clean[acked + 1]) && focus.wants("index-disagrees") {
                        rep.oracle_fail(
                            case_line.clone(),
                            format!("crash at event {k} ({} {}): index lookups disagree with the table scan after recovery: {}", ev.kind, ev.name, probe_bad.iter().take(3).cloned().collect::<Vec<_>>().join(" ## ")),
                            sig("index-disagrees"),
                        );
                    }
                }
            }
            // second recovery path (streaming, PRAGMA recover_wal) on a sample
            let sample = ctx.thorough || case.k.is_some() || stats.checked % 4 == 1;
            if sample && focus.wants("paths-differ") && wal_nonempty(&rec, snap) {
                materialise(&rec, snap, &dir_snap);
                let r2 = recover_streaming(&dir_snap, case);
                stats.stream_checked += 1;
                rep.count("recovery-path:streaming-compared");
                let d2 = match &r2 {
                    Recovered::State { dump, .. } => Some(dump.clone()),
                    _ => None,
                };
                let same = match (&r, &r2) {
                    (Recovered::State { .. }, Recovered::State { .. }) => auto_dump == d2,
                    (Recovered::OpenErr(_), Recovered::OpenErr(_)) | (Recovered::OpenPanic(_), Recovered::OpenPanic(_)) => true,
                    _ => false,
                };
                if !same {
                    rep.oracle_fail(
                        case_line.clone(),
                        format!(
                            "crash at event {k} ({} {}): automatic recovery gives {} but degraded open + PRAGMA recover_wal gives {}",
                            ev.kind, ev.name,
                            match &r { Recovered::State { dump, .. } => show_dump(dump), o => format!("{o:?}").chars().take(200).collect() },
                            match &r2 { Recovered::State { dump, .. } => show_dump(dump), o => format!("{o:?}").chars().take(200).collect() }
                        ),
                        sig("paths-differ"),
                    );
                }
            }
        }
    }
    let _ = std::fs::remove_dir_all(&dir_snap);
    Some(stats)
}

// ------------------------------------------------------------------------------------ generator

fn txt(rng: &mut Rng, big: bool) -> String {
    let n = if big { 2500 + rng.below(1500) as usize } else { 1 + rng.below(6) as usize };
    (0..n).map(|_| (b'a' + rng.below(26) as u8) as char).collect()
}

struct Gen<'a> {
    /// only INSERTs and updates of the non-indexed column (tables with a secondary index: DELETE and
    /// UPDATE of the indexed column leave stale secondary-index entries even without a crash — a C10
    /// defect that would only blind the index probes here)
    insert_only: bool,
    rng: &'a mut Rng,
    next_id: i64,
    live: Vec<i64>,
    big: bool,
    /// rows of 850..950 text bytes (just below the TOAST threshold): ~17 rows per leaf page
    med: bool,
    table: &'static str,
}

impl<'a> Gen<'a> {
    fn row(&mut self) -> (String, String) {
        let id = self.next_id;
        self.next_id += 1;
        self.live.push(id);
        let a = self.rng.range(0, 9);
        let b = if self.med { let n = 850 + self.rng.below(100) as usize; (0..n).map(|_| (b'a' + self.rng.below(26) as u8) as char).collect() } else { txt(self.rng, self.big) };
        (format!("({id}, {a}, '{b}')"), format!("((int {id}) (int {a}) (text {}))", hex(b.as_bytes())))
    }
    fn stmt(&mut self) -> (String, String) {
        let t = self.table;
        let mut c = self.rng.below(100);
        if self.insert_only {
            c = if c < 50 { 0 } else if c < 75 { 40 } else { 72 };
        }
        if c < 30 || self.live.len() < 2 {
            let (s, x) = self.row();
            (format!("INSERT INTO {t} VALUES {s}"), format!("(insert {t} (0 1 2) ({x}))"))
        } else if c < 45 {
            let n = 2 + self.rng.below(3);
            let rows: Vec<(String, String)> = (0..n).map(|_| self.row()).collect();
            (
                format!("INSERT INTO {t} VALUES {}", rows.iter().map(|r| r.0.clone()).collect::<Vec<_>>().join(", ")),
                format!("(insert {t} (0 1 2) ({}))", rows.iter().map(|r| r.1.clone()).collect::<Vec<_>>().join(" ")),
            )
        } else if c < 60 {
            let id = *self.rng.pick(&self.live);
            let a = self.rng.range(10, 19);
            (format!("UPDATE {t} SET a = {a} WHERE id = {id}"), format!("(update {t} ((1 (int {a}))) (bin eq (col 0) (int {id})))"))
        } else if c < 70 {
            let lim = self.rng.range(2, 7);
            let a = self.rng.range(20, 29);
            (format!("UPDATE {t} SET a = {a} WHERE a < {lim}"), format!("(update {t} ((1 (int {a}))) (bin lt (col 1) (int {lim})))"))
        } else if c < 78 {
            let id = *self.rng.pick(&self.live);
            let b = txt(self.rng, self.big);
            (format!("UPDATE {t} SET b = '{b}' WHERE id = {id}"), format!("(update {t} ((2 (text {}))) (bin eq (col 0) (int {id})))", hex(b.as_bytes())))
        } else if c < 92 {
            let i = self.rng.below(self.live.len() as u64) as usize;
            let id = self.live.remove(i);
            (format!("DELETE FROM {t} WHERE id = {id}"), format!("(delete {t} (bin eq (col 0) (int {id})))"))
        } else {
            let lim = self.rng.range(3, 8);
            // ids stay "live" for the generator (a later statement on them is a harmless no-op)
            (format!("DELETE FROM {t} WHERE a >= {lim}"), format!("(delete {t} (bin ge (col 1) (int {lim})))"))
        }
    }
}

pub const CLASSES: &[&str] = &["dml-noidx", "bigtxn", "cachedtxn", "dml-pk", "dml-idx", "txn", "big", "ddl", "ckpt"];
pub const CLASSES_C01: &[&str] = &["dml-noidx", "bigtxn", "cachedtxn", "dml-pk", "dml-idx", "txn", "big", "ddl", "ckpt", "ddl-heavy"];
pub const CLASSES_C40: &[&str] = &["ddl", "ddl-heavy"];

/// DDL-heavy workload: tables t0..t3 created / indexed / dropped in between inserts (C40 crash clause)
fn gen_ddl_heavy(rng: &mut Rng, nstmts: usize) -> Case {
    let mut setup = pragmas();
    setup.push("CREATE TABLE t (id INT PRIMARY KEY, a INT, b TEXT)".to_string());
    let mut universe = vec![TableU { name: "t".into(), ncols: 3, probes: vec![0] }];
    for i in 0..4 {
        universe.push(TableU { name: format!("t{i}"), ncols: 2, probes: vec![0] });
    }
    let n0 = rng.range(1, 4);
    for id in 1..=n0 {
        setup.push(format!("INSERT INTO t VALUES ({id}, {}, '{}')", rng.range(0, 9), txt(rng, false)));
    }
    let mut exists = [false; 4];
    let mut indexed = [false; 4];
    let mut next_k = [1i64; 4];
    let mut work = vec![];
    while work.len() < nstmts {
        let i = rng.below(4) as usize;
        let c = rng.below(100);
        if !exists[i] {
            let ty = *rng.pick(&["TEXT", "INT", "VARCHAR(20)", "DOUBLE"]);
            let extra = *rng.pick(&["", " NOT NULL", " DEFAULT 'd'", ""]);
            let extra = if ty == "TEXT" || ty == "VARCHAR(20)" { extra } else if extra.contains("DEFAULT") { " DEFAULT 7" } else { extra };
            work.push(format!("CREATE TABLE t{i} (k INT PRIMARY KEY, v {ty}{extra})"));
            exists[i] = true;
            indexed[i] = false;
            next_k[i] = 1;
        } else if c < 45 {
            let k = next_k[i];
            next_k[i] += 1;
            work.push(format!("INSERT INTO t{i} (k) VALUES ({k})"));
        } else if c < 65 && !indexed[i] {
            work.push(format!("CREATE INDEX t{i}_v ON t{i} (v)"));
            indexed[i] = true;
        } else if c < 80 {
            work.push(format!("DROP TABLE t{i}"));
            exists[i] = false;
        } else {
            let id = n0 + 1 + work.len() as i64;
            work.push(format!("INSERT INTO t VALUES ({id}, 1, 'w')"));
        }
    }
    let sx = vec!["-".to_string(); work.len()];
    Case { model: "both".into(), class: "ddl-heavy".into(), k: None, universe, setup, work, sx, sx_setup: vec![] }
}

fn pragmas() -> Vec<String> {
    vec!["PRAGMA wal = ON".to_string(), "PRAGMA synchronous = FULL".to_string()]
}

pub fn gen_case(rng: &mut Rng, class: &str, nstmts: usize) -> Case {
    if class == "ddl-heavy" {
        return gen_ddl_heavy(rng, nstmts);
    }
    let mut setup = pragmas();
    let mut sx_setup = vec![];
    let pk = class != "dml-noidx";
    let t_create = if pk { "CREATE TABLE t (id INT PRIMARY KEY, a INT, b TEXT)" } else { "CREATE TABLE t (id INT, a INT, b TEXT)" };
    setup.push(t_create.to_string());
    sx_setup.push(format!(
        "create t ((id {pk} 0 {pk} 0 (null)) (a 0 0 0 0 (null)) (b 0 0 0 0 (null))) () () ()",
        pk = if pk { 1 } else { 0 }
    ));
    let mut universe = vec![TableU { name: "t".into(), ncols: 3, probes: if pk { vec![0] } else { vec![] } }];
    if class == "dml-idx" {
        setup.push("CREATE INDEX t_a ON t (a)".to_string());
        universe[0].probes = vec![0, 1];
    }
    let mut g = Gen { insert_only: class == "dml-idx", rng, next_id: 1, live: vec![], big: class == "big", med: false, table: "t" };
    let n0 = if class == "big" { 3 } else { g.rng.range(0, 12) as usize };
    let mut sx_rows = vec![];
    for _ in 0..n0 {
        let (s, x) = g.row();
        setup.push(format!("INSERT INTO t VALUES {s}"));
        sx_rows.push(format!("stmt (insert t (0 1 2) ({x}))"));
    }
    sx_setup.extend(sx_rows);
    let mut work = vec![];
    let mut sx = vec![];
    if class == "cachedtxn" {
        // a transaction made only of executions of ONE prepared INSERT through its cached plan (insert_cached):
        // these register no undo write entries, the pages reach the WAL only through the COMMIT flush
        let mut id = 100i64;
        let mut push = |work: &mut Vec<String>, sx: &mut Vec<String>, rng: &mut Rng| {
            id += 1;
            let a = rng.range(0, 9);
            let b = txt(rng, false);
            work.push(format!("@cached {id} {a} {b}"));
            sx.push(format!("(insert t (0 1 2) (((int {id}) (int {a}) (text {}))))", hex(b.as_bytes())));
        };
        push(&mut work, &mut sx, g.rng);
        push(&mut work, &mut sx, g.rng);
        let (s, x) = g.stmt();
        work.push(s); sx.push(x);
        work.push("BEGIN".to_string()); sx.push("(begin)".to_string());
        for _ in 0..(2 + g.rng.below(3)) { push(&mut work, &mut sx, g.rng); }
        work.push("COMMIT".to_string()); sx.push("(commit)".to_string());
        push(&mut work, &mut sx, g.rng);
        return Case { model: "both".into(), class: class.to_string(), k: None, universe, setup, work, sx, sx_setup };
    }
    if class == "bigtxn" {
        // one transaction that dirties more than COMMIT_BATCH_SIZE (16) pages, so that COMMIT takes the
        // chunked WAL path (execute_chunked_wal_commit), between small autocommit statements that have
        // already logged frames for the same root/leaf pages
        let (s, x) = g.stmt();
        work.push(s);
        sx.push(x);
        work.push("BEGIN".to_string());
        sx.push("(begin)".to_string());
        g.med = true;
        let nins = 10 + g.rng.below(3);
        for _ in 0..nins {
            let rows: Vec<(String, String)> = (0..32).map(|_| g.row()).collect();
            work.push(format!("INSERT INTO t VALUES {}", rows.iter().map(|r| r.0.clone()).collect::<Vec<_>>().join(", ")));
            sx.push(format!("(insert t (0 1 2) ({}))", rows.iter().map(|r| r.1.clone()).collect::<Vec<_>>().join(" ")));
        }
        g.med = false;
        work.push("COMMIT".to_string());
        sx.push("(commit)".to_string());
        for _ in 0..2 {
            let (s, x) = g.stmt();
            work.push(s);
            sx.push(x);
        }
        return Case { model: "both".into(), class: class.to_string(), k: None, universe, setup, work, sx, sx_setup };
    }
    let mut made_u = false;
    let mut made_ix = false;
    while work.len() < nstmts {
        match class {
            "txn" if g.rng.chance(1, 2) => {
                work.push("BEGIN".to_string());
                sx.push("(begin)".to_string());
                for _ in 0..(1 + g.rng.below(3)) {
                    let (s, x) = g.stmt();
                    work.push(s);
                    sx.push(x);
                }
                work.push("COMMIT".to_string());
                sx.push("(commit)".to_string());
            }
            "ddl" if !made_u && g.rng.chance(1, 3) => {
                made_u = true;
                work.push("CREATE TABLE u (k INT PRIMARY KEY, v TEXT)".to_string());
                sx.push("-".to_string());
                universe.push(TableU { name: "u".into(), ncols: 2, probes: vec![0] });
            }
            "ddl" if made_u && g.rng.chance(1, 4) => {
                let k = g.rng.range(1, 50);
                let v = txt(&mut *g.rng, false);
                work.push(format!("INSERT INTO u VALUES ({k}, '{v}') ON CONFLICT DO NOTHING"));
                sx.push("-".to_string());
            }
            "ddl" if !made_ix && g.rng.chance(1, 4) => {
                made_ix = true;
                work.push("CREATE INDEX t_a ON t (a)".to_string());
                sx.push("-".to_string());
                universe[0].probes = vec![0, 1];
            }
            "ckpt" if g.rng.chance(1, 4) => {
                if g.rng.chance(1, 2) {
                    work.push("@checkpoint".to_string());
                } else {
                    work.push("PRAGMA wal_checkpoint".to_string());
                }
                sx.push("-".to_string());
            }
            _ => {
                let (s, x) = g.stmt();
                work.push(s);
                sx.push(x);
            }
        }
    }
    Case { model: "both".into(), class: class.to_string(), k: None, universe, setup, work, sx, sx_setup }
}

// ------------------------------------------------------------------------------------ Lean sqldb cross-check

/// the crash-free reference states of generated DML must be the states of the Lean `sqldb`
/// reference model (so the allowed set is not merely "whatever the engine does without a crash")
/// returns the number of leading units whose reference states are confirmed (None = not modelled)
fn cross_check_sqldb(ctx: &Ctx, case: &Case, rep: &mut Report, reference: &Reference) -> Option<usize> {
    if case.sx_setup.is_empty() || case.sx.iter().any(|s| s == "-") || case.universe.len() != 1 {
        return None;
    }
    let us = units(&case.work);
    let mut reqs = vec!["reset".to_string()];
    reqs.extend(case.sx_setup.iter().cloned());
    let mut dump_at = vec![];
    reqs.push("dump t".into());
    dump_at.push(reqs.len() - 1);
    for (a, b, _) in &us {
        for i in *a..=*b {
            reqs.push(format!("stmt {}", case.sx[i]));
        }
        reqs.push("dump t".into());
        dump_at.push(reqs.len() - 1);
    }
    let resp = model_batch(&ctx.model_bin, "sqldb", &reqs);
    for (j, &ix) in dump_at.iter().enumerate() {
        let m = &resp[ix];
        let mrows = match crate::sqlgen::parse_model_rows(m) {
            Ok(r) => r,
            Err(_) => {
                if std::env::var("VERIF_CRASH_TRACE").is_ok() {
                    eprintln!("sqldb unparsed: {} ; reqs {:?}", m, reqs.iter().zip(resp.iter()).filter(|(_, r)| r.starts_with("bad") || r.starts_with("err")).take(3).collect::<Vec<_>>());
                }
                rep.count("sqldb-ref:unparsed");
                return Some(j.saturating_sub(1));
            }
        };
        // model cells: I<n>, T<hex>; engine cells here: I<n>, T<text>
        let mut mr: Vec<Vec<String>> = mrows
            .iter()
            .map(|r| r.iter().map(|c| if let Some(h) = c.strip_prefix('T') { format!("T{}", String::from_utf8_lossy(&unhex(h))) } else { c.clone() }).collect())
            .collect();
        mr.sort();
        rep.count("sqldb-ref:compared");
        if reference.dumps[j][0] != TDump::Rows(mr.clone()) {
            // the engine misbehaves without any crash (a C05/C11 matter): the allowed set of the crash
            // oracle is then undefined from this unit on; the workload is cut here
            rep.count("sqldb-ref:engine-differs-without-crash(workload cut)");
            if std::env::var("VERIF_CRASH_TRACE").is_ok() {
                eprintln!("reference differs from sqldb model after unit {j}: engine {} model {:?}", show_dump(&reference.dumps[j]), mr.iter().take(4).collect::<Vec<_>>());
            }
            return Some(j.saturating_sub(1));
        }
    }
    Some(dump_at.len() - 1)
}

// ------------------------------------------------------------------------------------ entry points

fn run_generic(ctx: &Ctx, focus: Focus, classes: &[&str], rep: &mut Report) {
    let prop = focus.prop;
    let mut rng = Rng::new(ctx.seed ^ fnv(prop));
    let mut n = 0usize;
    // corpus / replay first
    for line in ctx.corpus_cases(prop) {
        if let Some(c) = Case::parse(&line) {
            n += 1;
            rep.count("case:corpus");
            check_case(ctx, &c, rep, &format!("{prop}-c{n}"), focus);
        } else if line.starts_with("crash ") {
            rep.notes.push(format!("unparsable corpus line: {}", line.chars().take(80).collect::<String>()));
        }
    }
    if ctx.replay.is_some() {
        return;
    }
    let rounds = if ctx.thorough { 40 } else { 4 };
    let t0 = std::time::Instant::now();
    let budget = if ctx.thorough { 1500.0 } else if focus.ddl_only { 45.0 } else { 70.0 };
    for round in 0..rounds {
        for class in classes {
            if t0.elapsed().as_secs_f64() > budget {
                rep.notes.push(format!("time budget reached after {n} workloads"));
                return;
            }
            let nst = if ctx.thorough { 10 + rng.below(20) as usize } else if *class == "big" { 8 } else { 6 + rng.below(6) as usize };
            let case = gen_case(&mut rng, class, nst);
            n += 1;
            rep.count(&format!("workload:{class}"));
            let tag = format!("{prop}-{round}-{class}");
            if let Some(st) = check_case(ctx, &case, rep, &tag, focus) {
                rep.count_n("events-total", st.events as u64);
                rep.count_n("snapshots-recovered", st.checked as u64);
                if n <= 6 {
                    rep.sample(format!("{} -> {} events, {} distinct snapshots recovered, {} via recover_wal", case.line("both", None).chars().take(300).collect::<String>(), st.events, st.checked, st.stream_checked));
                }
            }
        }
    }
}

pub fn run(ctx: &Ctx) -> Report {
    run_c01(ctx)
}

pub fn run_c01(ctx: &Ctx) -> Report {
    let mut rep = Report::new(
        "crash",
        "one case = (workload, crash model, crash point). Workloads: DDL/DML/COMMIT with WAL on + synchronous=FULL (classes incl. bigtxn: one transaction dirtying > COMMIT_BATCH_SIZE pages so that COMMIT takes the chunked WAL path; its page_mut crash points are sampled 1 in 12 in the quick tier); crash \
         points: every I/O event of the engine (page mutation, grow, msync, WAL frame/flush/fdatasync/truncate/rotate, catalog and \
         meta write steps, file create/remove) plus the instants just after each acknowledgement; models: kill (OS view of the \
         files) and power (per-file last-synced content). Oracle: reopened state == acked prefix, or acked prefix + whole in-flight \
         unit; index probes agree with scans; recover_wal path == automatic path. non-trivial = distinct (model, class, snapshot \
         content, acked count)",
    );
    run_generic(ctx, FOCUS_C01, CLASSES_C01, &mut rep);
    rep
}

pub fn run_c40(ctx: &Ctx) -> Report {
    let mut rep = Report::new(
        "crash_c40",
        "(a) crash clause: DDL workloads (CREATE TABLE with various column types/defaults, CREATE INDEX, DROP TABLE between          inserts); crash points = every I/O event inside a DDL statement (file create, header page write, msync, catalog          truncate/header/body/sync, meta write/sync), kill and power models; oracle: Database::open succeeds and every table that          existed before the DDL statement is present with its rows and agrees with its indexes. (b) round trip: catalogs built          through the public schema API and catalogs left on disk by DDL histories are serialized by CatalogPersistence and by the          Lean model (bytes must be equal), deserialized by both, and must reproduce the catalog. non-trivial = distinct (model,          class, snapshot content, acked count) / distinct catalog bytes",
    );
    run_generic(ctx, FOCUS_C40, CLASSES_C40, &mut rep);
    super::catalog_rt::run(ctx, &mut rep);
    rep
}

pub fn run_c02(ctx: &Ctx) -> Report {
    let mut rep = Report::new(
        "crash_c02",
        "same crash engine as C01 (every I/O event of every workload is a crash point, kill and power models); this property          reports the consistency failures: recovered state is neither the acked prefix nor prefix + whole in-flight unit          (partial statement, uncommitted rows), a table is unreadable, an index lookup disagrees with the scan (probes on every          indexed column for every value of the allowed states; workloads on tables with a secondary index are INSERT/UPDATE-of-         other-column only, dodging the C10 stale-secondary-index defect), Database::open fails, or automatic recovery and          degraded-open + PRAGMA recover_wal give different states. non-trivial = distinct (model, class, snapshot content, acked count)",
    );
    run_generic(ctx, FOCUS_C02, CLASSES, &mut rep);
    rep
}
