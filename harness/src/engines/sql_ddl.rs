//! C21: schema changes behave as a relational model predicts and persist.
//!
//! One database, one Lean model instance (`sqlidx`: `SqlDb` + index/schema catalogue).  Histories
//! interleave DDL (CREATE/DROP TABLE, CREATE/DROP INDEX, CREATE/DROP SCHEMA, TRUNCATE, ALTER TABLE
//! ADD / DROP / RENAME COLUMN) with DML (INSERT with and without column list, UPDATE, DELETE) and
//! `Dbh::reopen`.  After every step each table's column names (`SELECT *` result header) and full
//! dump are compared with the model; dropped tables must be unreadable.  A history stops at its
//! first difference.  Signature `ddl:<op>:<after-reopen? yes|no>:<what differs>`: for a difference
//! first seen right after a reopen, `<op>` is the last schema-changing / data statement before it.
//!
//! Case syntax: `hist <seed>` (random history) / `focus <op> <variant>` (systematic mini-history) /
//! `probe <letters>` (development aid, see `run`); `VERIF_DEBUG=1` prints every statement to stderr
use crate::common::*;
use crate::sqlgen::*;
use crate::sqlgen_idx::*;

#[derive(Clone)]
struct Tab {
    name: String,
    cols: Vec<ColSpec>,
    next_id: i64,
    indexes: Vec<(String, Vec<String>)>,
    /// current name of the original `id` column (None once dropped)
    idcol: Option<String>,
    /// ADD COLUMN ran while the table held rows (stored rows are shorter than the schema)
    short_rows: bool,
    /// the PRIMARY KEY column has been dropped (ALTER TABLE .. DROP COLUMN <pk>)
    pk_dropped: bool,
    pk_renamed: bool,
    recreated: bool,
    live_ids: Vec<i64>,
    /// rows were inserted since the last rewrite of all rows (TRUNCATE / DROP COLUMN): deleted rows stay in the
    /// B-tree as tombstones in the record format they were written with
    any_rows: bool,
}

struct World<'a> {
    /// (table, index name, columns) of the index dropped last
    last_dropped_index: Option<(String, String, Vec<String>)>,
    db: Dbh,
    model: &'a mut Model,
    tabs: Vec<Tab>,
    dropped: Vec<String>,
    schemas: Vec<String>,
    case: String,
    last_op: String,
    last_ddl: String,
    reopened_since_ddl: bool,
    schema_ever: bool,
    total_inserts: usize,
    blame_add_column: bool,
    blame_pk_rename: bool,
    blame_recreated: bool,
    dead: bool,
    fresh_col: usize,
    fresh_idx: usize,
}

fn gen_v(rng: &mut Rng, ty: CTy, null_pct: u64) -> V {
    if rng.chance(null_pct, 100) { return V::Null; }
    match ty {
        CTy::Big => V::Int(*rng.pick(&[-3i64, 0, 1, 2, 5, 10, 10, 77, 1000])),
        CTy::Dbl => V::Flt(*rng.pick(&[-6i64, 0, 1, 2, 6, 10, 40]), 4),
        CTy::Text => V::Text(rng.pick(&["", "a", "ab", "b", "zz", "shared-prefix-shared-prefix-1"]).to_string()),
        CTy::Bool => V::Bool(rng.chance(1, 2)),
    }
}

/// DEFAULT values: never negative (a parenthesised negative DEFAULT is not applied by the engine, which
/// is an INSERT defect, not a schema-change defect)
fn gen_dflt(rng: &mut Rng, ty: CTy) -> V {
    match ty {
        CTy::Big => V::Int(*rng.pick(&[0i64, 1, 2, 7, 77, 1000])),
        CTy::Dbl => V::Flt(*rng.pick(&[0i64, 1, 2, 6, 10, 40]), 4),
        _ => gen_v(rng, ty, 0),
    }
}

fn ok_class(o: &Out) -> &'static str {
    match o { Out::Err(_) => "err", Out::Panic(_) => "panic", _ => "ok" }
}

impl<'a> World<'a> {
    /// signature `ddl:<last schema-changing op>:<reopened since that op?>:<what differs>`; when the
    /// difference shows at / after a DML statement, `<what>` names that statement kind
    fn fail(&mut self, rep: &mut Report, after_reopen: bool, what: &str, detail: String) {
        let dml = ["insert", "insert_columns", "insert_dup", "update", "delete"].contains(&self.last_op.as_str());
        let what = if dml { format!("{}-{what}", self.last_op) } else { what.to_string() };
        let op = if what.ends_with("reopen-failed") && self.schema_ever { "create_schema".to_string() }
            else if dml && self.blame_add_column && (what.contains("panic") || what.contains("rows-extra") || what.contains("rows-missing")) { "add_column".to_string() }
            else if self.last_op == "insert_dup" && self.blame_pk_rename { "rename_column_pk".to_string() }
            else if what.contains("select-err") && self.blame_recreated { "create_table_again".to_string() }
            else { self.last_ddl.clone() };
        let what = if what.ends_with("reopen-failed") { "reopen-failed".to_string() } else { what };
        rep.oracle_fail(self.case.clone(), format!("[last DDL {}, last statement {}] {detail}", self.last_ddl, self.last_op), format!("ddl:{op}:{}:{what}", if after_reopen || self.reopened_since_ddl { "yes" } else { "no" }));
        self.dead = true;
    }

    /// run one statement on the engine and its counterpart on the model; outcomes (ok / error) must agree
    fn step(&mut self, rep: &mut Report, op: &str, sql: &str, model_line: &str) -> bool {
        self.last_op = op.to_string();
        if !["insert", "insert_columns", "insert_dup", "update", "delete"].contains(&op) {
            self.last_ddl = format!("{op}{}", if sql.contains("sx.") && op != "create_schema" && op != "drop_schema" { "@schema" } else { "" });
            self.reopened_since_ddl = false;
        }
        rep.count(&format!("op_{op}"));
        self.total_inserts += 1;
        let o = self.db.exec(sql);
        let m = self.model.ask(model_line);
        if std::env::var("VERIF_DEBUG").is_ok() { eprintln!("{sql}\n    engine {} | model {m}   [{model_line}]", ok_class(&o)); }
        if m == "bad-op" { rep.disagree(self.case.clone(), format!("model rejected request: {model_line}"), "model-bad-op".into()); self.dead = true; return false; }
        let m_ok = !m.starts_with("err");
        let e_ok = ok_class(&o) == "ok";
        if m_ok != e_ok {
            let what = if e_ok { "outcome-ok-vs-err".to_string() } else { format!("outcome-{}-vs-ok", match &o { Out::Err(e) => format!("err-{}", error_class(e)), _ => "panic".into() }) };
            let msg = match &o { Out::Err(e) => short(e, 200), Out::Panic(p) => short(p, 200), _ => "ok".into() };
            self.fail(rep, false, &what, format!("`{}`: engine {msg}; model {m}", short(sql, 200)));
            return false;
        }
        e_ok
    }

    /// all tables: header + dump vs the model; dropped tables unreadable
    fn verify(&mut self, rep: &mut Report, after_reopen: bool) {
        if self.dead { return; }
        let tabs = self.tabs.clone();
        for t in &tabs {
            let mcols = self.model.ask(&format!("cols {}", t.name));
            let mdump = self.model.ask(&format!("dump {}", t.name));
            rep.case(Some(&format!("{}|{}|{mcols}|{mdump}", self.last_op, after_reopen)));
            let sql = format!("SELECT * FROM {}", t.name);
            match q_cols(&self.db, &sql) {
                Ok((cols, rows)) => {
                    let exp_cols: Vec<String> = mcols.strip_prefix("ok ").unwrap_or("").split(',').filter(|x| !x.is_empty()).map(|x| x.to_string()).collect();
                    if cols != exp_cols {
                        self.fail(rep, after_reopen, "columns", format!("{sql}: columns {cols:?}, model {exp_cols:?}"));
                        return;
                    }
                    match parse_model_rows(&mdump) {
                        Ok(mr) => {
                            if !rows_agree_bag(&mr, &rows) {
                                let miss = bag_minus(&mr, &rows, model_cell);
                                let extra = bag_minus(&rows, &mr, cell_model);
                                let what = if rows.len() != mr.len() { if rows.len() < mr.len() { "rows-missing" } else { "rows-extra" } } else { "row-values" };
                                self.fail(rep, after_reopen, what, format!("{sql} (columns {cols:?}): {} rows, model {} rows; model only: {} | engine only: {}", rows.len(), mr.len(), show_some(&miss, 3), show_some(&extra, 3)));
                                return;
                            }
                        }
                        Err(e) => { rep.disagree(self.case.clone(), format!("model dump {}: {e}", t.name), "model-dump".into()); self.dead = true; return; }
                    }
                }
                Err(e) => {
                    self.blame_recreated = t.recreated;
                    let raw = match self.db.exec(&sql) { Out::Err(m) => short(&m, 200), Out::Panic(m) => format!("panic {}", short(&m, 200)), _ => String::new() };
                    self.fail(rep, after_reopen, &format!("select-{e}"), format!("{sql}: {raw}; model has the table with columns {mcols}"));
                    return;
                }
            }
        }
        let dropped = self.dropped.clone();
        for d in &dropped {
            if self.tabs.iter().any(|t| &t.name == d) { continue; }
            if let Ok(rows) = q(&self.db, &format!("SELECT * FROM {d}")) {
                self.fail(rep, after_reopen, "dropped-table-readable", format!("SELECT * FROM {d} returns {} rows after the table was dropped", rows.len()));
                return;
            }
        }
    }

    fn reopen(&mut self, rep: &mut Report) {
        if self.dead { return; }
        rep.count("op_reopen");
        if let Err(e) = self.db.reopen() {
            self.fail(rep, true, "reopen-failed", format!("reopen: {}", short(&e, 200)));
            return;
        }
        let m = self.model.ask("ddl (reopen)");
        let _ = m;
        // the engine's global row-id counter restarts at 1 on every open, so the next INSERT into any
        // table that still holds row 1 fails with `key already exists` (a close/reopen defect, C04): advance
        // the counter past every id handed out so far through a padding table the model does not know
        let n = 4 * self.total_inserts + 40;
        self.total_inserts += n;
        self.fresh_idx += 1;
        let pad = format!("zz_pad{}", self.fresh_idx);
        let _ = self.db.exec(&format!("CREATE TABLE {pad} (x BIGINT)"));
        let _ = self.db.exec(&format!("INSERT INTO {pad} VALUES {}", (0..n).map(|i| format!("({i})")).collect::<Vec<_>>().join(", ")));
        self.verify(rep, true);
        self.reopened_since_ddl = true;
    }

    fn create_table(&mut self, rep: &mut Report, rng: &mut Rng, name: &str, with_pk: bool, ncols: usize) {
        let mut cols = vec![if with_pk { ColSpec::new("id", CTy::Big).pk() } else { ColSpec::new("id", CTy::Big) }];
        for _ in 0..ncols {
            self.fresh_col += 1;
            let ty = *rng.pick(&[CTy::Big, CTy::Dbl, CTy::Text, CTy::Text, CTy::Big]);
            let mut c = ColSpec::new(&format!("c{}", self.fresh_col), ty);
            if rng.chance(1, 4) { c = c.dflt(gen_dflt(rng, ty)); }
            cols.push(c);
        }
        let td = TDef { name: name.to_string(), cols: cols.clone() };
        let op = if self.dropped.iter().any(|d| d == name) { "create_table_again" } else { "create_table" };
        if self.step(rep, op, &td.create_sql(true), &td.model_create(true)) {
            self.tabs.push(Tab { name: name.to_string(), cols, next_id: 1, indexes: vec![], idcol: Some("id".into()), short_rows: false, pk_dropped: false, pk_renamed: false, recreated: op == "create_table_again", live_ids: vec![], any_rows: false });
            self.dropped.retain(|d| d != name);
        }
    }

    fn insert(&mut self, rep: &mut Report, rng: &mut Rng, ti: usize, subset: bool) {
        let t = self.tabs[ti].clone();
        let id = t.next_id;
        self.tabs[ti].next_id += 1;
        let mut idxs: Vec<usize> = (0..t.cols.len()).collect();
        if subset && t.cols.len() > 1 {
            // keep the first column, drop a random non-empty subset of the others
            idxs = vec![0];
            for i in 1..t.cols.len() { if rng.chance(1, 2) { idxs.push(i); } }
        }
        // no explicit NULL into a column that has a DEFAULT: the engine then stores the default, which is
        // a defect of another property (C05/C11), not of schema changes
        let vals: Vec<V> = idxs.iter().map(|&i| if Some(&t.cols[i].name) == t.idcol.as_ref() { V::Int(id) } else { gen_v(rng, t.cols[i].ty, if t.cols[i].dflt.is_some() { 0 } else { 15 }) }).collect();
        let sql = if subset {
            format!("INSERT INTO {} ({}) VALUES ({})", t.name, idxs.iter().map(|&i| t.cols[i].name.clone()).collect::<Vec<_>>().join(", "), vals.iter().map(|v| v.sql()).collect::<Vec<_>>().join(", "))
        } else {
            format!("INSERT INTO {} VALUES ({})", t.name, vals.iter().map(|v| v.sql()).collect::<Vec<_>>().join(", "))
        };
        let ml = format!("stmt (insert {} ({}) ({}))", t.name, idxs.iter().map(|i| i.to_string()).collect::<Vec<_>>().join(" "), vs_sx(&vals));
        self.blame_add_column = t.short_rows;
        if self.step(rep, if subset { "insert_columns" } else { "insert" }, &sql, &ml) { self.tabs[ti].live_ids.push(id); self.tabs[ti].any_rows = true; self.total_inserts += 1; }
    }

    /// a second row with an id that is still present: must be rejected while the id column is the PRIMARY KEY
    fn insert_dup(&mut self, rep: &mut Report, rng: &mut Rng, ti: usize) {
        let t = self.tabs[ti].clone();
        let Some(idc) = t.idcol.clone() else { return };
        let Some(ci) = t.cols.iter().position(|c| c.name == idc) else { return };
        if !t.cols[ci].pk || t.live_ids.is_empty() { return; }
        let id = *rng.pick(&t.live_ids);
        let vals: Vec<V> = t.cols.iter().enumerate().map(|(i, c)| if i == ci { V::Int(id) } else { gen_v(rng, c.ty, if c.dflt.is_some() { 0 } else { 15 }) }).collect();
        let sql = format!("INSERT INTO {} VALUES ({})", t.name, vals.iter().map(|v| v.sql()).collect::<Vec<_>>().join(", "));
        let ml = format!("stmt (insert {} ({}) ({}))", t.name, (0..t.cols.len()).map(|i| i.to_string()).collect::<Vec<_>>().join(" "), vs_sx(&vals));
        self.blame_add_column = false;
        self.blame_pk_rename = t.pk_renamed;
        // keep the id list in step with reality if the engine wrongly accepts the row
        let _ = self.step(rep, "insert_dup", &sql, &ml);
    }

    fn first_col_pred(&self, t: &Tab, rng: &mut Rng) -> Option<(String, String)> {
        // predicate on the first column (usually id): `<col> = k`
        let c = &t.cols[0];
        if c.ty != CTy::Big { return None; }
        let k = if t.idcol.as_ref() == Some(&c.name) { if t.live_ids.is_empty() { return None; } *rng.pick(&t.live_ids) } else { 1 + rng.below(t.next_id.max(1) as u64) as i64 };
        Some((format!("{} = {k}", c.name), format!("(bin eq (col 0) (int {k}))")))
    }

    fn update(&mut self, rep: &mut Report, rng: &mut Rng, ti: usize) {
        let t = self.tabs[ti].clone();
        if t.cols.len() < 2 { return; }
        let ci = 1 + rng.below(t.cols.len() as u64 - 1) as usize;
        let v = gen_v(rng, t.cols[ci].ty, if t.cols[ci].dflt.is_some() { 0 } else { 10 });
        if let Some((w, mw)) = self.first_col_pred(&t, rng) {
            let sql = format!("UPDATE {} SET {} = {} WHERE {w}", t.name, t.cols[ci].name, v.sql());
            let ml = format!("stmt (update {} (({ci} {})) {mw})", t.name, v.sx());
            self.blame_add_column = t.short_rows;
            self.step(rep, "update", &sql, &ml);
        }
    }

    fn delete(&mut self, rep: &mut Report, rng: &mut Rng, ti: usize) {
        let t = self.tabs[ti].clone();
        if let Some((w, mw, k)) = self.first_col_pred(&t, rng).map(|(a, b)| { let k: i64 = a.rsplit(' ').next().and_then(|x| x.parse().ok()).unwrap_or(0); (a, b, k) }) {
            self.blame_add_column = t.short_rows;
            if self.step(rep, "delete", &format!("DELETE FROM {} WHERE {w}", t.name), &format!("stmt (delete {} {mw})", t.name)) {
                if t.idcol.as_ref() == Some(&t.cols[0].name) { self.tabs[ti].live_ids.retain(|x| *x != k); }
            }
        }
    }

    fn add_column(&mut self, rep: &mut Report, rng: &mut Rng, ti: usize, with_default: bool) {
        self.fresh_col += 1;
        let ty = *rng.pick(&[CTy::Big, CTy::Dbl, CTy::Text]);
        let mut c = ColSpec::new(&format!("c{}", self.fresh_col), ty);
        if with_default { c = c.dflt(gen_dflt(rng, ty)); }
        let name = self.tabs[ti].name.clone();
        let sql = format!("ALTER TABLE {name} ADD COLUMN {}", c.sql(true));
        let ml = format!("ddl (addcolumn {name} {})", c.sx(true));
        if self.step(rep, if with_default { "add_column_default" } else { "add_column" }, &sql, &ml) {
            self.tabs[ti].cols.push(c);
            if !self.tabs[ti].live_ids.is_empty() || self.tabs[ti].any_rows { self.tabs[ti].short_rows = true; }
        }
    }

    fn drop_column(&mut self, rep: &mut Report, ti: usize, ci: usize) {
        let t = self.tabs[ti].clone();
        if t.cols.len() < 2 || ci >= t.cols.len() { return; }
        let cname = t.cols[ci].name.clone();
        let indexed = t.indexes.iter().any(|(_, cs)| cs.contains(&cname));
        let op = if t.cols[ci].pk { "drop_column_pk" } else if indexed { "drop_column_indexed" } else if ci + 1 == t.cols.len() { "drop_column_last" } else { "drop_column_middle" };
        let sql = format!("ALTER TABLE {} DROP COLUMN {}", t.name, cname);
        let ml = format!("ddl (dropcolumn {} {ci})", t.name);
        if self.step(rep, op, &sql, &ml) {
            self.tabs[ti].cols.remove(ci);
            self.tabs[ti].indexes.retain(|(_, cs)| !cs.contains(&cname));
            if self.tabs[ti].idcol.as_ref() == Some(&cname) { self.tabs[ti].idcol = None; }
            // DROP COLUMN rewrites every row in the new format
 self.tabs[ti].short_rows = false;
            self.tabs[ti].any_rows = !self.tabs[ti].live_ids.is_empty();
            if op == "drop_column_pk" { self.tabs[ti].pk_dropped = true; }
        }
    }

    fn rename_column(&mut self, rep: &mut Report, ti: usize, ci: usize) {
        let t = self.tabs[ti].clone();
        if ci >= t.cols.len() { return; }
        self.fresh_col += 1;
        let new = format!("r{}", self.fresh_col);
        let old = t.cols[ci].name.clone();
        let sql = format!("ALTER TABLE {} RENAME COLUMN {} TO {}", t.name, old, new);
        let ml = format!("ddl (renamecolumn {} {ci} {new})", t.name);
        let op = if t.cols[ci].pk { "rename_column_pk" } else { "rename_column" };
        if self.step(rep, op, &sql, &ml) {
            self.tabs[ti].cols[ci].name = new.clone();
            if self.tabs[ti].idcol.as_ref() == Some(&old) { self.tabs[ti].idcol = Some(new.clone()); }
            if t.cols[ci].pk { self.tabs[ti].pk_renamed = true; }
            for (_, cs) in self.tabs[ti].indexes.iter_mut() { for c in cs.iter_mut() { if *c == old { *c = new.clone(); } } }
        }
    }

    fn truncate(&mut self, rep: &mut Report, ti: usize) {
        let name = self.tabs[ti].name.clone();
        if self.step(rep, "truncate", &format!("TRUNCATE TABLE {name}"), &format!("ddl (truncate {name})")) { self.tabs[ti].live_ids.clear(); self.tabs[ti].short_rows = false; self.tabs[ti].any_rows = false; }
    }

    fn drop_table(&mut self, rep: &mut Report, ti: usize) {
        let name = self.tabs[ti].name.clone();
        if self.step(rep, "drop_table", &format!("DROP TABLE {name}"), &format!("ddl (droptable {name})")) {
            self.tabs.remove(ti);
            self.dropped.push(name);
        }
    }

    fn create_index(&mut self, rep: &mut Report, rng: &mut Rng, ti: usize, unique: bool) {
        let t = self.tabs[ti].clone();
        self.fresh_idx += 1;
        let iname = format!("ix{}", self.fresh_idx);
        let ci = if unique { 0 } else { rng.below(t.cols.len() as u64) as usize };
        // a unique index only on the (unique by construction) id column
        if unique && t.cols[0].name != "id" { return; }
        let sql = format!("CREATE {}INDEX {iname} ON {} ({})", if unique { "UNIQUE " } else { "" }, t.name, t.cols[ci].name);
        let ml = format!("ddl (createindex {iname} {} {} ({ci}))", t.name, unique as u8);
        let op = if t.short_rows { "create_index_after_add_column" } else if t.pk_dropped { "create_index_after_drop_pk" } else if unique { "create_unique_index" } else { "create_index" };
        if self.step(rep, op, &sql, &ml) { self.tabs[ti].indexes.push((iname, vec![t.cols[ci].name.clone()])); }
    }

    fn drop_index(&mut self, rep: &mut Report, ti: usize) {
        if self.tabs[ti].indexes.is_empty() { return; }
        let (iname, cols) = self.tabs[ti].indexes.remove(0);
        if self.step(rep, "drop_index", &format!("DROP INDEX {iname}"), &format!("ddl (dropindex {iname})")) {
            self.last_dropped_index = Some((self.tabs[ti].name.clone(), iname, cols));
        }
    }

    /// CREATE INDEX with the name (and column) of the index dropped last, in the same session
    fn create_index_again(&mut self, rep: &mut Report) {
        let Some((tname, iname, cols)) = self.last_dropped_index.take() else { return };
        let Some(ti) = self.tabs.iter().position(|t| t.name == tname) else { return };
        let Some(ci) = self.tabs[ti].cols.iter().position(|c| c.name == cols[0]) else { return };
        if self.tabs[ti].short_rows { return; }
        let sql = format!("CREATE INDEX {iname} ON {tname} ({})", cols[0]);
        let ml = format!("ddl (createindex {iname} {tname} 0 ({ci}))");
        if self.step(rep, "create_index_again", &sql, &ml) { self.tabs[ti].indexes.push((iname, cols)); }
    }

    fn create_schema(&mut self, rep: &mut Report, name: &str) {
        self.schema_ever = true;
        if self.step(rep, "create_schema", &format!("CREATE SCHEMA {name}"), &format!("ddl (createschema {name})")) { self.schemas.push(name.to_string()); }
    }

    fn drop_schema(&mut self, rep: &mut Report, name: &str) {
        if self.step(rep, "drop_schema", &format!("DROP SCHEMA {name}"), &format!("ddl (dropschema {name})")) {
            self.schemas.retain(|s| s != name);
            let pre = format!("{name}.");
            let gone: Vec<String> = self.tabs.iter().filter(|t| t.name.starts_with(&pre)).map(|t| t.name.clone()).collect();
            self.tabs.retain(|t| !t.name.starts_with(&pre));
            self.dropped.extend(gone);
        }
    }
}

fn new_world<'a>(ctx: &Ctx, model: &'a mut Model, tag: &str, case: String) -> World<'a> {
    model.ask("reset");
    let db = Dbh::create(ctx, &format!("c21-{tag}"));
    World { last_dropped_index: None, db, model, tabs: vec![], dropped: vec![], schemas: vec![], case, last_op: "none".into(), last_ddl: "none".into(), reopened_since_ddl: false, schema_ever: false, total_inserts: 0, blame_add_column: false, blame_pk_rename: false, blame_recreated: false, dead: false, fresh_col: 0, fresh_idx: 0 }
}

const FOCUS: &[(&str, &str)] = &[
    ("add_column", "plain"), ("add_column", "default"), ("drop_column", "last"), ("drop_column", "middle"), ("drop_column", "pk"), ("drop_column", "indexed"),
    ("rename_column", "plain"), ("rename_column", "indexed"), ("rename_column", "pk"), ("truncate", "plain"), ("truncate", "indexed"), ("drop_table", "plain"), ("drop_table", "recreate"),
    ("create_index", "plain"), ("create_index", "unique"), ("drop_index", "plain"), ("drop_index", "recreate"), ("schema", "create-drop"), ("schema", "table-in-schema"),
];

/// systematic mini-history: table with 4 rows, the operation, DML that exercises the new schema,
/// reopen, more DML, reopen; verification after every step
fn run_focus(ctx: &Ctx, model: &mut Model, rep: &mut Report, op: &str, variant: &str) {
    let seed = fnv(&format!("c21-focus-{op}-{variant}"));
    let mut rng = Rng::new(seed);
    let mut w = new_world(ctx, model, &format!("f{seed}"), format!("focus {op} {variant}"));
    rep.count("history_focus");
    macro_rules! chk { ($w:expr) => { $w.verify(rep, false); if $w.dead { return; } } }
    if op == "schema" {
        w.create_schema(rep, "sx"); chk!(w);
        if variant == "table-in-schema" {
            w.create_table(rep, &mut rng, "sx.u", true, 2); chk!(w);
            for _ in 0..3 { w.insert(rep, &mut rng, 0, false); chk!(w); }
            w.reopen(rep); if w.dead { return; }
            w.insert(rep, &mut rng, 0, false); chk!(w);
        }
        w.reopen(rep); if w.dead { return; }
        w.drop_schema(rep, "sx"); chk!(w);
        w.reopen(rep);
        return;
    }
    w.create_table(rep, &mut rng, "t", true, 3); chk!(w);
    if variant == "indexed" || op == "drop_index" { w.create_index(rep, &mut rng, 0, false); chk!(w); }
    for _ in 0..4 { w.insert(rep, &mut rng, 0, false); chk!(w); }
    match (op, variant) {
        ("add_column", v) => { w.add_column(rep, &mut rng, 0, v == "default"); }
        ("drop_column", "last") => { let n = w.tabs[0].cols.len(); w.drop_column(rep, 0, n - 1); }
        ("drop_column", "middle") => { w.drop_column(rep, 0, 1); }
        ("drop_column", "pk") => { w.drop_column(rep, 0, 0); }
        ("drop_column", _) => {
            let cname = w.tabs[0].indexes.first().map(|(_, cs)| cs[0].clone()).unwrap_or_default();
            let ci = w.tabs[0].cols.iter().position(|c| c.name == cname).unwrap_or(1);
            w.drop_column(rep, 0, ci);
        }
        ("rename_column", "indexed") => {
            let cname = w.tabs[0].indexes.first().map(|(_, cs)| cs[0].clone()).unwrap_or_default();
            let ci = w.tabs[0].cols.iter().position(|c| c.name == cname).unwrap_or(1);
            w.rename_column(rep, 0, ci);
        }
        ("rename_column", "pk") => { w.rename_column(rep, 0, 0); }
        ("rename_column", _) => { w.rename_column(rep, 0, 2); }
        ("truncate", _) => { w.truncate(rep, 0); }
        ("drop_table", v) => {
            w.drop_table(rep, 0); chk!(w);
            if v == "recreate" { w.create_table(rep, &mut rng, "t", true, 2); }
        }
        ("create_index", v) => { w.create_index(rep, &mut rng, 0, v == "unique"); }
        ("drop_index", v) => { w.drop_index(rep, 0); if v == "recreate" { chk!(w); w.create_index_again(rep); } }
        _ => {}
    }
    chk!(w);
    if !w.tabs.is_empty() {
        w.insert(rep, &mut rng, 0, false); chk!(w);
        w.insert(rep, &mut rng, 0, true); chk!(w);
        w.insert_dup(rep, &mut rng, 0); chk!(w);
        w.update(rep, &mut rng, 0); chk!(w);
    }
    w.reopen(rep); if w.dead { return; }
    if !w.tabs.is_empty() {
        w.insert(rep, &mut rng, 0, true); chk!(w);
        w.insert_dup(rep, &mut rng, 0); chk!(w);
        w.delete(rep, &mut rng, 0); chk!(w);
        w.update(rep, &mut rng, 0); chk!(w);
    }
    w.reopen(rep);
}

fn run_history(ctx: &Ctx, model: &mut Model, rep: &mut Report, seed: u64, steps: usize) {
    let mut rng = Rng::new(seed);
    let mut w = new_world(ctx, model, &format!("{seed}"), format!("hist {seed}"));
    rep.count("history_random");
    let names = ["t0", "t1", "t2", "sx.u0"];
    w.create_table(rep, &mut rng, "t0", true, 3);
    w.verify(rep, false);
    for _ in 0..steps {
        if w.dead { return; }
        let nt = w.tabs.len();
        let ti = if nt > 0 { rng.below(nt as u64) as usize } else { 0 };
        let r = rng.below(100);
        if nt == 0 || r < 6 {
            let name = *rng.pick(&names);
            if w.tabs.iter().any(|t| t.name == name) { continue; }
            if name.starts_with("sx.") && !w.schemas.contains(&"sx".to_string()) { w.create_schema(rep, "sx"); w.verify(rep, false); if w.dead { return; } }
            let pk = rng.chance(3, 4);
            let n = 1 + rng.below(4) as usize;
            w.create_table(rep, &mut rng, name, pk, n);
        } else if r < 33 { let sub = rng.chance(1, 3); w.insert(rep, &mut rng, ti, sub); }
        else if r < 36 { w.insert_dup(rep, &mut rng, ti); }
        else if r < 44 { w.update(rep, &mut rng, ti); }
        else if r < 50 { w.delete(rep, &mut rng, ti); }
        else if r < 60 { let d = rng.chance(1, 2); w.add_column(rep, &mut rng, ti, d); }
        else if r < 68 { let n = w.tabs[ti].cols.len(); let ci = rng.below(n as u64) as usize; w.drop_column(rep, ti, ci); }
        else if r < 75 { let n = w.tabs[ti].cols.len(); let ci = rng.below(n as u64) as usize; w.rename_column(rep, ti, ci); }
        else if r < 78 { w.truncate(rep, ti); }
        else if r < 81 { w.drop_table(rep, ti); }
        else if r < 86 { let u = rng.chance(1, 4); w.create_index(rep, &mut rng, ti, u); }
        else if r < 88 { w.drop_index(rep, ti); }
        else if r < 89 { w.create_index_again(rep); }
        else if r < 90 { if w.schemas.contains(&"sx".to_string()) { w.drop_schema(rep, "sx"); } }
        else { w.reopen(rep); continue; }
        w.verify(rep, false);
    }
    w.reopen(rep);
}

/// ALTER TABLE .. DROP COLUMN / ADD COLUMN on a table of more than 10 000 rows (the row migration works
/// in batches): afterwards, and after a reopen, every row must still be readable with the remaining
/// values.  Engine-only oracle (expected rows computed here).
fn big_table_alter_scenario(ctx: &Ctx, rep: &mut Report) {
    use crate::sqlgen::{Dbh, Out};
    let case = "big table (10 050 rows): DROP COLUMN middle, verify, reopen, verify".to_string();
    rep.case(Some(&case));
    rep.count("big_table_alter_scenarios");
    let mut db = Dbh::create(ctx, "c21-big");
    if matches!(db.exec("CREATE TABLE t (id BIGINT PRIMARY KEY, a BIGINT, b TEXT, c BIGINT)"), Out::Err(_) | Out::Panic(_)) { return; }
    let n = 10_050i64;
    for chunk in (1..=n).collect::<Vec<_>>().chunks(500) {
        let rows: Vec<String> = chunk.iter().map(|i| format!("({i}, {}, 'v{i}', {})", i * 2, i % 97)).collect();
        if matches!(db.exec(&format!("INSERT INTO t VALUES {}", rows.join(", "))), Out::Err(_) | Out::Panic(_)) { rep.count("big_table_alter_setup_failed"); return; }
    }
    let verify = |db: &Dbh, when: &str, rep: &mut Report| -> bool {
        match db.exec("SELECT * FROM t") {
            Out::Rows(rows) => {
                let mut got: Vec<(i64, String, i64)> = rows.iter().filter_map(|r| Some((r.get(0)?.strip_prefix('I')?.parse().ok()?, r.get(1)?.clone(), r.get(2)?.strip_prefix('I')?.parse().ok()?))).collect();
                got.sort();
                let bad = got.len() != n as usize || got.iter().enumerate().any(|(k, (id, _b, c))| *id != k as i64 + 1 || *c != (k as i64 + 1) % 97);
                if bad {
                    rep.oracle_fail(case.clone(), format!("{when}: SELECT * returns {} well-formed rows of {} (first ids {:?})", got.len(), n, got.iter().take(3).map(|x| x.0).collect::<Vec<_>>()), format!("ddl:drop_column_middle:big-table:{}:rows", if when.contains("reopen") { "yes" } else { "no" }));
                }
                !bad
            }
            o => { rep.oracle_fail(case.clone(), format!("{when}: SELECT * FROM t fails: {}", match o { Out::Err(e) => e, Out::Panic(p) => format!("panic {p}"), _ => "?".into() }.chars().take(200).collect::<String>()), format!("ddl:drop_column_middle:big-table:{}:select-error", if when.contains("reopen") { "yes" } else { "no" })); false }
        }
    };
    match db.exec("ALTER TABLE t DROP COLUMN a") {
        Out::Err(e) => { rep.oracle_fail(case.clone(), format!("ALTER TABLE t DROP COLUMN a on 10 050 rows: {e}"), "ddl:drop_column_middle:big-table:no:outcome-err".into()); return; }
        Out::Panic(p) => { rep.oracle_fail(case.clone(), format!("ALTER TABLE t DROP COLUMN a on 10 050 rows: panic {p}"), "ddl:drop_column_middle:big-table:no:outcome-panic".into()); return; }
        _ => {}
    }
    if !verify(&db, "after DROP COLUMN", rep) { return; }
    if let Err(e) = db.reopen() { rep.oracle_fail(case.clone(), format!("reopen: {e}"), "ddl:drop_column_middle:big-table:yes:reopen-failed".into()); return; }
    verify(&db, "after DROP COLUMN and reopen", rep);
}

pub fn run(ctx: &Ctx) -> Report {
    let mut rep = Report::new(
        "sql_ddl",
        "histories interleaving CREATE/DROP TABLE (incl. a table inside a created schema), CREATE/DROP [UNIQUE] INDEX, CREATE/DROP SCHEMA, TRUNCATE, \
         ALTER TABLE ADD COLUMN (with / without DEFAULT) / DROP COLUMN (last, middle, PRIMARY KEY, indexed) / RENAME COLUMN with INSERT (full row and \
         column-list subsets that use defaults), UPDATE, DELETE and close+reopen at random points; after every step every table's column names \
         (SELECT * header) and full dump are compared with the Lean relational model, dropped tables must be unreadable; a systematic layer runs one \
         mini-history per operation and variant (operation, DML on the new schema, reopen, more DML, reopen). A history stops at its first difference. Big-table scenario: DROP COLUMN on 10 050 rows (more than one migration batch), rows verified before and after a reopen. \
         evaluations = table verifications",
    );
    let mut model = Model::spawn(&ctx.model_bin, "sqlidx");
    for line in ctx.corpus_cases("C21") {
        let f: Vec<&str> = line.split_whitespace().collect();
        if f.len() >= 3 && f[0] == "focus" { if let Some((o, v)) = FOCUS.iter().find(|(o, v)| *o == f[1] && *v == f[2]) { run_focus(ctx, &mut model, &mut rep, o, v); } }
        else if f.len() >= 2 && f[0] == "probe" {
            // development aid: `probe <letters>`: c create, i insert, s insert with column list, d delete, u update, r reopen, a add column, x create index
            let mut rng = Rng::new(7);
            let mut w = new_world(ctx, &mut model, "probe", line.clone());
            for ch in f[1].chars() {
                match ch {
                    'c' => w.create_table(&mut rep, &mut rng, "t", true, 2),
                    'i' => w.insert(&mut rep, &mut rng, 0, false),
                    's' => w.insert(&mut rep, &mut rng, 0, true),
                    'd' => w.delete(&mut rep, &mut rng, 0),
                    'u' => w.update(&mut rep, &mut rng, 0),
                    'a' => w.add_column(&mut rep, &mut rng, 0, false),
                    'x' => w.create_index(&mut rep, &mut rng, 0, false),
                    'r' => { w.reopen(&mut rep); continue; }
                    _ => {}
                }
                w.verify(&mut rep, false);
                if w.dead { break; }
            }
        }
        else if f.len() >= 2 && f[0] == "hist" { if let Ok(seed) = f[1].parse::<u64>() { run_history(ctx, &mut model, &mut rep, seed, 30); } }
    }
    for (o, v) in FOCUS { run_focus(ctx, &mut model, &mut rep, o, v); }
    big_table_alter_scenario(ctx, &mut rep);
    let mut rng = Rng::new(ctx.seed);
    let n = if ctx.thorough { 400 } else { 40 };
    for _ in 0..n { let seed = rng.next() >> 1; run_history(ctx, &mut model, &mut rep, seed, 30); }
    rep.notes.push(format!("model requests: {}", model.requests));
    rep
}
