//! C07: ROLLBACK / ROLLBACK TO SAVEPOINT / drop of a handle with an open transaction restore the
//! earlier observable state.
//!
//! Each case = schema variant + initial rows + a statement history.  The history runs on the real
//! engine, on the Lean spec `sqldb` (snapshot stack; says which rows must be there after every
//! rollback point and what every DML statement returns) and -- inside its domain -- on the Lean
//! M-code model `undo` (write-entry log, savepoints as log indices, reverse replay, header
//! row_count, unique-column index), whose physical state is compared with the engine's after every
//! statement through the `verif_table_state` / `verif_index_entries` hooks.
//!
//! Property oracle (on the implementation): at every rollback point the observable state
//! (full dump, COUNT(*), `WHERE col = v` through every index for every present and absent value)
//! must equal the observation taken when the transaction / savepoint started, the dump must equal
//! the spec's snapshot, and later inserts must get the uniqueness outcome the spec gives.
//! Signature: `rollback:<scope>:<undone op kinds>:<what differs>:<pk type>:<split|nosplit>`.
use crate::common::*;
use crate::engines::sqlgen_txn::*;
use std::collections::BTreeSet;
use turdb::{Database, OwnedValue};

const IDMAX: i64 = 6;
/// the pinned engine's leaf search misbehaves once a leaf holds 8 entries with equal 4-byte key
/// prefixes (a C28/C30 matter: uniqueness checks, point lookups and B-tree deletes go wrong without
/// any transaction involved), so single-leaf cases keep every B-tree below 8 entries
const MAX_ENTRIES: usize = 7;
const KIND_ORDER: [&str; 6] = ["insert", "delete", "upd-plain", "upd-idx", "upd-uniq", "upd-pk"];

#[derive(Clone, Debug)]
pub struct Case {
    pub sc: Schema,
    pub clone: bool,
    pub init: Vec<(i64, Option<i64>, i64, i64)>,
    pub ops: Vec<TStmt>,
    /// engine-discipline layer: engine + M-code undo model only (no SQL-standard spec)
    pub disc: bool,
}

impl Case {
    pub fn show(&self) -> String {
        let ov = |v: &Option<i64>| v.map(|x| x.to_string()).unwrap_or("n".into());
        format!("{}{} clone={} init={} ops={}", if self.disc { "layer=disc " } else { "" }, self.sc.tag(), self.clone as u8,
            if self.init.is_empty() { "-".to_string() } else { self.init.iter().map(|(i, u, a, b)| format!("{}:{}:{}:{}", i, ov(u), a, b)).collect::<Vec<_>>().join(",") },
            if self.ops.is_empty() { "-".to_string() } else { show_ops(&self.ops) })
    }
    pub fn parse(line: &str) -> Option<Case> {
        let mut sc = Schema { pk: Pk::Int, uniq: false, idx_a: false, split: false };
        let mut clone = false;
        let mut disc = false;
        let mut init = vec![];
        let mut ops = vec![];
        for f in line.split_whitespace() {
            let (k, v) = f.split_once('=')?;
            match k {
                "pk" => sc.pk = Pk::parse(v)?,
                "uniq" => sc.uniq = v == "1",
                "idxa" => sc.idx_a = v == "1",
                "split" => sc.split = v == "1",
                "clone" => clone = v == "1",
                "layer" => disc = v == "disc",
                "init" => {
                    if v != "-" {
                        for r in v.split(',') {
                            let p: Vec<&str> = r.split(':').collect();
                            if p.len() != 4 { return None; }
                            init.push((p[0].parse().ok()?, if p[1] == "n" { None } else { Some(p[1].parse().ok()?) }, p[2].parse().ok()?, p[3].parse().ok()?));
                        }
                    }
                }
                "ops" => ops = parse_ops(v)?,
                _ => return None,
            }
        }
        Some(Case { sc, clone, init, ops, disc })
    }
}

#[derive(Clone, Debug, PartialEq)]
struct Obs {
    rows: Res,
    count: Res,
    lookups: Vec<((usize, i64), Res)>,
}

fn lookup_cols(sc: &Schema) -> Vec<usize> {
    let mut v = vec![];
    if sc.pk != Pk::None { v.push(0); }
    if sc.uniq { v.push(1); }
    if sc.idx_a { v.push(2); }
    v
}

fn lookup_domain(col: usize) -> Vec<i64> {
    match col { 0 | 1 => (1..=IDMAX + 1).collect(), _ => (0..=3).collect() }
}

fn observe(db: &Database, sc: &Schema) -> Obs {
    let rows = exec_on(db, "SELECT id, u, a, b, c FROM t");
    let count = exec_on(db, "SELECT COUNT(*) FROM t");
    let mut lookups = vec![];
    for col in lookup_cols(sc) {
        for v in lookup_domain(col) {
            let sql = format!("SELECT id, u, a, b, c FROM t WHERE {} = {}", COLS[col], sc.val(col, Some(v)).sql());
            lookups.push(((col, v), exec_on(db, &sql)));
        }
    }
    Obs { rows, count, lookups }
}

#[derive(Clone, Debug)]
struct OpInfo {
    kind: &'static str,
    ids: BTreeSet<i64>,
    vals: BTreeSet<(usize, i64)>,
    scope: String,
}

struct Frame {
    name: String,
    obs: Obs,
    nlive: usize,
}

fn kinds_of<'a>(ops: impl Iterator<Item = &'a OpInfo>) -> String {
    let set: BTreeSet<&str> = ops.map(|o| o.kind).collect();
    let v: Vec<&str> = KIND_ORDER.iter().copied().filter(|k| set.contains(k)).collect();
    if v.is_empty() { "none".into() } else { v.join("+") }
}

fn short(r: &Res) -> String {
    match r {
        Res::Rows(v) => {
            let s = v.iter().map(|x| { let p: Vec<&str> = x.split(',').collect(); p[..p.len().min(4)].join(",") }).collect::<Vec<_>>().join(";");
            if s.len() > 300 { format!("{} rows: {}…", v.len(), &s[..300]) } else { format!("[{s}]") }
        }
        o => o.short(),
    }
}

/// dictionary encoded index key -> printed cell, for the domain of generated values
struct KeyDict(std::collections::HashMap<Vec<u8>, String>);
impl KeyDict {
    fn new() -> KeyDict {
        let mut m = std::collections::HashMap::new();
        for n in 0..1300i64 {
            let mut b = Vec::new();
            Database::verif_encode_value_as_key(&OwnedValue::Int(n), &mut b);
            m.insert(b, format!("i{n}"));
            let mut b = Vec::new();
            Database::verif_encode_value_as_key(&OwnedValue::Text(format!("k{n:04}")), &mut b);
            m.insert(b, format!("t{n}"));
        }
        KeyDict(m)
    }
    fn show(&self, k: &[u8]) -> String { self.0.get(k).cloned().unwrap_or_else(|| format!("?{}", hex(k))) }
}

fn ucell_of(v: &OwnedValue) -> String {
    match v {
        OwnedValue::Null => "n".into(),
        OwnedValue::Int(i) => format!("i{i}"),
        OwnedValue::Text(s) => {
            if let Some(n) = s.strip_prefix('k').and_then(|x| x.parse::<i64>().ok()) { format!("t{n}") } else { format!("t{}", 1000 + s.len()) }
        }
        o => format!("?{o:?}").replace([' ', ',', ';'], "_"),
    }
}

/// (count, rows, idx) of the engine's physical state in the undo driver's `state` format
fn hook_state(db: &Database, sc: &Schema, dict: &KeyDict) -> Result<(String, String, String, u32), String> {
    let r = guarded(std::panic::AssertUnwindSafe(|| db.verif_table_state("t")));
    let (root, count, entries) = match r { Ok(Ok(x)) => x, Ok(Err(e)) => return Err(format!("hook error {e:#}")), Err(p) => return Err(format!("hook panic {p}")) };
    let rows: Vec<String> = entries.iter().map(|(_k, fl, _txn, row)| format!("{}:{}", fl & 3, row.iter().map(ucell_of).collect::<Vec<_>>().join(","))).collect();
    let mut idx = vec![];
    let mut cols = vec![];
    if sc.pk != Pk::None { cols.push((0, "id_pkey")); }
    if sc.uniq { cols.push((1, "u_key")); }
    for (c, name) in cols {
        let r = guarded(std::panic::AssertUnwindSafe(|| db.verif_index_entries("t", name)));
        let es = match r { Ok(Ok(x)) => x, Ok(Err(e)) => return Err(format!("index hook error {e:#}")), Err(p) => return Err(format!("index hook panic {p}")) };
        let mut items: Vec<String> = es.iter().map(|(k, v)| {
            let rid = if v.len() == 8 { u64::from_be_bytes(v[..8].try_into().unwrap()).to_string() } else { format!("?{}", hex(v)) };
            format!("{}>{}", dict.show(k), rid)
        }).collect();
        items.sort();
        idx.push(format!("{}={}", c, if items.is_empty() { "-".to_string() } else { items.join(",") }));
    }
    Ok((count.to_string(), if rows.is_empty() { "-".into() } else { rows.join(";") }, if idx.is_empty() { "-".into() } else { idx.join(" ") }, root))
}

/// split the undo driver's `state` line into (count, rows, idx)
fn parse_model_state(s: &str) -> Option<(String, String, String)> {
    let r = s.strip_prefix("count ")?;
    let (count, r) = r.split_once(" txn ")?;
    let (_txn, r) = r.split_once(" rows ")?;
    let (rows, idx) = r.split_once(" idx ")?;
    Some((count.to_string(), rows.to_string(), idx.to_string()))
}

struct Runner<'a> {
    t_create: f64,
    t_setup: f64,
    t_ops: f64,
    t_close: f64,
    ctx: &'a Ctx,
    spec: Model,
    undo: Model,
    dict: KeyDict,
    seq: u64,
}

enum Ctl { Continue, Stop }

struct Run<'c> {
    case: &'c Case,
    main: Option<Database>,
    work: Option<Database>,
    dir: String,
    stack: Vec<Frame>,
    live: Vec<OpInfo>,
    undone_log: Vec<OpInfo>,
    last_scope: String,
    points: u32,
    nontrivial: bool,
    undo_on: bool,
    failed: bool,
    root_moved: bool,
    dup_seen: bool,
    outer_release: bool,
    ins_total: usize,
    /// the last comparison failed only in COUNT(*) / index lookups (rows were right)
    soft: bool,
}

impl<'c> Run<'c> {
    fn w(&self) -> &Database { self.work.as_ref().or(self.main.as_ref()).unwrap() }
    fn m(&self) -> &Database { self.main.as_ref().unwrap() }
    fn sig(&self, scope: &str, kinds: &str, what: &str) -> String {
        if scope.starts_with("savepoint") {
            // the engine resolves savepoint names differently from the spec (first vs most recent
            // savepoint of a name; RELEASE keeps later savepoints): one signature per discipline rule
            if self.dup_seen { return "savepoint-discipline:dup-name".into(); }
            if self.outer_release { return "savepoint-discipline:release-outer".into(); }
        }
        format!("rollback:{}:{}:{}:{}:{}", scope, kinds, what, self.case.sc.pk.tag(), if self.root_moved { "split" } else { "nosplit" })
    }
}

impl<'a> Runner<'a> {
    /// compare the undo model's state with the engine's physical state
    fn check_undo_state(&mut self, run: &mut Run, rep: &mut Report, at: &str) {
        if !run.undo_on { return; }
        let ms = self.undo.ask("state");
        let Some((mc, mr, mi)) = parse_model_state(&ms) else {
            rep.disagree(run.case.show(), format!("unparsable model state {ms}"), "undo-state".into());
            run.undo_on = false;
            return;
        };
        match hook_state(run.m(), &run.case.sc, &self.dict) {
            Err(e) => { rep.disagree(run.case.show(), format!("after {at}: {e}"), "undo-hook".into()); run.undo_on = false; }
            Ok((ec, er, ei, root)) => {
                if root != 1 { run.root_moved = true; }
                if mc != ec || mr != er || mi != ei {
                    let what = if mr != er { "rows" } else if mc != ec { "count" } else { "index" };
                    rep.disagree(run.case.show(), format!("after {at}: undo model state differs in {what}: model count={mc} rows={mr} idx={mi} | engine count={ec} rows={er} idx={ei}"), format!("undo-state:{what}"));
                    run.undo_on = false;
                } else {
                    rep.count("undo_state_agree");
                }
            }
        }
    }

    fn undo_stmt(&mut self, run: &mut Run, rep: &mut Report, st: &TStmt, eres: &Res) {
        if !run.undo_on { return; }
        let Some(line) = st.undo_line(&run.case.sc) else { run.undo_on = false; rep.count("undo_model_out_of_domain"); return; };
        let resp = self.undo.ask(&line);
        let mres = if let Some(n) = resp.strip_prefix("aff ") { Res::Affected(n.parse().unwrap_or(usize::MAX)) }
            else if resp == "ok" { Res::Ok }
            else if resp == "err constraint" { Res::Err("constraint".into()) }
            else if resp == "err" { Res::Err("txn".into()) }
            else { Res::Err(format!("model:{resp}")) };
        let agree = match (&mres, eres) {
            (Res::Affected(a), Res::Affected(b)) => a == b,
            (Res::Ok, Res::Ok) => true,
            (Res::Err(a), Res::Err(b)) => a == b || (a == "txn" && (b == "no-txn" || b == "in-txn" || b == "no-savepoint")),
            _ => false,
        };
        if !agree {
            rep.disagree(run.case.show(), format!("statement {}: undo model says {resp}, engine {}", st.show(), eres.short()), "undo-result".into());
            run.undo_on = false;
            return;
        }
        self.check_undo_state(run, rep, &st.show());
    }

    /// compare at a rollback point; returns true when everything agrees
    fn compare(&mut self, run: &mut Run, rep: &mut Report, scope: &str, expected: &Obs, undone: &[OpInfo], via_main: bool) -> bool {
        run.points += 1;
        if !undone.is_empty() { run.nontrivial = true; }
        run.last_scope = scope.to_string();
        for o in undone { let mut o = o.clone(); o.scope = scope.to_string(); run.undone_log.push(o); }
        let actual = observe(if via_main { run.m() } else { run.w() }, &run.case.sc);
        let spec_dump = self.spec.ask("dump t");
        let spec_rows = model_rows(&spec_dump).map(Res::Rows).unwrap_or(Res::Err(format!("model:{spec_dump}")));
        let mut ok = true;
        let all_kinds = kinds_of(undone.iter());
        rep.count(&format!("point:{scope}:{all_kinds}"));
        // rows against the spec snapshot
        if actual.rows != spec_rows {
            ok = false;
            let what = match &actual.rows { Res::Rows(_) => "rows", Res::Panic(_) => "obs-panic", _ => "obs-error" };
            let kinds = match (&actual.rows, &spec_rows) {
                (Res::Rows(a), Res::Rows(e)) => {
                    let sa: BTreeSet<&String> = a.iter().collect();
                    let se: BTreeSet<&String> = e.iter().collect();
                    let ids: BTreeSet<i64> = sa.symmetric_difference(&se).filter_map(|r| row_id(r)).collect();
                    let k = kinds_of(undone.iter().filter(|o| o.ids.iter().any(|i| ids.contains(i))));
                    if k == "none" { all_kinds.clone() } else { k }
                }
                _ => all_kinds.clone(),
            };
            rep.oracle_fail(run.case.show(), format!("after {scope} rollback: rows expected (spec snapshot) {} got {}", short(&spec_rows), short(&actual.rows)), run.sig(scope, &kinds, what));
        } else if expected.rows != spec_rows {
            // the engine already differed from the spec when the snapshot was taken: not a rollback matter
            rep.count("abandon:snapshot-differs-from-spec");
            run.failed = true;
            return false;
        }
        if actual.count != expected.count {
            ok = false;
            rep.oracle_fail(run.case.show(), format!("after {scope} rollback: COUNT(*) expected {} got {} (dump has {} rows)", short(&expected.count), short(&actual.count),
                match &actual.rows { Res::Rows(r) => r.len().to_string(), _ => "?".into() }), run.sig(scope, &all_kinds, "count"));
        }
        if actual.rows == spec_rows {
            let mut seen = BTreeSet::new();
            for (i, ((col, v), exp)) in expected.lookups.iter().enumerate() {
                let got = &actual.lookups[i].1;
                if exp != got {
                    ok = false;
                    let mut ids: BTreeSet<i64> = BTreeSet::new();
                    for r in [exp, got] { if let Res::Rows(rs) = r { for x in rs { if let Some(i) = row_id(x) { ids.insert(i); } } } }
                    let k = kinds_of(undone.iter().filter(|o| o.vals.contains(&(*col, *v)) || o.ids.iter().any(|i| ids.contains(i))));
                    let k = if k == "none" { all_kinds.clone() } else { k };
                    let sig = run.sig(scope, &k, &format!("index-lookup-{}", COLS[*col]));
                    if seen.insert(sig.clone()) {
                        rep.oracle_fail(run.case.show(), format!("after {scope} rollback: WHERE {} = {} expected {} got {}", COLS[*col], v, short(exp), short(got)), sig);
                    }
                }
            }
        }
        if !ok { run.failed = true; run.soft = actual.rows == spec_rows; }
        ok
    }

    fn dml(&mut self, run: &mut Run, rep: &mut Report, st: &TStmt, probe: bool) -> Ctl {
        let sc = &run.case.sc;
        let before = model_rows(&self.spec.ask("dump t")).unwrap_or_default();
        let mresp = self.spec.ask(&format!("stmt {}", st.sx(sc).unwrap()));
        let eres = exec_on(run.w(), &st.sql(sc));
        let (mres, affected_rows): (Res, Vec<String>) = if mresp.starts_with("affected ") {
            let rows = model_rows(&mresp).unwrap_or_default();
            let n: usize = mresp.split(' ').nth(1).and_then(|x| x.parse().ok()).unwrap_or(0);
            (Res::Affected(n), rows)
        } else if mresp == "err constraint" { (Res::Err("constraint".into()), vec![]) } else { (Res::Err(format!("model:{mresp}")), vec![]) };
        rep.count(&format!("dml:{}:{}", match st { TStmt::Insert { .. } => "insert", TStmt::Update { .. } => "update", _ => "delete" }, mres.short()));
        if matches!(st, TStmt::Insert { .. }) && matches!(eres, Res::Affected(1)) { run.ins_total += 1; }
        if eres != mres && !sc.split && run.ins_total > MAX_ENTRIES {
            rep.count("abandon:leaf-has-8-entries");
            run.failed = true;
            return Ctl::Stop;
        }
        if eres != mres {
            // uniqueness outcome of an insert after a rollback point is part of the property
            let is_uniq = matches!(st, TStmt::Insert { .. }) && matches!((&eres, &mres), (Res::Err(e), Res::Affected(1)) if e == "constraint")
                || matches!(st, TStmt::Insert { .. }) && matches!((&eres, &mres), (Res::Affected(1), Res::Err(m)) if m == "constraint");
            if is_uniq && run.points > 0 {
                if let TStmt::Insert { id, u, .. } = st {
                    let rel: Vec<&OpInfo> = run.undone_log.iter().filter(|o| o.ids.contains(id) || u.map(|x| o.vals.contains(&(1, x))).unwrap_or(false) || o.vals.contains(&(0, *id))).collect();
                    if rel.is_empty() {
                        // no undone statement touched this key: the index was already wrong for another
                        // reason (e.g. a committed UPDATE of a TEXT key never gets an index entry)
                        rep.count("abandon:unique-outcome-not-attributable-to-a-rollback");
                        run.failed = true; run.soft = false;
                        return Ctl::Stop;
                    }
                    let (scope, kinds) = (rel.last().unwrap().scope.clone(), kinds_of(rel.iter().copied()));
                    rep.oracle_fail(run.case.show(), format!("insert {} after rollback: spec says {}, engine says {}", st.show(), mres.short(), eres.short()),
                        run.sig(&scope, &kinds, if matches!(eres, Res::Affected(_)) { "unique-check-missed" } else { "unique-check-spurious" }));
                    run.failed = true;
                    return Ctl::Stop;
                }
            }
            rep.count(&format!("abandon:dml-outcome:{}:engine-{}:spec-{}", st.show().chars().next().unwrap(), eres.short(), mres.short()));
            run.failed = true;
            return Ctl::Stop;
        }
        if !probe {
            self.undo_stmt(run, rep, st, &eres);
        }
        if !run.stack.is_empty() {
            if let Res::Affected(n) = mres {
                if n > 0 {
                    let mut ids = BTreeSet::new();
                    let mut vals = BTreeSet::new();
                    for r in &affected_rows { if let Some(i) = row_id(r) { ids.insert(i); } }
                    let olds: Vec<&String> = before.iter().filter(|r| row_id(r).map(|i| ids.contains(&i)).unwrap_or(false)).collect();
                    for r in affected_rows.iter().chain(olds.iter().copied()) {
                        for c in 0..3 { if let Some(v) = row_int(r, c) { vals.insert((c, v)); } }
                        if let Some(i) = row_id(r) { ids.insert(i); }
                    }
                    let kind = match st { TStmt::Insert { .. } => "insert", TStmt::Delete { .. } => "delete", TStmt::Update { scol, .. } => sc.upd_kind(*scol), _ => "none" };
                    run.live.push(OpInfo { kind, ids, vals, scope: String::new() });
                }
            }
        }
        Ctl::Continue
    }

    /// transaction-control statement on spec + engine + undo model; returns (spec ok, engine result)
    fn control(&mut self, run: &mut Run, rep: &mut Report, st: &TStmt) -> (bool, Res) {
        let mresp = self.spec.ask(&format!("stmt {}", st.sx(&run.case.sc).unwrap()));
        let eres = exec_on(run.w(), &st.sql(&run.case.sc));
        rep.count(&format!("ctl:{}:{}", st.show().chars().next().unwrap(), if mresp == "done" { "ok" } else { "err" }));
        (mresp == "done", eres)
    }

    /// Engine-discipline layer.  The SQL-standard spec and the engine resolve savepoint names
    /// differently (known findings dup-name / release-outer), which ends a spec-driven case at the
    /// first such statement.  Here the history runs on the engine and on the M-code `undo` model only
    /// (statement outcome + physical state after every statement), and the property oracle follows
    /// the savepoints the ENGINE's own rules keep alive: RELEASE n removes one savepoint named n,
    /// ROLLBACK TO n keeps n and destroys the savepoints created after it.  A savepoint that was
    /// created and neither released nor destroyed must be accepted by ROLLBACK TO, and the state
    /// afterwards must be the observation taken when that savepoint was created (with two live
    /// savepoints of one name either of them is accepted).
    fn run_discipline_case(&mut self, rep: &mut Report, case: &Case, layer: &str) {
        self.seq += 1;
        let sc = &case.sc;
        let dir = format!("{}/txnd-{}-{}", self.ctx.scratch, std::process::id(), self.seq);
        let _ = std::fs::remove_dir_all(&dir);
        let d2 = dir.clone();
        let db = match guarded(move || Database::create(&d2)) { Ok(Ok(db)) => db, _ => { rep.count("abandon:create-failed"); return; } };
        let mut run = Run { case, main: Some(db), work: None, dir: dir.clone(), stack: vec![], live: vec![], undone_log: vec![], last_scope: "txn".into(),
            points: 0, nontrivial: false, undo_on: true, failed: false, root_moved: false, dup_seen: false, outer_release: false, ins_total: 0, soft: false };
        self.undo.ask(&sc.undo_reset());
        let mut ok = true;
        for s in sc.create_sqls() { if !matches!(exec_on(run.m(), &s), Res::Ok) { ok = false; } }
        for (id, u, a, b) in &case.init {
            let st = TStmt::Insert { id: *id, u: *u, a: *a, b: *b };
            if exec_on(run.m(), &st.sql(sc)) != Res::Affected(1) { ok = false; break; }
            match st.undo_line(sc) { Some(l) => { self.undo.ask(&l); } None => ok = false }
        }
        if !ok { rep.count("abandon:setup-failed"); drop(run); let _ = std::fs::remove_dir_all(&dir); return; }
        self.check_undo_state(&mut run, rep, "setup");
        let mut in_txn = false;
        let mut begin_obs: Option<Obs> = None;
        let mut frames: Vec<(String, Obs, usize)> = vec![];   // (name, observation at creation, serial)
        let mut serial = 0usize;
        let mut changes = 0usize;     // successful DML statements since BEGIN
        let mut at_frame: Vec<usize> = vec![];
        let fail = |rep: &mut Report, what: &str, detail: String| {
            rep.oracle_fail(case.show(), detail, format!("savepoint-engine-discipline:{what}"));
        };
        let diff = |exp: &Obs, act: &Obs| -> Option<&'static str> {
            if exp.rows != act.rows { Some("rows") } else if exp.count != act.count { Some("count") } else if exp.lookups != act.lookups { Some("index-lookup") } else { None }
        };
        for st in &case.ops {
            if run.failed { break; }
            let eres = exec_on(run.m(), &st.sql(sc));
            rep.count(&format!("disc:{}:{}", st.show().chars().next().unwrap(), if matches!(eres, Res::Err(_) | Res::Panic(_)) { "err" } else { "ok" }));
            let e_ok = !matches!(eres, Res::Err(_) | Res::Panic(_));
            match st {
                TStmt::Begin => { if e_ok && !in_txn { in_txn = true; frames.clear(); at_frame.clear(); changes = 0; begin_obs = None; } }
                TStmt::Commit => { if e_ok { in_txn = false; frames.clear(); } }
                TStmt::Insert { .. } | TStmt::Update { .. } | TStmt::Delete { .. } => { if let Res::Affected(n) = eres { if n > 0 { changes += 1; } } }
                _ => {}
            }
            // BEGIN's observation is taken right after it (nothing has changed yet)
            if matches!(st, TStmt::Begin) && e_ok && begin_obs.is_none() { begin_obs = Some(observe(run.m(), sc)); }
            self.undo_stmt(&mut run, rep, st, &eres);
            match st {
                TStmt::Savepoint(n) => {
                    if in_txn != e_ok { fail(rep, "savepoint-outcome", format!("SAVEPOINT {n} inside a transaction={in_txn}: engine {}", eres.short())); run.failed = true; }
                    else if e_ok { serial += 1; frames.push((n.clone(), observe(run.m(), sc), serial)); at_frame.push(changes); }
                }
                TStmt::Release(n) => {
                    let pos = frames.iter().position(|f| f.0 == *n);
                    if (in_txn && pos.is_some()) != e_ok {
                        fail(rep, "release-outcome", format!("RELEASE {n}: live savepoints {:?}, engine {}", frames.iter().map(|f| f.0.as_str()).collect::<Vec<_>>(), eres.short()));
                        run.failed = true;
                    } else if e_ok {
                        // with two live savepoints of that name the engine may have removed either: the layer's generator avoids it; take the first
                        let p = pos.unwrap();
                        if p + 1 != frames.len() { rep.count("disc:release-not-newest"); }
                        frames.remove(p); at_frame.remove(p);
                    }
                }
                TStmt::RollbackTo(n) => {
                    let cands: Vec<usize> = frames.iter().enumerate().filter(|(_, f)| f.0 == *n).map(|(i, _)| i).collect();
                    if (in_txn && !cands.is_empty()) != e_ok {
                        fail(rep, "rollback-to-outcome", format!("ROLLBACK TO {n}: live savepoints {:?} (created and neither released nor destroyed by a ROLLBACK TO an older one), engine {}", frames.iter().map(|f| f.0.as_str()).collect::<Vec<_>>(), eres.short()));
                        run.failed = true;
                    } else if e_ok {
                        let act = observe(run.m(), sc);
                        run.points += 1;
                        let hit = cands.iter().copied().find(|i| diff(&frames[*i].1, &act).is_none());
                        match hit {
                            Some(p) => { if changes > at_frame[p] { run.nontrivial = true; } frames.truncate(p + 1); at_frame.truncate(p + 1); changes = at_frame[p]; rep.count("disc:rollback-to-point-ok"); }
                            None => {
                                let p = cands[0];
                                let what = diff(&frames[p].1, &act).unwrap();
                                fail(rep, &format!("state-after-rollback-to:{what}"), format!("after ROLLBACK TO {n}: expected the state at its creation rows {} count {} ; got rows {} count {}", short(&frames[p].1.rows), short(&frames[p].1.count), short(&act.rows), short(&act.count)));
                                run.failed = true;
                            }
                        }
                    }
                }
                TStmt::Rollback => {
                    if in_txn != e_ok { fail(rep, "rollback-outcome", format!("ROLLBACK inside a transaction={in_txn}: engine {}", eres.short())); run.failed = true; }
                    else if e_ok {
                        let act = observe(run.m(), sc);
                        run.points += 1;
                        if changes > 0 { run.nontrivial = true; }
                        if let Some(b) = &begin_obs {
                            if let Some(what) = diff(b, &act) {
                                fail(rep, &format!("state-after-rollback:{what}"), format!("after ROLLBACK: expected the state at BEGIN rows {} count {} ; got rows {} count {}", short(&b.rows), short(&b.count), short(&act.rows), short(&act.count)));
                                run.failed = true;
                            } else { rep.count("disc:rollback-point-ok"); }
                        }
                        in_txn = false; frames.clear(); at_frame.clear();
                    }
                }
                _ => {}
            }
        }
        rep.count(&format!("layer:{layer}"));
        rep.count(&format!("disc-case:{}", if run.failed { "stopped" } else { "completed" }));
        let key = case.show();
        rep.case(if run.nontrivial { Some(&key) } else { None });
        if self.seq % 97 == 0 { rep.sample(format!("{key} -> points={} failed={}", run.points, run.failed)); }
        let Run { main, .. } = run;
        if let Some(h) = main { let _ = guarded(std::panic::AssertUnwindSafe(move || drop(h))); }
        let _ = std::fs::remove_dir_all(&dir);
    }

    fn run_case(&mut self, rep: &mut Report, case: &Case, layer: &str) {
        if case.disc { return self.run_discipline_case(rep, case, layer); }
        self.seq += 1;
        let sc = &case.sc;
        let dir = format!("{}/txn-{}-{}", self.ctx.scratch, std::process::id(), self.seq);
        let _ = std::fs::remove_dir_all(&dir);
        let t0 = std::time::Instant::now();
        let d2 = dir.clone();
        let db = match guarded(move || Database::create(&d2)) { Ok(Ok(db)) => db, _ => { rep.count("abandon:create-failed"); return; } };
        let mut run = Run { case, main: Some(db), work: None, dir: dir.clone(), stack: vec![], live: vec![], undone_log: vec![], last_scope: "txn".into(),
            points: 0, nontrivial: false, undo_on: !sc.split, failed: false, root_moved: false, dup_seen: false, outer_release: false, ins_total: 0, soft: false };
        self.t_create += t0.elapsed().as_secs_f64();
        let t1 = std::time::Instant::now();
        self.spec.ask("reset");
        self.spec.ask(&sc.model_create());
        self.undo.ask(&sc.undo_reset());
        let mut setup_ok = true;
        for s in sc.create_sqls() { if !matches!(exec_on(run.m(), &s), Res::Ok) { setup_ok = false; } }
        let mut init: Vec<TStmt> = vec![];
        if sc.split { for i in 1..=NFILL { init.push(TStmt::Insert { id: 1000 + i, u: Some(1000 + i), a: 7, b: 7 }); } }
        for (id, u, a, b) in &case.init { init.push(TStmt::Insert { id: *id, u: *u, a: *a, b: *b }); }
        for st in &init {
            if !setup_ok { break; }
            let m = self.spec.ask(&format!("stmt {}", st.sx(sc).unwrap()));
            let e = exec_on(run.m(), &st.sql(sc));
            if !(m.starts_with("affected 1") && e == Res::Affected(1)) { setup_ok = false; break; }
            if run.undo_on { self.undo.ask(&st.undo_line(sc).unwrap()); }
            if !sc.split || matches!(st, TStmt::Insert { id, .. } if *id < 1000) { run.ins_total += 1; }
        }
        if !setup_ok {
            rep.count("abandon:setup-failed");
            drop(run);
            let _ = std::fs::remove_dir_all(&dir);
            return;
        }
        self.check_undo_state(&mut run, rep, "setup");
        // has the table's root really left page 1?  (header root page through the read-only hook)
        if let Ok((_, _, _, root)) = hook_state(run.m(), sc, &self.dict) { run.root_moved = root != 1; }
        if sc.split != run.root_moved { rep.count("abandon:root-page-not-as-intended"); let _ = std::fs::remove_dir_all(&dir); return; }
        self.t_setup += t1.elapsed().as_secs_f64();
        let t2 = std::time::Instant::now();
        if case.clone { run.work = Some(run.m().clone()); }
        let mut terminal = false;
        for st in &case.ops {
            if run.failed || terminal { break; }
            match st {
                TStmt::Insert { .. } | TStmt::Update { .. } | TStmt::Delete { .. } => {
                    if let Ctl::Stop = self.dml(&mut run, rep, st, false) { break; }
                }
                TStmt::Select => {}
                TStmt::Begin => {
                    let pre = observe(run.m(), sc);
                    let (mok, eres) = self.control(&mut run, rep, st);
                    if mok != (eres == Res::Ok) {
                        rep.oracle_fail(case.show(), format!("BEGIN: spec ok={mok}, engine {}", eres.short()), format!("txn-control:begin:spec-{}:engine-{}", if mok { "ok" } else { "err" }, eres.short()));
                        run.failed = true; break;
                    }
                    if mok { run.stack.push(Frame { name: String::new(), obs: pre, nlive: 0 }); run.live.clear(); run.dup_seen = false; run.outer_release = false; }
                    self.undo_stmt(&mut run, rep, st, &eres);
                }
                TStmt::Commit => {
                    let (mok, eres) = self.control(&mut run, rep, st);
                    if mok != (eres == Res::Ok) {
                        rep.oracle_fail(case.show(), format!("COMMIT: spec ok={mok}, engine {}", eres.short()), format!("txn-control:commit:spec-{}:engine-{}", if mok { "ok" } else { "err" }, eres.short()));
                        run.failed = true; break;
                    }
                    if mok { run.stack.clear(); run.live.clear(); }
                    self.undo_stmt(&mut run, rep, st, &eres);
                }
                TStmt::Savepoint(n) => {
                    let (mok, eres) = self.control(&mut run, rep, st);
                    if mok != (eres == Res::Ok) {
                        rep.oracle_fail(case.show(), format!("SAVEPOINT: spec ok={mok}, engine {}", eres.short()), format!("txn-control:savepoint:spec-{}:engine-{}", if mok { "ok" } else { "err" }, eres.short()));
                        run.failed = true; break;
                    }
                    if mok {
                        if run.stack.iter().skip(1).any(|f| f.name == *n) { run.dup_seen = true; }
                        let obs = observe(run.w(), sc); let nlive = run.live.len(); run.stack.push(Frame { name: n.clone(), obs, nlive });
                    }
                    self.undo_stmt(&mut run, rep, st, &eres);
                }
                TStmt::Release(n) => {
                    let (mok, eres) = self.control(&mut run, rep, st);
                    if mok != (eres == Res::Ok) {
                        rep.oracle_fail(case.show(), format!("RELEASE {n}: spec ok={mok}, engine {}", eres.short()), if run.dup_seen { "savepoint-discipline:dup-name".to_string() } else if run.outer_release { "savepoint-discipline:release-outer".to_string() } else { format!("savepoint:release:spec-{}:engine-{}", if mok { "ok" } else { "err" }, eres.short()) });
                        run.failed = true; break;
                    }
                    if mok {
                        // spec: the most recent savepoint of that name and everything after it go away
                        if let Some(pos) = run.stack.iter().rposition(|f| f.name == *n && !f.name.is_empty()) {
                            if pos + 1 != run.stack.len() { run.outer_release = true; }
                            run.stack.truncate(pos);
                        }
                    }
                    self.undo_stmt(&mut run, rep, st, &eres);
                }
                TStmt::RollbackTo(n) => {
                    let (mok, eres) = self.control(&mut run, rep, st);
                    if mok != (eres == Res::Ok) {
                        let what = if matches!(eres, Res::Panic(_)) { "stmt-panic" } else { "stmt-outcome" };
                        let kinds = kinds_of(run.live.iter());
                        rep.oracle_fail(case.show(), format!("ROLLBACK TO {n}: spec ok={mok}, engine {}", eres.short()),
                            if mok || run.dup_seen || run.outer_release { run.sig("savepoint", &kinds, what) } else { format!("savepoint:rollback-to:spec-err:engine-{}", eres.short()) });
                        run.failed = true; break;
                    }
                    if mok {
                        let pos = run.stack.iter().rposition(|f| f.name == *n && !f.name.is_empty()).unwrap();
                        let shadowed = run.stack[1..pos].iter().any(|f| f.name == *n);
                        let expected = run.stack[pos].obs.clone();
                        let nlive = run.stack[pos].nlive;
                        let undone: Vec<OpInfo> = run.live.split_off(nlive);
                        run.stack.truncate(pos + 1);
                        let _ = shadowed;
                        let scope = "savepoint";
                        // the undo model follows the engine's discipline; compare it first (physical state)
                        self.undo_stmt(&mut run, rep, st, &eres);
                        self.compare(&mut run, rep, scope, &expected, &undone, false);
                    } else {
                        self.undo_stmt(&mut run, rep, st, &eres);
                    }
                }
                TStmt::Rollback => {
                    let (mok, eres) = self.control(&mut run, rep, st);
                    if mok != (eres == Res::Ok) {
                        let what = if matches!(eres, Res::Panic(_)) { "stmt-panic" } else { "stmt-outcome" };
                        let kinds = kinds_of(run.live.iter());
                        rep.oracle_fail(case.show(), format!("ROLLBACK: spec ok={mok}, engine {}", eres.short()),
                            if mok { run.sig("txn", &kinds, what) } else { format!("txn-control:rollback:spec-err:engine-{}", eres.short()) });
                        run.failed = true; break;
                    }
                    if mok {
                        let expected = run.stack[0].obs.clone();
                        let undone: Vec<OpInfo> = std::mem::take(&mut run.live);
                        run.stack.clear();
                        self.undo_stmt(&mut run, rep, st, &eres);
                        self.compare(&mut run, rep, "txn", &expected, &undone, true);
                    } else {
                        self.undo_stmt(&mut run, rep, st, &eres);
                    }
                }
                TStmt::DropHandle => {
                    let in_txn = !run.stack.is_empty();
                    if in_txn { self.spec.ask("stmt (rollback)"); }
                    let expected = if in_txn { Some(run.stack[0].obs.clone()) } else { Some(observe(run.m(), sc)) };
                    let undone: Vec<OpInfo> = std::mem::take(&mut run.live);
                    run.stack.clear();
                    rep.count(if in_txn { "drop:in-txn" } else { "drop:idle" });
                    let mut reopen_err = None;
                    if case.clone {
                        let h = run.work.take().unwrap();
                        if let Err(p) = guarded(std::panic::AssertUnwindSafe(move || drop(h))) { reopen_err = Some(format!("drop panicked: {p}")); }
                        run.work = Some(run.m().clone());
                    } else {
                        let h = run.main.take().unwrap();
                        if let Err(p) = guarded(std::panic::AssertUnwindSafe(move || drop(h))) { reopen_err = Some(format!("drop panicked: {p}")); }
                        let d3 = dir.clone();
                        match guarded(move || Database::open(&d3)) {
                            Ok(Ok(db)) => run.main = Some(db),
                            Ok(Err(e)) => reopen_err = Some(format!("open failed: {e:#}")),
                            Err(p) => reopen_err = Some(format!("open panicked: {p}")),
                        }
                        terminal = true; // next_row_id restarts at 1 after a reopen (not a C07 matter): stop here
                    }
                    if run.main.is_none() || reopen_err.is_some() {
                        let kinds = kinds_of(undone.iter());
                        rep.oracle_fail(case.show(), format!("drop of the handle: {}", reopen_err.unwrap_or_default()), run.sig("drop-handle", &kinds, "stmt-panic"));
                        run.failed = true;
                        break;
                    }
                    if run.undo_on { self.undo.ask("drop"); self.check_undo_state(&mut run, rep, "X"); }
                    if in_txn {
                        self.compare(&mut run, rep, "drop-handle", &expected.unwrap(), &undone, true);
                    }
                }
            }
        }
        // uniqueness outcome of later inserts (the spec gives the expectation): every present key
        // (must be refused), then absent keys -- those touched by undone statements first -- while
        // the table stays below 8 entries
        if (!run.failed || run.soft) && !terminal && run.stack.is_empty() && run.points > 0 && run.main.is_some() {
            let now = model_rows(&self.spec.ask("dump t")).unwrap_or_default();
            let mut probes = vec![];
            let mut absent = vec![];
            let touched = |col: usize, v: i64, log: &[OpInfo]| log.iter().any(|o| o.vals.contains(&(col, v)) || (col == 0 && o.ids.contains(&v)));
            if sc.pk != Pk::None {
                for id in 1..=IDMAX {
                    let st = TStmt::Insert { id, u: None, a: 3, b: 6 };
                    if now.iter().any(|r| row_id(r) == Some(id)) { probes.push(st); } else { absent.push((touched(0, id, &run.undone_log), st)); }
                }
            }
            if sc.uniq {
                for u in 1..=IDMAX {
                    let st = TStmt::Insert { id: 20 + u, u: Some(u), a: 3, b: 6 };
                    if now.iter().any(|r| row_int(r, 1) == Some(u)) { probes.push(st); } else { absent.push((touched(1, u, &run.undone_log), st)); }
                }
            }
            absent.sort_by_key(|(t, _)| !*t);
            let room = if sc.split { 2 } else { MAX_ENTRIES.saturating_sub(run.ins_total) };
            for (_, st) in absent.into_iter().take(room) { probes.push(st); }
            for p in &probes {
                rep.count("unique_probe");
                if let Ctl::Stop = self.dml(&mut run, rep, p, true) { break; }
            }
        }
        self.t_ops += t2.elapsed().as_secs_f64();
        let t3 = std::time::Instant::now();
        rep.count(&format!("layer:{layer}"));
        rep.count(&format!("case:{}:{}", if run.failed { "stopped" } else { "completed" }, sc.pk.tag()));
        if run.root_moved { rep.count("root_moved"); }
        let key = case.show();
        rep.case(if run.nontrivial { Some(&key) } else { None });
        if self.seq % 97 == 0 { rep.sample(format!("{key} -> points={} failed={}", run.points, run.failed)); }
        let Run { main, work, .. } = run;
        if let Some(h) = work { let _ = guarded(std::panic::AssertUnwindSafe(move || drop(h))); }
        if let Some(h) = main { let _ = guarded(std::panic::AssertUnwindSafe(move || drop(h))); }
        let _ = std::fs::remove_dir_all(&dir);
        self.t_close += t3.elapsed().as_secs_f64();
    }
}

// ------------------------------------------------------------------ generators

fn gen_init(rng: &mut Rng, n: usize) -> Vec<(i64, Option<i64>, i64, i64)> {
    let mut ids: Vec<i64> = (1..=IDMAX).collect();
    let mut us: Vec<i64> = (1..=IDMAX).collect();
    let n = n.min(ids.len());
    for i in (1..ids.len()).rev() { let j = rng.below(i as u64 + 1) as usize; ids.swap(i, j); let k = rng.below(i as u64 + 1) as usize; us.swap(i, k); }
    (0..n).map(|i| (ids[i], if rng.chance(1, 10) { None } else { Some(us[i]) }, rng.range(0, 3), rng.range(0, 9))).collect()
}

fn gen_dml(rng: &mut Rng, sc: &Schema, ins_left: &mut u32) -> TStmt {
    let wsel = |rng: &mut Rng| -> (usize, i64) {
        match rng.below(20) { 0..=13 => (0, rng.range(1, IDMAX)), 14..=16 => (2, rng.range(0, 3)), _ => (3, rng.range(0, 9)) }
    };
    let pick = { let p = rng.below(10); if p <= 2 && *ins_left == 0 { 3 + rng.below(7) } else { p } };
    if pick <= 2 { *ins_left -= 1; }
    match pick {
        0..=2 => TStmt::Insert { id: rng.range(1, IDMAX), u: if rng.chance(1, 8) { None } else { Some(rng.range(1, IDMAX)) }, a: rng.range(0, 3), b: rng.range(0, 9) },
        3..=6 => {
            let (wcol, wval) = wsel(rng);
            let scol = match rng.below(20) { 0 => 0, 1..=5 => 1, 6..=11 => 2, _ => 3 };
            let sval = match scol { 0 => Some(rng.range(1, IDMAX)), 1 => if rng.chance(1, 8) { None } else { Some(rng.range(1, IDMAX)) }, 2 => Some(rng.range(0, 3)), _ => Some(rng.range(0, 9)) };
            let _ = sc;
            TStmt::Update { scol, sval, wcol, wval }
        }
        _ => { let (wcol, wval) = wsel(rng); TStmt::Delete { wcol, wval } }
    }
}

fn gen_history(rng: &mut Rng, sc: &Schema, mut ins_left: u32) -> Vec<TStmt> {
    let names = ["s1", "s2", "s3"];
    let len = rng.range(4, 14) as usize;
    let mut ops = vec![];
    let mut in_txn = false;
    let mut sps: Vec<&str> = vec![];
    while ops.len() < len {
        if !in_txn {
            match rng.below(20) {
                0..=11 => { ops.push(TStmt::Begin); in_txn = true; sps.clear(); }
                12..=16 => ops.push(gen_dml(rng, sc, &mut ins_left)),
                17 => ops.push(TStmt::DropHandle),
                18 => ops.push(if rng.chance(1, 2) { TStmt::Rollback } else { TStmt::Commit }),
                _ => ops.push(TStmt::Savepoint("s1".into())),
            }
        } else {
            match rng.below(100) {
                0..=49 => ops.push(gen_dml(rng, sc, &mut ins_left)),
                50..=63 => { let n = *rng.pick(&names); sps.push(n); ops.push(TStmt::Savepoint(n.into())); }
                64..=75 => {
                    let n = if !sps.is_empty() && rng.chance(9, 10) { *rng.pick(&sps) } else { *rng.pick(&names) };
                    ops.push(TStmt::RollbackTo(n.into()));
                }
                76..=81 => {
                    let n = if !sps.is_empty() && rng.chance(9, 10) { *rng.pick(&sps) } else { *rng.pick(&names) };
                    ops.push(TStmt::Release(n.into()));
                }
                82..=90 => { ops.push(TStmt::Rollback); in_txn = false; }
                91..=94 => { ops.push(TStmt::Commit); in_txn = false; }
                95..=97 => { ops.push(TStmt::DropHandle); in_txn = false; }
                _ => ops.push(TStmt::Begin),
            }
        }
    }
    if in_txn && rng.chance(9, 10) { ops.push(if rng.chance(7, 10) { TStmt::Rollback } else { TStmt::DropHandle }); }
    ops
}

/// one undone statement of each kind x scope x schema variant, every run
fn systematic(out: &mut Vec<Case>) {
    let init = vec![(3i64, Some(4i64), 1i64, 5i64), (2, Some(6), 0, 8), (5, None, 1, 7)];
    let kinds: Vec<(&str, TStmt)> = vec![
        ("insert", TStmt::Insert { id: 6, u: Some(1), a: 3, b: 1 }),
        ("delete", TStmt::Delete { wcol: 0, wval: 3 }),
        ("delete-pk-eq-rowid", TStmt::Delete { wcol: 0, wval: 2 }),   // id 2 is the second row inserted: pk = row id
        ("upd-b", TStmt::Update { scol: 3, sval: Some(9), wcol: 0, wval: 3 }),
        ("upd-a", TStmt::Update { scol: 2, sval: Some(3), wcol: 0, wval: 3 }),
        ("upd-u", TStmt::Update { scol: 1, sval: Some(2), wcol: 0, wval: 3 }),
        ("upd-id", TStmt::Update { scol: 0, sval: Some(4), wcol: 0, wval: 3 }),
        ("delete-multi", TStmt::Delete { wcol: 2, wval: 1 }),
        ("insert-delete-same", TStmt::Insert { id: 6, u: Some(1), a: 3, b: 1 }),
    ];
    for split in [false, true] {
        for pk in [Pk::Int, Pk::Text, Pk::None] {
            for (uniq, idx_a, clone) in [(false, false, false), (true, true, false), (true, true, true), (true, false, false), (false, true, false)] {
                if split && (uniq != idx_a || clone) { continue; }
                if uniq != idx_a && pk != Pk::Int { continue; }
                let sc = Schema { pk, uniq, idx_a, split };
                for scope in 0..3 {
                    for (name, st) in &kinds {
                        if split && matches!(*name, "delete-pk-eq-rowid" | "upd-id" | "delete-multi" | "insert-delete-same") { continue; }
                        let mut ops = vec![TStmt::Begin];
                        if scope == 1 { ops.push(TStmt::Update { scol: 3, sval: Some(0), wcol: 0, wval: 2 }); ops.push(TStmt::Savepoint("s1".into())); }
                        ops.push(st.clone());
                        if *name == "insert-delete-same" { ops.push(TStmt::Delete { wcol: 0, wval: 6 }); }
                        ops.push(match scope { 0 => TStmt::Rollback, 1 => TStmt::RollbackTo("s1".into()), _ => TStmt::DropHandle });
                        if scope == 1 { ops.push(TStmt::Commit); }
                        out.push(Case { sc: sc.clone(), clone, init: init.clone(), ops, disc: false });
                    }
                }
            }
        }
    }
    // savepoint discipline: same name twice, release of an outer savepoint, release then rollback to
    let sc = Schema { pk: Pk::Int, uniq: false, idx_a: false, split: false };
    let ins = |id: i64| TStmt::Insert { id, u: None, a: 0, b: 0 };
    let sp = |n: &str| TStmt::Savepoint(n.into());
    for ops in [
        vec![TStmt::Begin, ins(1), sp("s1"), ins(4), sp("s1"), ins(6), TStmt::RollbackTo("s1".into()), TStmt::Commit],
        vec![TStmt::Begin, ins(1), sp("s1"), ins(4), sp("s2"), ins(6), TStmt::Release("s1".into()), TStmt::RollbackTo("s2".into()), TStmt::Commit],
        vec![TStmt::Begin, ins(1), sp("s1"), ins(4), sp("s2"), ins(6), TStmt::Release("s2".into()), TStmt::RollbackTo("s1".into()), TStmt::Rollback],
        vec![TStmt::Begin, sp("s1"), ins(6), TStmt::RollbackTo("s1".into()), ins(4), TStmt::RollbackTo("s1".into()), TStmt::Rollback],
        vec![TStmt::Begin, sp("s1"), sp("s1"), TStmt::Release("s1".into()), ins(6), TStmt::RollbackTo("s1".into()), TStmt::Commit],
    ] {
        out.push(Case { sc: sc.clone(), clone: false, init: init.clone(), ops, disc: false });
    }
}

/// engine-discipline histories: one transaction, INSERT / UPDATE of the plain column b (whose undo
/// is clean on the pinned engine), 3+ savepoints, RELEASE of any live savepoint (often not the
/// newest), ROLLBACK TO any live savepoint, names re-used after their savepoint is gone
fn gen_discipline(rng: &mut Rng) -> Vec<TStmt> {
    let names = ["s1", "s2", "s3", "s4"];
    let mut ops = vec![TStmt::Begin];
    let mut live: Vec<&str> = vec![];
    let mut ins_left = 4;
    let len = rng.range(7, 16) as usize;
    let dml = |rng: &mut Rng, ins_left: &mut i32| -> TStmt {
        if *ins_left > 0 && rng.chance(3, 5) { *ins_left -= 1; TStmt::Insert { id: rng.range(1, IDMAX), u: None, a: rng.range(0, 3), b: rng.range(0, 9) } }
        else { TStmt::Update { scol: 3, sval: Some(rng.range(0, 9)), wcol: 0, wval: rng.range(1, IDMAX) } }
    };
    while ops.len() < len {
        let r = { let r = rng.below(100); if live.is_empty() && r >= 65 && !rng.chance(1, 10) { 40 } else { r } };
        match r {
            0..=34 => ops.push(dml(rng, &mut ins_left)),
            35..=64 => {
                let free: Vec<&str> = names.iter().copied().filter(|n| !live.contains(n)).collect();
                if free.is_empty() { ops.push(dml(rng, &mut ins_left)); continue; }
                let n = *rng.pick(&free);
                live.push(n);
                ops.push(TStmt::Savepoint(n.into()));
                ops.push(dml(rng, &mut ins_left));
            }
            65..=79 => {
                if live.is_empty() || rng.chance(1, 14) { ops.push(TStmt::Release((*rng.pick(&names)).into())); if let Some(l) = ops.last() { if let TStmt::Release(n) = l { if let Some(p) = live.iter().position(|x| x == n) { live.remove(p); } } } }
                else {
                    // prefer a savepoint that is not the newest
                    let p = if live.len() >= 2 && rng.chance(3, 4) { rng.below(live.len() as u64 - 1) as usize } else { rng.below(live.len() as u64) as usize };
                    let n = live.remove(p);
                    ops.push(TStmt::Release(n.into()));
                }
            }
            _ => {
                if live.is_empty() || rng.chance(1, 12) { let n = *rng.pick(&names); if let Some(p) = live.iter().position(|x| *x == n) { live.truncate(p + 1); } ops.push(TStmt::RollbackTo(n.into())); }
                else {
                    let p = rng.below(live.len() as u64) as usize;
                    let n = live[p];
                    live.truncate(p + 1);
                    ops.push(TStmt::RollbackTo(n.into()));
                }
            }
        }
    }
    ops.push(if rng.chance(1, 2) { TStmt::Rollback } else { TStmt::Commit });
    ops
}

fn discipline_directed(out: &mut Vec<Case>) {
    let sc = Schema { pk: Pk::Int, uniq: false, idx_a: false, split: false };
    let init = vec![(1i64, None, 0i64, 0i64), (2, None, 0, 0)];
    let ins = |id: i64| TStmt::Insert { id, u: None, a: 0, b: 0 };
    let sp = |n: &str| TStmt::Savepoint(n.into());
    let to = |n: &str| TStmt::RollbackTo(n.into());
    let rel = |n: &str| TStmt::Release(n.into());
    for ops in [
        // release of the oldest of three, then back to the newest, then to the middle one
        vec![TStmt::Begin, sp("s1"), ins(3), sp("s2"), ins(4), sp("s3"), ins(5), rel("s1"), to("s3"), to("s2"), TStmt::Commit],
        // release of the oldest, back to the middle one, a name re-used afterwards
        vec![TStmt::Begin, sp("s1"), ins(3), sp("s2"), ins(4), sp("s3"), rel("s1"), to("s2"), ins(5), ins(6), sp("s3"), to("s3"), TStmt::Commit],
        // release of the middle one of three and of four
        vec![TStmt::Begin, sp("s1"), ins(3), sp("s2"), ins(4), sp("s3"), ins(5), rel("s2"), to("s3"), to("s1"), TStmt::Rollback],
        vec![TStmt::Begin, sp("s1"), ins(3), sp("s2"), ins(4), sp("s3"), ins(5), sp("s4"), ins(6), rel("s2"), to("s3"), to("s1"), TStmt::Commit],
        vec![TStmt::Begin, sp("s1"), ins(3), sp("s2"), ins(4), sp("s3"), ins(5), sp("s4"), ins(6), rel("s1"), rel("s2"), to("s4"), to("s3"), TStmt::Rollback],
        // release of the newest (the only shape the repository's tests exercise)
        vec![TStmt::Begin, sp("s1"), ins(3), sp("s2"), ins(4), rel("s2"), to("s1"), TStmt::Commit],
    ] {
        out.push(Case { sc: sc.clone(), clone: false, init: init.clone(), ops, disc: true });
    }
}

/// A rolled-back UPDATE that SHRINKS rows sitting in full leaf pages (400 rows of ~190 bytes, loaded in
/// key order): the undo has to put the longer old records back where there is no room left in place.
/// After ROLLBACK (and ROLLBACK TO, and dropping the handle) every row must read as before, through the
/// rolling-back handle and through a second handle.  `sig` = signature to report under.
pub fn shrink_rollback_scenario(ctx: &Ctx, rep: &mut Report, sig: &str) {
    for how in ["rollback", "rollback-to", "drop-handle"] {
        let case = format!("full-leaf shrink then {how}");
        rep.case(Some(&case));
        rep.count("shrink_rollback_scenarios");
        let dir = format!("{}/txn-shrink-{}-{how}", ctx.scratch, std::process::id());
        let _ = std::fs::remove_dir_all(&dir);
        let d2 = dir.clone();
        let db = match guarded(move || Database::create(&d2)) { Ok(Ok(db)) => db, _ => continue };
        let _ = exec_on(&db, "CREATE TABLE t (id INT PRIMARY KEY, payload TEXT)");
        let mut ok = true;
        for chunk in (0..400).collect::<Vec<i64>>().chunks(50) {
            let rows: Vec<String> = chunk.iter().map(|i| format!("({i}, '{}')", format!("{:03}-", i).repeat(47))).collect();
            if !matches!(exec_on(&db, &format!("INSERT INTO t VALUES {}", rows.join(", "))), Res::Affected(_)) { ok = false; }
        }
        if !ok { rep.count("shrink_rollback_setup_failed"); continue; }
        let before = exec_on(&db, "SELECT id, payload FROM t");
        let other = db.clone();
        let worker = db.clone();
        let mut steps = vec!["BEGIN".to_string()];
        if how == "rollback-to" { steps.push("SAVEPOINT s1".into()); }
        steps.push("UPDATE t SET payload = 'x' WHERE id < 20".into());
        for s in &steps { let _ = exec_on(&worker, s); }
        match how {
            "rollback" => { let _ = exec_on(&worker, "ROLLBACK"); }
            "rollback-to" => { let _ = exec_on(&worker, "ROLLBACK TO SAVEPOINT s1"); let _ = exec_on(&worker, "COMMIT"); }
            _ => { let _ = guarded(std::panic::AssertUnwindSafe(move || drop(worker))); }
        }
        for (who, h) in [("the same database through the first handle", &db), ("a second handle", &other)] {
            let after = exec_on(h, "SELECT id, payload FROM t");
            if after != before {
                let (nb, na) = match (&before, &after) { (Res::Rows(b), Res::Rows(a)) => (b.len(), a.len()), _ => (0, 0) };
                let changed = match (&before, &after) { (Res::Rows(b), Res::Rows(a)) => b.iter().zip(a.iter()).filter(|(x, y)| x != y).count(), _ => 0 };
                rep.oracle_fail(case.clone(), format!("after BEGIN; UPDATE t SET payload = 'x' WHERE id < 20; {how}: {who} reads {na} rows ({changed} differ) where {nb} rows were there before the transaction: {}", after.short()), format!("{sig}:{how}"));
                break;
            }
        }
        drop(other);
        let _ = guarded(std::panic::AssertUnwindSafe(move || drop(db)));
        let _ = std::fs::remove_dir_all(&dir);
    }
}

pub fn run(ctx: &Ctx) -> Report {
    let mut rep = Report::new(
        "sql_txn",
        "case = schema variant (INT/TEXT/no primary key x UNIQUE column x secondary index x single-leaf/100 wide rows so the table root has split x own handle/cloned handle) + initial rows + history of BEGIN/COMMIT/ROLLBACK/SAVEPOINT/ROLLBACK TO/RELEASE (names s1..s3, reused), single-row INSERT, UPDATE/DELETE by id / by a (multi-row) / by b, drop of the handle. Systematic layer: every single undone statement kind x scope x variant, every run; random layer: histories of 4..14 statements. Engine-discipline layer (engine + M-code undo model, no SQL-standard spec): one transaction with 3-4 savepoints, RELEASE of any live savepoint (mostly not the newest), ROLLBACK TO any live savepoint, re-used names; a savepoint that was created and neither released nor destroyed must be accepted by ROLLBACK TO and the state must be the observation taken at its creation. Rows are selected as the full column list (prefix projection) to stay clear of the projection defect; statement results are compared with the spec and a case is abandoned (histogram abandon:*) when a DML statement itself already differs before any rollback point. non-trivial = distinct case with at least one rollback point that undoes at least one row change",
    );
    let mut r = Runner { t_create: 0.0, t_setup: 0.0, t_ops: 0.0, t_close: 0.0, ctx, spec: Model::spawn(&ctx.model_bin, "sqldb"), undo: Model::spawn(&ctx.model_bin, "undo"), dict: KeyDict::new(), seq: 0 };
    let mut rng = Rng::new(ctx.seed);
    for line in ctx.corpus_cases("C07") {
        match Case::parse(&line) {
            Some(c) => r.run_case(&mut rep, &c, "corpus"),
            None => rep.notes.push(format!("unparsable corpus line: {line}")),
        }
    }
    if ctx.replay.is_some() { return rep; }
    let mut sys = vec![];
    systematic(&mut sys);
    for c in &sys { r.run_case(&mut rep, c, "systematic"); }
    if ctx.replay.is_none() { shrink_rollback_scenario(ctx, &mut rep, "rollback:full-leaf-shrink:rows"); }
    let mut dd = vec![];
    discipline_directed(&mut dd);
    for c in &dd { r.run_case(&mut rep, c, "discipline-directed"); }
    let ndisc = if ctx.thorough { 4000 } else { 200 };
    let mut rng_d = Rng::new(ctx.seed ^ 0xD15C);
    for _ in 0..ndisc {
        let sc = Schema { pk: Pk::Int, uniq: false, idx_a: false, split: false };
        let init = vec![(1i64, None, rng_d.range(0, 3), rng_d.range(0, 9)), (2, None, rng_d.range(0, 3), rng_d.range(0, 9))];
        let ops = gen_discipline(&mut rng_d);
        r.run_case(&mut rep, &Case { sc, clone: false, init, ops, disc: true }, "discipline-random");
    }
    let nrand = if ctx.thorough { 12000 } else { 450 };
    for i in 0..nrand {
        let pk = *rng.pick(&[Pk::Int, Pk::Int, Pk::Text, Pk::None]);
        let split = i % 25 == 24;
        let sc = Schema { pk, uniq: rng.chance(1, 2), idx_a: rng.chance(1, 2), split };
        let clone = !split && rng.chance(1, 3);
        let n = rng.range(2, 3) as usize;
        let init = gen_init(&mut rng, n);
        let ops = gen_history(&mut rng, &sc, 2);
        r.run_case(&mut rep, &Case { sc, clone, init, ops, disc: false }, "random");
    }
    rep.notes.push(format!("spec model requests {}, undo model requests {}; seconds: create {:.1} setup {:.1} ops {:.1} close {:.1}", r.spec.requests, r.undo.requests, r.t_create, r.t_setup, r.t_ops, r.t_close));
    rep
}
