//! C09: declared constraints hold exactly.  Histories of writes over schemas with every constraint
//! kind run on the real engine and on the reference state machine `TurVerif.SqlCons` (M-spec).
//!
//! Oracle: (1) Ok/Err of every write = the reference's (a write succeeds iff the would-be
//! post-state satisfies every declared constraint); (2) after every statement the engine's tables,
//! dumped with `SELECT *`, satisfy the constraints — evaluated directly by the harness
//! (`sqlgen_cons::state_violations`) and, after loading the dump into the model, by the model's
//! `violations` (the two must agree, else a harness/model inconsistency is reported as a
//! disagreement).  After a divergence that leaves the engine in a valid state the model is
//! resynchronised from the engine's dump; a history ends when the engine's state is invalid.
//!
//! Signatures: `cons:<kind>:<stmt>:<flags> exp=<ok|err> got=<ok|err|panic>`,
//! `cons:post-state-invalid:<kinds>:<stmt>:<flags> got=<ok|err>` (outcome as expected, tables invalid), `cons:post-state-differs:<stmt>:<flags>`.
//! Case syntax (replay / corpus): `sys:<scenario name>` or `rand:<seed>`; the history is regenerated.
use crate::common::*;
use crate::sqlgen::*;
use crate::sqlgen_cons::*;

// ------------------------------------------------------------------ small builders
fn i(x: i64) -> V { V::Int(x) }
fn nul() -> V { V::Null }
fn c(name: &str) -> ColSpec { ColSpec { name: name.into(), ty: Ty::Int, notnull: false, unique: false, pk: false } }
fn pkc(name: &str) -> ColSpec { ColSpec { pk: true, ..c(name) } }
fn uq(name: &str) -> ColSpec { ColSpec { unique: true, ..c(name) } }
fn nn(name: &str) -> ColSpec { ColSpec { notnull: true, ..c(name) } }
fn tbl(name: &str, cols: Vec<ColSpec>) -> TableC { TableC { name: name.into(), cols, ..Default::default() } }
fn fk(col: usize, parent: &str, pcol: usize, pname: &str, od: Option<Act>, ou: Option<Act>) -> FkSpec {
    FkSpec { cols: vec![col], parent: parent.into(), pcols: vec![pcol], pcol_names: vec![pname.into()], on_delete: od, on_update: ou, table_level: false }
}
fn col(ix: usize) -> E { E::Col(ix) }
fn lit(x: i64) -> E { E::Lit(V::Int(x)) }
fn bin(op: Op, a: E, b: E) -> E { E::Bin(op, Box::new(a), Box::new(b)) }
fn eqc(ix: usize, k: i64) -> Option<E> { Some(bin(Op::Eq, col(ix), lit(k))) }
fn ins(t: &str, ncols: usize, rows: Vec<Vec<V>>) -> St { St::Insert { t: t.into(), cols: (0..ncols).collect(), rows } }
fn upd(t: &str, sets: Vec<(usize, E)>, whr: Option<E>) -> St { St::Update { t: t.into(), sets, whr } }
fn del(t: &str, whr: Option<E>) -> St { St::Delete { t: t.into(), whr } }

pub struct Case { pub name: String, pub schema: Vec<TableC>, pub stmts: Vec<St> }

fn check_shapes() -> Vec<(&'static str, CheckSpec, bool)> {
    // (name, check over column 1 = `a` (column 2 = `b`), needs table level)
    let a = || col(1);
    vec![
        ("gt", CheckSpec { e: bin(Op::Gt, a(), lit(0)), col: Some(1) }, false),
        ("range-and", CheckSpec { e: bin(Op::And, bin(Op::Ge, a(), lit(0)), bin(Op::Le, a(), lit(10))), col: Some(1) }, false),
        ("out-or", CheckSpec { e: bin(Op::Or, bin(Op::Lt, a(), lit(0)), bin(Op::Gt, a(), lit(10))), col: Some(1) }, false),
        ("eq", CheckSpec { e: bin(Op::Eq, a(), lit(5)), col: Some(1) }, false),
        ("ne", CheckSpec { e: bin(Op::Ne, a(), lit(5)), col: Some(1) }, false),
        ("lit-lt-col", CheckSpec { e: bin(Op::Lt, lit(5), a()), col: Some(1) }, false),
        ("between", CheckSpec { e: E::Between(Box::new(a()), Box::new(lit(1)), Box::new(lit(3)), false), col: Some(1) }, false),
        ("in", CheckSpec { e: E::In(Box::new(a()), vec![lit(1), lit(2)], false), col: Some(1) }, false),
        ("not", CheckSpec { e: E::Not(Box::new(bin(Op::Gt, a(), lit(5)))), col: Some(1) }, false),
        ("or-in-and", CheckSpec { e: bin(Op::And, bin(Op::Or, bin(Op::Lt, a(), lit(0)), bin(Op::Gt, a(), lit(10))), bin(Op::Gt, a(), lit(5))), col: Some(1) }, false),
        ("arith", CheckSpec { e: bin(Op::Gt, bin(Op::Add, a(), lit(1)), lit(3)), col: Some(1) }, false),
        ("table-level", CheckSpec { e: bin(Op::Gt, a(), lit(0)), col: None }, true),
        ("other-col", CheckSpec { e: bin(Op::Lt, a(), col(2)), col: Some(1) }, false),
        ("float-lit", CheckSpec { e: bin(Op::Gt, a(), E::Lit(V::Flt(6, 4))), col: Some(1) }, false),
        ("neg-lit", CheckSpec { e: bin(Op::Ge, a(), lit(-3)), col: Some(1) }, false),
        ("and3", CheckSpec { e: bin(Op::And, bin(Op::And, bin(Op::Gt, a(), lit(0)), bin(Op::Lt, a(), lit(10))), bin(Op::Ge, a(), lit(2))), col: Some(1) }, false),
    ]
}

pub fn systematic() -> Vec<Case> {
    let mut v: Vec<Case> = vec![];
    let mut add = |name: &str, schema: Vec<TableC>, stmts: Vec<St>| v.push(Case { name: name.into(), schema, stmts });
    let t2 = || tbl("t", vec![pkc("id"), c("a")]);
    // ---- PRIMARY KEY, single column
    add("pk-single", vec![t2()], vec![
        ins("t", 2, vec![vec![i(1), i(10)]]), ins("t", 2, vec![vec![i(1), i(11)]]), ins("t", 2, vec![vec![nul(), i(12)]]),
        ins("t", 2, vec![vec![i(2), i(20)], vec![i(3), i(30)]]),
        upd("t", vec![(0, lit(3))], eqc(0, 2)), upd("t", vec![(0, lit(5))], eqc(0, 2)), upd("t", vec![(0, E::Lit(nul()))], eqc(0, 1)),
        del("t", eqc(0, 5)), ins("t", 2, vec![vec![i(5), i(50)]]), ins("t", 2, vec![vec![i(2), i(22)]]),
        upd("t", vec![(0, bin(Op::Add, col(0), lit(10)))], None),
        del("t", None), ins("t", 2, vec![vec![i(11), i(1)], vec![i(12), i(2)]]),
    ]);
    add("pk-multirow-insert-dup", vec![t2()], vec![ins("t", 2, vec![vec![i(1), i(10)]]), ins("t", 2, vec![vec![i(4), i(40)], vec![i(1), i(41)]]), ins("t", 2, vec![vec![i(6), i(1)], vec![i(6), i(2)]])]);
    add("pk-multirow-update-same", vec![t2()], vec![ins("t", 2, vec![vec![i(1), i(10)], vec![i(2), i(20)]]), upd("t", vec![(0, lit(7))], None)]);
    add("pk-multirow-update-shift", vec![t2()], vec![ins("t", 2, vec![vec![i(1), i(10)], vec![i(2), i(20)], vec![i(3), i(30)]]), upd("t", vec![(0, bin(Op::Add, col(0), lit(1)))], None)]);
    // ---- UNIQUE with NULLs
    let tu = || tbl("t", vec![pkc("id"), uq("u")]);
    add("unique-nulls", vec![tu()], vec![
        ins("t", 2, vec![vec![i(1), nul()], vec![i(2), nul()]]), ins("t", 2, vec![vec![i(3), i(5)]]), ins("t", 2, vec![vec![i(4), i(5)]]),
        upd("t", vec![(1, lit(5))], eqc(0, 1)), upd("t", vec![(1, lit(6))], eqc(0, 1)), upd("t", vec![(1, E::Lit(nul()))], eqc(0, 3)),
        ins("t", 2, vec![vec![i(5), i(5)]]), del("t", eqc(0, 5)), ins("t", 2, vec![vec![i(6), i(5)]]),
        upd("t", vec![(1, E::Lit(nul()))], None),
    ]);
    add("unique-multirow-update-same", vec![tu()], vec![ins("t", 2, vec![vec![i(1), i(1)], vec![i(2), i(2)]]), upd("t", vec![(1, lit(9))], None)]);
    add("unique-swap", vec![tu()], vec![ins("t", 2, vec![vec![i(1), i(1)], vec![i(2), i(2)]]), upd("t", vec![(1, bin(Op::Sub, lit(3), col(1)))], None)]);
    // ---- composite PRIMARY KEY / UNIQUE
    let tcpk = || TableC { cpk: Some(vec![0, 1]), ..tbl("t", vec![c("a"), c("b"), c("x")]) };
    add("cpk-basic", vec![tcpk()], vec![
        ins("t", 3, vec![vec![i(1), i(1), i(0)], vec![i(1), i(2), i(0)], vec![i(2), i(1), i(0)]]), ins("t", 3, vec![vec![i(1), i(1), i(9)]]),
        del("t", Some(bin(Op::And, bin(Op::Eq, col(0), lit(1)), bin(Op::Eq, col(1), lit(2))))), ins("t", 3, vec![vec![i(1), i(2), i(7)]]),
    ]);
    add("cpk-null", vec![tcpk()], vec![ins("t", 3, vec![vec![i(1), i(1), i(0)]]), ins("t", 3, vec![vec![nul(), i(1), i(0)]])]);
    add("cpk-update-dup", vec![tcpk()], vec![ins("t", 3, vec![vec![i(1), i(1), i(0)], vec![i(1), i(2), i(0)]]), upd("t", vec![(1, lit(1))], Some(bin(Op::Eq, col(1), lit(2))))]);
    add("cpk-update-null", vec![tcpk()], vec![ins("t", 3, vec![vec![i(1), i(1), i(0)]]), upd("t", vec![(1, E::Lit(nul()))], None)]);
    let tcu = || TableC { uniques: vec![vec![1, 2]], ..tbl("t", vec![pkc("id"), c("a"), c("b")]) };
    add("cunique-nulls", vec![tcu()], vec![
        ins("t", 3, vec![vec![i(1), i(1), nul()], vec![i(2), i(1), nul()]]), ins("t", 3, vec![vec![i(3), i(1), i(1)]]), ins("t", 3, vec![vec![i(4), i(1), i(1)]]),
        del("t", eqc(0, 3)), ins("t", 3, vec![vec![i(5), i(1), i(1)]]), upd("t", vec![(2, lit(2))], eqc(0, 5)), ins("t", 3, vec![vec![i(6), i(1), i(1)]]),
    ]);
    add("cunique-update-dup", vec![tcu()], vec![ins("t", 3, vec![vec![i(1), i(1), i(1)], vec![i(2), i(1), i(2)]]), upd("t", vec![(2, lit(1))], eqc(0, 2))]);
    // ---- NOT NULL
    add("notnull", vec![tbl("t", vec![pkc("id"), nn("a"), c("b")])], vec![
        ins("t", 3, vec![vec![i(1), nul(), i(0)]]), ins("t", 3, vec![vec![i(1), i(1), nul()]]),
        St::Insert { t: "t".into(), cols: vec![0, 2], rows: vec![vec![i(2), i(0)]] },
        upd("t", vec![(1, E::Lit(nul()))], None), upd("t", vec![(2, E::Lit(nul())), (1, lit(3))], None),
        ins("t", 3, vec![vec![i(3), i(1), i(1)], vec![i(4), nul(), i(1)]]),
    ]);
    // ---- CHECK shapes: single-row inserts and updates over a boundary value set
    for (name, chk, _tl) in check_shapes() {
        let t = TableC { checks: vec![chk], ..tbl("t", vec![pkc("id"), c("a"), c("b")]) };
        let vals: Vec<V> = vec![i(-4), i(-3), i(-1), i(0), i(1), i(2), i(3), i(5), i(6), i(7), i(9), i(10), i(11), nul()];
        let mut ins_s = vec![];
        for (k, val) in vals.iter().enumerate() { ins_s.push(ins("t", 3, vec![vec![i(k as i64 + 1), val.clone(), i(4)]])); }
        add(&format!("check-{name}-insert"), vec![t.clone()], ins_s);
        let mut up_s = vec![ins("t", 3, vec![vec![i(1), nul(), i(4)]])];
        for val in vals.iter() { up_s.push(upd("t", vec![(1, E::Lit(val.clone()))], eqc(0, 1))); }
        add(&format!("check-{name}-update"), vec![t], up_s);
    }
    // ---- FOREIGN KEY
    let p = || tbl("p", vec![pkc("id"), uq("u")]);
    let prow = || ins("p", 2, vec![vec![i(1), i(10)], vec![i(2), i(20)], vec![i(3), i(30)]]);
    let ch = |od: Option<Act>, ou: Option<Act>| TableC { fks: vec![fk(1, "p", 0, "id", od, ou)], ..tbl("c", vec![pkc("id"), c("pid")]) };
    add("fk-child-insert", vec![p(), ch(None, None)], vec![prow(), ins("c", 2, vec![vec![i(1), i(1)]]), ins("c", 2, vec![vec![i(2), i(9)]]), ins("c", 2, vec![vec![i(3), nul()]]),
        ins("c", 2, vec![vec![i(4), i(2)], vec![i(5), i(8)]]), del("p", eqc(0, 3)), ins("c", 2, vec![vec![i(6), i(3)]])]);
    add("fk-child-update-missing", vec![p(), ch(None, None)], vec![prow(), ins("c", 2, vec![vec![i(1), i(1)]]), upd("c", vec![(1, lit(2))], eqc(0, 1)), upd("c", vec![(1, E::Lit(nul()))], eqc(0, 1)), upd("c", vec![(1, lit(9))], eqc(0, 1))]);
    add("fk-parent-delete-restrict", vec![p(), ch(None, None)], vec![prow(), ins("c", 2, vec![vec![i(1), i(1)], vec![i(2), nul()]]), del("p", eqc(0, 1)), del("p", eqc(0, 3)), del("p", None)]);
    add("fk-parent-delete-explicit-restrict", vec![p(), ch(Some(Act::Restrict), Some(Act::Restrict))], vec![prow(), ins("c", 2, vec![vec![i(1), i(1)]]), del("p", eqc(0, 1)), del("p", eqc(0, 2))]);
    add("fk-parent-delete-after-child-delete", vec![p(), ch(None, None)], vec![prow(), ins("c", 2, vec![vec![i(1), i(1)]]), del("c", eqc(0, 1)), del("p", eqc(0, 1))]);
    add("fk-parent-delete-after-child-moved", vec![p(), ch(None, None)], vec![prow(), ins("c", 2, vec![vec![i(1), i(1)]]), upd("c", vec![(1, lit(2))], eqc(0, 1)), del("p", eqc(0, 1)), del("p", eqc(0, 2))]);
    add("fk-parent-update-noaction", vec![p(), ch(None, None)], vec![prow(), ins("c", 2, vec![vec![i(1), i(1)]]), upd("p", vec![(0, lit(8))], eqc(0, 3)), upd("p", vec![(0, lit(7))], eqc(0, 1))]);
    add("fk-parent-update-restrict", vec![p(), ch(Some(Act::Restrict), Some(Act::Restrict))], vec![prow(), ins("c", 2, vec![vec![i(1), i(1)]]), upd("p", vec![(0, lit(8))], eqc(0, 3)), upd("p", vec![(1, lit(11))], eqc(0, 1)), upd("p", vec![(0, lit(7))], eqc(0, 1))]);
    add("fk-parent-update-cascade", vec![p(), ch(Some(Act::Cascade), Some(Act::Cascade))], vec![prow(), ins("c", 2, vec![vec![i(1), i(1)], vec![i(2), i(1)], vec![i(3), i(2)], vec![i(4), nul()]]), upd("p", vec![(0, lit(7))], eqc(0, 1)), upd("p", vec![(0, bin(Op::Add, col(0), lit(10)))], None)]);
    add("fk-parent-delete-cascade", vec![p(), ch(Some(Act::Cascade), None)], vec![prow(), ins("c", 2, vec![vec![i(1), i(1)], vec![i(2), i(1)], vec![i(3), i(2)], vec![i(4), nul()]]), del("p", eqc(0, 1)), ins("c", 2, vec![vec![i(5), i(2)]]), ins("c", 2, vec![vec![i(1), i(2)]])]);
    add("fk-parent-delete-cascade-all", vec![p(), ch(Some(Act::Cascade), None)], vec![prow(), ins("c", 2, vec![vec![i(1), i(1)], vec![i(3), i(2)], vec![i(4), nul()]]), del("p", None)]);
    let chu = || TableC { fks: vec![fk(1, "p", 1, "u", None, None)], ..tbl("c", vec![pkc("id"), c("q")]) };
    add("fk-to-unique-col", vec![p(), chu()], vec![prow(), ins("c", 2, vec![vec![i(1), i(10)]]), ins("c", 2, vec![vec![i(2), i(1)]]), del("p", eqc(0, 1)), del("p", eqc(0, 2)), upd("p", vec![(1, lit(11))], eqc(0, 1))]);
    let chq = |od: Option<Act>, ou: Option<Act>| TableC { fks: vec![fk(1, "p", 1, "u", od, ou)], ..tbl("c", vec![pkc("id"), c("q")]) };
    add("fk-null-parent-update", vec![p(), chq(None, Some(Act::Restrict))], vec![ins("p", 2, vec![vec![i(1), nul()], vec![i(2), i(20)]]), ins("c", 2, vec![vec![i(1), nul()], vec![i(2), i(20)]]), upd("p", vec![(1, lit(5))], eqc(0, 1))]);
    add("fk-null-cascade-delete", vec![p(), chq(Some(Act::Cascade), None)], vec![ins("p", 2, vec![vec![i(1), nul()], vec![i(2), i(20)]]), ins("c", 2, vec![vec![i(1), nul()], vec![i(2), i(20)]]), del("p", eqc(0, 1))]);
    add("fk-truncate-parent", vec![p(), ch(None, None)], vec![prow(), ins("c", 2, vec![vec![i(1), i(1)]]), St::Truncate { t: "p".into() }]);
    add("fk-truncate-child-then-parent", vec![p(), ch(None, None)], vec![prow(), ins("c", 2, vec![vec![i(1), i(1)]]), St::Truncate { t: "c".into() }, del("p", eqc(0, 1)), St::Truncate { t: "p".into() }]);
    let tl = |cols: Vec<usize>, pc: Vec<usize>, pn: Vec<&str>| FkSpec { cols, parent: "p".into(), pcols: pc, pcol_names: pn.iter().map(|s| s.to_string()).collect(), on_delete: None, on_update: None, table_level: true };
    add("fk-table-level", vec![p(), TableC { fks: vec![tl(vec![1], vec![0], vec!["id"])], ..tbl("c", vec![pkc("id"), c("pid")]) }], vec![prow(), ins("c", 2, vec![vec![i(1), i(1)]]), ins("c", 2, vec![vec![i(2), i(9)]])]);
    add("fk-table-level-parent-delete", vec![p(), TableC { fks: vec![tl(vec![1], vec![0], vec!["id"])], ..tbl("c", vec![pkc("id"), c("pid")]) }], vec![prow(), ins("c", 2, vec![vec![i(1), i(1)]]), del("p", eqc(0, 1))]);
    let pc2 = || TableC { cpk: Some(vec![0, 1]), ..tbl("p", vec![c("a"), c("b")]) };
    add("fk-composite", vec![pc2(), TableC { fks: vec![tl(vec![1, 2], vec![0, 1], vec!["a", "b"])], ..tbl("c", vec![pkc("id"), c("x"), c("y")]) }],
        vec![ins("p", 2, vec![vec![i(1), i(1)], vec![i(1), i(2)]]), ins("c", 3, vec![vec![i(1), i(1), i(2)]]), ins("c", 3, vec![vec![i(2), i(1), nul()]]), ins("c", 3, vec![vec![i(3), i(2), i(1)]])]);
    // self reference
    let e = |od: Option<Act>| TableC { fks: vec![fk(1, "e", 0, "id", od, None)], ..tbl("e", vec![pkc("id"), c("mgr")]) };
    add("fk-self-ref", vec![e(None)], vec![ins("e", 2, vec![vec![i(1), nul()]]), ins("e", 2, vec![vec![i(2), i(1)]]), ins("e", 2, vec![vec![i(3), i(2)]]), ins("e", 2, vec![vec![i(4), i(9)]]),
        del("e", eqc(0, 1)), del("e", eqc(0, 3)), del("e", eqc(0, 2)), del("e", eqc(0, 1))]);
    add("fk-self-ref-same-row", vec![e(None)], vec![ins("e", 2, vec![vec![i(5), i(5)]])]);
    add("fk-self-ref-same-stmt", vec![e(None)], vec![ins("e", 2, vec![vec![i(6), i(7)], vec![i(7), nul()]])]);
    add("fk-self-ref-delete-both", vec![e(None)], vec![ins("e", 2, vec![vec![i(1), nul()]]), ins("e", 2, vec![vec![i(2), i(1)]]), del("e", None)]);
    add("fk-self-ref-cascade", vec![e(Some(Act::Cascade))], vec![ins("e", 2, vec![vec![i(1), nul()]]), ins("e", 2, vec![vec![i(2), i(1)]]), ins("e", 2, vec![vec![i(3), i(2)]]), ins("e", 2, vec![vec![i(4), nul()]]), del("e", eqc(0, 1))]);
    // two FK columns of one child table to the same parent column, with different ON DELETE actions
    let m2 = |od1: Option<Act>, od2: Option<Act>| TableC { fks: vec![fk(1, "p", 0, "id", od1, None), fk(2, "p", 0, "id", od2, None)], ..tbl("m", vec![pkc("id"), c("s"), c("r")]) };
    for (nm, a1, a2) in [("cascade-noaction", Some(Act::Cascade), None), ("cascade-restrict", Some(Act::Cascade), Some(Act::Restrict)), ("noaction-cascade", None, Some(Act::Cascade)), ("restrict-cascade", Some(Act::Restrict), Some(Act::Cascade))] {
        // row m1 references parent 1 through s and parent 2 through r; m2 only parent 3 through r
        add(&format!("fk-two-cols-{nm}-delete-second-ref"), vec![p(), m2(a1, a2)], vec![prow(), ins("m", 3, vec![vec![i(1), i(1), i(2)], vec![i(2), nul(), i(3)]]), del("p", eqc(0, 2)), del("p", eqc(0, 3)), del("p", eqc(0, 1))]);
        add(&format!("fk-two-cols-{nm}-delete-first-ref"), vec![p(), m2(a1, a2)], vec![prow(), ins("m", 3, vec![vec![i(1), i(1), i(2)], vec![i(2), i(3), nul()]]), del("p", eqc(0, 1)), del("p", eqc(0, 3)), del("p", eqc(0, 2))]);
    }
    // the DELETE hits a cascading and a refusing reference at once: the statement fails and nothing may change
    for (nm, a1, a2) in [("cascade-noaction", Some(Act::Cascade), None), ("cascade-restrict", Some(Act::Cascade), Some(Act::Restrict)), ("noaction-cascade", None, Some(Act::Cascade))] {
        add(&format!("fk-two-cols-{nm}-delete-hits-both"), vec![p(), m2(a1, a2)], vec![prow(), ins("m", 3, vec![vec![i(1), i(2), nul()], vec![i(2), nul(), i(2)], vec![i(3), i(1), i(3)]]), del("p", eqc(0, 2)), del("p", None), del("p", eqc(0, 1))]);
    }
    let o1 = |od: Option<Act>| TableC { fks: vec![fk(1, "p", 0, "id", od, None)], ..tbl("o", vec![pkc("id"), c("pid")]) };
    let v1 = |od: Option<Act>| TableC { fks: vec![fk(1, "p", 0, "id", od, None)], ..tbl("v", vec![pkc("id"), c("pid")]) };
    for rep_i in 0..6 {
        // two child tables (the engine walks them in hash-map order: repeated on fresh databases)
        add(&format!("fk-two-children-cascade-restrict-{rep_i}"), vec![p(), o1(Some(Act::Cascade)), v1(None)], vec![prow(), ins("o", 2, vec![vec![i(1), i(1)], vec![i(2), i(2)]]), ins("v", 2, vec![vec![i(1), i(1)]]), del("p", eqc(0, 1)), del("p", None), del("p", eqc(0, 2))]);
    }
    // two levels
    let g = |od: Option<Act>| TableC { fks: vec![fk(1, "c", 0, "id", od, None)], ..tbl("g", vec![pkc("id"), c("cid")]) };
    add("fk-two-level-cascade", vec![p(), ch(Some(Act::Cascade), None), g(Some(Act::Cascade))], vec![prow(), ins("c", 2, vec![vec![i(1), i(1)], vec![i(2), i(2)]]), ins("g", 2, vec![vec![i(1), i(1)], vec![i(2), i(2)]]), del("p", eqc(0, 1))]);
    add("fk-two-level-cascade-restrict", vec![p(), ch(Some(Act::Cascade), None), g(None)], vec![prow(), ins("c", 2, vec![vec![i(1), i(1)], vec![i(2), i(2)]]), ins("g", 2, vec![vec![i(1), i(1)]]), del("p", eqc(0, 2)), del("p", eqc(0, 1))]);
    // ---- transactions
    add("txn-rollback-insert-unique", vec![tu()], vec![ins("t", 2, vec![vec![i(1), i(1)]]), St::Begin, ins("t", 2, vec![vec![i(2), i(2)]]), St::Rollback, ins("t", 2, vec![vec![i(2), i(2)]]), ins("t", 2, vec![vec![i(3), i(2)]])]);
    add("txn-rollback-delete-unique", vec![tu()], vec![ins("t", 2, vec![vec![i(1), i(1)]]), St::Begin, del("t", eqc(0, 1)), St::Rollback, ins("t", 2, vec![vec![i(1), i(5)]]), ins("t", 2, vec![vec![i(4), i(1)]])]);
    add("txn-rollback-update-unique", vec![tu()], vec![ins("t", 2, vec![vec![i(1), i(1)]]), St::Begin, upd("t", vec![(1, lit(2))], eqc(0, 1)), St::Rollback, ins("t", 2, vec![vec![i(2), i(2)]]), ins("t", 2, vec![vec![i(3), i(1)]])]);
    add("txn-rollback-parent-insert", vec![p(), ch(None, None)], vec![prow(), St::Begin, ins("p", 2, vec![vec![i(4), i(40)]]), St::Rollback, ins("c", 2, vec![vec![i(1), i(4)]])]);
    add("txn-rollback-child-insert", vec![p(), ch(None, None)], vec![prow(), St::Begin, ins("c", 2, vec![vec![i(1), i(1)]]), St::Rollback, del("p", eqc(0, 1))]);
    add("txn-commit", vec![tu()], vec![St::Begin, ins("t", 2, vec![vec![i(1), i(1)]]), ins("t", 2, vec![vec![i(1), i(2)]]), ins("t", 2, vec![vec![i(2), i(1)]]), St::Commit, ins("t", 2, vec![vec![i(1), i(3)]]), ins("t", 2, vec![vec![i(3), i(3)]])]);
    add("update-resurrects-deleted-row", vec![t2()], vec![ins("t", 2, vec![vec![i(1), i(10)]]), del("t", eqc(0, 1)), ins("t", 2, vec![vec![i(1), i(20)]]), upd("t", vec![(1, lit(7))], eqc(0, 1))]);
    add("delete-twice-parent", vec![p(), ch(None, None)], vec![prow(), del("p", eqc(0, 1)), ins("p", 2, vec![vec![i(1), i(11)]]), ins("c", 2, vec![vec![i(1), i(1)]]), del("p", eqc(0, 3))]);
    // ---- an index leaf with >= 8 cells (known AVX2 leaf-search defect, C30): uniqueness probes
    let mut big = vec![];
    for k in 1..=12 { big.push(ins("t", 2, vec![vec![i(k), i(k * 10)]])); }
    for k in 1..=12 { big.push(ins("t", 2, vec![vec![i(k), i(0)]])); }
    add("pk-ge8rows", vec![t2()], big);
    v
}

// ------------------------------------------------------------------ random histories

fn gen_case(seed: u64) -> Case {
    let mut rng = Rng::new(seed);
    let acts = [None, Some(Act::Restrict), Some(Act::Cascade)];
    let shapes = check_shapes();
    // parent
    let mut p = if rng.chance(1, 5) { TableC { cpk: Some(vec![0, 1]), ..tbl("p", vec![c("id"), c("u"), c("a")]) } }
                else { tbl("p", vec![pkc("id"), if rng.chance(3, 5) { uq("u") } else { c("u") }, if rng.chance(1, 4) { nn("a") } else { c("a") }]) };
    if rng.chance(3, 5) {
        // CHECK on column `a` (index 2): shapes are written over column 1, so shift the column index
        let (_, k, _) = &shapes[rng.below(shapes.len() as u64) as usize];
        fn shift(e: &E) -> E { match e {
            E::Col(1) => E::Col(2), E::Col(2) => E::Col(1),
            E::Bin(op, a, b) => E::Bin(*op, Box::new(shift(a)), Box::new(shift(b))), E::Not(a) => E::Not(Box::new(shift(a))),
            E::Between(a, b, c, n) => E::Between(Box::new(shift(a)), Box::new(shift(b)), Box::new(shift(c)), *n),
            E::In(a, l, n) => E::In(Box::new(shift(a)), l.iter().map(shift).collect(), *n), o => o.clone() } }
        p.checks.push(CheckSpec { e: shift(&k.e), col: k.col.map(|_| 2) });
    }
    let mut schema = vec![p.clone()];
    // child
    if rng.chance(4, 5) {
        let to_u = p.cols[1].unique && rng.chance(1, 4);
        let mut ch = tbl("c", vec![pkc("id"), c("pid"), c("x"), c("y")]);
        if p.cpk.is_none() {
            ch.fks.push(fk(1, "p", if to_u { 1 } else { 0 }, if to_u { "u" } else { "id" }, *rng.pick(&acts), *rng.pick(&acts)));
            if rng.chance(1, 8) { ch.fks[0].table_level = true; }
        } else {
            ch.fks.push(FkSpec { cols: vec![1, 2], parent: "p".into(), pcols: vec![0, 1], pcol_names: vec!["id".into(), "u".into()], on_delete: *rng.pick(&acts), on_update: None, table_level: true });
        }
        if rng.chance(1, 3) { ch.uniques.push(vec![2, 3]); }
        if rng.chance(1, 4) { ch.cols[3].notnull = true; }
        schema.push(ch);
        if rng.chance(1, 3) { schema.push(TableC { fks: vec![fk(1, "c", 0, "id", *rng.pick(&acts), None)], ..tbl("g", vec![pkc("id"), c("cid")]) }); }
    }
    if rng.chance(1, 4) { schema.push(TableC { fks: vec![fk(1, "e", 0, "id", *rng.pick(&acts), None)], ..tbl("e", vec![pkc("id"), c("mgr"), uq("k")]) }); }
    // statements
    let n = 12 + rng.below(16) as usize;
    let mut stmts = vec![];
    let mut inserted: Vec<usize> = vec![0; schema.len()];
    let mut in_txn = false;
    let use_txn = rng.chance(1, 3);
    let val = |rng: &mut Rng, null_pct: u64| if rng.chance(null_pct, 100) { V::Null } else { V::Int(rng.range(0, 6)) };
    for _ in 0..n {
        let ti = rng.below(schema.len() as u64) as usize;
        let t = &schema[ti];
        let nc = t.cols.len();
        let wh = |rng: &mut Rng| -> Option<E> {
            match rng.below(6) {
                0 => None,
                1 => Some(bin(Op::Ge, col(0), lit(rng.range(1, 5)))),
                2 => Some(bin(Op::Eq, col(rng.below(nc as u64) as usize), lit(rng.range(0, 6)))),
                _ => Some(bin(Op::Eq, col(0), lit(rng.range(1, 6)))),
            }
        };
        let r = rng.below(100);
        if use_txn && r < 8 {
            if in_txn { stmts.push(if rng.chance(2, 3) { St::Rollback } else { St::Commit }); in_txn = false; } else { stmts.push(St::Begin); in_txn = true; }
        } else if r < 55 {
            let k = (match rng.below(6) { 0..=3 => 1, 4 => 2, _ => 3 }).min(7usize.saturating_sub(inserted[ti]));
            if k == 0 { continue; }
            inserted[ti] += k;
            let rows: Vec<Vec<V>> = (0..k).map(|_| (0..nc).map(|ci| if ci == 0 { if rng.chance(1, 25) { V::Null } else { V::Int(rng.range(1, 7)) } } else { val(&mut rng, 20) }).collect()).collect();
            stmts.push(St::Insert { t: t.name.clone(), cols: (0..nc).collect(), rows });
        } else if r < 78 {
            let ns = 1 + rng.below(2) as usize;
            let mut sets = vec![];
            for _ in 0..ns {
                let ci = rng.below(nc as u64) as usize;
                if sets.iter().any(|(x, _)| *x == ci) { continue; }
                let e = match rng.below(5) { 0 if ci == 0 => bin(Op::Add, col(ci), lit(rng.range(1, 10))), 1 => E::Lit(V::Null), _ => lit(rng.range(0, 7)) };
                sets.push((ci, e));
            }
            stmts.push(St::Update { t: t.name.clone(), sets, whr: wh(&mut rng) });
        } else if r < 97 {
            // DELETE on a table with a self-referencing FK dead-locks the engine (scenario fk-self-ref)
            if t.fks.iter().any(|f| f.parent == t.name) { continue; }
            stmts.push(St::Delete { t: t.name.clone(), whr: wh(&mut rng) });
        } else if !in_txn {
            stmts.push(St::Truncate { t: t.name.clone() });
        }
    }
    if in_txn { stmts.push(St::Rollback); }
    Case { name: format!("rand:{seed}"), schema, stmts }
}

// ------------------------------------------------------------------ running a case

fn engine_dump(dbh: &mut DbT, schema: &[TableC]) -> Result<Dump, String> {
    let mut d = vec![];
    for t in schema {
        match dbh.exec(&format!("SELECT * FROM {}", t.name)) {
            Out::Rows(rs) => d.push((t.name.clone(), rs.iter().map(|r| r.iter().map(|c| cell_to_val(c)).collect()).collect())),
            Out::Err(e) => return Err(format!("SELECT * FROM {}: {e}", t.name)),
            Out::Panic(p) => return Err(format!("SELECT * FROM {}: panic {p}", t.name)),
            o => return Err(format!("SELECT * FROM {}: {o:?}", t.name)),
        }
    }
    Ok(d)
}

fn sorted_cells(rows: &[Vec<V>]) -> Vec<String> {
    let mut v: Vec<String> = rows.iter().map(|r| r.iter().map(val_to_cell).collect::<Vec<_>>().join(",")).collect();
    v.sort();
    v
}

fn model_dump(model: &mut Model, schema: &[TableC]) -> Vec<(String, Vec<String>)> {
    schema.iter().map(|t| {
        let resp = model.ask(&format!("dump {}", t.name));
        let mut rows: Vec<String> = parse_model_rows(&resp).unwrap_or_default().iter().map(|r| r.join(",")).collect();
        rows.sort();
        (t.name.clone(), rows)
    }).collect()
}

fn load_model(model: &mut Model, dump: &Dump) {
    for (t, rows) in dump {
        let r = model.ask(&format!("load {} 1 ({})", t, rows.iter().map(|r| format!("({})", r.iter().map(|v| v.sx()).collect::<Vec<_>>().join(" "))).collect::<Vec<_>>().join(" ")));
        if r != "ok" { panic!("model load failed: {r}"); }
    }
}

fn engine_kind(msg: &str) -> &'static str {
    let m = msg.to_lowercase();
    if m.contains("not null") { "notnull" } else if m.contains("primary key") { "pk" } else if m.contains("unique") { "unique" }
    else if m.contains("check") { "check" } else if m.contains("foreign key") || m.contains("referenced") { "fk" }
    else if m.contains("key already exists") { "rowkey" } else { "other" }
}

struct Hctx { rolled_back: bool, in_txn: bool, cascaded: bool, updated: bool }

/// flags of a write statement (finite alphabet), specific to the constraint kind at stake;
/// `spurious` = the engine refused a write the reference accepts (history context can matter)
fn flags(schema: &[TableC], st: &St, kind: &str, pre: &Dump, h: &Hctx, check_ix: Option<usize>, spurious: bool) -> String {
    let mut f: Vec<String> = vec![];
    let tname = st.table().unwrap_or("");
    let t = match schema.iter().find(|t| t.name == tname) { Some(t) => t, None => return String::new() };
    let rows: Vec<Vec<V>> = pre.iter().find(|(n, _)| n == tname).map(|(_, r)| r.clone()).unwrap_or_default();
    let keyc: Vec<usize> = match kind {
        "pk" => t.pk_cols(),
        "unique" => t.unique_sets().into_iter().flatten().collect(),
        "fk-child" => t.fks.iter().flat_map(|f| f.cols.clone()).collect(),
        _ => vec![],
    };
    let (nulls_in_key, multi) = match st {
        St::Insert { cols, rows, .. } => (rows.iter().any(|r| cols.iter().zip(r).any(|(ci, v)| keyc.contains(ci) && *v == V::Null) || keyc.iter().any(|k| !cols.contains(k))), rows.len() > 1),
        St::Update { sets, whr, .. } => (sets.iter().any(|(ci, e)| keyc.contains(ci) && matches!(e, E::Lit(V::Null))), rows.iter().filter(|r| where_true(whr, r)).count() > 1),
        St::Delete { whr, .. } => (false, rows.iter().filter(|r| where_true(whr, r)).count() > 1),
        _ => (false, rows.len() > 1),
    };
    if nulls_in_key { f.push("null-in-key".into()); }
    let composite = match kind { "pk" => t.pk_cols().len() > 1, "unique" => t.uniques.iter().any(|u| u.len() > 1), k if k.starts_with("fk") => schema.iter().any(|x| x.fks.iter().any(|fk| fk.cols.len() > 1 && (x.name == tname || fk.parent == tname))), _ => false };
    if composite { f.push("composite".into()); }
    if kind.starts_with("fk") || kind.starts_with("post") {
        let refs: Vec<&FkSpec> = schema.iter().flat_map(|x| x.fks.iter()).filter(|fk| fk.parent == tname).collect();
        let casc = match st { St::Delete { .. } => refs.iter().any(|fk| fk.on_delete == Some(Act::Cascade)), St::Update { .. } => refs.iter().any(|fk| fk.on_update == Some(Act::Cascade)), _ => false };
        if casc && kind != "fk-child" { f.push("cascade".into()); }
        let noact = match st { St::Delete { .. } => refs.iter().any(|fk| fk.on_delete.is_none()), St::Update { .. } => refs.iter().any(|fk| fk.on_update.is_none()), _ => false };
        if noact && kind == "fk-parent" { f.push("no-action-clause".into()); }
        if schema.iter().any(|x| { let acts: Vec<Option<Act>> = x.fks.iter().filter(|fk| fk.parent == tname).map(|fk| match st { St::Update { .. } => fk.on_update, _ => fk.on_delete }).collect(); acts.windows(2).any(|w| w[0] != w[1]) }) && kind != "fk-child" { f.push("mixed-actions".into()); }
        if t.fks.iter().any(|fk| fk.parent == tname) { f.push("self-ref".into()); }
        if schema.iter().any(|x| x.fks.iter().any(|fk| fk.table_level && (x.name == tname || fk.parent == tname))) { f.push("table-level".into()); }
        if kind == "fk-child" && t.fks.iter().any(|fk| !fk.table_level && schema.iter().find(|x| x.name == fk.parent).map(|pt| !pt.cols[fk.pcols[0]].pk).unwrap_or(false)) { f.push("to-unique-col".into()); }
        if kind != "fk-child" && schema.iter().any(|x| x.fks.iter().any(|fk| fk.parent != tname && schema.iter().any(|y| y.name == fk.parent && y.name != x.name && y.fks.iter().any(|f2| f2.parent == tname)))) { f.push("two-level".into()); }
    }
    if multi && matches!(kind, "pk" | "unique" | "fk-parent") { f.push("multi-row".into()); }
    if kind == "check" {
        if let Some(ix) = check_ix { f.push(format!("shape={}", check_shape(&t.checks[ix]))); }
    }
    if matches!(st, St::Update { sets, .. } if sets.iter().any(|(_, e)| !matches!(e, E::Lit(_)))) && matches!(kind, "pk" | "unique") { f.push("set-expr".into()); }
    if matches!(kind, "pk" | "unique" | "fk-child" | "fk-parent") && (spurious || kind == "fk-child") {
        if h.rolled_back { f.push("after-rollback".into()); }
        if h.in_txn { f.push("in-txn".into()); }
        if h.cascaded { f.push("after-cascade".into()); }
        if h.updated && spurious && matches!(kind, "pk" | "unique") { f.push("after-update".into()); }
    }
    // a missed duplicate of a COMPOSITE key after an UPDATE earlier in the history: UPDATE does not maintain
    // composite-key indexes (listed defect), the uniqueness probe of a later INSERT then misses the moved row
    if !spurious && h.updated && composite && matches!(kind, "pk" | "unique") && matches!(st, St::Insert { .. }) { f.push("after-update".into()); }
    let maxrows = pre.iter().map(|(_, r)| r.len()).max().unwrap_or(0);
    if maxrows >= 8 { f.push("ge8rows".into()); }
    f.join(",")
}

/// would-be rows of the target table for INSERT / UPDATE (no referential actions), for CHECK attribution
fn would_be_rows(t: &TableC, st: &St, pre_rows: &[Vec<V>]) -> Vec<Vec<V>> {
    match st {
        St::Insert { cols, rows, .. } => rows.iter().map(|r| { let mut full = vec![V::Null; t.cols.len()]; for (ci, v) in cols.iter().zip(r) { full[*ci] = v.clone(); } full }).collect(),
        St::Update { sets, whr, .. } => pre_rows.iter().filter(|r| where_true(whr, r)).map(|r| { let mut n = r.clone(); for (ci, e) in sets { n[*ci] = eval3(e, r); } n }).collect(),
        _ => vec![],
    }
}

fn script_text(schema: &[TableC], stmts: &[St], upto: usize) -> String {
    let mut v: Vec<String> = schema.iter().map(|t| t.create_sql()).collect();
    for s in &stmts[..=upto.min(stmts.len() - 1)] { v.push(s.sql(schema)); }
    v.join("; ")
}

fn run_case(ctx: &Ctx, rep: &mut Report, model: &mut Model, case: &Case, tag: &str) {
    let mut dbh = DbT::create(ctx, &format!("c09-{tag}"));
    model.ask("reset");
    for t in &case.schema {
        match dbh.exec_limit(&t.create_sql(), 60) {
            Out::Err(e) => { rep.oracle_fail(case.name.clone(), format!("{}: {e}", t.create_sql()), "cons:ddl-rejected".into()); return; }
            Out::Panic(p) => { rep.oracle_fail(case.name.clone(), format!("{}: panic {p}", t.create_sql()), "cons:ddl-panic".into()); return; }
            _ => {}
        }
        let r = model.ask(&t.model_create());
        if r != "ok" { panic!("model create failed: {r}: {}", t.model_create()); }
    }
    let mut h = Hctx { rolled_back: false, in_txn: false, cascaded: false, updated: false };
    // rows deleted (tombstoned) per table since the last TRUNCATE, and the copy taken at BEGIN
    let mut grave: Vec<Vec<Vec<V>>> = vec![vec![]; case.schema.len()];
    let mut grave_at_begin = grave.clone();
    let mut pre = match engine_dump(&mut dbh, &case.schema) { Ok(d) => d, Err(e) => { rep.oracle_fail(case.name.clone(), e, "cons:dump-error".into()); return; } };
    let mut nontrivial = false;
    let random_layer = case.name.starts_with("rand:");
    for (si, st) in case.stmts.iter().enumerate() {
        let sql = st.sql(&case.schema);
        let ti = st.table().and_then(|n| case.schema.iter().position(|t| t.name == n));
        // UPDATE / DELETE whose WHERE also selects an already deleted row: the engine's scans do not
        // skip tombstones (C05's subject: the row is resurrected / deleted again); the random layer
        // leaves such statements out, the scenario `update-resurrects-deleted-row` exercises it
        if random_layer {
            if let (Some(ti), St::Update { whr, .. } | St::Delete { whr, .. }) = (ti, st) {
                if grave[ti].iter().any(|r| where_true(whr, r)) { rep.count("skipped_would_touch_tombstone"); continue; }
            }
        }
        rep.count(&format!("stmt_{}", st.kind()));
        let self_ref = case.schema.iter().any(|t| Some(t.name.as_str()) == st.table() && t.fks.iter().any(|f| f.parent == t.name));
        let out = dbh.exec_limit(&sql, if self_ref { 4 } else { 30 });
        let (got, emsg) = match &out { Out::Err(e) => ("err", e.clone()), Out::Panic(p) => ("panic", p.clone()), _ => ("ok", String::new()) };
        if dbh.hung {
            let kind = if case.schema.iter().any(|t| t.name == st.table().unwrap_or("") && t.fks.iter().any(|f| f.parent == t.name)) { "self-ref" } else { "" };
            rep.oracle_fail(case.name.clone(), format!("{} ;; the engine does not return from {sql} (time limit 4 s on self-referencing tables, 30 s otherwise; dead-lock)", script_text(&case.schema, &case.stmts, si)), format!("cons:hang:{}:{kind}", st.kind()));
            rep.count("history_ended_hang");
            break;
        }
        if !st.is_write() {
            let m = model.ask(&format!("stmt {}", st.sx()));
            match st { St::Begin => { if got == "ok" { h.in_txn = true; grave_at_begin = grave.clone(); } } St::Commit => h.in_txn = false, St::Rollback => { h.in_txn = false; h.rolled_back = true; grave = grave_at_begin.clone(); } _ => {} }
            if (got == "ok") != (m == "done") { rep.count("txn_stmt_outcome_differs"); }
            let post = match engine_dump(&mut dbh, &case.schema) { Ok(d) => d, Err(e) => { rep.oracle_fail(case.name.clone(), e, "cons:dump-error".into()); return; } };
            let md = model_dump(model, &case.schema);
            if post.iter().zip(&md).any(|((_, er), (_, mr))| sorted_cells(er) != *mr) {
                // undo log / isolation are C07's and C08's subject: resynchronise and go on
                rep.count(&format!("resync_after_{}", st.kind()));
                load_model(model, &post);
            }
            let viol = state_violations(&case.schema, &post);
            if !viol.is_empty() {
                let kinds: Vec<&str> = viol.iter().flat_map(|(_, k)| k.iter().cloned()).collect();
                rep.oracle_fail(case.name.clone(), format!("{} ;; after {sql} the tables violate {}", script_text(&case.schema, &case.stmts, si), show_viol(&viol)),
                    format!("cons:post-state-invalid:{}:{}:{}", kinds.join("+"), st.kind(), if h.rolled_back { "after-rollback" } else { "" }));
                break;
            }
            pre = post;
            continue;
        }
        // ---- a write: the reference's verdict on the would-be post-state
        let wb = model.ask(&format!("wouldbe {}", st.sx()));
        let mres = model.ask(&format!("stmt {}", st.sx()));
        let exp = if mres.starts_with("affected") { "ok" } else if mres == "err constraint" { "err" } else { "model-error" };
        if exp == "model-error" { rep.count(&format!("skipped_{}", mres.replace(' ', "_"))); load_model(model, &pre); // not a constraint case
            let post = engine_dump(&mut dbh, &case.schema).unwrap_or_default(); load_model(model, &post); pre = post; continue; }
        rep.count(&format!("ref_{}_{}", st.kind(), exp));
        if exp == "err" { nontrivial = true; }
        let post = match engine_dump(&mut dbh, &case.schema) { Ok(d) => d, Err(e) => { rep.oracle_fail(case.name.clone(), e, "cons:dump-error".into()); return; } };
        let tname = st.table().unwrap();
        let t = case.schema.iter().find(|t| t.name == tname).unwrap();
        let pre_rows: Vec<Vec<V>> = pre.iter().find(|(n, _)| n == tname).map(|(_, r)| r.clone()).unwrap_or_default();
        let post_rows: Vec<Vec<V>> = post.iter().find(|(n, _)| n == tname).map(|(_, r)| r.clone()).unwrap_or_default();
        if let Some(ti) = ti {
            match st {
                St::Delete { whr, .. } if got == "ok" => { for r in pre_rows.iter().filter(|r| where_true(whr, r)) { grave[ti].push(r.clone()); } }
                St::Truncate { .. } if got == "ok" => grave[ti].clear(),
                St::Update { .. } => { h.updated = true; }
                _ => {}
            }
        }
        if matches!(st, St::Update { .. }) && post_rows.len() > pre_rows.len() {
            rep.oracle_fail(case.name.clone(), format!("{} ;; the UPDATE brought {} deleted row(s) back: before {:?}, after {:?}", script_text(&case.schema, &case.stmts, si), post_rows.len() - pre_rows.len(), sorted_cells(&pre_rows), sorted_cells(&post_rows)),
                format!("cons:update-resurrects-deleted-rows:{}", if state_violations(&case.schema, &post).is_empty() { "state-valid" } else { "state-invalid" }));
            rep.count("history_ended_resurrection");
            break;
        }
        // ---- C06 (statement atomicity across tables): an Err-returning DELETE / UPDATE must leave every table as it was
        if got == "err" && matches!(st, St::Delete { .. } | St::Update { .. }) {
            let changed: Vec<String> = pre.iter().zip(&post).filter(|((_, a), (_, b))| sorted_cells(a) != sorted_cells(b)).map(|((n, _), _)| n.clone()).collect();
            rep.count("c06_failed_delete_update_statements");
            if !changed.is_empty() {
                rep.count("c06_failed_stmt_effect");
                let fl = flags(&case.schema, st, "fk-parent", &pre, &h, None, false);
                let own = changed.iter().any(|n| n == tname);
                rep.oracle_fail(case.name.clone(), format!("{} ;; {sql} returned an error ({emsg}) but changed table(s) {:?}: before {:?} after {:?}", script_text(&case.schema, &case.stmts, si), changed,
                    pre.iter().map(|(n, r)| (n.clone(), sorted_cells(r))).collect::<Vec<_>>(), post.iter().map(|(n, r)| (n.clone(), sorted_cells(r))).collect::<Vec<_>>()),
                    format!("c06:failed-stmt-effect:{}:{}:{fl}", st.kind(), if own { "own-table" } else { "child-tables-only" }));
            }
        }
        let mut reported = false;
        if exp != got {
            // which constraint is at stake
            let (kind, check_ix) = if exp == "err" {
                // kinds violated by the would-be state, per table
                let body = wb.strip_prefix("viol ").unwrap_or("");
                let mut kinds: Vec<(String, String)> = vec![];
                for part in body.split(';') { if let Some((tn, ks)) = part.split_once(':') { for k in ks.split(',') { kinds.push((tn.to_string(), k.to_string())); } } }
                let first = kinds.iter().min_by_key(|(_, k)| match k.as_str() { "notnull" => 0, "pk" => 1, "unique" => 2, "check" => 3, _ => 4 }).cloned().unwrap_or(("".into(), "unknown".into()));
                let k = if first.1 == "fk" {
                    let child_side = first.0 == tname && match st { St::Insert { .. } => true, St::Update { sets, .. } => t.fks.iter().any(|f| f.cols.iter().any(|c| sets.iter().any(|(s, _)| s == c))), _ => false };
                    if child_side { "fk-child".to_string() } else { "fk-parent".to_string() }
                } else { first.1.clone() };
                let cix = if k == "check" { would_be_rows(t, st, &pre_rows).iter().find_map(|r| failing_check(t, r)) } else { None };
                (k, cix)
            } else {
                let k = engine_kind(&emsg);
                let k2 = if k == "fk" { if matches!(st, St::Insert { .. }) || emsg.contains("referenced value not found") { "fk-child" } else { "fk-parent" } } else { k };
                let cix = if k2 == "check" { t.checks.iter().position(|c| c.col.map(|ci| emsg.contains(&format!("column '{}'", t.cols[ci].name))).unwrap_or(false)) } else { None };
                (k2.to_string(), cix)
            };
            let fl = flags(&case.schema, st, &kind, &pre, &h, check_ix, exp == "ok");
            rep.oracle_fail(case.name.clone(),
                format!("{} ;; reference: {} (would-be state: {wb}); engine: {got} {emsg}", script_text(&case.schema, &case.stmts, si), if exp == "ok" { "the write keeps every constraint satisfied -> must succeed" } else { "the write violates a constraint -> must be refused" }),
                format!("cons:{kind}:{}:{fl} exp={exp} got={got}", st.kind()));
            reported = true;
        }
        // ---- the engine's post-state, checked directly and through the model
        let viol = state_violations(&case.schema, &post);
        let md = model_dump(model, &case.schema);
        let differs = post.iter().zip(&md).any(|((_, er), (_, mr))| sorted_cells(er) != *mr);
        if differs { load_model(model, &post); }
        let mviol = model.ask("viol");
        if mviol != show_viol(&viol) {
            rep.disagree(case.name.clone(), format!("{} ;; harness checker says {}, model says {mviol}", script_text(&case.schema, &case.stmts, si), show_viol(&viol)), "cons-checker-vs-model".into());
        }
        let casc_involved = case.schema.iter().any(|x| x.fks.iter().any(|f| f.parent == tname && match st { St::Delete { .. } => f.on_delete == Some(Act::Cascade), St::Update { .. } => f.on_update == Some(Act::Cascade), _ => false }));
        if casc_involved && got == "ok" { h.cascaded = true; }
        if !viol.is_empty() {
            if !reported {
                let kinds: Vec<&str> = viol.iter().flat_map(|(_, k)| k.iter().cloned()).collect();
                let fl = flags(&case.schema, st, "post", &pre, &h, None, false);
                rep.oracle_fail(case.name.clone(), format!("{} ;; statement outcome {got} as expected, but afterwards the tables violate {}", script_text(&case.schema, &case.stmts, si), show_viol(&viol)),
                    format!("cons:post-state-invalid:{}:{}:{fl} got={got}", kinds.join("+"), st.kind()));
            }
            rep.count("history_ended_invalid_state");
            break;
        }
        if differs {
            if !reported && exp == "ok" && got == "ok" && casc_involved {
                let fl = flags(&case.schema, st, "post", &pre, &h, None, false);
                rep.oracle_fail(case.name.clone(), format!("{} ;; both succeed but the engine's tables differ from the reference's: engine {:?} reference {:?}", script_text(&case.schema, &case.stmts, si),
                    post.iter().map(|(n, r)| (n.clone(), sorted_cells(r))).collect::<Vec<_>>(), md), format!("cons:post-state-differs:{}:{fl}", st.kind()));
            } else {
                rep.count(&format!("resync_exp_{exp}_got_{got}"));
            }
        }
        pre = post;
    }
    rep.case(if nontrivial { Some(&case.name) } else { None });
}

// ------------------------------------------------------------------ M-code: the string CHECK evaluator

fn check_eval_phase(ctx: &Ctx, rng: &mut Rng, model: &mut Model, rep: &mut Report) {
    use turdb::{Database, OwnedValue};
    let mut exprs: Vec<String> = vec![
        "a > 0", "a >= 0 AND a <= 10", "a < 0 OR a > 10", "a = 5", "a != 5", "5 < a", "NOT a > 5", "a < 0 OR a > 10 AND a > 5", "a + 1 > 3", "a < b",
        "a > 1.5", "a >= -3", "(a > 0)", "((a > 0) AND (a < 10))", "(a > 0) AND (a < 10 OR a > 20)", "(a > 0 AND a < 10) OR a > 20", "a > 0 and a < 3 or a > 7 and a < 9",
        "A > 0", "a>0", "a >=0", "a > +3", "a > .5", "a > 5.", "a > -", "a >", "", "()", "(", ")", "a > 1) AND (a < 3", "b > 0", "ab > 3", "x > 3 AND a < 2",
        "a <= 9223372036854775807", "a >= 9223372036854775808", "a >= -9223372036854775808", "a < 2.25", "a > 1.2.3", "a  >  4", " a > 4 ", "a > 4 OR", "OR a > 4", "a > 4 OR  ",
        "a > 0 AND", "a > 3 ANDa < 5", "a > 3 AND(a < 5)", "(a > 3)AND (a < 5)", "((((a > 3))))", "a <> 5", "a >< 5", "a => 5", "a =< 5", "a < = 5", "3 < a AND a < 7",
    ].iter().map(|s| s.to_string()).collect();
    // nesting depth boundary: 30..34 pairs of parentheses
    for d in [29usize, 30, 31, 32, 33] { exprs.push(format!("{}a > 0{}", "(".repeat(d), ")".repeat(d))); }
    let atoms = ["a > 2", "a < 5", "a >= 0", "a <= 3", "a = 1", "b > 1", "a > 1.5", "7 > a", "a > -1"];
    let n = if ctx.thorough { 3000 } else { 400 };
    for _ in 0..n {
        fn build(rng: &mut Rng, atoms: &[&str], d: usize) -> String {
            if d == 0 || rng.chance(1, 3) { return atoms[rng.below(atoms.len() as u64) as usize].to_string(); }
            let l = build(rng, atoms, d - 1); let r = build(rng, atoms, d - 1);
            let op = *rng.pick(&[" AND ", " OR ", " and ", " Or "]);
            let s = format!("{l}{op}{r}");
            if rng.chance(1, 3) { format!("({s})") } else { s }
        }
        let d = 1 + rng.below(3) as usize;
        exprs.push(build(rng, &atoms, d));
    }
    let vals: Vec<(Option<OwnedValue>, String)> = vec![
        (None, "(null)".into()), (Some(OwnedValue::Null), "(null)".into()),
        (Some(OwnedValue::Int(-4)), "(int -4)".into()), (Some(OwnedValue::Int(-1)), "(int -1)".into()), (Some(OwnedValue::Int(0)), "(int 0)".into()), (Some(OwnedValue::Int(1)), "(int 1)".into()),
        (Some(OwnedValue::Int(2)), "(int 2)".into()), (Some(OwnedValue::Int(3)), "(int 3)".into()), (Some(OwnedValue::Int(4)), "(int 4)".into()), (Some(OwnedValue::Int(5)), "(int 5)".into()), (Some(OwnedValue::Int(8)), "(int 8)".into()),
        (Some(OwnedValue::Int(11)), "(int 11)".into()), (Some(OwnedValue::Int(25)), "(int 25)".into()), (Some(OwnedValue::Int(i64::MAX)), format!("(int {})", i64::MAX)), (Some(OwnedValue::Int(i64::MIN)), format!("(int {})", i64::MIN)),
        (Some(OwnedValue::Float(1.5)), "(flt 3 2)".into()), (Some(OwnedValue::Float(2.25)), "(flt 9 4)".into()), (Some(OwnedValue::Float(-0.5)), "(flt -1 2)".into()),
        (Some(OwnedValue::Text("5".into())), "(other)".into()), (Some(OwnedValue::Bool(true)), "(other)".into()),
    ];
    for e in &exprs {
        for (v, vsx) in &vals {
            let (e2, v2) = (e.clone(), v.clone());
            let got = match guarded(move || Database::verif_evaluate_check_expression(&e2, "a", v2.as_ref())) {
                Ok(Ok(true)) => "ok 1".to_string(), Ok(Ok(false)) => "ok 0".to_string(), Ok(Err(_)) => "err depth".to_string(), Err(p) => format!("panic {p}"),
            };
            let m = model.ask(&format!("checkeval {} {} {}", hex(e.as_bytes()), hex(b"a"), vsx));
            let case = format!("checkeval ;; expr={e:?} col=\"a\" value={vsx}");
            rep.case(if e.to_lowercase().contains(" and ") || e.to_lowercase().contains(" or ") { Some(&case) } else { None });
            rep.count(&format!("checkeval_{}", got.replace(' ', "_").chars().take(12).collect::<String>()));
            if got != m { rep.disagree(case, format!("engine {got}, M-code model {m}"), "checkeval-model".into()); }
        }
    }
}

/// ONE multi-row INSERT (VALUES / INSERT..SELECT) large enough to split the root of the PRIMARY KEY /
/// UNIQUE index in the middle of the statement, with a duplicate of a key that lies right of the
/// split among its last rows.  Whatever the statement returns, the table must not hold two rows with
/// the same key afterwards, and the statement must not report success.
fn bulk_unique_scenario(ctx: &Ctx, rep: &mut Report) {
    for (kind, ddl) in [("pk", "CREATE TABLE t (id INT PRIMARY KEY, v INT)"), ("unique", "CREATE TABLE t (k INT, id INT UNIQUE, v INT)")] {
        for via_select in [false, true] {
            let case = format!("bulk-unique {kind} {}", if via_select { "insert-select" } else { "values" });
            rep.case(Some(&case));
            rep.count("bulk_unique_scenarios");
            let mut dbh = DbT::create(ctx, &format!("c09-bulk-{kind}-{}", via_select as u8));
            if matches!(dbh.exec_limit(ddl, 60), Out::Err(_) | Out::Panic(_)) { rep.count("bulk_unique_setup_failed"); continue; }
            let n = 4000i64;
            let dup = 3900i64;
            let rowsql = |i: i64| if kind == "pk" { format!("({i}, {})", i % 7) } else { format!("({}, {i}, {})", i + 100_000, i % 7) };
            let sql = if via_select {
                let _ = dbh.exec_limit(if kind == "pk" { "CREATE TABLE src (id INT, v INT)" } else { "CREATE TABLE src (k INT, id INT, v INT)" }, 60);
                let mut ok = true;
                for chunk in (1..=n).collect::<Vec<_>>().chunks(500) {
                    let s = format!("INSERT INTO src VALUES {}", chunk.iter().map(|i| rowsql(*i)).collect::<Vec<_>>().join(", "));
                    if matches!(dbh.exec_limit(&s, 120), Out::Err(_) | Out::Panic(_)) { ok = false; }
                }
                let _ = dbh.exec_limit(&format!("INSERT INTO src VALUES {}", rowsql(dup)), 60);
                if !ok { rep.count("bulk_unique_setup_failed"); continue; }
                "INSERT INTO t SELECT * FROM src".to_string()
            } else {
                let mut rows: Vec<String> = (1..=n).map(rowsql).collect();
                rows.push(rowsql(dup));
                format!("INSERT INTO t VALUES {}", rows.join(", "))
            };
            let out = dbh.exec_limit(&sql, 300);
            let got = match &out { Out::Err(_) => "err", Out::Panic(_) => "panic", _ => "ok" };
            // full-row select (a non-prefix projection is a listed C14 defect)
            let keycol = if kind == "pk" { 0 } else { 1 };
            let ids: Vec<Vec<String>> = match dbh.exec_limit("SELECT * FROM t", 120) { Out::Rows(r) => r.into_iter().map(|row| vec![row.get(keycol).cloned().unwrap_or_default()]).collect(), o => { rep.oracle_fail(case.clone(), format!("SELECT * FROM t after the bulk INSERT: {o:?}"), format!("cons:{kind}:insert:bulk-root-split:scan-error")); continue; } };
            let mut seen = std::collections::BTreeMap::new();
            for r in &ids { *seen.entry(r.get(0).cloned().unwrap_or_default()).or_insert(0usize) += 1; }
            let dups: Vec<(String, usize)> = seen.into_iter().filter(|(_, c)| *c > 1).collect();
            if !dups.is_empty() {
                rep.oracle_fail(case.clone(), format!("one INSERT of {} rows with a duplicate of key {dup} among its last rows returned {got}; the table now holds duplicate keys {:?} ({} rows)", n + 1, &dups[..dups.len().min(3)], ids.len()),
                    format!("cons:{kind}:insert:bulk-root-split:duplicate-stored"));
            } else if got == "ok" {
                rep.oracle_fail(case.clone(), format!("one INSERT of {} rows containing key {dup} twice reported success ({} rows stored)", n + 1, ids.len()), format!("cons:{kind}:insert:bulk-root-split:accepted"));
            } else { rep.count("bulk_unique_ok"); }
        }
    }
}

pub fn run(ctx: &Ctx) -> Report {
    let mut rep = Report::new(
        "sql_cons",
        "systematic layer (every run): one scripted history per constraint kind x statement kind x situation (single/composite PK and UNIQUE with NULLs, \
         NOT NULL, 16 CHECK shapes x 14 boundary values x insert/update, FK child/parent side with absent/RESTRICT/CASCADE actions on delete and update, FK to a UNIQUE \
         column, table-level and composite FKs, self reference, two-level chains, TRUNCATE, BEGIN/ROLLBACK/COMMIT, delete-then-reinsert, multi-row statements, key updates); \
         random layer: schemas p/c/g/e with random constraint mix, 12-27 statements over a 0..6 value domain (frequent collisions, 20% NULLs), at most 7 inserted rows per table \
         (an index/table leaf with >= 8 cells trips the known AVX2 leaf-search defect, exercised separately by scenario pk-ge8rows). WHERE clauses are single comparisons (two-valued \
         engine logic, C14, does not change which rows such a filter keeps). plus the M-code correspondence of the string CHECK evaluator on ~500 expression strings x 20 values. \
         bulk layer: one 4001-row INSERT (VALUES and INSERT..SELECT) that splits the PRIMARY KEY / UNIQUE index root mid-statement and repeats a key right of the split - no duplicate key may be stored. non-trivial = history in which the reference refuses at least one write",
    );
    let mut rng = Rng::new(ctx.seed ^ 0xC09);
    let mut model = Model::spawn(&ctx.model_bin, "sqlcons");
    let sys = systematic();
    let mut n = 0;
    for line in ctx.corpus_cases("C09") {
        n += 1;
        if let Some(name) = line.strip_prefix("sys:") { if let Some(cs) = sys.iter().find(|c| c.name == name) { run_case(ctx, &mut rep, &mut model, &Case { name: line.clone(), schema: cs.schema.clone(), stmts: cs.stmts.clone() }, &format!("corpus{n}")); } }
        else if let Some(seed) = line.strip_prefix("rand:").and_then(|s| s.parse::<u64>().ok()) { run_case(ctx, &mut rep, &mut model, &gen_case(seed), &format!("corpus{n}")); }
    }
    let t0 = std::time::Instant::now();
    for (k, cs) in sys.iter().enumerate() {
        let cs2 = Case { name: format!("sys:{}", cs.name), schema: cs.schema.clone(), stmts: cs.stmts.clone() };
        run_case(ctx, &mut rep, &mut model, &cs2, &format!("sys{k}"));
    }
    let t_sys = t0.elapsed().as_secs_f64();
    let nr = if ctx.thorough { 4000 } else { 120 };
    for k in 0..nr {
        let seed = rng.next() >> 16;
        let cs = gen_case(seed);
        if k % 50 == 0 { rep.sample(format!("{}: {}", cs.name, script_text(&cs.schema, &cs.stmts, cs.stmts.len().saturating_sub(1)).chars().take(700).collect::<String>())); }
        run_case(ctx, &mut rep, &mut model, &cs, &format!("r{k}"));
    }
    let t_rand = t0.elapsed().as_secs_f64() - t_sys;
    if ctx.replay.is_none() { bulk_unique_scenario(ctx, &mut rep); }
    check_eval_phase(ctx, &mut rng, &mut model, &mut rep);
    rep.notes.push(format!("seconds: systematic {:.1}, random {:.1}, checkeval {:.1}", t_sys, t_rand, t0.elapsed().as_secs_f64() - t_sys - t_rand));
    rep.notes.push(format!("model requests: {}", model.requests));
    // partial effects of failed statements across tables are C06's subject (engine sql_dml_atomic runs this layer too)
    let n6 = strip_c06(&mut rep, false);
    if n6 > 0 { rep.count_n("other-property:c06-failed-stmt-effect", n6); }
    rep
}

/// keep (`keep = true`) or remove the `c06:` oracle failures of a report; returns how many there were
fn strip_c06(rep: &mut Report, keep: bool) -> u64 {
    let is6 = |f: &Finding| f.signature.starts_with("c06:");
    let n6 = rep.hist.get("c06_failed_stmt_effect").copied().unwrap_or(0);
    if keep { rep.oracle_failures.retain(|f| is6(f)); rep.n_oracle_failures = n6; rep.disagreements.clear(); rep.n_disagreements = 0; }
    else { rep.oracle_failures.retain(|f| !is6(f)); rep.n_oracle_failures = rep.n_oracle_failures.saturating_sub(n6); }
    n6
}

/// C06 layer: the FK scenarios and random multi-table histories of this engine, reporting ONLY
/// failed DELETE / UPDATE statements that changed some table (cascade applied before the refusal)
pub fn run_atomic_layer(ctx: &Ctx, out: &mut Report) {
    let mut rep = Report::new("sql_cons_atomic", "");
    let mut rng = Rng::new(ctx.seed ^ 0xC06C);
    let mut model = Model::spawn(&ctx.model_bin, "sqlcons");
    let sys = systematic();
    let mut n = 0;
    for line in ctx.corpus_cases("C06") {
        n += 1;
        if let Some(name) = line.strip_prefix("sys:") { if let Some(cs) = sys.iter().find(|c| c.name == name) { run_case(ctx, &mut rep, &mut model, &Case { name: line.clone(), schema: cs.schema.clone(), stmts: cs.stmts.clone() }, &format!("a6corpus{n}")); } }
        else if let Some(seed) = line.strip_prefix("rand:").and_then(|s| s.parse::<u64>().ok()) { run_case(ctx, &mut rep, &mut model, &gen_case(seed), &format!("a6corpus{n}")); }
    }
    if ctx.replay.is_some() {
        strip_c06(&mut rep, true);
        for f in rep.oracle_failures { out.oracle_fail(f.case, f.detail, f.signature); }
        return;
    }
    for (k, cs) in sys.iter().enumerate() {
        if !cs.name.starts_with("fk-") { continue; }
        let cs2 = Case { name: format!("sys:{}", cs.name), schema: cs.schema.clone(), stmts: cs.stmts.clone() };
        run_case(ctx, &mut rep, &mut model, &cs2, &format!("a6sys{k}"));
        out.count("multi-table:fk-scenarios");
    }
    let nr = if ctx.thorough { 1500 } else { 60 };
    for k in 0..nr {
        let cs = gen_case(rng.next() >> 16);
        run_case(ctx, &mut rep, &mut model, &cs, &format!("a6r{k}"));
        out.count("multi-table:random-histories");
    }
    strip_c06(&mut rep, true);
    out.count_n("multi-table:failed-delete-update-statements", rep.hist.get("c06_failed_delete_update_statements").copied().unwrap_or(0));
    out.evaluations += rep.hist.get("c06_failed_delete_update_statements").copied().unwrap_or(0);
    for f in rep.oracle_failures { out.oracle_fail(f.case, f.detail, f.signature); }
}
