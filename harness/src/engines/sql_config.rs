//! C42 (`sql_config`): query results do not depend on configuration – WAL on/off, synchronous
//! OFF/NORMAL/FULL, wal_autoflush on/off, checkpoint threshold 1/default, and a catalog with more
//! tables + indexes than the 64-entry open-file LRU of `src/storage/file_manager.rs` can keep open.
//!
//! Metamorphic, engine against itself (see sql_reopen.rs / sqlgen_cfg.rs): each generated history
//! runs on a baseline database (all defaults, WAL off, no extra tables) and in lock-step on a
//! variant database under one configuration of the cross product; after every statement the
//! statement result and the observation (columns, dump, COUNT(*), a lookup through every index)
//! are compared.  With extra tables the variant additionally creates 40 tables `xNN (id INT PRIMARY
//! KEY, v INT)` + 40 indexes (80+ files, more than 64) and `@touch` items update / look up (through the index
//! and by scan) generated subsets of them between the statements of the history, so that the LRU
//! must evict and re-open files all the time; the touched tables are checked against the values
//! the harness expects, all of them at the end.
//! A difference found under a multi-dimensional configuration is *localised*: the history is
//! re-run under each single dimension of that configuration; the signature names the first
//! dimension that reproduces it alone (`combo` if none does).
//! A second layer switches the WAL mid-history (`@var PRAGMA wal = OFF|ON`, variant only) and
//! inserts `PRAGMA wal_checkpoint`s: dimension `wal-switch`.
//!
//! LRU correspondence (M-code `Model/Lru.lean`, family `lru`): (1) the real
//! `turdb::storage::LruFileCache<u32, u64>` is driven with generated get / get_mut / insert /
//! remove / pop_lru / len sequences at capacities 1..9 and compared with the model after every
//! operation (return value, len) and at the end (full eviction order by draining with pop_lru);
//! (2) a real `FileManager` (capacity 8) over 20 tables + indexes is driven with table_data /
//! index_data / drop_index in generated orders; `open_file_count()` and the set of files that
//! are actually mapped (from /proc/self/maps) must equal the model's `len` / key set.
//!
//! Signatures: `config:<wal|synchronous|autoflush|threshold|files|wal-switch|combo>:<rows|count|
//! index|schema|autoinc|result|error|extra-files>[:qualifier]`; `lru:…` for the correspondence.
use crate::common::*;
use super::sql_reopen::sqlgen_cfg::*;
use turdb::storage::{FileManager, LruFileCache};

const EXTRA: usize = 40;

fn all_cfgs() -> Vec<Cfg> {
    let mut v = vec![];
    for wal in [false, true] {
        for sync in ["OFF", "NORMAL", "FULL"] {
            for af in [true, false] {
                for thr1 in [false, true] {
                    v.push(Cfg { wal, sync: Some(sync), autoflush: Some(af), thr1, extra: 0 });
                }
            }
        }
    }
    v
}

/// the single-dimension configurations contained in `c`
fn dimensions(c: &Cfg) -> Vec<(&'static str, Cfg)> {
    let b = Cfg::base();
    let mut v = vec![];
    if c.wal { v.push(("wal", Cfg { wal: true, ..b.clone() })); }
    if c.sync.is_some() { v.push(("synchronous", Cfg { sync: c.sync, ..b.clone() })); }
    if c.autoflush.is_some() { v.push(("autoflush", Cfg { autoflush: c.autoflush, ..b.clone() })); }
    if c.thr1 { v.push(("threshold", Cfg { thr1: true, wal: c.wal, ..b.clone() })); }
    if c.extra > 0 { v.push(("files", Cfg { extra: c.extra, ..b.clone() })); }
    v
}

struct Eng<'a> { ctx: &'a Ctx, rep: Report, stats: PairStats, n: u64 }

impl<'a> Eng<'a> {
    fn pair(&mut self, cv: &Cfg, items: &[Item]) -> Result<Option<Diff>, String> {
        self.n += 1;
        run_pair(self.ctx, &format!("c{}", self.n), &Cfg::base(), cv, items, 4, &mut self.stats)
    }
    fn run_case(&mut self, cv: &Cfg, items: &[Item], layer: &str) {
        let line = case_line(&cv.text(), items);
        self.rep.case(Some(&line));
        self.rep.count(&format!("layer_{layer}"));
        self.rep.count(&format!("cfg_wal_{}", if cv.wal { "on" } else { "off" }));
        self.rep.count(&format!("cfg_sync_{}", cv.sync.unwrap_or("default").to_lowercase()));
        self.rep.count(&format!("cfg_autoflush_{}", match cv.autoflush { None => "default", Some(true) => "on", Some(false) => "off" }));
        self.rep.count(&format!("cfg_threshold_{}", if cv.thr1 { "1" } else { "default" }));
        self.rep.count(&format!("cfg_extra_{}", cv.extra));
        let switched = items.iter().any(|i| matches!(i, Item::VarSql(_)));
        match self.pair(cv, items) {
            Err(e) => { self.rep.notes.push(format!("case could not run: {e}: {}", clip(&line))); self.rep.count("case_setup_error"); }
            Ok(None) => self.rep.count("case_agree"),
            Ok(Some(d)) => {
                self.rep.count("case_differs");
                // localise the dimension
                let mut dim = "combo";
                if switched { dim = "wal-switch"; }
                else {
                    let dims = dimensions(cv);
                    if dims.len() == 1 { dim = dims[0].0; }
                    else {
                        for (name, c1) in dims {
                            if let Ok(Some(d1)) = self.pair(&c1, items) { if d1.what == d.what { dim = name; break; } }
                        }
                    }
                }
                let op = match d.last_op { Some(o) if dim == "wal-switch" || dim == "threshold" => format!(":after-{o}"), _ => String::new() };
                self.rep.oracle_fail(line.clone(), d.detail.clone(), format!("config:{dim}:{}{}{}{}", d.what, d.quals().replace(":wal-switched", ""), op, if d.op_in_txn { ":in-txn" } else { "" }));
            }
        }
        if self.n % 23 == 1 { self.rep.sample(clip(&line)); }
    }
}

fn with_touches(rng: &mut Rng, hist: &[GStmt]) -> Vec<Item> {
    // touches only between transactions (a ROLLBACK of the history would undo them)
    let mut items = vec![];
    let mut sweep_at = None;
    for (i, st) in hist.iter().enumerate() {
        items.push(st.item());
        if st.in_txn { continue; }
        if sweep_at.is_none() && i >= hist.len() / 2 { sweep_at = Some(items.len()); }
        if rng.chance(1, 2) {
            let n = 1 + rng.below(12) as usize;
            items.push(Item::Touch((0..n).map(|_| rng.below(EXTRA as u64) as usize).collect()));
        }
    }
    // a full sweep in a generated order: more distinct files than the LRU holds
    let mut all: Vec<usize> = (0..EXTRA).collect();
    for i in (1..all.len()).rev() { let j = rng.below(i as u64 + 1) as usize; all.swap(i, j); }
    let at = sweep_at.unwrap_or(items.len());
    items.insert(at, Item::Touch(all));
    items
}

pub fn run(ctx: &Ctx) -> Report {
    let rep = Report::new(
        "sql_config",
        "a case = (history, configuration); baseline (defaults) and variant run in lock-step, compared after every item \
         (statement result, columns, SELECT *, COUNT(*), index lookups; next AUTO_INCREMENT at the end). Every run covers \
         all 24 points of {WAL on/off} x {synchronous OFF/NORMAL/FULL} x {wal_autoflush on/off} x {threshold 1/default} \
         (each generated history is run under a slice of the cross product) and combines {40 extra tables+indexes} with a \
         rotating subset of them (quick: 8 runs, thorough: 600); \
         variants with extra tables interleave @touch items (update + index lookup + scan of generated subsets of the \
         80+ extra files, one full sweep) so that the 64-entry open-file LRU evicts continuously. wal-switch layer: the \
         variant switches the WAL off/on mid-history and runs PRAGMA wal_checkpoint. Histories never update an indexed \
         column (secondary indexes are not maintained by UPDATE: another property's defect). LRU correspondence: \
         LruFileCache<u32,u64> op sequences at capacities 1..9 and a real FileManager (capacity 8, 40 files) against \
         Model/Lru.lean, incl. the set of mapped files from /proc/self/maps.",
    );
    let mut e = Eng { ctx, rep, stats: PairStats { steps: 0, maint: 0, reopen: 0 }, n: 0 };
    let mut rng = Rng::new(ctx.seed ^ 0xC42);
    let t0 = std::time::Instant::now();
    let layers = std::env::var("VERIF_LAYERS").unwrap_or_else(|_| "corpus,lru,cross,switch".into());

    for c in ctx.corpus_cases("C42") {
        if let Some((head, items)) = parse_case(&c) {
            if let Some(cv) = Cfg::parse(&head) { e.run_case(&cv, &items, "corpus"); continue; }
        }
        e.rep.notes.push(format!("unparsable corpus line: {}", clip(&c)));
    }

    if layers.contains("lru") { lru_corr(ctx, &mut e.rep, &mut rng); }
    e.rep.notes.push(format!("lru correspondence done at {:.1}s", t0.elapsed().as_secs_f64()));

    if layers.contains("cross") {
        // ---- cross product: 48 configurations spread over the histories
        let cfgs = all_cfgs();
        let nhist = if ctx.thorough { 100 } else { 8 };
        let per = if ctx.thorough { 24 } else { 6 };
        // the `files` dimension (40 extra tables + 40 indexes + their primary-key structures: more
        // files than the 64-entry LRU) is combined with `nx` of the 24 pragma configurations per
        // history (rotating with the seed), it costs ~250 extra statements per database
        let nx = if ctx.thorough { 6 } else { 1 };
        let mut next = (ctx.seed as usize * 5) % cfgs.len();
        for _ in 0..nhist {
            let len = 8 + rng.below(16) as usize;
            let hist = HistGen::history(&mut rng, len);
            let plain: Vec<Item> = hist.iter().map(|s| s.item()).collect();
            let touched = with_touches(&mut rng, &hist);
            for _ in 0..per {
                let cv = cfgs[next % cfgs.len()].clone();
                next += 1;
                e.run_case(&cv, &plain, "cross");
            }
            for j in 0..nx {
                let mut cv = cfgs[(next * 7 + j * 5) % cfgs.len()].clone();
                cv.extra = EXTRA;
                e.run_case(&cv, &touched, "cross");
            }
        }
    }
    e.rep.notes.push(format!("cross product done at {:.1}s", t0.elapsed().as_secs_f64()));

    if layers.contains("switch") {
        // ---- systematic: the scripted history of sql_reopen with the WAL switched off / on at fixed points
        let sc = super::sql_reopen::script();
        for (off_at, ckpt_at) in [(4usize, 7usize), (4, 12), (6, 21)] {
            let mut items = vec![];
            for (i, s) in sc.iter().enumerate() {
                items.push(Item::Sql(s.to_string()));
                if i == off_at { items.push(Item::VarSql("PRAGMA wal = OFF".into())); }
                if i == ckpt_at { items.push(Item::Maint(Maint::PragmaCkpt)); }
            }
            e.run_case(&Cfg { wal: true, ..Cfg::base() }, &items, "switch");
        }
        // ---- random WAL switching
        let nhist = if ctx.thorough { 60 } else { 4 };
        for _ in 0..nhist {
            let len = 10 + rng.below(16) as usize;
            let hist = HistGen::history(&mut rng, len);
            let mut items = vec![];
            let mut on = true;
            for st in &hist {
                items.push(st.item());
                if !st.in_txn && rng.chance(1, 5) { on = !on; items.push(Item::VarSql(format!("PRAGMA wal = {}", if on { "ON" } else { "OFF" }))); }
                if !st.in_txn && rng.chance(1, 6) { items.push(Item::Maint(Maint::PragmaCkpt)); }
            }
            e.run_case(&Cfg { wal: true, thr1: rng.chance(1, 2), ..Cfg::base() }, &items, "switch");
        }
    }
    let (steps, n) = (e.stats.steps, e.n);
    e.rep.count_n("observation_points", steps);
    e.rep.notes.push(format!("{n} lock-step pairs, {steps} observation points, {:.1}s", t0.elapsed().as_secs_f64()));
    e.rep
}

// ---------------------------------------------------------------- LRU correspondence

fn mapped_files(dir: &str) -> Vec<String> {
    let mut v = vec![];
    if let Ok(s) = std::fs::read_to_string("/proc/self/maps") {
        for l in s.lines() {
            if let Some(p) = l.split_whitespace().last() {
                if p.starts_with(dir) && (p.ends_with(".tbd") || p.ends_with(".idx")) {
                    let name = p.rsplit('/').next().unwrap_or("").to_string();
                    if !v.contains(&name) { v.push(name); }
                }
            }
        }
    }
    v.sort();
    v
}

fn lru_corr(ctx: &Ctx, rep: &mut Report, rng: &mut Rng) {
    // (1) LruFileCache<u32, u64> against the model, step by step
    let nseq = if ctx.thorough { 4000 } else { 300 };
    let mut batch: Vec<(usize, Vec<String>, Vec<String>)> = vec![];
    for si in 0..nseq {
        let cap = 1 + (si % 9) as usize;
        let nkeys = cap as u64 + 1 + rng.below(4);
        let len = 5 + rng.below(60) as usize;
        let mut reqs = vec![format!("new {cap}")];
        let mut got: Vec<String> = vec!["ok".into()];
        let mut c: LruFileCache<u32, u64> = LruFileCache::new(cap);
        let mut stamp = 100u64;
        for _ in 0..len {
            let k = rng.below(nkeys) as u32;
            match rng.below(12) {
                0..=3 => { reqs.push(format!("get {k}")); got.push(match c.get(&k) { Some(v) => format!("some {v}"), None => "none".into() }); }
                4 => { reqs.push(format!("getmut {k}")); got.push(match c.get_mut(&k) { Some(v) => format!("some {v}"), None => "none".into() }); }
                5..=8 => { stamp += 1; reqs.push(format!("ins {k} {stamp}")); got.push(match c.insert(k, stamp) { Some((ek, ev)) => format!("evict {ek} {ev}"), None => "none".into() }); }
                9 => { reqs.push(format!("rm {k}")); got.push(match c.remove(&k) { Some(v) => format!("some {v}"), None => "none".into() }); }
                10 => { reqs.push("pop".into()); got.push(match c.pop_lru() { Some((ek, ev)) => format!("evict {ek} {ev}"), None => "none".into() }); }
                _ => { reqs.push("len".into()); got.push(format!("{}", c.len())); }
            }
            rep.count("lru_ops");
        }
        reqs.push("len".into());
        got.push(format!("{}", c.len()));
        // drain: the full recency order
        reqs.push("drain".into());
        let mut order = vec![];
        while let Some((k, v)) = c.pop_lru() { order.push(format!("{k}:{v}")); }
        got.push(if order.is_empty() { "-".into() } else { order.join(",") });
        batch.push((cap, reqs, got));
    }
    let all: Vec<String> = batch.iter().flat_map(|b| b.1.iter().cloned()).collect();
    let all_resp = model_batch(&ctx.model_bin, "lru", &all);
    let mut off = 0;
    for (si, (cap, reqs, got)) in batch.iter().enumerate() {
        let cap = *cap;
        let resp = &all_resp[off..off + reqs.len()];
        off += reqs.len();
        let case = format!("lru {}", reqs.join(" ; "));
        rep.case(Some(&case));
        rep.count(&format!("lru_cap_{cap}"));
        if si % 97 == 0 { rep.sample(clip(&case)); }
        for (i, (m, g)) in resp.iter().zip(got.iter()).enumerate() {
            if m != g {
                rep.disagree(case.clone(), format!("op {i} `{}`: impl {g}, model {m}", reqs[i]), format!("lru:cache:{}", reqs[i].split(' ').next().unwrap_or("")));
                break;
            }
        }
        // property oracle on the implementation: never more than `cap` entries at any `len`
        for (r, g) in reqs.iter().zip(got.iter()) {
            if r == "len" { if let Ok(n) = g.parse::<usize>() { if n > cap { rep.oracle_fail(case.clone(), format!("len {n} > capacity {cap}"), "lru:len-exceeds-capacity".into()); } } }
        }
    }

    // (2) the real FileManager, capacity 8 (the minimum), 20 tables + 20 indexes
    let nfm = if ctx.thorough { 40 } else { 4 };
    for fi in 0..nfm {
        let dir = format!("{}/fm-{}-{}", ctx.scratch, fi, std::process::id());
        let _ = std::fs::remove_dir_all(&dir);
        let r = guarded({
            let dir = dir.clone();
            let mut rng2 = rng.fork();
            move || -> Result<(Vec<String>, Vec<String>), String> {
                let mut fm = FileManager::create(&dir, 8).map_err(|e| format!("{e:#}"))?;
                let nt = 20usize;
                for i in 0..nt {
                    fm.create_table("root", &format!("t{i:02}"), i as u64 + 1, 2).map_err(|e| format!("{e:#}"))?;
                    fm.create_index("root", &format!("t{i:02}"), &format!("i{i:02}"), 100 + i as u64, i as u64 + 1, 1, false).map_err(|e| format!("{e:#}"))?;
                }
                // key numbering shared with the model: table i -> i, index i -> 100 + i
                let mut reqs = vec![format!("new {}", fm.max_open_files())];
                let mut got = vec!["ok".to_string()];
                let mut dropped = vec![false; nt];
                for _ in 0..(60 + rng2.below(120)) {
                    let i = rng2.below(nt as u64) as usize;
                    match rng2.below(10) {
                        0..=4 => { let h = fm.table_data("root", &format!("t{i:02}")).map_err(|e| format!("{e:#}"))?; drop(h); reqs.push(format!("fetch {i}")); }
                        5..=8 => {
                            if dropped[i] { continue; }
                            let h = fm.index_data("root", &format!("t{i:02}"), &format!("i{i:02}")).map_err(|e| format!("{e:#}"))?; drop(h); reqs.push(format!("fetch {}", 100 + i));
                        }
                        _ => {
                            if dropped[i] { continue; }
                            fm.drop_index("root", &format!("t{i:02}"), &format!("i{i:02}")).map_err(|e| format!("{e:#}"))?; dropped[i] = true; reqs.push(format!("drop {}", 100 + i));
                        }
                    }
                    let files = mapped_files(&dir).iter().map(|f| {
                        if let Some(r) = f.strip_suffix(".tbd") { r[1..].parse::<usize>().unwrap_or(999) }
                        else { 100 + f.split('_').last().and_then(|x| x.strip_suffix(".idx")).and_then(|x| x[1..].parse::<usize>().ok()).unwrap_or(899) }
                    }).collect::<Vec<_>>();
                    let mut files = files; files.sort();
                    got.push(format!("{} [{}]", fm.open_file_count(), files.iter().map(|x| x.to_string()).collect::<Vec<_>>().join(",")));
                }
                Ok((reqs, got))
            }
        });
        let _ = std::fs::remove_dir_all(&dir);
        match r {
            Ok(Ok((reqs, got))) => {
                let resp = model_batch(&ctx.model_bin, "lru", &reqs);
                let case = format!("fm {}", reqs.join(" ; "));
                rep.case(Some(&case));
                rep.count("lru_filemanager_runs");
                rep.count_n("lru_filemanager_ops", reqs.len() as u64 - 1);
                for (i, (m, g)) in resp.iter().zip(&got).enumerate() {
                    if m != g {
                        rep.disagree(case.clone(), format!("op {i} `{}`: FileManager open_file_count [mapped files] = {g}, model len [keys] = {m}", reqs[i]), "lru:filemanager:open-set".into());
                        break;
                    }
                    if let Some(n) = g.split(' ').next().and_then(|x| x.parse::<usize>().ok()) { if n > 8 { rep.oracle_fail(case.clone(), format!("{n} files open with max_open_files = 8"), "lru:len-exceeds-capacity".into()); } }
                }
            }
            Ok(Err(e)) => rep.oracle_fail(format!("fm run {fi}"), format!("FileManager call failed: {e}"), "lru:filemanager:error".into()),
            Err(p) => rep.oracle_fail(format!("fm run {fi}"), format!("FileManager panicked: {p}"), "lru:filemanager:panic".into()),
        }
    }
}
