//! C36: PageLockManager under controlled interleavings vs the Lean LTS model `TurVerif.PageLocks`,
//! with occupancy monitors (writers / readers per page) evaluated on the real lock manager.
use crate::common::*;
use crate::sched::*;
use std::sync::atomic::{AtomicI64, AtomicU64, Ordering};
use std::sync::Arc;
use std::time::Duration;
use turdb::database::page_locks::PageLockManager;

#[derive(Clone, Debug)]
enum Op { Read(u32), Write(u32) }

fn progs_sx(progs: &[Vec<Op>]) -> String {
    progs.iter().map(|p| format!("({})", p.iter().map(|o| match o { Op::Read(p) => format!("(r {p})"), Op::Write(p) => format!("(w {p})") }).collect::<Vec<_>>().join(" "))).collect::<Vec<_>>().join(" ")
}

const NPAGES: usize = 16;

struct Monitor {
    writers: Vec<AtomicI64>,
    readers: Vec<AtomicI64>,
    two_writers: AtomicU64,
    writer_with_reader: AtomicU64,
}

struct Outcome { steps: usize, two_writers: u64, writer_with_reader: u64, disagreement: Option<String>, finished: bool, entries_left: usize, stuck: bool }

fn run_case(ctx: &Ctx, progs: &[Vec<Op>], forced: Option<&[usize]>, rng: &mut Rng, model: &mut Model) -> Outcome {
    let _ = ctx;
    let mgr = Arc::new(PageLockManager::new());
    let mon = Arc::new(Monitor {
        writers: (0..NPAGES).map(|_| AtomicI64::new(0)).collect(),
        readers: (0..NPAGES).map(|_| AtomicI64::new(0)).collect(),
        two_writers: AtomicU64::new(0),
        writer_with_reader: AtomicU64::new(0),
    });
    let n = progs.len();
    let sched = Sched::new(n);
    let mut handles = vec![];
    for (tid, prog) in progs.iter().enumerate() {
        let mgr = mgr.clone();
        let mon = mon.clone();
        let prog = prog.clone();
        handles.push(sched.spawn(tid, move || {
            for (k, op) in prog.iter().enumerate() {
                if k > 0 { turdb::verif_hooks::yield_point("idle"); }
                match op {
                    Op::Write(p) => {
                        let g = mgr.page_write(1, *p);
                        let pi = *p as usize % NPAGES;
                        let w = mon.writers[pi].fetch_add(1, Ordering::SeqCst);
                        if w != 0 { mon.two_writers.fetch_add(1, Ordering::SeqCst); }
                        if mon.readers[pi].load(Ordering::SeqCst) != 0 { mon.writer_with_reader.fetch_add(1, Ordering::SeqCst); }
                        turdb::verif_hooks::yield_point("hold");
                        mon.writers[pi].fetch_sub(1, Ordering::SeqCst);
                        drop(g);
                    }
                    Op::Read(p) => {
                        let g = mgr.page_read(1, *p);
                        let pi = *p as usize % NPAGES;
                        mon.readers[pi].fetch_add(1, Ordering::SeqCst);
                        if mon.writers[pi].load(Ordering::SeqCst) != 0 { mon.writer_with_reader.fetch_add(1, Ordering::SeqCst); }
                        turdb::verif_hooks::yield_point("hold");
                        mon.readers[pi].fetch_sub(1, Ordering::SeqCst);
                        drop(g);
                    }
                }
            }
        }));
    }
    sched.settle(Duration::from_secs(5));
    let r = model.ask(&format!("init 1 {}", progs_sx(progs)));
    assert_eq!(r, "ok");
    let mut out = Outcome { steps: 0, two_writers: 0, writer_with_reader: 0, disagreement: None, finished: false, entries_left: 0, stuck: false };
    let mut waiting: Vec<bool> = vec![false; n];
    let mut fi = 0;
    while out.steps < 3000 {
        // threads that were parked inside lock.read()/write() and have since been granted the lock
        // by parking_lot: mirror the wake-up in the model (it must be enabled there)
        let states = sched.states();
        for tid in 0..n {
            if waiting[tid] {
                if let TState::Parked(site) = &states[tid] {
                    waiting[tid] = false;
                    let m = model.ask(&format!("step {tid}"));
                    if (!m.starts_with("pc held") || *site != "hold") && out.disagreement.is_none() {
                        out.disagreement = Some(format!("thread {tid} obtained the lock after waiting (site {site}); model: {m}"));
                    }
                }
            }
        }
        let runnable = sched.runnable();
        if runnable.is_empty() {
            if waiting.iter().any(|b| *b) {
                // only waiters are left: the lock must hand over to one of them
                let t0 = std::time::Instant::now();
                while sched.runnable().is_empty() && t0.elapsed() < Duration::from_secs(3) { std::thread::sleep(Duration::from_millis(2)); }
                if sched.runnable().is_empty() { out.stuck = true; break; }
                continue;
            }
            break;
        }
        let tid = match forced {
            Some(f) if fi < f.len() => { let t = f[fi]; fi += 1; if !runnable.contains(&t) { continue; } t }
            _ => *rng.pick(&runnable),
        };
        let will_block = model.ask(&format!("willblock {tid}")) == "1";
        let mut res = sched.step(tid, if will_block { Duration::from_millis(60) } else { Duration::from_secs(10) });
        // the unlock site sits between `hold` and `release`: it belongs to the same model step
        if let StepResult::Parked(site) = res {
            if site == "pagelock.unlock_read" || site == "pagelock.unlock_write" { res = sched.step(tid, Duration::from_secs(10)); }
        }
        out.steps += 1;
        let m = model.ask(&format!("step {tid}"));
        match &res {
            StepResult::Blocked => {
                waiting[tid] = true;
                if !m.starts_with("pc waiting") && out.disagreement.is_none() {
                    out.disagreement = Some(format!("step {}: thread {tid} is blocked in the real lock but the model step gave: {m}", out.steps));
                }
            }
            StepResult::Parked(site) => {
                let expect = match *site { "pagelock.get_or_create" => "get_or_create", "pagelock.acquire_read" | "pagelock.acquire_write" => "acquire", "hold" => "held", "pagelock.release" => "release", "pagelock.cleanup.map_lock" => "cleanup", "idle" => "idle", o => o };
                if !m.starts_with(&format!("pc {expect} ")) && out.disagreement.is_none() {
                    out.disagreement = Some(format!("step {}: thread {tid} parked at {site}, model says: {m}", out.steps));
                }
            }
            StepResult::Finished => {
                if !m.starts_with("pc idle ") && out.disagreement.is_none() {
                    out.disagreement = Some(format!("step {}: thread {tid} finished, model says: {m}", out.steps));
                }
            }
            StepResult::NotRunnable => {}
        }
        // an unlock with threads queued in the RwLock: let the hand-over happen before the next grant
        if m.starts_with("pc release") && waiting.iter().any(|b| *b) {
            let t0 = std::time::Instant::now();
            loop {
                let st = sched.states();
                if (0..n).any(|i| waiting[i] && matches!(st[i], TState::Parked(_))) { break; }
                if t0.elapsed() > Duration::from_millis(1500) { break; }
                std::thread::sleep(Duration::from_millis(1));
            }
            std::thread::sleep(Duration::from_millis(4));
        }
        // number of entries in the lock table
        if let Some(ms) = m.split(" map ").nth(1).and_then(|r| r.split(' ').next()).and_then(|x| x.parse::<usize>().ok()) {
            let real = mgr.verif_page_entry_count();
            if real != ms && out.disagreement.is_none() {
                out.disagreement = Some(format!("step {}: lock table has {real} entries, model has {ms} ({m})", out.steps));
            }
        }
    }
    out.finished = sched.all_finished();
    sched.shutdown();
    for h in handles { let _ = h.join(); }
    out.two_writers = mon.two_writers.load(Ordering::SeqCst);
    out.writer_with_reader = mon.writer_with_reader.load(Ordering::SeqCst);
    out.entries_left = mgr.verif_page_entry_count();
    out
}

pub fn run(ctx: &Ctx) -> Report {
    let mut rep = Report::new(
        "pagelocks",
        "2-4 threads, each 1-3 page_read/page_write acquisitions (guard held across one yield) on 1-2 pages, interleaved at the \
         yield points of page_locks.rs (get_or_create, rw acquire, force_unlock, entry.release, cleanup under the map lock) by the \
         forced Lean counterexample schedule or a seeded random scheduler; the model predicts whether an acquire must wait; a predicted wait is confirmed by a 60 ms no-progress window \
         on the real thread, and a later hand-over by the real RwLock must be an enabled wake-up in the model; after every step the parked site and the lock-table size are compared \
         with the model; monitors count simultaneous writers / writer+reader on the real lock manager. \
         non-trivial = distinct case with >= 2 threads touching the same page with at least one writer",
    );
    let mut rng = Rng::new(ctx.seed);
    let mut model = Model::spawn(&ctx.model_bin, "pagelocks");

    // forced replay of Props/C36.lean `stale_cleanup_counterexample`
    {
        let progs = vec![vec![Op::Write(7), Op::Write(7)], vec![Op::Write(7)], vec![Op::Write(7)]];
        let sched = [0, 0, 0, 0, 0, 1, 1, 1, 1, 1, 0, 0, 0, 0, 1, 2, 2, 2];
        let o = run_case(ctx, &progs, Some(&sched), &mut rng, &mut model);
        let case = format!("forced progs={} sched={:?}", progs_sx(&progs), sched);
        rep.case(Some(&case));
        rep.sample(format!("{case} -> two_writers={} finished={}", o.two_writers, o.finished));
        if let Some(d) = &o.disagreement { rep.disagree(case.clone(), d.clone(), "pagelock-step".into()); }
        if o.two_writers > 0 {
            rep.oracle_fail(case, format!("{} times a second thread obtained the write lock of page 7 while another held it", o.two_writers), "pagelock:two-writers:stale-cleanup".into());
        } else {
            rep.notes.push("forced schedule of C36.stale_cleanup_counterexample: no second writer on the current code (defect fixed by /repo f641426; the model runs with fixed = true)".into());
        }
    }

    let ncases = if ctx.thorough { 3000 } else { 250 };
    for _ in 0..ncases {
        let nthreads = 2 + rng.below(3) as usize;
        let npages = 1 + rng.below(2) as u32;
        let mut progs = vec![];
        for _ in 0..nthreads {
            let nops = 1 + rng.below(3) as usize;
            progs.push((0..nops).map(|_| { let p = 7 + rng.below(npages as u64) as u32; if rng.chance(3, 5) { Op::Write(p) } else { Op::Read(p) } }).collect::<Vec<_>>());
        }
        let o = run_case(ctx, &progs, None, &mut rng, &mut model);
        let case = format!("random progs={} seed={}", progs_sx(&progs), ctx.seed);
        let has_writer = progs.iter().flatten().any(|o| matches!(o, Op::Write(_)));
        rep.case(if has_writer { Some(&case) } else { None });
        rep.count(&format!("threads_{nthreads}"));
        rep.count_n("granted_steps", o.steps as u64);
        if o.stuck { rep.count("stuck"); }
        if rep.evaluations % 41 == 0 { rep.sample(format!("{case} -> steps {} finished {}", o.steps, o.finished)); }
        if let Some(d) = o.disagreement { rep.disagree(case.clone(), d, "pagelock-step".into()); }
        if o.two_writers > 0 { rep.oracle_fail(case.clone(), format!("two simultaneous writers ({}x)", o.two_writers), "pagelock:two-writers:stale-cleanup".into()); }
        if o.writer_with_reader > 0 { rep.oracle_fail(case.clone(), format!("writer coexists with reader ({}x)", o.writer_with_reader), "pagelock:writer-with-reader:stale-cleanup".into()); }
        if o.stuck { rep.oracle_fail(case.clone(), "a thread stayed blocked although every other thread finished".into(), "pagelock:stuck-acquire".into()); }
        if o.finished && o.entries_left != 0 { rep.oracle_fail(case, format!("{} lock entries left after all guards were dropped", o.entries_left), "pagelock:table-not-empty".into()); }
    }
    rep
}
