//! C36: PageLockManager under controlled interleavings vs the Lean LTS model `TurVerif.PageLocks`,
//! with occupancy monitors (writers / readers per page) evaluated on the real lock manager.
use crate::common::*;
use crate::sched::*;
use std::sync::atomic::{AtomicI64, AtomicU64, Ordering};
use std::sync::Arc;
use std::time::Duration;
use turdb::database::page_locks::PageLockManager;

#[derive(Clone, Debug)]
enum Op { Read(u32), Write(u32) }

fn progs_sx(progs: &[Vec<Op>]) -> String {
    progs.iter().map(|p| format!("({})", p.iter().map(|o| match o { Op::Read(p) => format!("(r {p})"), Op::Write(p) => format!("(w {p})") }).collect::<Vec<_>>().join(" "))).collect::<Vec<_>>().join(" ")
}

const NPAGES: usize = 16;

struct Monitor {
    writers: Vec<AtomicI64>,
    readers: Vec<AtomicI64>,
    two_writers: AtomicU64,
    writer_with_reader: AtomicU64,
}

struct Outcome { interior: u64, probes: u64, non_atomic: Option<String>, steps: usize, two_writers: u64, writer_with_reader: u64, disagreement: Option<String>, finished: bool, entries_left: usize, stuck: bool }

fn run_case(ctx: &Ctx, progs: &[Vec<Op>], forced: Option<&[usize]>, rng: &mut Rng, model: &mut Model) -> Outcome {
    let _ = ctx;
    let mgr = Arc::new(PageLockManager::new());
    let mon = Arc::new(Monitor {
        writers: (0..NPAGES).map(|_| AtomicI64::new(0)).collect(),
        readers: (0..NPAGES).map(|_| AtomicI64::new(0)).collect(),
        two_writers: AtomicU64::new(0),
        writer_with_reader: AtomicU64::new(0),
    });
    let n = progs.len();
    let sched = Sched::new(n);
    let mut handles = vec![];
    let cur_page: Arc<Vec<AtomicI64>> = Arc::new((0..n).map(|_| AtomicI64::new(-1)).collect());
    for (tid, prog) in progs.iter().enumerate() {
        let mgr = mgr.clone();
        let mon = mon.clone();
        let prog = prog.clone();
        let cur_page = cur_page.clone();
        handles.push(sched.spawn(tid, move || {
            for (k, op) in prog.iter().enumerate() {
                if k > 0 { turdb::verif_hooks::yield_point("idle"); }
                cur_page[tid].store(match op { Op::Write(p) | Op::Read(p) => *p as i64 }, Ordering::SeqCst);
                match op {
                    Op::Write(p) => {
                        let g = mgr.page_write(1, *p);
                        let pi = *p as usize % NPAGES;
                        let w = mon.writers[pi].fetch_add(1, Ordering::SeqCst);
                        if w != 0 { mon.two_writers.fetch_add(1, Ordering::SeqCst); }
                        if mon.readers[pi].load(Ordering::SeqCst) != 0 { mon.writer_with_reader.fetch_add(1, Ordering::SeqCst); }
                        turdb::verif_hooks::yield_point("hold");
                        mon.writers[pi].fetch_sub(1, Ordering::SeqCst);
                        drop(g);
                    }
                    Op::Read(p) => {
                        let g = mgr.page_read(1, *p);
                        let pi = *p as usize % NPAGES;
                        mon.readers[pi].fetch_add(1, Ordering::SeqCst);
                        if mon.writers[pi].load(Ordering::SeqCst) != 0 { mon.writer_with_reader.fetch_add(1, Ordering::SeqCst); }
                        turdb::verif_hooks::yield_point("hold");
                        mon.readers[pi].fetch_sub(1, Ordering::SeqCst);
                        drop(g);
                    }
                }
            }
        }));
    }
    sched.settle(Duration::from_secs(5));
    let r = model.ask(&format!("init 1 {}", progs_sx(progs)));
    assert_eq!(r, "ok");
    let mut out = Outcome { interior: 0, probes: 0, non_atomic: None, steps: 0, two_writers: 0, writer_with_reader: 0, disagreement: None, finished: false, entries_left: 0, stuck: false };
    let mut waiting: Vec<bool> = vec![false; n];
    let mut fi = 0;
    let mut carried: Option<(usize, StepResult)> = None;
    while out.steps < 3000 {
        // threads that were parked inside lock.read()/write() and have since been granted the lock
        // by parking_lot: mirror the wake-up in the model (it must be enabled there)
        let states = sched.states();
        for tid in 0..n {
            if waiting[tid] {
                if let TState::Parked(site) = &states[tid] {
                    waiting[tid] = false;
                    let m = model.ask(&format!("step {tid}"));
                    if (!m.starts_with("pc held") || *site != "hold") && out.disagreement.is_none() {
                        out.disagreement = Some(format!("thread {tid} obtained the lock after waiting (site {site}); model: {m}"));
                    }
                }
            }
        }
        let runnable = sched.runnable();
        if runnable.is_empty() && carried.is_none() {
            if waiting.iter().any(|b| *b) {
                // only waiters are left: the lock must hand over to one of them
                let t0 = std::time::Instant::now();
                while sched.runnable().is_empty() && t0.elapsed() < Duration::from_secs(3) { std::thread::sleep(Duration::from_millis(2)); }
                if sched.runnable().is_empty() { out.stuck = true; break; }
                continue;
            }
            break;
        }
        let (tid, mut res) = if let Some(c) = carried.take() { c } else {
            let tid = match forced {
                Some(f) if fi < f.len() => { let t = f[fi]; fi += 1; if !runnable.contains(&t) { continue; } t }
                _ => *rng.pick(&runnable),
            };
            let will_block = model.ask(&format!("willblock {tid}")) == "1";
            (tid, sched.step(tid, if will_block { Duration::from_millis(60) } else { Duration::from_secs(10) }))
        };
        // interior of the get_or_create critical section (the thread found the entry and is about to
        // bump ref_count): the model treats lookup + increment as ONE step, which is only right if the
        // shard mutex is held here. Atomicity probe: another thread whose next step needs the same
        // mutex must not be able to complete that step while this one is parked inside.
        let mut probe_b: Option<usize> = None;
        if res == StepResult::Parked("pagelock.entry.acquire") {
            out.interior += 1;
            let st = sched.states();
            let cands: Vec<usize> = (0..n).filter(|b| *b != tid
                && matches!(&st[*b], TState::Parked(s) if *s == "pagelock.get_or_create" || *s == "pagelock.cleanup.map_lock")
                && cur_page[*b].load(Ordering::SeqCst) == cur_page[tid].load(Ordering::SeqCst)).collect();
            if forced.is_none() && !cands.is_empty() && rng.chance(2, 3) {
                let b = *rng.pick(&cands);
                out.probes += 1;
                let bsite = format!("{:?}", st[b]);
                match sched.step(b, Duration::from_millis(50)) {
                    StepResult::Blocked => probe_b = Some(b),
                    rb => {
                        out.non_atomic = Some(format!("step {}: thread {tid} is parked inside get_or_create between the map lookup and the ref_count increment, yet thread {b} ({bsite}) completed its own map critical section ({rb:?}): lookup+increment is not atomic with respect to the shard mutex", out.steps));
                    }
                }
            }
            if out.non_atomic.is_some() { break; }
            res = sched.step(tid, Duration::from_secs(10));
        }
        // the unlock site sits between `hold` and `release`: it belongs to the same model step
        if let StepResult::Parked(site) = res {
            if site == "pagelock.unlock_read" || site == "pagelock.unlock_write" { res = sched.step(tid, Duration::from_secs(10)); }
        }
        out.steps += 1;
        let m = model.ask(&format!("step {tid}"));
        match &res {
            StepResult::Blocked => {
                waiting[tid] = true;
                if !m.starts_with("pc waiting") && out.disagreement.is_none() {
                    out.disagreement = Some(format!("step {}: thread {tid} is blocked in the real lock but the model step gave: {m}", out.steps));
                }
            }
            StepResult::Parked(site) => {
                let expect = match *site { "pagelock.get_or_create" => "get_or_create", "pagelock.acquire_read" | "pagelock.acquire_write" => "acquire", "hold" => "held", "pagelock.release" => "release", "pagelock.cleanup.map_lock" => "cleanup", "idle" => "idle", o => o };
                if !m.starts_with(&format!("pc {expect} ")) && out.disagreement.is_none() {
                    out.disagreement = Some(format!("step {}: thread {tid} parked at {site}, model says: {m}", out.steps));
                }
            }
            StepResult::Finished => {
                if !m.starts_with("pc idle ") && out.disagreement.is_none() {
                    out.disagreement = Some(format!("step {}: thread {tid} finished, model says: {m}", out.steps));
                }
            }
            StepResult::NotRunnable => {}
        }
        // an unlock with threads queued in the RwLock: let the hand-over happen before the next grant
        if m.starts_with("pc release") && waiting.iter().any(|b| *b) {
            let t0 = std::time::Instant::now();
            loop {
                let st = sched.states();
                if (0..n).any(|i| waiting[i] && matches!(st[i], TState::Parked(_))) { break; }
                if t0.elapsed() > Duration::from_millis(1500) { break; }
                std::thread::sleep(Duration::from_millis(1));
            }
            std::thread::sleep(Duration::from_millis(4));
        }
        if let Some(b) = probe_b { carried = Some((b, sched.wait_landed(b, Duration::from_secs(10)))); continue; }
        // number of entries in the lock table
        if let Some(ms) = m.split(" map ").nth(1).and_then(|r| r.split(' ').next()).and_then(|x| x.parse::<usize>().ok()) {
            let real = mgr.verif_page_entry_count();
            if real != ms && out.disagreement.is_none() {
                out.disagreement = Some(format!("step {}: lock table has {real} entries, model has {ms} ({m})", out.steps));
            }
        }
    }
    if out.non_atomic.is_some() {
        // the model no longer applies: keep scheduling randomly (every hook site is now an ordinary
        // yield point) and let the occupancy monitors look for an overlap
        free_run(&sched, rng, &mut out.steps);
    }
    out.finished = sched.all_finished();
    sched.shutdown();
    for h in handles { let _ = h.join(); }
    out.two_writers = mon.two_writers.load(Ordering::SeqCst);
    out.writer_with_reader = mon.writer_with_reader.load(Ordering::SeqCst);
    out.entries_left = mgr.verif_page_entry_count();
    out
}

fn free_run(sched: &Sched, rng: &mut Rng, steps: &mut usize) {
    let t0 = std::time::Instant::now();
    let mut idle_since = std::time::Instant::now();
    while t0.elapsed() < Duration::from_secs(20) {
        let r = sched.runnable();
        if r.is_empty() {
            if sched.all_finished() || idle_since.elapsed() > Duration::from_secs(2) { break; }
            std::thread::sleep(Duration::from_millis(2));
            continue;
        }
        idle_since = std::time::Instant::now();
        let t = *rng.pick(&r);
        let _ = sched.step(t, Duration::from_millis(80));
        *steps += 1;
    }
}

fn run_until_site(sched: &Sched, tid: usize, site: &str, each: Duration) -> StepResult {
    let mut last = StepResult::NotRunnable;
    for _ in 0..40 {
        last = sched.step(tid, each);
        match &last { StepResult::Parked(s) if *s != site => {} _ => return last }
    }
    last
}

struct Directed { non_atomic: Option<String>, two_writers: u64, writer_with_reader: u64, note: String, finished: bool }

/// Directed atomicity scenario for `get_or_create`: T0 holds the write lock of page 7; T1 runs into
/// get_or_create, finds T0's entry and is parked just before the ref_count increment; T0 then drops
/// its guard. On code where lookup+increment happen under the shard mutex T0 blocks on that mutex
/// in try_cleanup until T1 goes on. If T0 can finish, the entry T1 is about to lock has left the
/// table: T1 then locks the orphan and a third thread locks a fresh entry for the same page.
fn run_directed(third_reads: bool, rng: &mut Rng) -> Directed {
    let mgr = Arc::new(PageLockManager::new());
    let writers = Arc::new(AtomicI64::new(0));
    let readers = Arc::new(AtomicI64::new(0));
    let two_writers = Arc::new(AtomicU64::new(0));
    let wwr = Arc::new(AtomicU64::new(0));
    let sched = Sched::new(3);
    let mut handles = vec![];
    for tid in 0..3usize {
        let (mgr, writers, readers, two_writers, wwr) = (mgr.clone(), writers.clone(), readers.clone(), two_writers.clone(), wwr.clone());
        handles.push(sched.spawn(tid, move || {
            if tid == 2 && third_reads {
                let g = mgr.page_read(1, 7);
                readers.fetch_add(1, Ordering::SeqCst);
                if writers.load(Ordering::SeqCst) != 0 { wwr.fetch_add(1, Ordering::SeqCst); }
                turdb::verif_hooks::yield_point("hold");
                readers.fetch_sub(1, Ordering::SeqCst);
                drop(g);
            } else {
                let g = mgr.page_write(1, 7);
                if writers.fetch_add(1, Ordering::SeqCst) != 0 { two_writers.fetch_add(1, Ordering::SeqCst); }
                if readers.load(Ordering::SeqCst) != 0 { wwr.fetch_add(1, Ordering::SeqCst); }
                turdb::verif_hooks::yield_point("hold");
                writers.fetch_sub(1, Ordering::SeqCst);
                drop(g);
            }
        }));
    }
    sched.settle(Duration::from_secs(5));
    let mut d = Directed { non_atomic: None, two_writers: 0, writer_with_reader: 0, note: String::new(), finished: false };
    let r0 = run_until_site(&sched, 0, "hold", Duration::from_secs(10));
    let r1 = run_until_site(&sched, 1, "pagelock.entry.acquire", Duration::from_millis(300));
    d.note = format!("T0 {r0:?}; T1 {r1:?}");
    if r0 == StepResult::Parked("hold") && r1 == StepResult::Parked("pagelock.entry.acquire") {
        // T0 drops its guard: force_unlock, release (1 -> 0), cleanup under the map lock
        let mut last = StepResult::NotRunnable;
        for _ in 0..20 {
            last = sched.step(0, Duration::from_millis(150));
            if !matches!(last, StepResult::Parked(_)) { break; }
        }
        d.note.push_str(&format!("; T0 drop -> {last:?}"));
        if last == StepResult::Finished {
            d.non_atomic = Some("T1 was parked inside get_or_create between finding T0's entry and incrementing its ref_count, and T0 completed try_cleanup (which takes the shard mutex) meanwhile: lookup+increment is not atomic with respect to the shard mutex".into());
            let a = run_until_site(&sched, 1, "hold", Duration::from_millis(300));
            let b = run_until_site(&sched, 2, "hold", Duration::from_millis(300));
            d.note.push_str(&format!("; T1 -> {a:?}; T2 -> {b:?}"));
            std::thread::sleep(Duration::from_millis(20));
            d.two_writers = two_writers.load(Ordering::SeqCst);
            d.writer_with_reader = wwr.load(Ordering::SeqCst);
        } else {
            let a = sched.step(1, Duration::from_secs(10));
            let b = sched.wait_landed(0, Duration::from_secs(10));
            d.note.push_str(&format!("; T1 goes on -> {a:?}; T0 then -> {b:?}"));
        }
    } else {
        d.note.push_str("; the scenario could not be set up (hook site pagelock.entry.acquire not reached)");
    }
    let mut steps = 0;
    free_run(&sched, rng, &mut steps);
    d.finished = sched.all_finished();
    sched.shutdown();
    for h in handles { let _ = h.join(); }
    d.two_writers = d.two_writers.max(two_writers.load(Ordering::SeqCst));
    d.writer_with_reader = d.writer_with_reader.max(wwr.load(Ordering::SeqCst));
    d
}

pub fn run(ctx: &Ctx) -> Report {
    let mut rep = Report::new(
        "pagelocks",
        "2-4 threads, each 1-3 page_read/page_write acquisitions (guard held across one yield) on 1-2 pages, interleaved at the \
         yield points of page_locks.rs (get_or_create, rw acquire, force_unlock, entry.release, cleanup under the map lock) by the \
         forced Lean counterexample schedule or a seeded random scheduler; the model predicts whether an acquire must wait; a predicted wait is confirmed by a 60 ms no-progress window \
         on the real thread, and a later hand-over by the real RwLock must be an enabled wake-up in the model; after every step the parked site and the lock-table size are compared \
         with the model; monitors count simultaneous writers / writer+reader on the real lock manager. Atomicity of the model's get_or_create step: a hook site inside PageLockEntry::acquire parks the thread between map lookup and ref_count increment; a directed scenario (holder drops its guard meanwhile) and random probes check that no thread needing the shard mutex can complete its step then. \
         non-trivial = distinct case with >= 2 threads touching the same page with at least one writer",
    );
    let mut rng = Rng::new(ctx.seed);
    let mut model = Model::spawn(&ctx.model_bin, "pagelocks");

    // forced replay of Props/C36.lean `stale_cleanup_counterexample`
    {
        let progs = vec![vec![Op::Write(7), Op::Write(7)], vec![Op::Write(7)], vec![Op::Write(7)]];
        let sched = [0, 0, 0, 0, 0, 1, 1, 1, 1, 1, 0, 0, 0, 0, 1, 2, 2, 2];
        let o = run_case(ctx, &progs, Some(&sched), &mut rng, &mut model);
        let case = format!("forced progs={} sched={:?}", progs_sx(&progs), sched);
        rep.case(Some(&case));
        rep.sample(format!("{case} -> two_writers={} finished={}", o.two_writers, o.finished));
        if let Some(d) = &o.disagreement { rep.disagree(case.clone(), d.clone(), "pagelock-step".into()); }
        if o.two_writers > 0 {
            rep.oracle_fail(case, format!("{} times a second thread obtained the write lock of page 7 while another held it", o.two_writers), "pagelock:two-writers:stale-cleanup".into());
        } else {
            rep.notes.push("forced schedule of C36.stale_cleanup_counterexample: no second writer on the current code (defect fixed by /repo f641426; the model runs with fixed = true)".into());
        }
    }

    // directed atomicity scenarios for get_or_create (third thread writes / reads)
    for third_reads in [false, true] {
        let d = run_directed(third_reads, &mut rng);
        let case = format!("directed get_or_create atomicity: T0 holds w7; T1 page_write(7) parked before ref_count increment; T0 drops; T2 {}", if third_reads { "page_read(7)" } else { "page_write(7)" });
        rep.case(Some(&case));
        rep.count("directed_atomicity");
        rep.sample(format!("{case} -> {} two_writers={} writer_with_reader={} finished={}", d.note, d.two_writers, d.writer_with_reader, d.finished));
        if let Some(na) = &d.non_atomic { rep.disagree(case.clone(), format!("{na} ({})", d.note), "pagelock-atomicity".into()); }
        if d.note.contains("could not be set up") { rep.count("directed_atomicity_not_set_up"); rep.notes.push(d.note.clone()); continue; }
        if d.two_writers > 0 { rep.oracle_fail(case.clone(), format!("two threads hold the write lock of page 7 at the same time ({})", d.note), "pagelock:two-writers:get-or-create-not-atomic".into()); }
        if d.writer_with_reader > 0 { rep.oracle_fail(case.clone(), format!("a reader and a writer hold page 7 at the same time ({})", d.note), "pagelock:writer-with-reader:get-or-create-not-atomic".into()); }
        if !d.finished { rep.oracle_fail(case.clone(), format!("threads did not finish ({})", d.note), "pagelock:stuck-acquire".into()); }
    }

    let ncases = if ctx.thorough { 3000 } else { 250 };
    for _ in 0..ncases {
        let nthreads = 2 + rng.below(3) as usize;
        let npages = 1 + rng.below(2) as u32;
        let mut progs = vec![];
        for _ in 0..nthreads {
            let nops = 1 + rng.below(3) as usize;
            progs.push((0..nops).map(|_| { let p = 7 + rng.below(npages as u64) as u32; if rng.chance(3, 5) { Op::Write(p) } else { Op::Read(p) } }).collect::<Vec<_>>());
        }
        let o = run_case(ctx, &progs, None, &mut rng, &mut model);
        let case = format!("random progs={} seed={}", progs_sx(&progs), ctx.seed);
        let has_writer = progs.iter().flatten().any(|o| matches!(o, Op::Write(_)));
        rep.case(if has_writer { Some(&case) } else { None });
        rep.count(&format!("threads_{nthreads}"));
        rep.count_n("granted_steps", o.steps as u64);
        if o.stuck { rep.count("stuck"); }
        if rep.evaluations % 41 == 0 { rep.sample(format!("{case} -> steps {} finished {}", o.steps, o.finished)); }
        rep.count_n("interior_parks", o.interior);
        rep.count_n("atomicity_probes", o.probes);
        if let Some(d) = o.disagreement { rep.disagree(case.clone(), d, "pagelock-step".into()); }
        let why = if o.non_atomic.is_some() { "get-or-create-not-atomic" } else { "stale-cleanup" };
        if let Some(na) = o.non_atomic { rep.disagree(case.clone(), na, "pagelock-atomicity".into()); }
        if o.two_writers > 0 { rep.oracle_fail(case.clone(), format!("two simultaneous writers ({}x)", o.two_writers), format!("pagelock:two-writers:{why}")); }
        if o.writer_with_reader > 0 { rep.oracle_fail(case.clone(), format!("writer coexists with reader ({}x)", o.writer_with_reader), format!("pagelock:writer-with-reader:{why}")); }
        if o.stuck { rep.oracle_fail(case.clone(), "a thread stayed blocked although every other thread finished".into(), "pagelock:stuck-acquire".into()); }
        if o.finished && o.entries_left != 0 { rep.oracle_fail(case, format!("{} lock entries left after all guards were dropped", o.entries_left), "pagelock:table-not-empty".into()); }
    }
    rep
}
