//! C30: leaf key search (`find_key_simd`, scalar and AVX2 narrowing) vs the Lean model
//! `TurVerif.Simd` and vs plain binary search (the property's own oracle).
//!
//! Case syntax (corpus / replay files), one line:  `keys=<hex>,<hex>,... probe=<hex>`
//! (`-` = empty key, `keys=` = empty leaf). Keys are sorted and de-duplicated on load.
use crate::common::*;
use std::collections::HashMap;
use turdb::btree::simd_scan::{simd_prefix_search_scalar, verif_force_scalar};
use turdb::btree::{LeafNode, LeafNodeMut, SearchResult};

const PAGE_SIZE: usize = 16384;

fn avx2_available() -> bool {
    #[cfg(target_arch = "x86_64")]
    {
        is_x86_feature_detected!("avx2")
    }
    #[cfg(not(target_arch = "x86_64"))]
    {
        false
    }
}

fn avx2_narrow(page: &[u8], t: u32, n: usize) -> (usize, usize, u32) {
    #[cfg(target_arch = "x86_64")]
    {
        // SAFETY: only called when avx2_available()
        unsafe { turdb::btree::simd_scan::simd_prefix_search_avx2(page, t, n) }
    }
    #[cfg(not(target_arch = "x86_64"))]
    {
        let _ = (page, t, n);
        (0, 0, 0)
    }
}

fn res_str(r: SearchResult) -> String {
    match r {
        SearchResult::Found(i) => format!("F{i}"),
        SearchResult::NotFound(i) => format!("N{i}"),
    }
}

/// Build a real leaf page with the public leaf API. Returns the page and the number of keys that fit.
fn build_page(keys: &[Vec<u8>], rng: &mut Rng) -> Result<(Vec<u8>, usize), String> {
    let mut page = vec![0u8; PAGE_SIZE];
    let mut n = 0;
    {
        let mut leaf = LeafNodeMut::init(&mut page).map_err(|e| e.to_string())?;
        for k in keys {
            let vlen = rng.below(3) as usize;
            let v = rng.bytes(vlen);
            if leaf.insert_at_end(k, &v).is_err() {
                break;
            }
            n += 1;
        }
    }
    Ok((page, n))
}

/// What the search reads off the page: (prefix, cell offset, key bytes) per slot.
fn abstract_page(page: &[u8]) -> Result<Vec<(u32, u16, Vec<u8>)>, String> {
    let leaf = LeafNode::from_page(page).map_err(|e| e.to_string())?;
    let n = leaf.cell_count() as usize;
    let mut v = Vec::with_capacity(n);
    for i in 0..n {
        let s = leaf.slot_at(i).map_err(|e| e.to_string())?;
        let k = leaf.key_at(i).map_err(|e| e.to_string())?;
        v.push((s.prefix_as_u32(), s.offset(), k.to_vec()));
    }
    Ok(v)
}

struct RealOut {
    scalar: (usize, usize, u32),
    avx2: Option<(usize, usize)>,
    find_scalar: String,
    find_default: String,
}

fn run_real(page: &[u8], n: usize, probe: &[u8], have_avx2: bool) -> Result<RealOut, String> {
    let r = guarded(std::panic::AssertUnwindSafe(|| {
        let t = u32::from_be_bytes(turdb::btree::extract_prefix(probe));
        let scalar = simd_prefix_search_scalar(page, t, n);
        let avx2 = if have_avx2 {
            let (l, r, _) = avx2_narrow(page, t, n);
            Some((l, r))
        } else {
            None
        };
        let leaf = LeafNode::from_page(page).unwrap();
        verif_force_scalar(true);
        let fs = res_str(leaf.find_key(probe));
        verif_force_scalar(false);
        let fd = res_str(leaf.find_key(probe));
        RealOut { scalar, avx2, find_scalar: fs, find_default: fd }
    }));
    verif_force_scalar(false);
    r
}

fn expected(keys: &[Vec<u8>], probe: &[u8]) -> String {
    match keys.binary_search_by(|x| x.as_slice().cmp(probe)) {
        Ok(i) => format!("F{i}"),
        Err(i) => format!("N{i}"),
    }
}

fn case_str(keys: &[Vec<u8>], probe: &[u8]) -> String {
    format!(
        "keys={} probe={}",
        keys.iter().map(|k| hex(k)).collect::<Vec<_>>().join(","),
        hex(probe)
    )
}

fn parse_case(s: &str) -> Option<(Vec<Vec<u8>>, Vec<u8>)> {
    let mut keys = None;
    let mut probe = None;
    for w in s.split_whitespace() {
        if let Some(k) = w.strip_prefix("keys=") {
            let mut v: Vec<Vec<u8>> = if k.is_empty() { vec![] } else { k.split(',').map(unhex).collect() };
            v.sort();
            v.dedup();
            keys = Some(v);
        } else if let Some(p) = w.strip_prefix("probe=") {
            probe = Some(unhex(p));
        }
    }
    Some((keys?, probe?))
}

fn kind(r: &str) -> &'static str {
    if r.starts_with('F') { "Found" } else { "NotFound" }
}
fn idx(r: &str) -> i64 {
    r[1..].parse().unwrap_or(-1)
}

fn hazard_name(h: &str) -> &'static str {
    match h {
        "0" => "none",
        "1" => "lt_mask=0&batch[0].prefix=target",
        "2" => "mixed&lane7.prefix=target&next_slot.prefix=target",
        _ => "?",
    }
}

/// signature of a wrong answer of the AVX2 dispatch path
fn avx2_signature(hz: &str, exp: &str, got: &str) -> String {
    let rel = if idx(got) < idx(exp) { "low" } else if idx(got) > idx(exp) { "high" } else { "same" };
    format!("avx2:{} expected={} got={}:{}", hazard_name(hz), kind(exp), kind(got), rel)
}

fn field<'a>(resp: &'a str, name: &str) -> &'a str {
    for w in resp.split(' ') {
        if let Some(v) = w.strip_prefix(name) {
            if let Some(v) = v.strip_prefix('=') {
                return v;
            }
        }
    }
    ""
}

// ---------------------------------------------------------------- generators

fn succ(k: &[u8]) -> Vec<u8> {
    let mut v = k.to_vec();
    v.push(0);
    v
}
fn pred(k: &[u8]) -> Option<Vec<u8>> {
    let (&last, init) = k.split_last()?;
    let mut v = init.to_vec();
    if last > 0 {
        v.push(last - 1);
        v.push(0xff);
    }
    Some(v)
}

const EDGE_BYTES: [u8; 10] = [0x00, 0x01, 0x7e, 0x7f, 0x80, 0x81, 0xfe, 0xff, 0x40, 0xc0];
const RUNS: [usize; 16] = [1, 1, 1, 2, 3, 4, 5, 7, 8, 9, 12, 15, 16, 17, 24, 33];

fn rand_prefix(rng: &mut Rng, high_bias: bool) -> Vec<u8> {
    (0..4)
        .map(|_| if high_bias && rng.chance(2, 3) { *rng.pick(&EDGE_BYTES) } else { rng.next() as u8 })
        .collect()
}

fn pick_size(rng: &mut Rng) -> usize {
    match rng.below(10) {
        0..=2 => rng.below(41) as usize,
        3 => *rng.pick(&[7usize, 8, 9, 15, 16, 17, 31, 32, 33, 63, 64, 65, 127, 128, 129, 255, 256, 257, 399, 400]),
        4..=6 => rng.below(130) as usize,
        _ => rng.below(401) as usize,
    }
}

/// returns (family name, sorted distinct keys)
fn gen_keys(rng: &mut Rng) -> (&'static str, Vec<Vec<u8>>) {
    let n = pick_size(rng);
    let fam = rng.below(7);
    let mut keys: Vec<Vec<u8>> = Vec::with_capacity(n);
    let name = match fam {
        0 => {
            // distinct random prefixes, random tails
            for _ in 0..n {
                let mut k = rand_prefix(rng, false);
                let tl = rng.below(5) as usize;
                k.extend(rng.bytes(tl));
                keys.push(k);
            }
            "distinct"
        }
        1 => {
            // one shared 4-byte prefix
            let p = rand_prefix(rng, true);
            for i in 0..n {
                let mut k = p.clone();
                if i > 0 || rng.chance(1, 2) {
                    let tl = 1 + rng.below(3) as usize;
                    k.extend(rng.bytes(tl));
                }
                keys.push(k);
            }
            "all-equal"
        }
        2 | 3 => {
            // runs of equal prefixes of lengths that straddle batches of 4 and 8
            let high = fam == 3;
            while keys.len() < n {
                let p = rand_prefix(rng, high);
                let run = *rng.pick(&RUNS);
                for _ in 0..run {
                    let mut k = p.clone();
                    let tl = rng.below(4) as usize;
                    k.extend(rng.bytes(tl));
                    keys.push(k);
                }
            }
            if high { "runs-highbit" } else { "runs" }
        }
        4 => {
            // short keys (0..3 bytes, zero padding makes prefix ties) mixed with longer ones
            let alphabet: Vec<u8> = vec![0, 0, 1, 0x7f, 0x80, 0xff, rng.next() as u8];
            for _ in 0..n {
                let len = rng.below(7) as usize;
                let k: Vec<u8> = (0..len).map(|_| *rng.pick(&alphabet)).collect();
                keys.push(k);
            }
            "short-keys"
        }
        5 => {
            // big-endian u64 counters (the repo's own failing test shape): prefixes all 0
            let step = 1 + rng.below(3);
            let base = if rng.chance(1, 3) { (1u64 << 32) - (n as u64) * step / 2 } else { rng.below(1000) };
            for i in 0..n as u64 {
                keys.push((base + i * step).to_be_bytes().to_vec());
            }
            "u64-be"
        }
        _ => {
            // few distinct prefixes taken from edge bytes, many ties
            let np = 1 + rng.below(6) as usize;
            let ps: Vec<Vec<u8>> = (0..np).map(|_| rand_prefix(rng, true)).collect();
            for _ in 0..n {
                let mut k = rng.pick(&ps).clone();
                if rng.chance(1, 8) {
                    k.truncate(rng.below(5) as usize);
                }
                let tl = rng.below(3) as usize;
                k.extend(rng.bytes(tl));
                keys.push(k);
            }
            "few-prefixes"
        }
    };
    keys.sort();
    keys.dedup();
    keys.truncate(400);
    (name, keys)
}

/// tie block [a,b) of the probe prefix inside n slots
fn sweep_keys(n: usize, a: usize, b: usize) -> Vec<Vec<u8>> {
    let mut keys = vec![];
    for i in 0..n {
        let k = if i < a {
            vec![0x10, 0, (i >> 8) as u8, i as u8]
        } else if i < b {
            vec![0x80, 0, 0, 0, (i >> 8) as u8, i as u8, 1]
        } else {
            vec![0xf0, 0, (i >> 8) as u8, i as u8]
        };
        keys.push(k);
    }
    keys
}

fn gen_probes(keys: &[Vec<u8>], rng: &mut Rng, extra_random: usize) -> Vec<(&'static str, Vec<u8>)> {
    let mut ps: Vec<(&'static str, Vec<u8>)> = vec![];
    for k in keys {
        ps.push(("stored", k.clone()));
        ps.push(("gap", succ(k)));
        if let Some(p) = pred(k) {
            ps.push(("gap", p));
        }
    }
    ps.push(("below", vec![]));
    ps.push(("above", vec![0xff; 9]));
    if let Some(f) = keys.first() {
        if let Some(p) = pred(f) {
            ps.push(("below", p));
        }
        let mut t: Vec<u8> = f.iter().take(4).cloned().collect();
        ps.push(("tie-low", t.clone()));
        t.resize(4, 0);
        ps.push(("tie-low", t));
    }
    if let Some(l) = keys.last() {
        let mut a = l.clone();
        a.push(0xff);
        ps.push(("above", a));
    }
    // same prefix as a stored key, tail below / above every stored tail
    for _ in 0..extra_random {
        if keys.is_empty() {
            break;
        }
        let k = rng.pick(keys);
        let mut p: Vec<u8> = k.iter().take(4).cloned().collect();
        match rng.below(4) {
            0 => {}
            1 => {
                p.resize(4, 0);
            }
            2 => {
                p.resize(4, 0);
                p.extend([0xff, 0xff, 0xff, 0xff, 0xff]);
            }
            _ => {
                p.resize(4, 0);
                let tl = 1 + rng.below(3) as usize;
                p.extend(rng.bytes(tl));
            }
        }
        ps.push(("tie-rand", p));
        let tl = rng.below(7) as usize;
        ps.push(("random", rng.bytes(tl)));
    }
    ps
}

// ---------------------------------------------------------------- engine

struct Job {
    family: &'static str,
    keys: Vec<Vec<u8>>,
    probes: Vec<(&'static str, Vec<u8>)>,
}

struct Fail {
    scalar_mode: bool,
    keys: Vec<Vec<u8>>,
    probe: Vec<u8>,
    detail: String,
    signature: String,
}

struct Engine<'a> {
    ctx: &'a Ctx,
    rep: Report,
    rng: Rng,
    have_avx2: bool,
    fixed_variant: bool,
    avx2_fails: Vec<Fail>,
    fail_count: HashMap<String, usize>,
    t_model: std::time::Duration,
    t_real: std::time::Duration,
}

impl<'a> Engine<'a> {
    /// run a chunk of jobs: real code, then the model, then compare + oracle
    fn run_jobs(&mut self, jobs: &[Job]) {
        let mut reqs: Vec<String> = vec![];
        let mut pages: Vec<Option<(Vec<u8>, usize)>> = vec![];
        for j in jobs {
            match build_page(&j.keys, &mut self.rng).and_then(|(p, n)| abstract_page(&p).map(|a| (p, n, a))) {
                Ok((page, n, abs)) => {
                    let mut line = format!("leaf {}", abs.len());
                    for (p, o, k) in &abs {
                        line.push_str(&format!(" {}:{}:{}", p, o, hex(k)));
                    }
                    // the abstraction of the page must be the inserted keys, in order
                    let got: Vec<&Vec<u8>> = abs.iter().map(|x| &x.2).collect();
                    let want: Vec<&Vec<u8>> = j.keys[..n].iter().collect();
                    if got != want || abs.len() != n {
                        self.rep.disagree(
                            case_str(&j.keys, &[]),
                            "page built with insert_at_end does not read back the inserted keys".into(),
                            "page-build".into(),
                        );
                    }
                    reqs.push(line);
                    pages.push(Some((page, n)));
                }
                Err(e) => {
                    self.rep.disagree(case_str(&j.keys, &[]), format!("cannot build page: {e}"), "page-build".into());
                    pages.push(None);
                    reqs.push("leaf 0".into());
                }
            }
            for (_, p) in &j.probes {
                reqs.push(format!("probe {}", hex(p)));
            }
        }
        let t0 = std::time::Instant::now();
        // the driver is stateful per leaf: split at leaf boundaries and run a few driver processes in parallel
        let mut cuts: Vec<usize> = vec![0];
        {
            let target = reqs.len() / 4 + 1;
            let mut last = 0;
            for (i, r) in reqs.iter().enumerate() {
                if r.starts_with("leaf ") && i - last >= target {
                    cuts.push(i);
                    last = i;
                }
            }
            cuts.push(reqs.len());
        }
        let model_bin = self.ctx.model_bin.clone();
        let resp: Vec<String> = std::thread::scope(|sc| {
            let hs: Vec<_> = cuts
                .windows(2)
                .map(|w| {
                    let part = &reqs[w[0]..w[1]];
                    let mb = model_bin.clone();
                    sc.spawn(move || model_batch(&mb, "simd", part))
                })
                .collect();
            hs.into_iter().flat_map(|h| h.join().expect("model thread")).collect()
        });
        self.t_model += t0.elapsed();
        let mut ri = 0;
        for (ji, j) in jobs.iter().enumerate() {
            let lresp = &resp[ri];
            ri += 1;
            let Some((page, n)) = &pages[ji] else {
                ri += j.probes.len();
                continue;
            };
            let keys = &j.keys[..*n];
            if lresp != &format!("ok {n}") {
                self.rep.disagree(case_str(keys, &[]), format!("model rejected leaf: {lresp}"), "model-leaf".into());
            }
            let leaf_hash = fnv(&reqs[ri - 1]);
            self.rep.count(&format!("family:{}", j.family));
            self.rep.count(&format!(
                "size:{}",
                match *n { 0 => "0", 1..=3 => "1-3", 4..=7 => "4-7", 8..=15 => "8-15", 16..=63 => "16-63", 64..=199 => "64-199", _ => "200-400" }
            ));
            let mut pfx_count: HashMap<u32, usize> = HashMap::new();
            for k in keys {
                *pfx_count.entry(u32::from_be_bytes(turdb::btree::extract_prefix(k))).or_insert(0) += 1;
            }
            for (pk, probe) in &j.probes {
                let m = &resp[ri];
                ri += 1;
                let case = || case_str(keys, probe);
                let nontrivial = *n >= 8;
                let key = format!("{leaf_hash:x}:{}", hex(probe));
                self.rep.case(if nontrivial { Some(&key) } else { None });
                let exp = expected(keys, probe);
                let t = u32::from_be_bytes(turdb::btree::extract_prefix(probe));
                let ties = *pfx_count.get(&t).unwrap_or(&0);
                self.rep.count(&format!("probe:{pk}"));
                self.rep.count(&format!("expected:{}", kind(&exp)));
                self.rep.count(&format!(
                    "slots_with_probe_prefix:{}",
                    match ties { 0 => "0", 1 => "1", 2..=7 => "2-7", 8..=16 => "8-16", _ => "17+" }
                ));
                if probe.len() < 4 {
                    self.rep.count("probe_shorter_than_4");
                }
                if t >= 0x8000_0000 {
                    self.rep.count("probe_prefix_high_bit");
                }
                if m == "bad-op" {
                    self.rep.disagree(case(), "model answered bad-op".into(), "model-bad-op".into());
                    continue;
                }
                let hz = field(m, "o").rsplit(',').next().unwrap_or("?").to_string();
                self.rep.count(&format!("old_avx2_model_hazard:{}", hazard_name(&hz)));
                // model spec vs harness oracle
                if field(m, "sp") != exp {
                    self.rep.disagree(case(), format!("model spec={} binary search={}", field(m, "sp"), exp), "spec-differs".into());
                }
                let t0 = std::time::Instant::now();
                let real_res = run_real(page, *n, probe, self.have_avx2);
                self.t_real += t0.elapsed();
                let real = match real_res {
                    Ok(r) => r,
                    Err(e) => {
                        self.rep.oracle_fail(case(), format!("panic: {e}"), "panic".into());
                        continue;
                    }
                };
                if self.rep.evaluations % 50021 == 1 {
                    self.rep.sample(format!(
                        "n={} family={} probe={}({}) expected={} scalar_mode={} default_mode={} model[{}]",
                        n, j.family, hex(probe), pk, exp, real.find_scalar, real.find_default, m
                    ));
                }
                // --- correspondence: scalar narrowing, scalar-mode result
                let s = format!("{},{},{}", real.scalar.0, real.scalar.1, real.scalar.2);
                if s != field(m, "s") {
                    self.rep.disagree(case(), format!("simd_prefix_search_scalar impl={} model={}", s, field(m, "s")), "scalar-narrow-differs".into());
                }
                if real.find_scalar != field(m, "fs") {
                    self.rep.disagree(case(), format!("find_key (scalar mode) impl={} model={}", real.find_scalar, field(m, "fs")), "scalar-find-differs".into());
                }
                // --- correspondence: AVX2 narrowing and default-mode result
                if let Some((l, r)) = real.avx2 {
                    let (mo, mf, which) = if self.fixed_variant {
                        (field(m, "a").to_string(), field(m, "fa"), "narrowAvx2")
                    } else {
                        let o = field(m, "o");
                        (o.rsplitn(2, ',').nth(1).unwrap_or("").to_string(), field(m, "fo"), "narrowAvx2Old")
                    };
                    let a = format!("{l},{r}");
                    if a != mo {
                        self.rep.disagree(case(), format!("simd_prefix_search_avx2 impl={a} model({which})={mo}"), "avx2-narrow-differs".into());
                    }
                    if real.find_default != mf {
                        self.rep.disagree(case(), format!("find_key (avx2 mode) impl={} model({which})={}", real.find_default, mf), "avx2-find-differs".into());
                    }
                    let w = r.saturating_sub(l);
                    self.rep.count(&format!("avx2_range_width:{}", match w { 0 => "0", 1..=2 => "1-2", 3..=8 => "3-8", _ => "9+" }));
                } else if real.find_default != field(m, "fs") {
                    self.rep.disagree(case(), format!("find_key (default mode, no avx2) impl={} model={}", real.find_default, field(m, "fs")), "default-find-differs".into());
                }
                // --- property oracle on the implementation: both dispatch modes = binary search
                if real.find_scalar != exp {
                    let sig = format!("scalar: expected={} got={}", kind(&exp), kind(&real.find_scalar));
                    self.rep.count(&format!("oracle_fail:{sig}"));
                    let c = self.fail_count.entry(sig.clone()).or_insert(0);
                    *c += 1;
                    if *c <= 6 {
                        self.avx2_fails.push(Fail {
                            scalar_mode: true,
                            keys: keys.to_vec(),
                            probe: probe.clone(),
                            detail: format!("scalar dispatch: find_key={} binary search={} (n={})", real.find_scalar, exp, n),
                            signature: sig,
                        });
                    } else {
                        self.rep.n_oracle_failures += 1;
                    }
                }
                if real.find_default != exp {
                    let hzr = if self.fixed_variant { "0".to_string() } else { hz.clone() };
                    let sig = if self.have_avx2 {
                        avx2_signature(&hzr, &exp, &real.find_default)
                    } else {
                        format!("default: expected={} got={}", kind(&exp), kind(&real.find_default))
                    };
                    self.rep.count(&format!("oracle_fail:{sig}"));
                    let c = self.fail_count.entry(sig.clone()).or_insert(0);
                    *c += 1;
                    // keep the first few (and prefer small pages) per signature; the rest is only counted
                    if *c <= 6 {
                        self.avx2_fails.push(Fail {
                            scalar_mode: false,
                            keys: keys.to_vec(),
                            probe: probe.clone(),
                            detail: format!("avx2 dispatch: find_key={} binary search={} (n={})", real.find_default, exp, n),
                            signature: sig,
                        });
                    } else {
                        self.rep.n_oracle_failures += 1;
                    }
                }
            }
        }
    }

    fn still_fails(&mut self, keys: &[Vec<u8>], probe: &[u8], scalar_mode: bool) -> bool {
        let Ok((page, n)) = build_page(keys, &mut self.rng) else { return false };
        if n != keys.len() {
            return false;
        }
        match run_real(&page, n, probe, self.have_avx2) {
            Ok(r) => (if scalar_mode { r.find_scalar } else { r.find_default }) != expected(keys, probe),
            Err(_) => false,
        }
    }

    /// greedy delta-debugging on the key list
    fn shrink(&mut self, keys: &[Vec<u8>], probe: &[u8], scalar_mode: bool) -> Vec<Vec<u8>> {
        let mut cur = keys.to_vec();
        let mut chunk = cur.len() / 2;
        while chunk >= 1 {
            let mut i = 0;
            while i < cur.len() {
                let mut cand = cur.clone();
                let end = (i + chunk).min(cand.len());
                cand.drain(i..end);
                if self.still_fails(&cand, probe, scalar_mode) {
                    cur = cand;
                } else {
                    i += chunk;
                }
            }
            chunk /= 2;
        }
        cur
    }

    /// report collected AVX2-path oracle failures: per signature, the first two are minimised and
    /// re-classified (signature recomputed on the shrunk case), the rest are reported as they are.
    fn flush_fails(&mut self, shrink: bool) {
        let fails = std::mem::take(&mut self.avx2_fails);
        let mut seen: HashMap<String, usize> = HashMap::new();
        for f in fails {
            let c = seen.entry(f.signature.clone()).or_insert(0);
            *c += 1;
            if shrink && *c <= 2 {
                let small = self.shrink(&f.keys, &f.probe, f.scalar_mode);
                // re-classify the shrunk case (one model call for the hazard code of the pinned AVX2 loop)
                if let Ok((page, n)) = build_page(&small, &mut self.rng) {
                    if let (Ok(abs), Ok(real)) = (abstract_page(&page), run_real(&page, n, &f.probe, self.have_avx2)) {
                        let exp = expected(&small, &f.probe);
                        if f.scalar_mode {
                            if real.find_scalar != exp {
                                self.rep.oracle_fail(
                                    case_str(&small, &f.probe),
                                    format!("scalar dispatch: find_key={} binary search={} (minimised from n={})", real.find_scalar, exp, f.keys.len()),
                                    format!("scalar: expected={} got={}", kind(&exp), kind(&real.find_scalar)),
                                );
                                continue;
                            }
                        } else if real.find_default != exp {
                            let mut line = format!("leaf {}", abs.len());
                            for (p, o, k) in &abs {
                                line.push_str(&format!(" {}:{}:{}", p, o, hex(k)));
                            }
                            let resp = model_batch(&self.ctx.model_bin, "simd", &[line, format!("probe {}", hex(&f.probe))]);
                            let hz = if self.fixed_variant { "0".to_string() } else { field(&resp[1], "o").rsplit(',').next().unwrap_or("?").to_string() };
                            let sig = if self.have_avx2 {
                                avx2_signature(&hz, &exp, &real.find_default)
                            } else {
                                format!("default: expected={} got={}", kind(&exp), kind(&real.find_default))
                            };
                            self.rep.oracle_fail(
                                case_str(&small, &f.probe),
                                format!("avx2 dispatch: find_key={} binary search={} (minimised from n={})", real.find_default, exp, f.keys.len()),
                                sig,
                            );
                            continue;
                        }
                    }
                }
            }
            self.rep.oracle_fail(case_str(&f.keys, &f.probe), f.detail, f.signature);
        }
    }
}

pub fn run(ctx: &Ctx) -> Report {
    let rep = Report::new(
        "simd",
        "one case = (real leaf page built with LeafNodeMut::insert_at_end, probe key); key sets of size 0..400: \
         distinct prefixes, all-equal prefixes, runs of equal prefixes (lengths 1..33) at random positions, \
         exhaustive sweep of a tie block [a,b) over every position for small n, keys shorter than 4 bytes, \
         high-bit prefixes, big-endian counters; probes: every stored key, both neighbours of every stored key, \
         below min, above max, same-prefix probes. non-trivial = distinct (page, probe) with cell_count >= 8 \
         (the vectorised loop is entered)",
    );
    let mut e = Engine {
        ctx,
        rep,
        rng: Rng::new(ctx.seed),
        have_avx2: avx2_available(),
        fixed_variant: false,
        avx2_fails: vec![],
        fail_count: HashMap::new(),
        t_model: Default::default(),
        t_real: Default::default(),
    };
    if !e.have_avx2 {
        e.rep.notes.push("AVX2 not available on this machine: only the scalar dispatch path was exercised".into());
    } else {
        // which AVX2 code is in the tree: the witness of theorem avx2_counterexample
        let wkeys: Vec<Vec<u8>> = (0..8u8).map(|i| vec![0, 0, 0, 0, i]).collect();
        let (page, n) = build_page(&wkeys, &mut e.rng).expect("witness page");
        match run_real(&page, n, &wkeys[7], true) {
            Ok(r) if r.find_default == "F7" => {
                e.fixed_variant = true;
                e.rep.notes.push("avx2 variant: the witness of C30.avx2_counterexample does NOT reproduce on the implementation; comparing against the fixed model narrowAvx2".into());
            }
            Ok(r) => {
                e.rep.notes.push(format!("avx2 variant: the witness of C30.avx2_counterexample reproduces on the implementation (find_key={}, expected F7); comparing against narrowAvx2Old", r.find_default));
            }
            Err(m) => e.rep.notes.push(format!("witness probe panicked: {m}")),
        }
    }

    // ---- corpus / replay cases first
    let mut jobs: Vec<Job> = vec![];
    for c in ctx.corpus_cases("C30") {
        if let Some((keys, probe)) = parse_case(&c) {
            jobs.push(Job { family: "corpus", keys, probes: vec![("corpus", probe)] });
        } else {
            e.rep.notes.push(format!("unparsable corpus line: {}", &c[..c.len().min(80)]));
        }
    }
    // the repo's own failing tests
    {
        let keys: Vec<Vec<u8>> = (0..121u64).map(|i| (2 * i).to_be_bytes().to_vec()).collect();
        jobs.push(Job { family: "repo-test", probes: vec![("gap", 242u64.to_be_bytes().to_vec())], keys });
        let mut keys: Vec<Vec<u8>> = (0u8..64).chain(0x80u8..0xC0).map(|i| vec![i, 0, 0, 0]).collect();
        keys.sort();
        let probes = keys.iter().map(|k| ("stored", k.clone())).collect();
        jobs.push(Job { family: "repo-test", keys, probes });
    }
    e.run_jobs(&jobs);

    // ---- exhaustive tie-block sweep
    let sweep_max = if ctx.thorough { 40 } else { 24 };
    let mut jobs: Vec<Job> = vec![];
    for n in 0..=sweep_max {
        for a in 0..=n {
            for b in a..=n {
                let keys = sweep_keys(n, a, b);
                let mut probes = gen_probes(&keys, &mut e.rng, 0);
                probes.push(("tie-low", vec![0x80, 0, 0, 0]));
                probes.push(("tie-high", vec![0x80, 0, 0, 0, 0xff]));
                probes.push(("gap", vec![0x80, 0, 0, 1]));
                probes.push(("gap", vec![0x7f, 0xff, 0xff, 0xff]));
                jobs.push(Job { family: "sweep", keys, probes });
                if jobs.len() >= 400 {
                    e.run_jobs(&jobs);
                    jobs.clear();
                }
            }
        }
    }
    // larger n, random tie blocks
    let nbig = if ctx.thorough { 4000 } else { 300 };
    for _ in 0..nbig {
        let n = *e.rng.pick(&[31usize, 32, 33, 47, 48, 64, 65, 100, 128, 200, 256, 400]);
        let a = e.rng.below(n as u64 + 1) as usize;
        let b = a + (*e.rng.pick(&RUNS)).min(n - a);
        let keys = sweep_keys(n, a, b);
        let mut probes = gen_probes(&keys, &mut e.rng, 2);
        probes.push(("tie-low", vec![0x80, 0, 0, 0]));
        probes.push(("tie-high", vec![0x80, 0, 0, 0, 0xff]));
        jobs.push(Job { family: "sweep-big", keys, probes });
        if jobs.len() >= 100 {
            e.run_jobs(&jobs);
            jobs.clear();
        }
    }
    e.run_jobs(&jobs);

    // ---- random families
    let npages = if ctx.thorough { 30000 } else { 3000 };
    let mut jobs: Vec<Job> = vec![];
    for _ in 0..npages {
        let (family, keys) = gen_keys(&mut e.rng);
        let probes = gen_probes(&keys, &mut e.rng, 4);
        jobs.push(Job { family, keys, probes });
        if jobs.len() >= 100 {
            e.run_jobs(&jobs);
            jobs.clear();
        }
    }
    e.run_jobs(&jobs);
    e.flush_fails(true);
    e.rep.notes.push(format!(
        "time: model driver {:.1}s, implementation calls {:.1}s",
        e.t_model.as_secs_f64(),
        e.t_real.as_secs_f64()
    ));
    e.rep
}
