//! C01/C02 page-level correspondence: the recorded I/O trace of the real engine is replayed through
//! the Lean protocol model (`tvmodel commit`, Model/Commit.lean) and, for every crash point and both
//! crash models, the page images the model predicts after recovery are compared with the bytes the
//! real `recover_all_tables` leaves in the table and index files of the materialised snapshot.
//!
//! abstraction function: image of a page = 0 for an all-zero page, else a 64-bit content hash;
//! model file id = table id from the file header for `.tbd` files, 1000+i for other mmap files;
//! in-place mutations are inferred from the difference of consecutive kill snapshots (a `page_mut`
//! event only announces a mutation); `wal_frame` → `walWrite` with the page's current image;
//! `wal_sync` → `walSync` (flush + fdatasync; the crash points between the `wal_flush` and the
//! `wal_sync` event are skipped for the kill model because the model merges the two);
//! `mmap_sync` → `msync`; `wal_truncate` → `truncate`; acknowledgement marks → `ack`.
use super::crash::{hash_bytes, Case, Recorder, PAGE};
use crate::common::*;
use std::collections::{BTreeMap, HashMap};

fn img(page: &[u8]) -> u64 {
    if page.iter().all(|b| *b == 0) {
        0
    } else {
        // keep it below 2^63 so that every tool prints it the same way
        hash_bytes(page) >> 1 | 1
    }
}

fn table_id(bytes: &[u8]) -> Option<u64> {
    if bytes.len() < 128 {
        return None;
    }
    turdb::storage::TableFileHeader::from_bytes(&bytes[..128]).ok().map(|h| h.table_id())
}

fn pages_of(bytes: &[u8]) -> Vec<u64> {
    bytes.chunks(PAGE).filter(|c| c.len() == PAGE).map(img).collect()
}

fn wal_frames(bytes: &[u8]) -> Vec<(u64, u32, u64)> {
    let fsz = 32 + PAGE;
    bytes
        .chunks(fsz)
        .filter(|c| c.len() == fsz)
        .map(|c| (u64::from_le_bytes(c[0..8].try_into().unwrap()), u32::from_le_bytes(c[8..12].try_into().unwrap()), img(&c[32..])))
        .collect()
}

pub fn applicable(case: &Case) -> bool {
    matches!(case.class.as_str(), "dml-noidx" | "dml-pk" | "dml-idx" | "txn" | "big")
}

/// returns (compared page images, crash points compared)
pub fn check(ctx: &Ctx, case: &Case, rec: &Recorder, rep: &mut Report, tag: &str) -> (u64, u64) {
    if rec.events.is_empty() || !applicable(case) {
        return (0, 0);
    }
    let content = |h: &u64| -> &[u8] { rec.store.get(h).map(|b| b.as_slice()).unwrap_or(&[]) };
    // file ids
    let mut ids: BTreeMap<String, u64> = BTreeMap::new();
    let mut next_other = 1000u64;
    let mut assign = |name: &str, bytes: &[u8], ids: &mut BTreeMap<String, u64>| {
        if ids.contains_key(name) || !(name.ends_with(".tbd") || name.ends_with(".idx")) {
            return;
        }
        let id = if name.ends_with(".tbd") { table_id(bytes).filter(|t| *t != 0) } else { None };
        let id = id.unwrap_or_else(|| {
            next_other += 1;
            next_other
        });
        ids.insert(name.to_string(), id);
    };
    for s in &rec.snaps {
        for (n, h) in &s.files {
            assign(n, content(h), &mut ids);
        }
    }
    let mut reqs: Vec<String> = vec!["reset".into()];
    // baseline
    let base_kill = &rec.snaps[rec.events[0].kill];
    let base_power = &rec.snaps[rec.events[0].power];
    for (n, h) in &base_kill.files {
        if let Some(f) = ids.get(n) {
            for (p, i) in pages_of(content(h)).iter().enumerate() {
                if *i != 0 {
                    reqs.push(format!("init vol {f} {p} {i}"));
                }
            }
        } else if n.starts_with("wal/") {
            for (f, p, i) in wal_frames(content(h)) {
                reqs.push(format!("init wal {f} {p} {i}"));
            }
        }
    }
    for (n, h) in &base_power.files {
        if let Some(f) = ids.get(n) {
            for (p, i) in pages_of(content(h)).iter().enumerate() {
                if *i != 0 {
                    reqs.push(format!("init dur {f} {p} {i}"));
                }
            }
        }
    }
    // events
    let mut model_len = 0usize;
    let mut at: Vec<usize> = vec![]; // real event index -> number of model events
    let mut prev: HashMap<String, Vec<u64>> = HashMap::new();
    for (n, h) in &base_kill.files {
        if ids.contains_key(n) {
            prev.insert(n.clone(), pages_of(content(h)));
        }
    }
    for ev in &rec.events {
        // mutations since the previous event
        let snap = &rec.snaps[ev.kill];
        for (n, h) in &snap.files {
            if let Some(f) = ids.get(n) {
                let now = pages_of(content(h));
                let old = prev.get(n).cloned().unwrap_or_default();
                for (p, i) in now.iter().enumerate() {
                    if old.get(p).copied().unwrap_or(0) != *i {
                        reqs.push(format!("ev mut {f} {p} {i}"));
                        model_len += 1;
                    }
                }
                prev.insert(n.clone(), now);
            }
        }
        match ev.kind.as_str() {
            "wal_frame" => {
                // image = current content of that page of the table file with this id
                let name = ids.iter().find(|(_, v)| **v == ev.a).map(|(k, _)| k.clone());
                let i = name.and_then(|n| prev.get(&n).and_then(|ps| ps.get(ev.b as usize).copied())).unwrap_or(0);
                reqs.push(format!("ev ww {} {} {}", ev.a, ev.b, i));
                model_len += 1;
            }
            "wal_sync" => {
                reqs.push("ev sync".into());
                model_len += 1;
            }
            "mmap_sync" => {
                if let Some(f) = ids.get(&ev.name) {
                    reqs.push(format!("ev msync {f}"));
                    model_len += 1;
                }
            }
            "wal_truncate" => {
                reqs.push("ev trunc".into());
                model_len += 1;
            }
            "ack" => {
                reqs.push("ev ack".into());
                model_len += 1;
            }
            _ => {}
        }
        at.push(model_len);
    }
    // real recoveries
    let dir = format!("{}/crash-pages-{}", ctx.scratch, tag);
    let mut queries: Vec<(String, usize, String, u64, usize, u64)> = vec![]; // (model, k, file, f, page, real image)
    let mut seen: std::collections::BTreeSet<(usize, usize)> = Default::default();
    let mut points = 0u64;
    for (k, ev) in rec.events.iter().enumerate() {
        for (mi, model) in ["kill", "power"].iter().enumerate() {
            if *model == "kill" && ev.kind == "wal_flush" {
                continue;
            }
            let snap = if mi == 0 { ev.kill } else { ev.power };
            if !seen.insert((snap * 2 + mi, at[k])) {
                continue;
            }
            super::crash::materialise_pub(rec, snap, &dir);
            let d = dir.clone();
            let r = guarded(move || turdb::Database::verif_recover_all_tables(std::path::Path::new(&d)).map_err(|e| format!("{e:#}")));
            if !matches!(r, Ok(Ok(_))) {
                rep.count("pages:real-recovery-failed");
                continue;
            }
            points += 1;
            for (n, f) in &ids {
                if let Ok(bytes) = std::fs::read(std::path::Path::new(&dir).join(n)) {
                    for (p, i) in pages_of(&bytes).iter().enumerate() {
                        queries.push((model.to_string(), k, n.clone(), *f, p, *i));
                    }
                }
            }
        }
    }
    let _ = std::fs::remove_dir_all(&dir);
    let nreq = reqs.len();
    for (model, k, _, f, p, _) in &queries {
        reqs.push(format!("rec {model} {} {f} {p}", at[*k]));
    }
    let resp = model_batch(&ctx.model_bin, "commit", &reqs);
    let mut bad = 0;
    for (qi, (model, k, n, _f, p, real)) in queries.iter().enumerate() {
        let m = &resp[nreq + qi];
        if m != &real.to_string() {
            bad += 1;
            if bad <= 3 {
                rep.disagree(
                    case.line(model, Some(*k)),
                    format!("page-level recovery: after a {model} crash at event {k} ({}) page {p} of {n} has image {real} on the real files but the protocol model predicts {m}", rec.events[*k].kind),
                    format!("pages:{model}:{}", rec.events[*k].kind),
                );
            }
        }
    }
    (queries.len() as u64, points)
}
