//! C26 helper: harness-side value type mirroring the Lean `KVal`, printing in the protocol syntax,
//! encoding through the REAL turdb `encode_*` functions, native Rust reference order.
use std::cmp::Ordering;
use turdb::encoding::key as k;
use turdb::encoding::key::DecodedKey;

#[derive(Clone, Debug, PartialEq)]
pub enum KV {
    Null,
    Bool(bool),
    Int(i64),
    Float(u64),
    Text(Vec<u8>),
    Blob(Vec<u8>),
    Date(i32),
    Time(i64),
    Timestamp(i64),
    TimestampTz(i64, i16),
    Interval(i32, i32, i64),
    Uuid([u8; 16]),
    Inet(bool, u8, Vec<u8>),
    MacAddr([u8; 6]),
    Enum(u32, u32),
    Vector(Vec<u32>),
    Array(Vec<KV>),
    Tuple(Vec<KV>),
    Composite(u32, Vec<KV>),
    Domain(u32, Box<KV>),
    /// decoded values of kinds the Lean model does not cover (Json, Range)
    Outside(String),
}

fn hx(b: &[u8]) -> String {
    crate::common::hex(b)
}

impl KV {
    pub fn kind(&self) -> &'static str {
        match self {
            KV::Null => "null",
            KV::Bool(_) => "bool",
            KV::Int(_) => "int",
            KV::Float(_) => "float",
            KV::Text(_) => "text",
            KV::Blob(_) => "blob",
            KV::Date(_) => "date",
            KV::Time(_) => "time",
            KV::Timestamp(_) => "timestamp",
            KV::TimestampTz(..) => "timestamptz",
            KV::Interval(..) => "interval",
            KV::Uuid(_) => "uuid",
            KV::Inet(..) => "inet",
            KV::MacAddr(_) => "macaddr",
            KV::Enum(..) => "enum",
            KV::Vector(_) => "vector",
            KV::Array(_) => "array",
            KV::Tuple(_) => "tuple",
            KV::Composite(..) => "composite",
            KV::Domain(..) => "domain",
            KV::Outside(_) => "outside",
        }
    }

    /// protocol syntax (see lean/Driver/KeyEnc.lean)
    pub fn fmt(&self) -> String {
        fn list(vs: &[KV]) -> String {
            let mut s = format!("{}", vs.len());
            for v in vs {
                s.push(' ');
                s.push_str(&v.fmt());
            }
            s
        }
        match self {
            KV::Null => "N".into(),
            KV::Bool(b) => format!("B {}", *b as u8),
            KV::Int(n) => format!("I {n}"),
            KV::Float(b) => format!("F {b}"),
            KV::Text(b) => format!("T {}", hx(b)),
            KV::Blob(b) => format!("X {}", hx(b)),
            KV::Date(d) => format!("D {d}"),
            KV::Time(d) => format!("TM {d}"),
            KV::Timestamp(d) => format!("TS {d}"),
            KV::TimestampTz(a, b) => format!("TZ {a} {b}"),
            KV::Interval(a, b, c) => format!("IV {a} {b} {c}"),
            KV::Uuid(b) => format!("U {}", hx(b)),
            KV::Inet(f, p, a) => format!("IN {} {} {}", *f as u8, p, hx(a)),
            KV::MacAddr(b) => format!("M {}", hx(b)),
            KV::Enum(a, b) => format!("E {a} {b}"),
            KV::Vector(ds) => {
                let mut s = format!("V {}", ds.len());
                for d in ds {
                    s.push_str(&format!(" {d}"));
                }
                s
            }
            KV::Array(vs) => format!("A {}", list(vs)),
            KV::Tuple(vs) => format!("TU {}", list(vs)),
            KV::Composite(t, vs) => format!("C {t} {}", list(vs)),
            KV::Domain(t, v) => format!("DO {t} {}", v.fmt()),
            KV::Outside(s) => format!("OUTSIDE {s}"),
        }
    }

    /// encode with the real turdb functions
    pub fn real_enc(&self, buf: &mut Vec<u8>) {
        match self {
            KV::Null => k::encode_null(buf),
            KV::Bool(b) => k::encode_bool(*b, buf),
            KV::Int(n) => k::encode_int(*n, buf),
            KV::Float(b) => k::encode_float(f64::from_bits(*b), buf),
            KV::Text(b) => k::encode_text(std::str::from_utf8(b).expect("generator: text is utf8"), buf),
            KV::Blob(b) => k::encode_blob(b, buf),
            KV::Date(d) => k::encode_date(*d, buf),
            KV::Time(d) => k::encode_time(*d, buf),
            KV::Timestamp(d) => k::encode_timestamp(*d, buf),
            KV::TimestampTz(a, b) => k::encode_timestamptz(*a, *b, buf),
            KV::Interval(a, b, c) => k::encode_interval(*a, *b, *c, buf),
            KV::Uuid(b) => k::encode_uuid(b, buf),
            KV::Inet(f, p, a) => k::encode_inet(*f, a, *p, buf),
            KV::MacAddr(b) => k::encode_macaddr(b, buf),
            KV::Enum(a, b) => k::encode_enum(*a, *b, buf),
            KV::Vector(ds) => {
                let fs: Vec<f32> = ds.iter().map(|d| f32::from_bits(*d)).collect();
                k::encode_vector(&fs, buf)
            }
            KV::Array(vs) => k::encode_array(vs, buf, |e, b| e.real_enc(b)),
            KV::Tuple(vs) => k::encode_tuple(vs, buf, |e, b| e.real_enc(b)),
            KV::Composite(t, vs) => k::encode_composite(*t, vs, buf, |e, b| e.real_enc(b)),
            KV::Domain(t, v) => k::encode_domain(*t, &**v, buf, |e, b| e.real_enc(b)),
            KV::Outside(_) => panic!("Outside values are never encoded"),
        }
    }

    pub fn key(&self) -> Vec<u8> {
        let mut b = vec![];
        self.real_enc(&mut b);
        b
    }

    /// vector dimensions that `encode_vector` mishandles (-0.0 and NaNs with the sign bit set), anywhere inside the value
    pub fn vec_features(&self, negzero: &mut bool, nan: &mut bool) {
        match self {
            KV::Vector(ds) => {
                for d in ds {
                    if *d == 0x8000_0000 {
                        *negzero = true;
                    }
                    if f32::from_bits(*d).is_nan() && *d >= 0x8000_0000 {
                        *nan = true;
                    }
                }
            }
            KV::Array(vs) | KV::Tuple(vs) | KV::Composite(_, vs) => {
                for v in vs {
                    v.vec_features(negzero, nan)
                }
            }
            KV::Domain(_, v) => v.vec_features(negzero, nan),
            _ => {}
        }
    }

    pub fn sig_kind(&self) -> String {
        let (mut z, mut n) = (false, false);
        self.vec_features(&mut z, &mut n);
        format!("{}{}{}", self.kind(), if z { "[vecdim=-0.0]" } else { "" }, if n { "[vecdim=-nan]" } else { "" })
    }

    /// does any float / vector dimension inside hold a NaN (order between NaNs is unspecified)
    pub fn contains_vec_nan(&self) -> bool {
        match self {
            KV::Vector(ds) => ds.iter().any(|d| f32::from_bits(*d).is_nan()),
            KV::Array(vs) | KV::Tuple(vs) | KV::Composite(_, vs) => vs.iter().any(|v| v.contains_vec_nan()),
            KV::Domain(_, v) => v.contains_vec_nan(),
            _ => false,
        }
    }

    /// documented type rank (type_prefix table): class of the value
    pub fn rank(&self) -> u8 {
        match self {
            KV::Null => 0x01,
            KV::Bool(b) => 0x02 + *b as u8,
            KV::Int(n) => match n.cmp(&0) {
                Ordering::Less => 0x12,
                Ordering::Equal => 0x14,
                Ordering::Greater => 0x16,
            },
            KV::Float(b) => {
                let f = f64::from_bits(*b);
                if f.is_nan() {
                    0x19
                } else if f == f64::NEG_INFINITY {
                    0x10
                } else if f == f64::INFINITY {
                    0x18
                } else if f < 0.0 {
                    0x13
                } else if f == 0.0 {
                    0x14
                } else {
                    0x15
                }
            }
            KV::Text(_) => 0x20,
            KV::Blob(_) => 0x21,
            KV::Date(_) => 0x30,
            KV::Time(_) => 0x31,
            KV::Timestamp(_) => 0x32,
            KV::TimestampTz(..) => 0x33,
            KV::Interval(..) => 0x34,
            KV::Uuid(_) => 0x40,
            KV::Inet(..) => 0x41,
            KV::MacAddr(_) => 0x42,
            KV::Array(_) => 0x60,
            KV::Tuple(_) => 0x61,
            KV::Enum(..) => 0x63,
            KV::Composite(..) => 0x64,
            KV::Domain(..) => 0x65,
            KV::Vector(_) => 0x70,
            KV::Outside(_) => 0xFF,
        }
    }

    /// what `decode_key(encode(v))` must return for the property to hold: the value itself,
    /// except the documented canonicalisations (Int 0 / Float ±0 -> Int 0, any NaN -> Nan).
    pub fn expected_roundtrip(&self) -> KV {
        match self {
            KV::Float(b) => {
                let f = f64::from_bits(*b);
                if f.is_nan() {
                    KV::Float(0x7FF8_0000_0000_0000)
                } else if f == 0.0 {
                    KV::Int(0)
                } else {
                    self.clone()
                }
            }
            KV::Array(vs) => KV::Array(vs.iter().map(|v| v.expected_roundtrip()).collect()),
            KV::Tuple(vs) => KV::Tuple(vs.iter().map(|v| v.expected_roundtrip()).collect()),
            KV::Composite(t, vs) => KV::Composite(*t, vs.iter().map(|v| v.expected_roundtrip()).collect()),
            KV::Domain(t, v) => KV::Domain(*t, Box::new(v.expected_roundtrip())),
            v => v.clone(),
        }
    }
}

fn f_cmp(a: f64, b: f64) -> Ordering {
    // IEEE order, NaN greatest and all NaNs equal (documented: ... POS_INFINITY < NAN)
    match (a.is_nan(), b.is_nan()) {
        (true, true) => Ordering::Equal,
        (true, false) => Ordering::Greater,
        (false, true) => Ordering::Less,
        _ => a.partial_cmp(&b).unwrap(),
    }
}

fn list_cmp(a: &[KV], b: &[KV]) -> Ordering {
    for (x, y) in a.iter().zip(b.iter()) {
        let o = nat_cmp(x, y);
        if o != Ordering::Equal {
            return o;
        }
    }
    a.len().cmp(&b.len())
}

/// reference order evaluated natively in Rust (property oracle; independent of the Lean model):
/// natural order inside a type, documented type rank between types.
pub fn nat_cmp(a: &KV, b: &KV) -> Ordering {
    match (a, b) {
        (KV::Bool(x), KV::Bool(y)) => x.cmp(y),
        (KV::Int(x), KV::Int(y)) => x.cmp(y),
        (KV::Float(x), KV::Float(y)) => f_cmp(f64::from_bits(*x), f64::from_bits(*y)),
        (KV::Text(x), KV::Text(y)) => {
            std::str::from_utf8(x).unwrap().cmp(std::str::from_utf8(y).unwrap())
        }
        (KV::Blob(x), KV::Blob(y)) => x.cmp(y),
        (KV::Date(x), KV::Date(y)) => x.cmp(y),
        (KV::Time(x), KV::Time(y)) => x.cmp(y),
        (KV::Timestamp(x), KV::Timestamp(y)) => x.cmp(y),
        (KV::TimestampTz(x, xz), KV::TimestampTz(y, yz)) => (x, xz).cmp(&(y, yz)),
        (KV::Interval(a1, a2, a3), KV::Interval(b1, b2, b3)) => (a1, a2, a3).cmp(&(b1, b2, b3)),
        (KV::Uuid(x), KV::Uuid(y)) => x.cmp(y),
        (KV::Inet(xf, xp, xa), KV::Inet(yf, yp, ya)) => (xf, xp, xa).cmp(&(yf, yp, ya)),
        (KV::MacAddr(x), KV::MacAddr(y)) => x.cmp(y),
        (KV::Enum(xt, xo), KV::Enum(yt, yo)) => (xt, xo).cmp(&(yt, yo)),
        (KV::Vector(x), KV::Vector(y)) => {
            let o = x.len().cmp(&y.len());
            if o != Ordering::Equal {
                return o;
            }
            for (p, q) in x.iter().zip(y.iter()) {
                let o = f_cmp(f32::from_bits(*p) as f64, f32::from_bits(*q) as f64);
                if o != Ordering::Equal {
                    return o;
                }
            }
            Ordering::Equal
        }
        (KV::Array(x), KV::Array(y)) => list_cmp(x, y),
        (KV::Tuple(x), KV::Tuple(y)) => list_cmp(x, y),
        (KV::Composite(xt, x), KV::Composite(yt, y)) => xt.cmp(yt).then_with(|| list_cmp(x, y)),
        (KV::Domain(xt, x), KV::Domain(yt, y)) => xt.cmp(yt).then_with(|| nat_cmp(x, y)),
        _ => a.rank().cmp(&b.rank()),
    }
}

pub fn cols_cmp(a: &[KV], b: &[KV]) -> Ordering {
    list_cmp(a, b)
}

pub fn ord_s(o: Ordering) -> &'static str {
    match o {
        Ordering::Less => "lt",
        Ordering::Equal => "eq",
        Ordering::Greater => "gt",
    }
}

/// map the real decoder's output into the harness value type
pub fn from_decoded(d: &DecodedKey) -> KV {
    match d {
        DecodedKey::Null => KV::Null,
        DecodedKey::Bool(b) => KV::Bool(*b),
        DecodedKey::Int(n) => KV::Int(*n),
        DecodedKey::Float(f) => KV::Float(f.to_bits()),
        DecodedKey::NegInfinity => KV::Float(f64::NEG_INFINITY.to_bits()),
        DecodedKey::PosInfinity => KV::Float(f64::INFINITY.to_bits()),
        DecodedKey::Nan => KV::Float(0x7FF8_0000_0000_0000),
        DecodedKey::Text(s) => KV::Text(s.as_bytes().to_vec()),
        DecodedKey::Blob(b) => KV::Blob(b.clone()),
        DecodedKey::Date(d) => KV::Date(*d),
        DecodedKey::Time(d) => KV::Time(*d),
        DecodedKey::Timestamp(d) => KV::Timestamp(*d),
        DecodedKey::TimestampTz { micros, tz_offset_mins } => KV::TimestampTz(*micros, *tz_offset_mins),
        DecodedKey::Interval { months, days, micros } => KV::Interval(*months, *days, *micros),
        DecodedKey::Uuid(b) => KV::Uuid(*b),
        DecodedKey::Inet { is_ipv6, addr, prefix_len } => KV::Inet(*is_ipv6, *prefix_len, addr.clone()),
        DecodedKey::MacAddr(b) => KV::MacAddr(*b),
        DecodedKey::Array(vs) => KV::Array(vs.iter().map(from_decoded).collect()),
        DecodedKey::Tuple(vs) => KV::Tuple(vs.iter().map(from_decoded).collect()),
        DecodedKey::Enum { type_id, ordinal } => KV::Enum(*type_id, *ordinal),
        DecodedKey::Composite { type_id, fields } => {
            KV::Composite(*type_id, fields.iter().map(from_decoded).collect())
        }
        DecodedKey::Domain { type_id, value } => KV::Domain(*type_id, Box::new(from_decoded(value))),
        DecodedKey::Vector(fs) => KV::Vector(fs.iter().map(|f| f.to_bits()).collect()),
        DecodedKey::Range { .. } => KV::Outside("range".into()),
        DecodedKey::Json(_) => KV::Outside("json".into()),
    }
}

pub fn contains_outside(v: &KV) -> bool {
    match v {
        KV::Outside(_) => true,
        KV::Array(vs) | KV::Tuple(vs) | KV::Composite(_, vs) => vs.iter().any(contains_outside),
        KV::Domain(_, v) => contains_outside(v),
        _ => false,
    }
}
