//! C23 file level: corrupt the files of a valid database, then `Database::open` + scans +
//! index lookups + an INSERT, each step under catch_unwind, in a child process (a corrupt length
//! field can make the allocator abort the process, which no in-process guard survives; a child can
//! also be killed when it hangs).
//!
//! case syntax: `open-corrupt <file relative to the db dir> <field class> <patch>` with
//! patch = `w<offset>:<hex>` (overwrite) | `t<len>` (truncate / extend with zeros to len).
use crate::common::*;
use std::io::Read;
use std::process::{Command, Stdio};
use std::time::{Duration, Instant};
use turdb::Database;

use super::decfuzz::{install_loc_hook, panic_class, rel_path, PAGE};

const QUERIES: [&str; 9] = [
    "SELECT * FROM t",
    "SELECT * FROM t WHERE id = 1500",
    "SELECT id, b FROM t WHERE a = 7",
    "SELECT COUNT(*) FROM t",
    "SELECT * FROM u",
    "SELECT * FROM u WHERE n = 3",
    "SELECT * FROM v",
    "INSERT INTO t VALUES (1000001, 5, 'fresh', 2.5)",
    "SELECT * FROM t WHERE id = 1000001",
];

pub fn build_database(dir: &str, rep: &mut Report) -> bool {
    let _ = std::fs::remove_dir_all(dir);
    let d = dir.to_string();
    let r = guarded(move || -> Result<Vec<String>, String> {
        let mut notes = vec![];
        let db = Database::create(&d).map_err(|e| format!("create: {e}"))?;
        let mut stmts: Vec<String> = vec![
            "PRAGMA wal=ON".into(),
            "CREATE TABLE t (id BIGINT PRIMARY KEY, a INT, b TEXT, c DOUBLE)".into(),
            "CREATE INDEX t_a ON t (a)".into(),
            "CREATE TABLE u (id INT PRIMARY KEY, name VARCHAR(20) NOT NULL DEFAULT 'x', n INT UNIQUE, ok BOOLEAN)".into(),
            "CREATE TABLE v (id INT PRIMARY KEY, e VECTOR(4))".into(),
            "CREATE INDEX v_e ON v USING hnsw (e)".into(),
            // every constraint kind the catalog serializes (column-level REFERENCES with and without actions, CHECK, NOT NULL, UNIQUE)
            "CREATE TABLE w (id INT PRIMARY KEY, uid INT REFERENCES u(id) ON DELETE CASCADE ON UPDATE RESTRICT, tid BIGINT REFERENCES t(id), q INT CHECK (q > 0), r INT NOT NULL, s INT UNIQUE)".into(),
            "INSERT INTO w VALUES (1, 1, 1, 5, 0, 7)".into(),
            "INSERT INTO w VALUES (2, 2, NULL, 6, 0, 8)".into(),
        ];
        for chunk in 0..30 {
            let rows: Vec<String> = (0..100)
                .map(|k| {
                    let i = chunk * 100 + k;
                    format!("({i}, {}, 'row-{i:05}-{}', {}.5)", i % 97, "x".repeat(i % 23), i)
                })
                .collect();
            stmts.push(format!("INSERT INTO t VALUES {}", rows.join(", ")));
        }
        for i in 0..40 {
            stmts.push(format!("INSERT INTO u VALUES ({i}, 'name{i}', {i}, {})", if i % 2 == 0 { "TRUE" } else { "FALSE" }));
        }
        for i in 0..30 {
            stmts.push(format!("INSERT INTO v VALUES ({i}, '[{}.0, {}.5, 1.0, 0.25]')", i, i % 7));
        }
        for s in &stmts {
            let s2 = s.clone();
            let dbr = &db;
            match guarded(std::panic::AssertUnwindSafe(move || dbr.execute(&s2))) {
                Ok(Ok(_)) => {}
                Ok(Err(e)) => notes.push(format!("setup statement failed: {} : {e}", &s[..s.len().min(60)])),
                Err(p) => notes.push(format!("setup statement panicked: {} : {p}", &s[..s.len().min(60)])),
            }
        }
        let _ = db.close();
        Ok(notes)
    });
    match r {
        Ok(Ok(notes)) => {
            let mut seen = std::collections::BTreeSet::new();
            for n in notes {
                let k: String = n.chars().take(70).collect();
                if seen.insert(k) && seen.len() <= 6 {
                    rep.notes.push(n);
                }
            }
            true
        }
        Ok(Err(e)) => {
            rep.disagree("build-database".into(), e, "harness-db".into());
            false
        }
        Err(p) => {
            rep.disagree("build-database".into(), format!("panicked: {p}"), "harness-db".into());
            false
        }
    }
}

/// child process: open the database at `dir`, run the probe statements, print one line per step
pub fn child_main(dir: &str) -> ! {
    install_loc_hook();
    let show = |step: &str, r: Result<Result<String, String>, String>| {
        match r {
            Ok(Ok(s)) => println!("{step} ok {s}"),
            Ok(Err(e)) => println!("{step} err {}", e.replace('\n', " ")),
            Err(m) => println!("{step} panic {}", m.replace('\n', " ")),
        }
    };
    // panics are caught here and rendered as `<class>@<loc> <msg>`
    fn catch<T>(f: impl FnOnce() -> Result<T, String>) -> Result<Result<T, String>, String> {
        let hookloc = std::sync::Arc::new(std::sync::Mutex::new(None::<String>));
        let h2 = hookloc.clone();
        std::panic::set_hook(Box::new(move |info| {
            let loc = info.location().map(|l| format!("{}:{}", rel_path(l.file()), l.line())).unwrap_or_else(|| "?".into());
            *h2.lock().unwrap() = Some(loc);
        }));
        match guarded(std::panic::AssertUnwindSafe(f)) {
            Ok(r) => Ok(r),
            Err(m) => {
                let loc = hookloc.lock().unwrap().take().unwrap_or_else(|| "?".into());
                Err(format!("{}@{} {}", panic_class(&m), loc, m))
            }
        }
    }
    let d = dir.to_string();
    let opened = catch(move || Database::open(&d).map_err(|e| format!("{e:#}")));
    let db = match opened {
        Ok(Ok(db)) => {
            println!("open ok -");
            db
        }
        Ok(Err(e)) => {
            show("open", Ok(Err(e)));
            std::process::exit(0);
        }
        Err(m) => {
            show("open", Err(m));
            std::process::exit(0);
        }
    };
    for (i, q) in QUERIES.iter().enumerate() {
        let dbr = &db;
        let r = catch(move || match dbr.execute(q) {
            Ok(turdb::ExecuteResult::Select { rows, .. }) => Ok(format!("{} rows", rows.len())),
            Ok(_) => Ok("done".into()),
            Err(e) => Err(format!("{e:#}")),
        });
        show(&format!("q{i}"), r);
    }
    let r = catch(move || db.close().map(|_| "closed".to_string()).map_err(|e| format!("{e:#}")));
    show("close", r);
    std::process::exit(0);
}

fn copy_dir(from: &std::path::Path, to: &std::path::Path) {
    let _ = std::fs::create_dir_all(to);
    if let Ok(rd) = std::fs::read_dir(from) {
        for e in rd.filter_map(|e| e.ok()) {
            let p = e.path();
            let t = to.join(e.file_name());
            if p.is_dir() {
                copy_dir(&p, &t);
            } else {
                let _ = std::fs::copy(&p, &t);
            }
        }
    }
}

fn list_files(root: &std::path::Path) -> Vec<String> {
    fn walk(root: &std::path::Path, p: &std::path::Path, out: &mut Vec<String>) {
        if let Ok(rd) = std::fs::read_dir(p) {
            let mut es: Vec<_> = rd.filter_map(|e| e.ok()).map(|e| e.path()).collect();
            es.sort();
            for e in es {
                if e.is_dir() {
                    walk(root, &e, out);
                } else {
                    out.push(e.strip_prefix(root).unwrap().to_string_lossy().to_string());
                }
            }
        }
    }
    let mut v = vec![];
    walk(root, root, &mut v);
    v
}

fn file_kind(rel: &str) -> &'static str {
    let name = rel.rsplit('/').next().unwrap_or(rel);
    if name == "turdb.catalog" {
        "catalog"
    } else if name == "turdb.meta" {
        "meta"
    } else if name.ends_with(".tbd") {
        "tbd"
    } else if name.ends_with(".idx") {
        "idx"
    } else if name.ends_with(".hnsw") {
        "hnsw"
    } else if name.starts_with("wal.") {
        "wal"
    } else {
        "other"
    }
}

/// the systematic corruption list for one file: (field class, patch)
fn corruptions(kind: &str, data: &[u8], rng: &mut Rng, nrand: usize) -> Vec<(String, String)> {
    let mut v: Vec<(String, String)> = vec![];
    let len = data.len();
    let w = |off: usize, bytes: &[u8]| format!("w{off}:{}", hex(bytes));
    if kind == "wal" {
        // frames with a valid checksum around corrupt header fields (appended to the segment)
        v.push(("frame:forged-page_no".into(), "F4294967295:0".into()));
        v.push(("frame:forged-page_no".into(), "F2:0".into()));
        v.push(("frame:forged-page_no".into(), "F40:0".into()));
        v.push(("frame:forged-db_size".into(), "F30:300".into()));
    }
    if len == 0 {
        v.push(("truncate".into(), "t1".into()));
        v.push(("truncate".into(), "t31".into()));
        v.push(("truncate".into(), format!("t{}", 32 + PAGE)));
        return v;
    }
    // first / last bytes, truncations
    v.push(("first".into(), w(0, &[data[0] ^ 0xff])));
    v.push(("last".into(), w(len - 1, &[data[len - 1] ^ 0xff])));
    for t in [0usize, 1, 64, 127, 128, PAGE - 1, PAGE, PAGE + 1, len / 2, len - 1, len + 1] {
        if t != len {
            v.push(("truncate".into(), format!("t{t}")));
        }
    }
    let ext32 = [0u32, 1, 0x7f, 0xffff, 0x7fff_ffff, 0xffff_fffe, 0xffff_ffff];
    let ext64 = [0u64, 1, 0xffff, 0xffff_ffff, 1 << 40, 1 << 62, u64::MAX - 1, u64::MAX];
    match kind {
        "catalog" => {
            v.push(("hdr:magic".into(), w(3, &[0])));
            for x in ext32 {
                v.push(("hdr:version".into(), w(16, &x.to_le_bytes())));
            }
            for x in ext64 {
                v.push(("hdr:catalog_offset".into(), w(64, &x.to_le_bytes())));
                v.push(("hdr:catalog_length".into(), w(72, &x.to_le_bytes())));
            }
            v.push(("hdr:catalog_length".into(), w(72, &((len as u64 - 128) + 1).to_le_bytes())));
            v.push(("hdr:catalog_length".into(), w(72, &((len as u64 - 128).saturating_sub(1)).to_le_bytes())));
            // body: every 3rd byte to 0xff / 0x00 (count, length and type fields among them)
            let mut p = 128;
            while p < len {
                v.push(("body".into(), w(p, &[0xff])));
                v.push(("body".into(), w(p, &[if data[p] == 0 { 1 } else { 0 }])));
                p += 3;
            }
        }
        "meta" => {
            v.push(("hdr:magic".into(), w(3, &[0])));
            for x in ext32 {
                v.push(("hdr:version".into(), w(16, &x.to_le_bytes())));
                v.push(("hdr:page_size".into(), w(20, &x.to_le_bytes())));
            }
            for x in ext64 {
                v.push(("hdr:schema_count".into(), w(24, &x.to_le_bytes())));
                v.push(("hdr:next_table_id".into(), w(40, &x.to_le_bytes())));
            }
        }
        "tbd" | "idx" | "hnsw" => {
            v.push(("hdr:magic".into(), w(3, &[0])));
            let fields: Vec<(&str, usize, usize)> = match kind {
                "tbd" => vec![("table_id", 16, 8), ("row_count", 24, 8), ("root_page", 32, 4), ("column_count", 36, 4), ("first_free_page", 40, 8), ("auto_increment", 48, 8), ("rightmost_hint", 56, 4)],
                "idx" => vec![("index_id", 16, 8), ("table_id", 24, 8), ("root_page", 32, 4), ("key_column_count", 36, 4), ("is_unique", 40, 1), ("index_type", 41, 1)],
                _ => vec![("dimensions", 32, 2), ("m", 34, 2), ("m0", 36, 2), ("ef_search", 40, 2), ("distance_fn", 42, 1), ("quantization", 43, 1), ("entry_point_page", 44, 4), ("entry_point_slot", 48, 2), ("max_level", 50, 1), ("node_count", 52, 8), ("first_free_page", 68, 4)],
            };
            for (name, off, sz) in fields {
                let vals: Vec<Vec<u8>> = match sz {
                    8 => ext64.iter().map(|x| x.to_le_bytes().to_vec()).collect(),
                    4 => ext32.iter().map(|x| x.to_le_bytes().to_vec()).collect(),
                    2 => [0u16, 1, 0x7fff, 0xffff].iter().map(|x| x.to_le_bytes().to_vec()).collect(),
                    _ => vec![vec![0], vec![1], vec![2], vec![0xff]],
                };
                for b in vals {
                    v.push((format!("hdr:{name}"), w(off, &b)));
                }
            }
            // page 0 carries a page header after the file header?  corrupt bytes 128..144 too
            for p in [128usize, 130, 132, 134] {
                if p + 2 <= len {
                    v.push(("page0:after-header".into(), w(p, &[0xff, 0xff])));
                }
            }
            // every page: type, cell_count, free_start, free_end, right_child, first slot, a cell byte
            let npages = len / PAGE;
            for pg in 1..npages.min(12) {
                let b = pg * PAGE;
                let ty = data[b];
                for t in [0u8, 1, 2, 0x10, 0x30, 0xff] {
                    if t != ty {
                        v.push(("page-hdr:type".into(), w(b, &[t])));
                    }
                }
                for x in [0u16, 1, 2044, 2045, 2046, 0x7fff, 0xffff] {
                    v.push(("page-hdr:cell_count".into(), w(b + 2, &x.to_le_bytes())));
                }
                for x in [0u16, 15, 0x4001, 0xffff] {
                    v.push(("page-hdr:free_start".into(), w(b + 4, &x.to_le_bytes())));
                    v.push(("page-hdr:free_end".into(), w(b + 6, &x.to_le_bytes())));
                }
                for x in [0u32, 1, npages as u32, 0x7fff_ffff, 0xffff_ffff] {
                    v.push(("page-hdr:right_child".into(), w(b + 12, &x.to_le_bytes())));
                }
                let (s0, ssz, offat) = if ty == 1 { (16usize, 12usize, 8usize) } else { (24, 8, 4) };
                for s in [0usize, 1] {
                    for x in [0u16, 16383, 16384, 0xffff] {
                        v.push(("slot:offset".into(), w(b + s0 + s * ssz + offat, &x.to_le_bytes())));
                        v.push(("slot:key_len".into(), w(b + s0 + s * ssz + offat + 2, &x.to_le_bytes())));
                    }
                    if ty == 1 {
                        for x in [0u32, npages as u32 + 5, 0xffff_ffff] {
                            v.push(("slot:child".into(), w(b + s0 + s * ssz + 4, &x.to_le_bytes())));
                        }
                    }
                }
                // the first cell (lowest slot): bytes of key, value length varint, record header
                let off = u16::from_le_bytes([data[b + s0 + offat], data[b + s0 + offat + 1]]) as usize;
                let kl = u16::from_le_bytes([data[b + s0 + offat + 2], data[b + s0 + offat + 3]]) as usize;
                if off + kl + 12 < PAGE && off >= 16 {
                    v.push(("cell:key".into(), w(b + off, &[0xff])));
                    v.push(("cell:value_len".into(), w(b + off + kl, &[0xff; 9])));
                    v.push(("cell:value_len".into(), w(b + off + kl, &[0xf8, 0xff])));
                    v.push(("cell:value_len".into(), w(b + off + kl, &[0])));
                    for x in [0u16, 1, 0x7fff, 0xffff] {
                        v.push(("cell:record_header_len".into(), w(b + off + kl + 1, &x.to_le_bytes())));
                    }
                    for k in 3..10 {
                        v.push(("cell:record_body".into(), w(b + off + kl + k, &[0xff, 0xff])));
                    }
                }
            }
        }
        "wal" => {
            for x in ext32 {
                v.push(("frame:page_no".into(), w(8, &x.to_le_bytes())));
                v.push(("frame:db_size".into(), w(12, &x.to_le_bytes())));
            }
            v.push(("frame:checksum".into(), w(24, &[0xff])));
            v.push(("frame:page".into(), w(32 + 100, &[0xff])));
        }
        _ => {}
    }
    for _ in 0..nrand {
        let p = rng.below(len as u64) as usize;
        let n = 1 + rng.below(4) as usize;
        let cls = if p < 128 { "random:file-header" } else if p % PAGE < 16 { "random:page-header" } else { "random:body" };
        v.push((cls.into(), w(p, &rng.bytes(n))));
    }
    v
}

fn apply_patch(path: &std::path::Path, patch: &str) -> Result<(), String> {
    let mut data = std::fs::read(path).map_err(|e| format!("read {path:?}: {e}"))?;
    if let Some(t) = patch.strip_prefix('t') {
        let n: usize = t.parse().map_err(|_| "bad truncate")?;
        data.resize(n, 0);
    } else if let Some(wp) = patch.strip_prefix('w') {
        let (o, h) = wp.split_once(':').ok_or("bad write patch")?;
        let o: usize = o.parse().map_err(|_| "bad offset")?;
        let b = unhex(h);
        if o + b.len() > data.len() {
            data.resize(o + b.len(), 0);
        }
        data[o..o + b.len()].copy_from_slice(&b);
    } else if let Some(fp) = patch.strip_prefix('F') {
        // append a forged redo frame (valid checksum, zero page) for table `t` to a WAL segment
        let (pn, ds) = fp.split_once(':').ok_or("bad frame patch")?;
        let pn: u32 = pn.parse().map_err(|_| "bad page_no")?;
        let ds: u32 = ds.parse().map_err(|_| "bad db_size")?;
        let root = path.parent().and_then(|p| p.parent()).ok_or("no db root")?;
        let th = std::fs::read(root.join("root/t.tbd")).map_err(|e| format!("read t.tbd: {e}"))?;
        let file_id = u64::from_le_bytes(th[16..24].try_into().unwrap());
        let page = vec![0u8; PAGE];
        let mut hdr = turdb::storage::WalFrameHeader::new_with_file_id(pn, ds, 7, 9, 0, file_id);
        hdr.checksum = turdb::storage::verif_wal_compute_checksum(&hdr, &page);
        data.extend(hdr.file_id.to_le_bytes());
        data.extend(hdr.page_no.to_le_bytes());
        data.extend(hdr.db_size.to_le_bytes());
        data.extend(hdr.salt1.to_le_bytes());
        data.extend(hdr.salt2.to_le_bytes());
        data.extend(hdr.checksum.to_le_bytes());
        data.extend(page);
    } else {
        return Err("bad patch".into());
    }
    std::fs::write(path, data).map_err(|e| format!("write: {e}"))
}

struct ChildOut {
    lines: Vec<String>,
    status: String, // "exit" | "hang" | "signal N"
}

fn run_child(dir: &str, secs: u64) -> ChildOut {
    let exe = std::env::current_exe().expect("current_exe");
    let mut child = Command::new(exe)
        .arg("decfuzz")
        .env("DECFUZZ_CHILD", dir)
        .stdin(Stdio::null())
        .stdout(Stdio::piped())
        .stderr(Stdio::null())
        .spawn()
        .expect("spawn child");
    let mut out = child.stdout.take().unwrap();
    let reader = std::thread::spawn(move || {
        let mut s = String::new();
        let _ = out.read_to_string(&mut s);
        s
    });
    let t0 = Instant::now();
    let status;
    loop {
        match child.try_wait() {
            Ok(Some(st)) => {
                use std::os::unix::process::ExitStatusExt;
                status = match st.signal() {
                    Some(sig) => format!("signal {sig}"),
                    None => "exit".to_string(),
                };
                break;
            }
            Ok(None) => {
                if t0.elapsed() > Duration::from_secs(secs) {
                    let _ = child.kill();
                    let _ = child.wait();
                    status = "hang".to_string();
                    break;
                }
                std::thread::sleep(Duration::from_millis(2));
            }
            Err(_) => {
                status = "exit".into();
                break;
            }
        }
    }
    let text = reader.join().unwrap_or_default();
    ChildOut { lines: text.lines().map(|l| l.to_string()).collect(), status }
}

pub fn run_file_level(ctx: &Ctx, dbdir: &str, rng: &mut Rng, corpus: Vec<String>, rep: &mut Report) {
    let root = std::path::Path::new(dbdir);
    let files = list_files(root);
    rep.notes.push(format!("database files: {}", files.iter().map(|f| format!("{f}({})", std::fs::metadata(root.join(f)).map(|m| m.len()).unwrap_or(0))).collect::<Vec<_>>().join(" ")));
    // the pristine copy must open and answer every probe
    let work = format!("{}/decfuzz-work-{}", ctx.scratch, std::process::id());
    let run_case = |case: &str, rel: &str, cls: &str, patch: Option<&str>, rep: &mut Report| {
        let _ = std::fs::remove_dir_all(&work);
        copy_dir(root, std::path::Path::new(&work));
        if let Some(p) = patch {
            if let Err(e) = apply_patch(&std::path::Path::new(&work).join(rel), p) {
                rep.disagree(case.to_string(), e, "harness-patch".into());
                return;
            }
        }
        let base_secs: u64 = std::env::var("DECFUZZ_HANG_SECS").ok().and_then(|v| v.parse().ok()).unwrap_or(8);
        let mut out = run_child(&work, base_secs);
        if out.status == "hang" {
            // a loaded machine can make a healthy child slow: a hang is reported only when a second
            // run on a fresh copy, with four times the time, does not finish either
            let _ = std::fs::remove_dir_all(&work);
            copy_dir(root, std::path::Path::new(&work));
            if let Some(p) = patch {
                let _ = apply_patch(&std::path::Path::new(&work).join(rel), p);
            }
            out = run_child(&work, base_secs * 4);
            rep.count("file_cases_rerun_after_timeout");
        }
        let kind = file_kind(rel);
        rep.case(Some(case));
        let open_line = out.lines.first().cloned().unwrap_or_default();
        rep.count(&format!("open_{}_{}", kind, open_line.split(' ').nth(1).unwrap_or("none")));
        if out.status != "exit" {
            let last = out.lines.last().cloned().unwrap_or_else(|| "(before open returned)".into());
            let step = if out.lines.len() <= 1 && !open_line.starts_with("open ok") { "open".to_string() } else { format!("after-{}", last.split(' ').next().unwrap_or("?")) };
            let what = if out.status == "hang" { "hang".to_string() } else { format!("abort({})", out.status) };
            rep.oracle_fail(case.to_string(), format!("child {}; last line: {}", out.status, last), format!("open-corrupt:{kind}:{cls}:{what}@{step}"));
        }
        for l in &out.lines {
            let w: Vec<&str> = l.splitn(3, ' ').collect();
            if w.len() >= 2 && w[1] == "panic" {
                let rest = w.get(2).copied().unwrap_or("");
                let site = rest.split(' ').next().unwrap_or("?");
                rep.oracle_fail(case.to_string(), format!("{} panicked: {}", w[0], rest), format!("open-corrupt:{kind}:{cls}:{site}"));
                rep.count(&format!("file_level_panic_{kind}"));
            }
        }
        if patch.is_none() {
            for (i, l) in out.lines.iter().enumerate() {
                if !l.contains(" ok ") {
                    rep.notes.push(format!("pristine database, step {i}: {l}"));
                }
            }
        }
    };
    run_case("open-corrupt - pristine -", "-", "pristine", None, rep);
    for c in corpus {
        let w: Vec<&str> = c.split(' ').collect();
        if w.len() == 4 {
            run_case(&c, w[1], w[2], Some(w[3]), rep);
        } else {
            rep.disagree(c.clone(), "unparsable open-corrupt case".into(), "bad-case".into());
        }
    }
    let nrand = if ctx.thorough { 40 } else { 4 };
    let mut all: Vec<(String, String, String)> = vec![];
    let mut seen_kind: std::collections::BTreeMap<&'static str, usize> = Default::default();
    for f in &files {
        let kind = file_kind(f);
        let k = seen_kind.entry(kind).or_insert(0);
        *k += 1;
        // the systematic list for the first two files of each kind; later ones get the random layer only
        let data = std::fs::read(root.join(f)).unwrap_or_default();
        let list = if *k <= 2 { corruptions(kind, &data, rng, nrand) } else { corruptions("other", &data, rng, nrand) };
        for (cls, patch) in list {
            all.push((f.clone(), cls, patch));
        }
    }
    // quick tier: a deterministic stride through the systematic list (every class is kept)
    let budget = if ctx.thorough || std::env::var("DECFUZZ_FILE_ALL").is_ok() { usize::MAX } else { 60 };
    let stride = (all.len() / budget.max(1)).max(1);
    let mut per_class: std::collections::BTreeMap<String, usize> = Default::default();
    for (i, (f, cls, patch)) in all.iter().enumerate() {
        let key = format!("{}:{}", file_kind(f), cls);
        let n = per_class.entry(key).or_insert(0);
        if i % stride != (ctx.seed as usize % stride) && *n >= 1 {
            continue;
        }
        *n += 1;
        let case = format!("open-corrupt {f} {cls} {patch}");
        // a class that already hung is not waited for again (8 s per hang)
        let hung_key = format!("open-corrupt:{}:{}:hang", file_kind(f), cls);
        if rep.oracle_failures.iter().any(|x| x.signature.starts_with(&hung_key)) {
            rep.count("file_cases_skipped_after_hang_in_same_class");
            continue;
        }
        run_case(&case, f, cls, Some(patch), rep);
    }
    let _ = std::fs::remove_dir_all(&work);
}
