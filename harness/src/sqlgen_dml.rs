//! DML statement AST for the C05/C06 engines (`sql_dml`, `sql_dml_atomic`): schema flags, statements
//! with `.sql()` (TurDB) and `.sx()` (Lean family `sqldml`) printers, structural tags, a one-line
//! text form for corpus/replay files, and the history generator.  Self-contained on top of
//! `sqlgen.rs` (values / expressions).
#![allow(dead_code)]
use crate::common::*;
use crate::sqlgen::*;

pub const COLS: [&str; 5] = ["id", "a", "b", "u", "c"];

/// one table `t`: id INT (PRIMARY KEY | NOT NULL), a INT [NOT NULL], b TEXT [DEFAULT 'dd'],
/// u INT [UNIQUE], c INT [CHECK (c > 0)]
#[derive(Clone, Debug, PartialEq)]
pub struct Schema {
    pub name: String,
    pub pk: bool,
    pub nn: bool,
    pub df: bool,
    pub uq: bool,
    pub ck: bool,
}

impl Schema {
    pub fn scope(&self) -> Scope { COLS.iter().map(|s| s.to_string()).collect() }
    pub fn create_sql(&self) -> String {
        format!(
            "CREATE TABLE {} (id INT {}, a INT{}, b TEXT{}, u INT{}, c INT{})",
            self.name,
            if self.pk { "PRIMARY KEY" } else { "NOT NULL" },
            if self.nn { " NOT NULL" } else { "" },
            if self.df { " DEFAULT 'dd'" } else { "" },
            if self.uq { " UNIQUE" } else { "" },
            if self.ck { " CHECK (c > 0)" } else { "" }
        )
    }
    /// `create` line of the Lean driver: (name notnull unique pk autoinc default)
    pub fn model_create(&self) -> String {
        format!(
            "create {} ((id {} 0 {} 0 (null)) (a {} 0 0 0 (null)) (b 0 0 0 0 {}) (u 0 {} 0 0 (null)) (c 0 0 0 0 (null))) ({}) () ()",
            self.name,
            if self.pk { 0 } else { 1 },
            self.pk as u8,
            self.nn as u8,
            if self.df { "(text 6464)" } else { "(null)" },
            self.uq as u8,
            if self.ck { "(bin gt (col 4) (int 0))" } else { "" }
        )
    }
    pub fn flags(&self) -> String {
        format!("{} pk={} nn={} df={} uq={} ck={}", self.name, self.pk as u8, self.nn as u8, self.df as u8, self.uq as u8, self.ck as u8)
    }
    pub fn parse(s: &str) -> Option<Schema> {
        let ws: Vec<&str> = s.split_whitespace().collect();
        if ws.len() != 6 { return None; }
        let f = |i: usize, k: &str| -> Option<bool> { ws[i].strip_prefix(k).map(|v| v == "1") };
        Some(Schema { name: ws[0].to_string(), pk: f(1, "pk=")?, nn: f(2, "nn=")?, df: f(3, "df=")?, uq: f(4, "uq=")?, ck: f(5, "ck=")? })
    }
    pub fn short(&self) -> String {
        let mut v = vec![];
        if self.pk { v.push("pk"); }
        if self.nn { v.push("nn"); }
        if self.df { v.push("df"); }
        if self.uq { v.push("uq"); }
        if self.ck { v.push("ck"); }
        if v.is_empty() { "plain".into() } else { v.join("+") }
    }
}

#[derive(Clone, Debug)]
pub enum Dml {
    Insert { cols: Option<Vec<usize>>, rows: Vec<Vec<V>>, returning: bool },
    Update { sets: Vec<(usize, E)>, whr: Option<E>, returning: bool },
    Delete { whr: Option<E>, returning: bool },
    Truncate,
    /// engine-only statement that is expected to fail (missing table, type error …); not sent to the model
    Raw(String),
}

fn has_col(e: &E) -> bool { matches!(e, E::Col(_)) || e.children().iter().any(|c| has_col(c)) }
fn refs_col(e: &E, i: usize) -> bool { matches!(e, E::Col(j) if *j == i) || e.children().iter().any(|c| refs_col(c, i)) }

impl Dml {
    pub fn kind(&self) -> &'static str {
        match self { Dml::Insert { .. } => "insert", Dml::Update { .. } => "update", Dml::Delete { .. } => "delete", Dml::Truncate => "truncate", Dml::Raw(_) => "raw" }
    }
    pub fn sql(&self, sc: &Schema) -> String {
        let scope = sc.scope();
        match self {
            Dml::Insert { cols, rows, returning } => format!(
                "INSERT INTO {}{} VALUES {}{}",
                sc.name,
                match cols { None => String::new(), Some(c) => format!(" ({})", c.iter().map(|i| COLS[*i]).collect::<Vec<_>>().join(", ")) },
                rows.iter().map(|r| format!("({})", r.iter().map(|v| v.sql()).collect::<Vec<_>>().join(", "))).collect::<Vec<_>>().join(", "),
                if *returning { " RETURNING *" } else { "" }
            ),
            Dml::Update { sets, whr, returning } => format!(
                "UPDATE {} SET {}{}{}",
                sc.name,
                sets.iter().map(|(i, e)| format!("{} = {}", COLS[*i], e.sql(&scope))).collect::<Vec<_>>().join(", "),
                match whr { None => String::new(), Some(w) => format!(" WHERE {}", w.sql(&scope)) },
                if *returning { " RETURNING *" } else { "" }
            ),
            Dml::Delete { whr, returning } => format!(
                "DELETE FROM {}{}{}",
                sc.name,
                match whr { None => String::new(), Some(w) => format!(" WHERE {}", w.sql(&scope)) },
                if *returning { " RETURNING *" } else { "" }
            ),
            Dml::Truncate => format!("TRUNCATE TABLE {}", sc.name),
            Dml::Raw(s) => s.clone(),
        }
    }
    pub fn sx(&self, sc: &Schema) -> Option<String> {
        let opt = |e: &Option<E>| e.as_ref().map(|x| x.sx()).unwrap_or("(none)".into());
        match self {
            Dml::Insert { cols, rows, .. } => {
                let cs: Vec<usize> = match cols { Some(c) => c.clone(), None => (0..COLS.len()).collect() };
                Some(format!(
                    "(insert {} ({}) ({}))",
                    sc.name,
                    cs.iter().map(|i| i.to_string()).collect::<Vec<_>>().join(" "),
                    rows.iter().map(|r| format!("({})", r.iter().map(|v| v.sx()).collect::<Vec<_>>().join(" "))).collect::<Vec<_>>().join(" ")
                ))
            }
            Dml::Update { sets, whr, .. } => Some(format!(
                "(update {} ({}) {})",
                sc.name,
                sets.iter().map(|(i, e)| format!("({} {})", i, e.sx())).collect::<Vec<_>>().join(" "),
                opt(whr)
            )),
            Dml::Delete { whr, .. } => Some(format!("(delete {} {})", sc.name, opt(whr))),
            Dml::Truncate => Some(format!("(truncate {})", sc.name)),
            Dml::Raw(_) => None,
        }
    }
    /// structural facts about the statement (derived from the AST, never from intent)
    pub fn tags(&self, sc: &Schema) -> Vec<&'static str> {
        let mut t = vec![];
        match self {
            Dml::Insert { cols, rows, .. } => {
                t.push(if rows.len() > 1 { "multi" } else { "single" });
                if cols.is_some() { t.push("collist"); }
                let cs: Vec<usize> = match cols { Some(c) => c.clone(), None => (0..COLS.len()).collect() };
                if sc.df && rows.iter().any(|r| cs.iter().zip(r).any(|(c, v)| *c == 2 && *v == V::Null)) { t.push("nulldef"); }
            }
            Dml::Update { sets, whr, .. } => {
                if whr.is_none() { t.push("nowhere"); }
                let consts: Vec<usize> = sets.iter().filter(|(_, e)| !has_col(e)).map(|(i, _)| *i).collect();
                if sets.iter().any(|(_, e)| has_col(e) && consts.iter().any(|c| refs_col(e, *c))) { t.push("mixedset"); }
                if sets.iter().any(|(i, _)| *i == 0) { t.push("setid"); }
                if sets.iter().any(|(i, _)| *i == 3) { t.push("setu"); }
            }
            Dml::Delete { whr, .. } => { if whr.is_none() { t.push("nowhere"); } }
            Dml::Truncate => {}
            Dml::Raw(sql) => { t.push("raw"); if sql.contains("), (") { t.push("multi"); } }
        }
        t
    }
    pub fn text(&self, sc: &Schema) -> StmtText {
        let sql = self.sql(sc);
        StmtText::new(self.tags(sc).join(","), sql, self.sx(sc))
    }
}

/// a statement as text: what the engines run, what corpus / replay files contain
#[derive(Clone, Debug)]
pub struct StmtText {
    pub tags: String,
    pub sql: String,
    pub sx: Option<String>,
}

impl StmtText {
    pub fn new(tags: String, sql: String, sx: Option<String>) -> StmtText { StmtText { tags, sql, sx } }
    pub fn kind(&self) -> &'static str {
        let u = self.sql.to_uppercase();
        if self.sx.is_none() { "raw" } else if u.starts_with("INSERT") { "insert" } else if u.starts_with("UPDATE") { "update" } else if u.starts_with("DELETE") { "delete" } else if u.starts_with("TRUNCATE") { "truncate" } else { "raw" }
    }
    /// statement kind by its SQL text even for raw statements
    pub fn verb(&self) -> &'static str {
        let u = self.sql.to_uppercase();
        if u.starts_with("INSERT") { "insert" } else if u.starts_with("UPDATE") { "update" } else if u.starts_with("DELETE") { "delete" } else if u.starts_with("TRUNCATE") { "truncate" } else { "other" }
    }
    pub fn returning(&self) -> bool { self.sql.contains(" RETURNING ") }
    pub fn has_tag(&self, t: &str) -> bool { self.tags.split(',').any(|x| x == t) }
    pub fn line(&self) -> String { format!("{} @@ {} ## {}", if self.tags.is_empty() { "-" } else { &self.tags }, self.sql, self.sx.clone().unwrap_or("-".into())) }
    pub fn parse(s: &str) -> Option<StmtText> {
        let (tags, rest) = s.split_once(" @@ ")?;
        let (sql, sx) = rest.split_once(" ## ")?;
        Some(StmtText { tags: if tags.trim() == "-" { String::new() } else { tags.trim().to_string() }, sql: sql.trim().to_string(), sx: if sx.trim() == "-" { None } else { Some(sx.trim().to_string()) } })
    }
}

/// `<schema flags> ;; <stmt> ;; <stmt> …`
pub fn case_line(sc: &Schema, stmts: &[StmtText]) -> String {
    let mut s = sc.flags();
    for st in stmts { s.push_str(" ;; "); s.push_str(&st.line()); }
    s
}
pub fn parse_case(line: &str) -> Option<(Schema, Vec<StmtText>)> {
    let mut it = line.split(" ;; ");
    let sc = Schema::parse(it.next()?)?;
    let mut v = vec![];
    for p in it { v.push(StmtText::parse(p)?); }
    Some((sc, v))
}

pub fn cell_to_v(c: &str) -> Option<V> {
    match c.as_bytes().first()? {
        b'N' => Some(V::Null),
        b'I' => c[1..].parse().ok().map(V::Int),
        b'T' => String::from_utf8(unhex(&c[1..])).ok().map(V::Text),
        b'B' => Some(V::Bool(c == "B1")),
        _ => None,
    }
}

// ---------------------------------------------------------------- generator

/// what the generator knows about the current table content (from the engine's last dump)
#[derive(Clone, Debug, Default)]
pub struct Known {
    pub ids: Vec<i64>,
    pub us: Vec<i64>,
    /// ids deleted in this epoch and not re-inserted since (tombstones in the engine)
    pub deleted: Vec<i64>,
    /// B-tree records (live + tombstones) of the table, from the M-code store
    pub cells: usize,
    /// number of key-shift updates generated so far in this history (each shifts by a different
    /// power of two, so shifted keys never collide with each other)
    pub shifts: std::cell::Cell<u32>,
}

pub struct DmlGen { pub atomic_bias: bool }

const BTEXT: &[&str] = &["", "a", "ab", "x", "zz", "dd", "a'b", "é"];

impl DmlGen {
    fn fresh_id(&self, rng: &mut Rng, k: &Known) -> i64 {
        let hi = 24.max(2 * (k.ids.len() + k.deleted.len()) as i64 + 10);
        for _ in 0..20 { let c = rng.range(1, hi); if !k.ids.contains(&c) && !k.deleted.contains(&c) { return c; } }
        rng.range(hi + 1, hi + 40)
    }
    fn some_id(&self, rng: &mut Rng, k: &Known) -> i64 { if k.ids.is_empty() { rng.range(1, 12) } else { *rng.pick(&k.ids) } }
    fn fresh_u(&self, rng: &mut Rng, k: &Known) -> V {
        if rng.chance(1, 5) { return V::Null; }
        let hi = 30.max(2 * k.us.len() as i64 + 10);
        for _ in 0..20 { let c = 100 * rng.range(1, hi); if !k.us.contains(&c) { return V::Int(c); } }
        V::Int(100 * rng.range(hi + 1, hi + 60))
    }
    fn val_a(&self, rng: &mut Rng, sc: &Schema) -> V { if !sc.nn && rng.chance(1, 6) { V::Null } else { V::Int(*rng.pick(&[-3i64, 0, 1, 2, 5, 10, 20, 30, 40])) } }
    fn val_b(&self, rng: &mut Rng) -> V { if rng.chance(1, 5) { V::Null } else { V::Text(rng.pick(BTEXT).to_string()) } }
    fn val_c(&self, rng: &mut Rng) -> V { if rng.chance(1, 6) { V::Null } else { V::Int(*rng.pick(&[1i64, 2, 3, 5, 8])) } }

    /// a valid new row (w.r.t. the known content)
    fn good_row(&self, rng: &mut Rng, sc: &Schema, k: &mut Known) -> Vec<V> {
        let id = if !k.deleted.is_empty() && rng.chance(1, 4) { let d = *rng.pick(&k.deleted); k.deleted.retain(|x| *x != d); d } else { self.fresh_id(rng, k) };
        k.ids.push(id);
        let u = self.fresh_u(rng, k);
        if let V::Int(x) = u { k.us.push(x); }
        vec![V::Int(id), self.val_a(rng, sc), self.val_b(rng), u, self.val_c(rng)]
    }
    /// a row that violates some declared constraint of `sc` (or duplicates a key anyway)
    fn bad_row(&self, rng: &mut Rng, sc: &Schema, k: &Known, earlier: &[Vec<V>]) -> Vec<V> {
        let mut kk = k.clone();
        let mut r = self.good_row(rng, sc, &mut kk);
        let mut opts: Vec<u8> = vec![0];
        if sc.nn { opts.push(1); }
        if sc.uq && (!k.us.is_empty() || earlier.iter().any(|e| e[3] != V::Null)) { opts.push(2); }
        if sc.ck { opts.push(3); }
        if sc.pk { opts.push(4); }
        match *rng.pick(&opts) {
            0 => { // duplicate id: existing row or an earlier row of the same statement
                r[0] = if !earlier.is_empty() && rng.chance(1, 2) { rng.pick(earlier)[0].clone() } else { V::Int(self.some_id(rng, k)) };
            }
            1 => r[1] = V::Null,
            2 => {
                let e: Vec<&Vec<V>> = earlier.iter().filter(|e| e[3] != V::Null).collect();
                r[3] = if !e.is_empty() && (k.us.is_empty() || rng.chance(1, 2)) { rng.pick(&e)[3].clone() } else { V::Int(*rng.pick(&k.us)) };
            }
            3 => r[4] = V::Int(*rng.pick(&[0i64, -1])),
            _ => r[0] = V::Null,
        }
        r
    }
    fn pred(&self, rng: &mut Rng, sc: &Schema, k: &Known) -> E {
        let id = || Box::new(E::Col(0));
        let lit = |v: i64| Box::new(E::Lit(V::Int(v)));
        let mut pool: Vec<i64> = k.ids.clone();
        pool.extend(k.deleted.iter());
        if pool.is_empty() { pool.push(3); }
        let p = *rng.pick(&pool);
        let atom = |rng: &mut Rng| -> E {
            match rng.below(if sc.nn { 7 } else { 5 }) {
                0 => E::Bin(Op::Eq, id(), lit(p)),
                1 => E::Bin(*rng.pick(&[Op::Le, Op::Lt, Op::Ge, Op::Gt, Op::Ne]), id(), lit(p)),
                2 => { let n = 1 + rng.below(3) as usize; E::In(id(), (0..n).map(|_| E::Lit(V::Int(*rng.pick(&pool)))).collect(), rng.chance(1, 4)) }
                3 => { let q = *rng.pick(&pool); E::Between(id(), lit(p.min(q)), lit(p.max(q)), rng.chance(1, 5)) }
                4 => E::Bin(Op::Eq, id(), lit(rng.range(60, 70))), // matches nothing
                _ => E::Bin(*rng.pick(&[Op::Eq, Op::Le, Op::Ge, Op::Gt, Op::Ne]), Box::new(E::Col(1)), lit(*rng.pick(&[0i64, 2, 5, 10, 20, 30]))),
            }
        };
        if rng.chance(1, 5) {
            let a = atom(rng);
            let b = atom(rng);
            E::Bin(if rng.chance(1, 2) { Op::And } else { Op::Or }, Box::new(a), Box::new(b))
        } else { atom(rng) }
    }
    /// one multi-row INSERT of `n` valid rows (used to start a history from a larger table)
    pub fn bulk(&self, rng: &mut Rng, sc: &Schema, k: &Known, n: usize) -> Dml {
        let mut kk = k.clone();
        let mut rows: Vec<Vec<V>> = (0..n).map(|_| self.good_row(rng, sc, &mut kk)).collect();
        if sc.df { for r in rows.iter_mut() { if r[2] == V::Null { r[2] = V::Text("n".into()); } } }
        Dml::Insert { cols: None, rows, returning: false }
    }
    fn insert(&self, rng: &mut Rng, sc: &Schema, k: &Known, want_fail: bool) -> Dml {
        let n = if rng.chance(1, 2) && !want_fail { 1 } else { 2 + rng.below(3) as usize };
        let mut kk = k.clone();
        let mut rows: Vec<Vec<V>> = vec![];
        let fail_at = if want_fail { Some(rng.below(n as u64) as usize) } else if rng.chance(1, 12) { Some(rng.below(n as u64) as usize) } else { None };
        for i in 0..n {
            if Some(i) == fail_at { let r = self.bad_row(rng, sc, &kk, &rows); rows.push(r); } else { let r = self.good_row(rng, sc, &mut kk); rows.push(r); }
        }
        // explicit NULL into the defaulted column only rarely (known divergence `nulldef`)
        if sc.df && !rng.chance(1, 8) { for r in rows.iter_mut() { if r[2] == V::Null { r[2] = V::Text("n".into()); } } }
        let cols = if rng.chance(1, 2) { None } else {
            // a column list: always id; a unless we want the NOT NULL default-NULL path; others at random; shuffled
            let mut cs = vec![0usize];
            if !sc.nn || !rng.chance(1, 10) { cs.push(1); }
            for c in 2..5 { if rng.chance(2, 3) { cs.push(c); } }
            for i in (1..cs.len()).rev() { let j = rng.below(i as u64 + 1) as usize; cs.swap(i, j); }
            Some(cs)
        };
        let rows = match &cols { None => rows, Some(cs) => rows.iter().map(|r| cs.iter().map(|c| r[*c].clone()).collect()).collect() };
        Dml::Insert { cols, rows, returning: rng.chance(1, 3) }
    }
    fn update(&self, rng: &mut Rng, sc: &Schema, k: &Known, want_fail: bool) -> Dml {
        let col = |i: usize| Box::new(E::Col(i));
        let lit = |v: i64| Box::new(E::Lit(V::Int(v)));
        let mut sets: Vec<(usize, E)> = vec![];
        let n = 1 + rng.below(2);
        let mut used: Vec<usize> = vec![];
        for _ in 0..n {
            let (c, e) = match rng.below(9) {
                0 | 1 => (1, E::Lit(V::Int(*rng.pick(&[0i64, 2, 7, 10, 30])))),
                2 => (1, if sc.nn { E::Bin(*rng.pick(&[Op::Add, Op::Sub, Op::Mul]), col(1), lit(*rng.pick(&[1i64, 2, 10]))) } else { E::Lit(V::Null) }),
                3 | 4 => (2, E::Lit(self.val_b(rng))),
                5 => (3, E::Lit(self.fresh_u(rng, k))),
                6 => (4, E::Lit(self.val_c(rng))),
                7 => (4, E::Bin(Op::Add, col(0), lit(*rng.pick(&[0i64, 1, 5])))), // c = id + k: from a NOT NULL column
                _ => { let n = k.shifts.get(); k.shifts.set(n + 1); (0, E::Bin(Op::Add, col(0), lit(1000i64 << (n % 20)))) } // key shift, collision-free
            };
            if !used.contains(&c) { used.push(c); sets.push((c, e)); }
        }
        if want_fail || rng.chance(1, 14) {
            // a violating assignment: which rows violate depends on the data (CHECK) or on all (NOT NULL / keys)
            let mut opts: Vec<u8> = vec![];
            if sc.nn { opts.push(0); }
            if sc.ck { opts.push(1); opts.push(2); }
            if sc.uq && !k.us.is_empty() { opts.push(3); }
            if sc.pk && !k.ids.is_empty() { opts.push(4); }
            if !opts.is_empty() {
                let (c, e) = match *rng.pick(&opts) {
                    0 => (1, E::Lit(V::Null)),
                    1 => (4, E::Bin(Op::Sub, col(0), lit(self.some_id(rng, k)))), // c = id - k: <= 0 for ids <= k only
                    2 => (4, E::Lit(V::Int(0))),
                    3 => (3, E::Lit(V::Int(*rng.pick(&k.us)))),
                    _ => (0, E::Lit(V::Int(self.some_id(rng, k)))),
                };
                sets.retain(|(i, _)| *i != c);
                sets.push((c, e));
            }
        }
        if rng.chance(1, 40) { sets = vec![(1, E::Lit(V::Int(7))), (4, E::Bin(Op::Add, col(1), lit(1)))]; } // `mixedset`
        let whr = if rng.chance(1, 6) { None } else { Some(self.pred(rng, sc, k)) };
        Dml::Update { sets, whr, returning: rng.chance(1, 3) }
    }
    fn raw_fail(&self, rng: &mut Rng, sc: &Schema, k: &Known) -> Dml {
        let id = self.fresh_id(rng, k);
        let id2 = id + 30;
        Dml::Raw(match rng.below(5) {
            0 => format!("INSERT INTO nosuch_{} VALUES (1, 2, 'x', 3, 4)", sc.name),
            1 => format!("INSERT INTO {} VALUES ({}, 1, 'r', NULL, 1), ({}, 'oops', 'r', NULL, 1)", sc.name, id, id2),
            2 => format!("INSERT INTO {} VALUES ({}, 1, 'r', NULL, 1), ({}, 1, 'r', NULL, 1 / 0)", sc.name, id, id2),
            3 => format!("UPDATE {} SET a = a / 0", sc.name),
            _ => format!("DELETE FROM {} WHERE nosuchcol = 1", sc.name),
        })
    }
    pub fn next(&self, rng: &mut Rng, sc: &Schema, k: &Known) -> Dml {
        let want_fail = self.atomic_bias && rng.chance(1, 2);
        let x = rng.below(100);
        if self.atomic_bias && rng.chance(1, 10) { return self.raw_fail(rng, sc, k); }
        if k.ids.len() < 3 && x < 70 { return self.insert(rng, sc, k, want_fail && !k.ids.is_empty()); }
        if x < 32 { self.insert(rng, sc, k, want_fail) }
        else if x < 64 { self.update(rng, sc, k, want_fail) }
        else if x < 94 { Dml::Delete { whr: if rng.chance(1, 14) { None } else { Some(self.pred(rng, sc, k)) }, returning: rng.chance(1, 3) } }
        else { Dml::Truncate }
    }
}
