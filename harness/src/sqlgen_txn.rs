//! Statement AST for the transaction properties C07 (`sql_txn`) and C08 (`sql_iso`): one fixed
//! table shape `t(id, u, a, b, c)`, DML addressed by `col = literal`, transaction control, and the
//! three printers: SQL text (TurDB), prefix s-expression (Lean `sqldb` spec driver) and the
//! operation line of the Lean `undo` M-code driver.  One-line case syntax for corpus / replay files.
#![allow(dead_code)]
use crate::common::*;
use crate::sqlgen::{cell_of, V};
use turdb::{Database, ExecuteResult};

#[derive(Clone, Copy, PartialEq, Eq, Debug)]
pub enum Pk { Int, Text, None }

impl Pk {
    pub fn tag(&self) -> &'static str { match self { Pk::Int => "int", Pk::Text => "text", Pk::None => "none" } }
    pub fn parse(s: &str) -> Option<Pk> { match s { "int" => Some(Pk::Int), "text" => Some(Pk::Text), "none" => Some(Pk::None), _ => None } }
}

/// table t(id <INT|TEXT> [PRIMARY KEY], u INT [UNIQUE], a INT, b INT, c TEXT) [+ CREATE INDEX ia ON t(a)]
#[derive(Clone, Debug, PartialEq)]
pub struct Schema { pub pk: Pk, pub uniq: bool, pub idx_a: bool, pub split: bool }

pub const COLS: [&str; 5] = ["id", "u", "a", "b", "c"];
pub const NFILL: i64 = 100;
pub const PADLEN: usize = 400;

impl Schema {
    pub fn id_is_text(&self) -> bool { self.pk == Pk::Text }
    pub fn create_sqls(&self) -> Vec<String> {
        let idty = if self.id_is_text() { "TEXT" } else { "INT" };
        let mut v = vec![format!("CREATE TABLE t (id {}{}, u INT{}, a INT, b INT, c TEXT)", idty,
            if self.pk != Pk::None { " PRIMARY KEY" } else { "" }, if self.uniq { " UNIQUE" } else { "" })];
        if self.idx_a { v.push("CREATE INDEX ia ON t (a)".into()); }
        v
    }
    pub fn id_v(&self, n: i64) -> V { if self.id_is_text() { V::Text(format!("k{n:04}")) } else { V::Int(n) } }
    pub fn pad(&self) -> String { if self.split { "p".repeat(PADLEN) } else { String::new() } }
    /// `create` line of the sqldb driver: (name notnull unique pk autoinc default)
    pub fn model_create(&self) -> String {
        let col = |n: &str, u: bool, pk: bool| format!("({} 0 {} {} 0 (null))", n, u as u8, pk as u8);
        format!("create t ({} {} {} {} {}) () () ()", col("id", false, self.pk != Pk::None), col("u", self.uniq, false),
            col("a", false, false), col("b", false, false), col("c", false, false))
    }
    /// `reset` line of the undo driver: pk column and the unique-index columns
    pub fn undo_reset(&self) -> String {
        let mut s = format!("reset {}", if self.pk != Pk::None { "0" } else { "-" });
        if self.pk != Pk::None { s.push_str(" 0"); }
        if self.uniq { s.push_str(" 1"); }
        s
    }
    pub fn val(&self, col: usize, v: Option<i64>) -> V {
        match v { None => V::Null, Some(n) => if col == 0 { self.id_v(n) } else { V::Int(n) } }
    }
    /// undo-driver cell
    pub fn ucell(&self, col: usize, v: Option<i64>) -> String {
        match v { None => "n".into(), Some(n) => if col == 0 && self.id_is_text() { format!("t{n}") } else { format!("i{n}") } }
    }
    /// kind of an UPDATE that sets `col`
    pub fn upd_kind(&self, col: usize) -> &'static str {
        match col {
            0 if self.pk != Pk::None => "upd-pk",
            1 if self.uniq => "upd-uniq",
            2 if self.idx_a => "upd-idx",
            _ => "upd-plain",
        }
    }
    pub fn tag(&self) -> String { format!("pk={} uniq={} idxa={} split={}", self.pk.tag(), self.uniq as u8, self.idx_a as u8, self.split as u8) }
}

#[derive(Clone, Debug, PartialEq)]
pub enum TStmt {
    Begin, Commit, Rollback,
    Savepoint(String), RollbackTo(String), Release(String),
    Insert { id: i64, u: Option<i64>, a: i64, b: i64 },
    Update { scol: usize, sval: Option<i64>, wcol: usize, wval: i64 },
    Delete { wcol: usize, wval: i64 },
    /// the working handle is dropped (open transaction aborted by Drop) and re-obtained
    DropHandle,
    /// full dump through this handle (C08)
    Select,
}

impl TStmt {
    pub fn is_dml(&self) -> bool { matches!(self, TStmt::Insert { .. } | TStmt::Update { .. } | TStmt::Delete { .. }) }
    pub fn sql(&self, sc: &Schema) -> String {
        match self {
            TStmt::Begin => "BEGIN".into(),
            TStmt::Commit => "COMMIT".into(),
            TStmt::Rollback => "ROLLBACK".into(),
            TStmt::Savepoint(n) => format!("SAVEPOINT {n}"),
            TStmt::RollbackTo(n) => format!("ROLLBACK TO SAVEPOINT {n}"),
            TStmt::Release(n) => format!("RELEASE SAVEPOINT {n}"),
            TStmt::Insert { id, u, a, b } => format!("INSERT INTO t VALUES ({}, {}, {}, {}, '{}')", sc.id_v(*id).sql(),
                sc.val(1, *u).sql(), V::Int(*a).sql(), V::Int(*b).sql(), sc.pad()),
            TStmt::Update { scol, sval, wcol, wval } => format!("UPDATE t SET {} = {} WHERE {} = {}", COLS[*scol],
                sc.val(*scol, *sval).sql(), COLS[*wcol], sc.val(*wcol, Some(*wval)).sql()),
            TStmt::Delete { wcol, wval } => format!("DELETE FROM t WHERE {} = {}", COLS[*wcol], sc.val(*wcol, Some(*wval)).sql()),
            TStmt::DropHandle => "-- drop handle".into(),
            TStmt::Select => "SELECT id, u, a, b, c FROM t".into(),
        }
    }
    /// statement for the Lean sqldb spec driver (None: not a spec statement)
    pub fn sx(&self, sc: &Schema) -> Option<String> {
        Some(match self {
            TStmt::Begin => "(begin)".into(),
            TStmt::Commit => "(commit)".into(),
            TStmt::Rollback => "(rollback)".into(),
            TStmt::Savepoint(n) => format!("(savepoint {n})"),
            TStmt::RollbackTo(n) => format!("(rollbackto {n})"),
            TStmt::Release(n) => format!("(release {n})"),
            TStmt::Insert { id, u, a, b } => format!("(insert t (0 1 2 3 4) (({} {} {} {} {})))", sc.id_v(*id).sx(),
                sc.val(1, *u).sx(), V::Int(*a).sx(), V::Int(*b).sx(), V::Text(sc.pad()).sx()),
            TStmt::Update { scol, sval, wcol, wval } => format!("(update t (({} {})) (bin eq (col {}) {}))", scol,
                sc.val(*scol, *sval).sx(), wcol, sc.val(*wcol, Some(*wval)).sx()),
            TStmt::Delete { wcol, wval } => format!("(delete t (bin eq (col {}) {}))", wcol, sc.val(*wcol, Some(*wval)).sx()),
            TStmt::DropHandle | TStmt::Select => return None,
        })
    }
    /// operation line for the Lean undo M-code driver (None: outside the modelled domain)
    pub fn undo_line(&self, sc: &Schema) -> Option<String> {
        Some(match self {
            TStmt::Begin => "begin".into(),
            TStmt::Commit => "commit".into(),
            TStmt::Rollback => "rollback".into(),
            TStmt::Savepoint(n) => format!("savepoint {n}"),
            TStmt::RollbackTo(n) => format!("rollbackto {n}"),
            TStmt::Release(n) => format!("release {n}"),
            TStmt::Insert { id, u, a, b } => format!("ins {} {} i{} i{} t{}", sc.ucell(0, Some(*id)), sc.ucell(1, *u), a, b, 1000 + sc.pad().len()),
            TStmt::Update { scol, sval, wcol, wval } => {
                // updates of a column that carries a unique index are outside the model
                if (*scol == 0 && sc.pk != Pk::None) || (*scol == 1 && sc.uniq) { return None; }
                format!("upd {} {} {} {}", wcol, sc.ucell(*wcol, Some(*wval)), scol, sc.ucell(*scol, *sval))
            }
            TStmt::Delete { wcol, wval } => format!("del {} {}", wcol, sc.ucell(*wcol, Some(*wval))),
            TStmt::DropHandle => "drop".into(),
            TStmt::Select => return None,
        })
    }
    pub fn show(&self) -> String {
        let ov = |v: &Option<i64>| v.map(|x| x.to_string()).unwrap_or("n".into());
        match self {
            TStmt::Begin => "B".into(),
            TStmt::Commit => "C".into(),
            TStmt::Rollback => "R".into(),
            TStmt::Savepoint(n) => format!("S{n}"),
            TStmt::RollbackTo(n) => format!("T{n}"),
            TStmt::Release(n) => format!("L{n}"),
            TStmt::Insert { id, u, a, b } => format!("I{}:{}:{}:{}", id, ov(u), a, b),
            TStmt::Update { scol, sval, wcol, wval } => format!("U{}={}@{}={}", scol, ov(sval), wcol, wval),
            TStmt::Delete { wcol, wval } => format!("D@{}={}", wcol, wval),
            TStmt::DropHandle => "X".into(),
            TStmt::Select => "Q".into(),
        }
    }
    pub fn parse(s: &str) -> Option<TStmt> {
        let ov = |x: &str| -> Option<Option<i64>> { if x == "n" { Some(None) } else { x.parse().ok().map(Some) } };
        let (h, r) = s.split_at(1);
        Some(match h {
            "B" if r.is_empty() => TStmt::Begin,
            "C" if r.is_empty() => TStmt::Commit,
            "R" if r.is_empty() => TStmt::Rollback,
            "X" if r.is_empty() => TStmt::DropHandle,
            "Q" if r.is_empty() => TStmt::Select,
            "S" => TStmt::Savepoint(r.into()),
            "T" => TStmt::RollbackTo(r.into()),
            "L" => TStmt::Release(r.into()),
            "I" => {
                let p: Vec<&str> = r.split(':').collect();
                if p.len() != 4 { return None; }
                TStmt::Insert { id: p[0].parse().ok()?, u: ov(p[1])?, a: p[2].parse().ok()?, b: p[3].parse().ok()? }
            }
            "U" => {
                let (set, whr) = r.split_once('@')?;
                let (sc, sv) = set.split_once('=')?;
                let (wc, wv) = whr.split_once('=')?;
                TStmt::Update { scol: sc.parse().ok()?, sval: ov(sv)?, wcol: wc.parse().ok()?, wval: wv.parse().ok()? }
            }
            "D" => {
                let whr = r.strip_prefix('@')?;
                let (wc, wv) = whr.split_once('=')?;
                TStmt::Delete { wcol: wc.parse().ok()?, wval: wv.parse().ok()? }
            }
            _ => return None,
        })
    }
}

pub fn show_ops(ops: &[TStmt]) -> String { ops.iter().map(|o| o.show()).collect::<Vec<_>>().join(";") }
pub fn parse_ops(s: &str) -> Option<Vec<TStmt>> {
    if s == "-" || s.is_empty() { return Some(vec![]); }
    s.split(';').map(TStmt::parse).collect()
}

/// statement outcome, canonical
#[derive(Clone, Debug, PartialEq)]
pub enum Res {
    Ok,
    Affected(usize),
    Rows(Vec<String>),
    Err(String),   // error class
    Panic(String),
}

impl Res {
    pub fn short(&self) -> String {
        match self {
            Res::Ok => "ok".into(),
            Res::Affected(n) => format!("aff{n}"),
            Res::Rows(r) => format!("rows{}", r.len()),
            Res::Err(c) => format!("err:{c}"),
            Res::Panic(_) => "panic".into(),
        }
    }
}

pub fn txn_error_class(msg: &str) -> &'static str {
    let m = msg.to_lowercase();
    if m.contains("constraint") || m.contains("unique") || m.contains("primary key") { "constraint" }
    else if m.contains("no transaction in progress") { "no-txn" }
    else if m.contains("already in progress") { "in-txn" }
    else if m.contains("savepoint") && m.contains("does not exist") { "no-savepoint" }
    else if m.contains("key already exists") { "btree-key-exists" }
    else { "other" }
}

/// run one SQL string through a handle; rows are canonical cell lists joined by ',' and sorted
pub fn exec_on(db: &Database, sql: &str) -> Res {
    let s = sql.to_string();
    match guarded(std::panic::AssertUnwindSafe(move || db.execute(&s))) {
        Err(p) => Res::Panic(p.chars().take(80).collect()),
        Ok(Err(e)) => Res::Err(txn_error_class(&format!("{e:#}")).to_string()),
        Ok(Ok(r)) => match r {
            ExecuteResult::Select { rows, .. } => {
                let mut v: Vec<String> = rows.iter().map(|r| r.values.iter().map(cell_of).collect::<Vec<_>>().join(",")).collect();
                v.sort();
                Res::Rows(v)
            }
            ExecuteResult::Insert { rows_affected, .. } | ExecuteResult::Update { rows_affected, .. } | ExecuteResult::Delete { rows_affected, .. } => Res::Affected(rows_affected),
            _ => Res::Ok,
        },
    }
}

/// rows of a sqldb-driver response (`ok n r;r` / `affected n r;r`), sorted
pub fn model_rows(resp: &str) -> Option<Vec<String>> {
    let r = resp.strip_prefix("ok ").or_else(|| resp.strip_prefix("affected "))?;
    let (n, rest) = r.split_once(' ').unwrap_or((r, ""));
    let n: usize = n.parse().ok()?;
    let mut v: Vec<String> = if rest.is_empty() { vec![] } else { rest.split(';').map(|x| x.to_string()).collect() };
    if rest.is_empty() && n > 0 { return None; }
    v.sort();
    Some(v)
}

/// id number of a canonical row (first cell `I<n>` or `T<hex of k0007>`)
pub fn row_id(row: &str) -> Option<i64> {
    let c = row.split(',').next()?;
    if let Some(r) = c.strip_prefix('I') { return r.parse().ok(); }
    if let Some(r) = c.strip_prefix('T') {
        let s = String::from_utf8(unhex(r)).ok()?;
        return s.strip_prefix('k')?.parse().ok();
    }
    None
}

/// integer value of cell `col` of a canonical row (None for NULL / non-integer)
pub fn row_int(row: &str, col: usize) -> Option<i64> {
    if col == 0 { return row_id(row); }
    row.split(',').nth(col)?.strip_prefix('I')?.parse().ok()
}
