//! Value-level helpers shared by the C11 (`sql_values`) and C13 (`sql_params`) engines:
//! exact canonical cells (floats by bit pattern, NaN as a class), the harness's own SQL literal
//! printer (independent of turdb's `value_to_sql_literal`), civil-date conversion, value classes.
use crate::common::*;
use turdb::{Database, ExecuteResult, OwnedValue};

pub fn hexs(b: &[u8]) -> String {
    if b.is_empty() {
        return "-".into();
    }
    const D: &[u8; 16] = b"0123456789abcdef";
    let mut s = Vec::with_capacity(b.len() * 2);
    for x in b {
        s.push(D[(x >> 4) as usize]);
        s.push(D[(x & 15) as usize]);
    }
    String::from_utf8(s).unwrap()
}

/// exact canonical cell: type tag + value; floats by bits, every NaN is `Fnan`
pub fn vcell(v: &OwnedValue) -> String {
    match v {
        OwnedValue::Null => "N".into(),
        OwnedValue::Bool(b) => format!("B{}", *b as u8),
        OwnedValue::Int(i) => format!("I{i}"),
        OwnedValue::Float(f) => {
            if f.is_nan() {
                "Fnan".into()
            } else {
                format!("F{:016x}", f.to_bits())
            }
        }
        OwnedValue::Text(s) => format!("T{}", hexs(s.as_bytes())),
        OwnedValue::Blob(b) => format!("X{}", hexs(b)),
        OwnedValue::Date(d) => format!("D{d}"),
        OwnedValue::Time(t) => format!("M{t}"),
        OwnedValue::Timestamp(t) => format!("S{t}"),
        OwnedValue::TimestampTz(t, z) => format!("Z{t}/{z}"),
        OwnedValue::Uuid(u) => format!("U{}", hexs(u)),
        OwnedValue::Jsonb(j) => format!("J{}", hexs(j)),
        OwnedValue::Vector(v) => format!(
            "V{}",
            v.iter().map(|f| if f.is_nan() { "nan".to_string() } else { format!("{:08x}", f.to_bits()) }).collect::<Vec<_>>().join("_")
        ),
        OwnedValue::ToastPointer(p) => format!("P{}", hexs(p)),
        other => format!("O{:?}", other).replace([' ', ',', ';'], "_"),
    }
}

/// short printable form of a cell for messages
pub fn short(c: &str) -> String {
    if c.len() > 90 {
        let mut k = 80;
        while !c.is_char_boundary(k) { k -= 1; }
        format!("{}..[{} chars]", &c[..k], c.len())
    } else {
        c.to_string()
    }
}

/// type tag of a cell (first character), as a word
pub fn tag_name(c: &str) -> &'static str {
    match c.as_bytes().first() {
        Some(b'N') => "null",
        Some(b'B') => "bool",
        Some(b'I') => "int",
        Some(b'F') => "float",
        Some(b'T') => "text",
        Some(b'X') => "blob",
        Some(b'D') => "date",
        Some(b'M') => "time",
        Some(b'S') => "timestamp",
        Some(b'Z') => "timestamptz",
        Some(b'U') => "uuid",
        Some(b'J') => "jsonb",
        Some(b'V') => "vector",
        Some(b'P') => "toastptr",
        _ => "other",
    }
}

/// days since 1970-01-01 -> (y, m, d), proleptic Gregorian (Hinnant's algorithm; independent of turdb)
pub fn civil_from_days(z: i64) -> (i64, u32, u32) {
    let z = z + 719468;
    let era = if z >= 0 { z } else { z - 146096 } / 146097;
    let doe = z - era * 146097;
    let yoe = (doe - doe / 1460 + doe / 36524 - doe / 146096) / 365;
    let y = yoe + era * 400;
    let doy = doe - (365 * yoe + yoe / 4 - yoe / 100);
    let mp = (5 * doy + 2) / 153;
    let d = (doy - (153 * mp + 2) / 5 + 1) as u32;
    let m = if mp < 10 { mp + 3 } else { mp - 9 } as u32;
    (if m <= 2 { y + 1 } else { y }, m, d)
}

pub fn days_from_civil(y: i64, m: u32, d: u32) -> i64 {
    let y = if m <= 2 { y - 1 } else { y };
    let era = if y >= 0 { y } else { y - 399 } / 400;
    let yoe = y - era * 400;
    let mp = if m > 2 { m - 3 } else { m + 9 } as i64;
    let doy = (153 * mp + 2) / 5 + d as i64 - 1;
    let doe = yoe * 365 + yoe / 4 - yoe / 100 + doy;
    era * 146097 + doe - 719468
}

pub fn date_text(days: i64) -> String {
    let (y, m, d) = civil_from_days(days);
    format!("{:04}-{:02}-{:02}", y, m, d)
}

pub fn time_text(micros: i64) -> String {
    let s = micros / 1_000_000;
    let us = micros % 1_000_000;
    let base = format!("{:02}:{:02}:{:02}", s / 3600, (s / 60) % 60, s % 60);
    if us == 0 {
        base
    } else {
        format!("{base}.{:06}", us)
    }
}

pub fn timestamp_text(micros: i64) -> String {
    let day = micros.div_euclid(86_400_000_000);
    let rem = micros.rem_euclid(86_400_000_000);
    format!("{} {}", date_text(day), time_text(rem))
}

pub fn uuid_text(u: &[u8; 16]) -> String {
    let h = hexs(u);
    format!("{}-{}-{}-{}-{}", &h[0..8], &h[8..12], &h[12..16], &h[16..20], &h[20..32])
}

pub fn quote_text(s: &str) -> String {
    let mut o = String::with_capacity(s.len() + 2);
    o.push('\'');
    for c in s.chars() {
        if c == '\'' {
            o.push('\'');
        }
        o.push(c);
    }
    o.push('\'');
    o
}

/// The harness's own literal printer: the SQL literal a user would write for this value in a column
/// of the value's own type.  `None` when SQL has no literal for it (NaN, infinities).
pub fn literal_of(v: &OwnedValue) -> Option<String> {
    Some(match v {
        OwnedValue::Null => "NULL".into(),
        OwnedValue::Bool(b) => if *b { "TRUE".into() } else { "FALSE".into() },
        OwnedValue::Int(i) => i.to_string(),
        OwnedValue::Float(f) => {
            if !f.is_finite() {
                return None;
            }
            // shortest round-trip form, always with a '.' or an exponent so that it is a FLOAT token
            let s = format!("{:?}", f);
            s
        }
        OwnedValue::Text(s) => quote_text(s),
        OwnedValue::Blob(b) => format!("X'{}'", if b.is_empty() { String::new() } else { hexs(b) }),
        OwnedValue::Date(d) => format!("'{}'", date_text(*d as i64)),
        OwnedValue::Time(t) => format!("'{}'", time_text(*t)),
        OwnedValue::Timestamp(t) => format!("'{}'", timestamp_text(*t)),
        OwnedValue::Uuid(u) => format!("'{}'", uuid_text(u)),
        OwnedValue::Vector(v) => format!("'[{}]'", v.iter().map(|f| format!("{:?}", f)).collect::<Vec<_>>().join(",")),
        _ => return None,
    })
}

/// protocol form of a bound value for the Lean `lex` driver (`parsePVal`)
pub fn pval_of(v: &OwnedValue) -> Option<String> {
    Some(match v {
        OwnedValue::Null => "null".into(),
        OwnedValue::Bool(b) => format!("bool:{}", *b as u8),
        OwnedValue::Int(i) => format!("int:{i}"),
        OwnedValue::Float(f) => {
            if f.is_nan() {
                "nan".into()
            } else if f.is_infinite() {
                if *f > 0.0 { "inf".into() } else { "ninf".into() }
            } else {
                // Rust's `Display` for f64 is trusted (DESIGN §1.1): the printed text enters the model
                format!("raw:{}", hexs(f.to_string().as_bytes()))
            }
        }
        OwnedValue::Text(s) => format!("text:{}", hexs(s.as_bytes())),
        OwnedValue::Blob(b) => format!("blob:{}", hexs(b)),
        OwnedValue::Date(d) => format!("qraw:{}", hexs(d.to_string().as_bytes())),
        OwnedValue::Time(t) => format!("qraw:{}", hexs(t.to_string().as_bytes())),
        OwnedValue::Timestamp(t) => format!("qraw:{}", hexs(t.to_string().as_bytes())),
        OwnedValue::Uuid(u) => format!("uuid:{}", hexs(u)),
        OwnedValue::Jsonb(j) => format!("jsonb:{}", hexs(j)),
        _ => return None,
    })
}

pub fn kind_of(v: &OwnedValue) -> &'static str {
    match v {
        OwnedValue::Null => "null",
        OwnedValue::Bool(_) => "bool",
        OwnedValue::Int(_) => "int",
        OwnedValue::Float(_) => "float",
        OwnedValue::Text(_) => "text",
        OwnedValue::Blob(_) => "blob",
        OwnedValue::Date(_) => "date",
        OwnedValue::Time(_) => "time",
        OwnedValue::Timestamp(_) => "timestamp",
        OwnedValue::TimestampTz(..) => "timestamptz",
        OwnedValue::Uuid(_) => "uuid",
        OwnedValue::Jsonb(_) => "jsonb",
        OwnedValue::Vector(_) => "vector",
        _ => "other",
    }
}

/// flags of a value: the features that may matter to quoting, lexing, TOAST and integer width
pub fn flags_of(v: &OwnedValue) -> String {
    let mut f: Vec<&str> = vec![];
    match v {
        OwnedValue::Text(s) => {
            if s.is_empty() { f.push("empty"); }
            if s.contains('\'') { f.push("quote"); }
            if s.contains('\0') { f.push("nul"); }
            if s.contains("--") || s.contains("/*") { f.push("comment"); }
            if s.contains(';') { f.push("semi"); }
            if s.contains('\\') { f.push("bslash"); }
            if s.contains('?') || s.contains('$') { f.push("qmark"); }
            if s.chars().any(|c| (c as u32) >= 0x10000) { f.push("4byte"); }
            if s.len() > 1000 { f.push("long"); }
        }
        OwnedValue::Blob(b) => {
            if b.is_empty() { f.push("empty"); }
            if b.len() > 1000 { f.push("long"); }
            if b.len() == 17 && b[0] == 0xFE { f.push("fe17"); }
            if !b.is_empty() && std::str::from_utf8(b).is_ok() { f.push("utf8"); }
        }
        OwnedValue::Int(i) => {
            if *i == i64::MIN { f.push("min"); }
            else if *i > i32::MAX as i64 || *i < i32::MIN as i64 { f.push("big"); }
        }
        OwnedValue::Float(x) => {
            if x.is_nan() { f.push("nan"); }
            else if x.is_infinite() { f.push("inf"); }
            else {
                if x.fract() == 0.0 { f.push("integral"); }
                if x.abs() >= 9.3e18 { f.push("huge"); }
                if *x == 0.0 && x.is_sign_negative() { f.push("negzero"); }
            }
        }
        _ => {}
    }
    if f.is_empty() { "-".into() } else { f.join("+") }
}

#[derive(Debug, Clone)]
pub enum Res {
    Rows(Vec<Vec<String>>),
    Affected(usize),
    Other(String),
    Err(String),
    Panic(String),
}

impl Res {
    pub fn class(&self) -> &'static str {
        match self {
            Res::Rows(_) => "rows",
            Res::Affected(_) => "affected",
            Res::Other(_) => "other",
            Res::Err(_) => "err",
            Res::Panic(_) => "panic",
        }
    }
    pub fn show(&self) -> String {
        match self {
            Res::Rows(r) => format!("rows[{}]", r.iter().map(|x| x.iter().map(|c| short(c)).collect::<Vec<_>>().join(",")).collect::<Vec<_>>().join(";")),
            Res::Affected(n) => format!("affected {n}"),
            Res::Other(s) => format!("other {s}"),
            Res::Err(e) => format!("ERR {}", short(e)),
            Res::Panic(p) => format!("PANIC {}", short(p)),
        }
    }
    /// same observable outcome?  errors are compared as a class (messages differ between paths)
    pub fn same(&self, o: &Res) -> bool {
        match (self, o) {
            (Res::Rows(a), Res::Rows(b)) => a == b,
            (Res::Affected(a), Res::Affected(b)) => a == b,
            (Res::Other(a), Res::Other(b)) => a == b,
            (Res::Err(_), Res::Err(_)) => true,
            (Res::Panic(_), Res::Panic(_)) => true,
            _ => false,
        }
    }
}

pub fn res_of(r: Result<eyre::Result<ExecuteResult>, String>) -> Res {
    match r {
        Err(p) => Res::Panic(p),
        Ok(Err(e)) => Res::Err(format!("{e:#}")),
        Ok(Ok(x)) => match x {
            ExecuteResult::Select { rows, .. } => Res::Rows(rows.iter().map(|r| r.values.iter().map(vcell).collect()).collect()),
            ExecuteResult::Insert { rows_affected, .. } | ExecuteResult::Update { rows_affected, .. } | ExecuteResult::Delete { rows_affected, .. } => Res::Affected(rows_affected),
            other => Res::Other(format!("{other:?}")),
        },
    }
}

pub fn exec(db: &Database, sql: &str) -> Res {
    let s = sql.to_string();
    res_of(guarded(std::panic::AssertUnwindSafe(move || db.execute(&s))))
}

/// sorted full dump of a table (`SELECT *`), or the failure
pub fn dump(db: &Database, table: &str) -> Res {
    match exec(db, &format!("SELECT * FROM {table}")) {
        Res::Rows(mut r) => {
            r.sort();
            Res::Rows(r)
        }
        other => other,
    }
}

pub struct DbDir {
    pub db: Option<Database>,
    pub dir: String,
}

impl DbDir {
    pub fn create(ctx: &Ctx, tag: &str) -> DbDir {
        let dir = format!("{}/dbv-{}-{}", ctx.scratch, tag, std::process::id());
        let _ = std::fs::remove_dir_all(&dir);
        let db = Database::create(&dir).expect("create database");
        DbDir { db: Some(db), dir }
    }
    pub fn db(&self) -> &Database {
        self.db.as_ref().unwrap()
    }
    pub fn reopen(&mut self) -> Result<(), String> {
        if let Some(db) = self.db.take() {
            let _ = guarded(std::panic::AssertUnwindSafe(move || {
                let _ = db.close();
            }));
        }
        let d = self.dir.clone();
        match guarded(move || Database::open(&d)) {
            Ok(Ok(db)) => {
                self.db = Some(db);
                Ok(())
            }
            Ok(Err(e)) => Err(format!("open failed: {e:#}")),
            Err(p) => Err(format!("open panicked: {p}")),
        }
    }
}

impl Drop for DbDir {
    fn drop(&mut self) {
        if let Some(db) = self.db.take() {
            let _ = guarded(std::panic::AssertUnwindSafe(move || drop(db)));
        }
        let _ = std::fs::remove_dir_all(&self.dir);
    }
}

/// one-line encoding of an OwnedValue for replay files: kind:payload
pub fn enc_val(v: &OwnedValue) -> String {
    match v {
        OwnedValue::Null => "null".into(),
        OwnedValue::Bool(b) => format!("bool:{}", *b as u8),
        OwnedValue::Int(i) => format!("int:{i}"),
        OwnedValue::Float(f) => format!("float:{:016x}", f.to_bits()),
        OwnedValue::Text(s) => format!("text:{}", hexs(s.as_bytes())),
        OwnedValue::Blob(b) => format!("blob:{}", hexs(b)),
        OwnedValue::Date(d) => format!("date:{d}"),
        OwnedValue::Time(t) => format!("time:{t}"),
        OwnedValue::Timestamp(t) => format!("timestamp:{t}"),
        OwnedValue::Uuid(u) => format!("uuid:{}", hexs(u)),
        OwnedValue::Vector(v) => format!("vector:{}", v.iter().map(|f| format!("{:08x}", f.to_bits())).collect::<Vec<_>>().join("_")),
        other => format!("other:{:?}", other).replace(' ', "_"),
    }
}

pub fn dec_val(s: &str) -> Option<OwnedValue> {
    let (k, p) = s.split_once(':').unwrap_or((s, ""));
    Some(match k {
        "null" => OwnedValue::Null,
        "bool" => OwnedValue::Bool(p == "1"),
        "int" => OwnedValue::Int(p.parse().ok()?),
        "float" => OwnedValue::Float(f64::from_bits(u64::from_str_radix(p, 16).ok()?)),
        "text" => OwnedValue::Text(String::from_utf8(unhex(p)).ok()?),
        "blob" => OwnedValue::Blob(unhex(p)),
        "date" => OwnedValue::Date(p.parse().ok()?),
        "time" => OwnedValue::Time(p.parse().ok()?),
        "timestamp" => OwnedValue::Timestamp(p.parse().ok()?),
        "uuid" => {
            let b = unhex(p);
            if b.len() != 16 { return None; }
            let mut u = [0u8; 16];
            u.copy_from_slice(&b);
            OwnedValue::Uuid(u)
        }
        "vector" => OwnedValue::Vector(if p.is_empty() { vec![] } else { p.split('_').map(|x| f32::from_bits(u32::from_str_radix(x, 16).unwrap_or(0))).collect() }),
        _ => return None,
    })
}
