//! C09/C12: schema (DDL) and write-statement AST with SQL and s-expression printers, a small
//! three-valued evaluator over dumped rows, and a direct constraint checker used as the
//! harness-side oracle (independent of the Lean model).
#![allow(dead_code)]
use crate::sqlgen::*;

#[derive(Clone, Copy, Debug, PartialEq, Eq)]
pub enum Act { Restrict, Cascade }

impl Act {
    pub fn sql(&self) -> &'static str { match self { Act::Restrict => "RESTRICT", Act::Cascade => "CASCADE" } }
    pub fn sx(&self) -> &'static str { match self { Act::Restrict => "restrict", Act::Cascade => "cascade" } }
}

#[derive(Clone, Debug)]
pub struct FkSpec {
    pub cols: Vec<usize>,
    pub parent: String,
    pub pcols: Vec<usize>,
    pub pcol_names: Vec<String>,
    /// None = clause absent (NO ACTION, i.e. the write is refused while children reference the key)
    pub on_delete: Option<Act>,
    pub on_update: Option<Act>,
    /// declared as a table constraint (`FOREIGN KEY (..) REFERENCES ..`) instead of on the column
    pub table_level: bool,
}

#[derive(Clone, Debug)]
pub struct CheckSpec {
    pub e: E,
    /// column the constraint is attached to; None = table-level CHECK
    pub col: Option<usize>,
}

#[derive(Clone, Debug)]
pub struct ColSpec {
    pub name: String,
    pub ty: Ty,
    pub notnull: bool,
    pub unique: bool,
    pub pk: bool,
}

#[derive(Clone, Debug, Default)]
pub struct TableC {
    pub name: String,
    pub cols: Vec<ColSpec>,
    /// table-level PRIMARY KEY (c1, c2, ..)
    pub cpk: Option<Vec<usize>>,
    /// table-level UNIQUE (c1, c2, ..)
    pub uniques: Vec<Vec<usize>>,
    pub checks: Vec<CheckSpec>,
    pub fks: Vec<FkSpec>,
}

impl TableC {
    pub fn scope(&self) -> Scope { self.cols.iter().map(|c| c.name.clone()).collect() }
    pub fn pk_cols(&self) -> Vec<usize> {
        if let Some(c) = &self.cpk { return c.clone(); }
        self.cols.iter().enumerate().filter(|(_, c)| c.pk).map(|(i, _)| i).collect()
    }
    /// all unique column sets other than the primary key
    pub fn unique_sets(&self) -> Vec<Vec<usize>> {
        let mut v: Vec<Vec<usize>> = self.cols.iter().enumerate().filter(|(_, c)| c.unique).map(|(i, _)| vec![i]).collect();
        v.extend(self.uniques.iter().cloned());
        v
    }
    pub fn key_cols(&self) -> Vec<usize> {
        let mut v = self.pk_cols();
        for u in self.unique_sets() { v.extend(u); }
        for f in &self.fks { v.extend(f.cols.iter().cloned()); }
        v.sort(); v.dedup(); v
    }
    pub fn create_sql(&self) -> String {
        let sc = self.scope();
        let mut items: Vec<String> = vec![];
        for (i, c) in self.cols.iter().enumerate() {
            let mut s = format!("{} {}", c.name, c.ty.sql());
            if c.pk { s.push_str(" PRIMARY KEY"); }
            if c.notnull { s.push_str(" NOT NULL"); }
            if c.unique { s.push_str(" UNIQUE"); }
            for k in &self.checks { if k.col == Some(i) { s.push_str(&format!(" CHECK {}", paren(&k.e.sql(&sc)))); } }
            for f in &self.fks {
                if !f.table_level && f.cols == vec![i] {
                    s.push_str(&format!(" REFERENCES {}({})", f.parent, f.pcol_names[0]));
                    if let Some(a) = f.on_delete { s.push_str(&format!(" ON DELETE {}", a.sql())); }
                    if let Some(a) = f.on_update { s.push_str(&format!(" ON UPDATE {}", a.sql())); }
                }
            }
            items.push(s);
        }
        if let Some(pk) = &self.cpk { items.push(format!("PRIMARY KEY ({})", pk.iter().map(|i| sc[*i].clone()).collect::<Vec<_>>().join(", "))); }
        for u in &self.uniques { items.push(format!("UNIQUE ({})", u.iter().map(|i| sc[*i].clone()).collect::<Vec<_>>().join(", "))); }
        for k in &self.checks { if k.col.is_none() { items.push(format!("CHECK {}", paren(&k.e.sql(&sc)))); } }
        for f in &self.fks {
            if f.table_level {
                let mut s = format!("FOREIGN KEY ({}) REFERENCES {}({})", f.cols.iter().map(|i| sc[*i].clone()).collect::<Vec<_>>().join(", "), f.parent, f.pcol_names.join(", "));
                if let Some(a) = f.on_delete { s.push_str(&format!(" ON DELETE {}", a.sql())); }
                if let Some(a) = f.on_update { s.push_str(&format!(" ON UPDATE {}", a.sql())); }
                items.push(s);
            }
        }
        format!("CREATE TABLE {} ({})", self.name, items.join(", "))
    }
    /// `create` request of the `sqlcons` / `sqldb` model families
    pub fn model_create(&self) -> String {
        let pk = self.pk_cols();
        let cols: Vec<String> = self.cols.iter().enumerate().map(|(i, c)| {
            format!("({} {} {} {} 0 (null))", c.name, c.notnull as u8, c.unique as u8, pk.contains(&i) as u8)
        }).collect();
        let checks: Vec<String> = self.checks.iter().map(|k| k.e.sx()).collect();
        let nats = |v: &Vec<usize>| format!("({})", v.iter().map(|i| i.to_string()).collect::<Vec<_>>().join(" "));
        let uniques: Vec<String> = self.uniques.iter().map(nats).collect();
        let fks: Vec<String> = self.fks.iter().map(|f| format!("({} {} {} {} {})", nats(&f.cols), f.parent, nats(&f.pcols),
            f.on_delete.unwrap_or(Act::Restrict).sx(), f.on_update.unwrap_or(Act::Restrict).sx())).collect();
        format!("create {} ({}) ({}) ({}) ({})", self.name, cols.join(" "), checks.join(" "), uniques.join(" "), fks.join(" "))
    }
}

fn paren(s: &str) -> String { if s.starts_with('(') && s.ends_with(')') { s.to_string() } else { format!("({s})") } }

#[derive(Clone, Debug)]
pub enum St {
    Insert { t: String, cols: Vec<usize>, rows: Vec<Vec<V>> },
    Update { t: String, sets: Vec<(usize, E)>, whr: Option<E> },
    Delete { t: String, whr: Option<E> },
    Truncate { t: String },
    Begin, Commit, Rollback,
}

impl St {
    pub fn kind(&self) -> &'static str {
        match self { St::Insert { .. } => "insert", St::Update { .. } => "update", St::Delete { .. } => "delete", St::Truncate { .. } => "truncate",
                     St::Begin => "begin", St::Commit => "commit", St::Rollback => "rollback" }
    }
    pub fn table(&self) -> Option<&str> {
        match self { St::Insert { t, .. } | St::Update { t, .. } | St::Delete { t, .. } | St::Truncate { t } => Some(t), _ => None }
    }
    pub fn is_write(&self) -> bool { self.table().is_some() }
    pub fn sql(&self, schema: &[TableC]) -> String {
        let sc = |t: &str| schema.iter().find(|x| x.name == t).map(|x| x.scope()).unwrap_or_default();
        match self {
            St::Insert { t, cols, rows } => {
                let s = sc(t);
                let full = cols.len() == s.len() && cols.iter().enumerate().all(|(i, c)| i == *c);
                format!("INSERT INTO {}{} VALUES {}", t,
                    if full { String::new() } else { format!(" ({})", cols.iter().map(|i| s[*i].clone()).collect::<Vec<_>>().join(", ")) },
                    rows.iter().map(|r| format!("({})", r.iter().map(|v| v.sql()).collect::<Vec<_>>().join(", "))).collect::<Vec<_>>().join(", "))
            }
            St::Update { t, sets, whr } => {
                let s = sc(t);
                format!("UPDATE {} SET {}{}", t, sets.iter().map(|(i, e)| format!("{} = {}", s[*i], e.sql(&s))).collect::<Vec<_>>().join(", "),
                    whr.as_ref().map(|w| format!(" WHERE {}", w.sql(&s))).unwrap_or_default())
            }
            St::Delete { t, whr } => { let s = sc(t); format!("DELETE FROM {}{}", t, whr.as_ref().map(|w| format!(" WHERE {}", w.sql(&s))).unwrap_or_default()) }
            St::Truncate { t } => format!("TRUNCATE TABLE {t}"),
            St::Begin => "BEGIN".into(), St::Commit => "COMMIT".into(), St::Rollback => "ROLLBACK".into(),
        }
    }
    pub fn sx(&self) -> String {
        let opt = |e: &Option<E>| e.as_ref().map(|x| x.sx()).unwrap_or("(none)".into());
        match self {
            St::Insert { t, cols, rows } => format!("(insert {} ({}) ({}))", t, cols.iter().map(|i| i.to_string()).collect::<Vec<_>>().join(" "),
                rows.iter().map(|r| format!("({})", r.iter().map(|v| v.sx()).collect::<Vec<_>>().join(" "))).collect::<Vec<_>>().join(" ")),
            St::Update { t, sets, whr } => format!("(update {} ({}) {})", t, sets.iter().map(|(i, e)| format!("({} {})", i, e.sx())).collect::<Vec<_>>().join(" "), opt(whr)),
            St::Delete { t, whr } => format!("(delete {} {})", t, opt(whr)),
            St::Truncate { t } => format!("(truncate {t})"),
            St::Begin => "(begin)".into(), St::Commit => "(commit)".into(), St::Rollback => "(rollback)".into(),
        }
    }
}

// ------------------------------------------------------------------ three-valued evaluator

pub fn cell_to_val(c: &str) -> V {
    match c.as_bytes().first() {
        Some(b'N') | None => V::Null,
        Some(b'B') => V::Bool(c == "B1"),
        Some(b'I') => c[1..].parse().map(V::Int).unwrap_or(V::Null),
        Some(b'F') => { let f: f64 = c[1..].parse().unwrap_or(0.0); V::Flt((f * 1048576.0) as i64, 1048576) }
        Some(b'T') => V::Text(String::from_utf8_lossy(&crate::common::unhex(&c[1..])).to_string()),
        _ => V::Text(c.to_string()),
    }
}

pub fn val_to_cell(v: &V) -> String {
    match v {
        V::Null => "N".into(),
        V::Bool(b) => format!("B{}", *b as u8),
        V::Int(i) => format!("I{i}"),
        V::Flt(n, d) => format!("F{:?}", *n as f64 / *d as f64),
        V::Text(s) => format!("T{}", crate::common::hex(s.as_bytes())),
    }
}

fn cmp_v(a: &V, b: &V) -> Option<std::cmp::Ordering> {
    match (a, b) {
        (V::Null, _) | (_, V::Null) => None,
        (V::Text(x), V::Text(y)) => Some(x.cmp(y)),
        (V::Bool(x), V::Bool(y)) => Some(x.cmp(y)),
        _ => match (a.f64(), b.f64()) { (Some(x), Some(y)) => x.partial_cmp(&y), _ => None },
    }
}

fn tri(v: &V) -> Option<bool> { match v { V::Bool(b) => Some(*b), _ => None } }
fn of_tri(t: Option<bool>) -> V { match t { Some(b) => V::Bool(b), None => V::Null } }
fn and3(a: Option<bool>, b: Option<bool>) -> Option<bool> {
    match (a, b) { (Some(false), _) | (_, Some(false)) => Some(false), (Some(true), Some(true)) => Some(true), _ => None }
}
fn or3(a: Option<bool>, b: Option<bool>) -> Option<bool> {
    match (a, b) { (Some(true), _) | (_, Some(true)) => Some(true), (Some(false), Some(false)) => Some(false), _ => None }
}

/// SQL three-valued evaluation of the expression subset used in CHECKs, WHEREs and SET clauses
/// (integer arithmetic unchecked: generated values are small)
pub fn eval3(e: &E, row: &[V]) -> V {
    match e {
        E::Lit(v) => v.clone(),
        E::Col(i) => row.get(*i).cloned().unwrap_or(V::Null),
        E::Neg(x) => match eval3(x, row) { V::Int(i) => V::Int(-i), V::Flt(n, d) => V::Flt(-n, d), _ => V::Null },
        E::Not(x) => of_tri(tri(&eval3(x, row)).map(|b| !b)),
        E::Bin(op, a, b) => {
            let (x, y) = (eval3(a, row), eval3(b, row));
            match op {
                Op::And => of_tri(and3(tri(&x), tri(&y))),
                Op::Or => of_tri(or3(tri(&x), tri(&y))),
                Op::Eq | Op::Ne | Op::Lt | Op::Le | Op::Gt | Op::Ge => {
                    use std::cmp::Ordering::*;
                    of_tri(cmp_v(&x, &y).map(|o| match op { Op::Eq => o == Equal, Op::Ne => o != Equal, Op::Lt => o == Less, Op::Le => o != Greater, Op::Gt => o == Greater, _ => o != Less }))
                }
                Op::Add | Op::Sub | Op::Mul => match (x, y) {
                    (V::Int(p), V::Int(q)) => V::Int(match op { Op::Add => p + q, Op::Sub => p - q, _ => p * q }),
                    _ => V::Null,
                },
                _ => V::Null,
            }
        }
        E::IsNull(x, n) => V::Bool((eval3(x, row) == V::Null) != *n),
        E::In(x, l, n) => {
            let v = eval3(x, row);
            let mut acc = Some(false);
            for it in l { acc = or3(acc, cmp_v(&v, &eval3(it, row)).map(|o| o == std::cmp::Ordering::Equal)); }
            of_tri(if *n { acc.map(|b| !b) } else { acc })
        }
        E::Between(x, lo, hi, n) => {
            let v = eval3(x, row);
            let a = cmp_v(&v, &eval3(lo, row)).map(|o| o != std::cmp::Ordering::Less);
            let b = cmp_v(&v, &eval3(hi, row)).map(|o| o != std::cmp::Ordering::Greater);
            let r = and3(a, b);
            of_tri(if *n { r.map(|b| !b) } else { r })
        }
        _ => V::Null,
    }
}

pub fn where_true(w: &Option<E>, row: &[V]) -> bool {
    match w { None => true, Some(e) => eval3(e, row) == V::Bool(true) }
}

// ------------------------------------------------------------------ direct constraint checker

pub type Dump = Vec<(String, Vec<Vec<V>>)>;

fn key_of(r: &[V], ix: &[usize]) -> Vec<V> { ix.iter().map(|i| r.get(*i).cloned().unwrap_or(V::Null)).collect() }
fn key_has_null(k: &[V]) -> bool { k.iter().any(|v| *v == V::Null) }
fn same_key(a: &[V], b: &[V]) -> bool {
    a.len() == b.len() && a.iter().zip(b).all(|(x, y)| cmp_v(x, y) == Some(std::cmp::Ordering::Equal))
}
fn unique_ok(rows: &[Vec<V>], ix: &[usize]) -> bool {
    for i in 0..rows.len() {
        let k = key_of(&rows[i], ix);
        if key_has_null(&k) { continue; }
        for r2 in rows.iter().skip(i + 1) { if same_key(&k, &key_of(r2, ix)) { return false; } }
    }
    true
}

/// index of the first CHECK of `t` that is FALSE on `row`
pub fn failing_check(t: &TableC, row: &[V]) -> Option<usize> {
    t.checks.iter().position(|k| eval3(&k.e, row) == V::Bool(false))
}

/// constraint kinds violated by the dumped rows, per table: the property's own definition
/// evaluated directly (PK / UNIQUE on fully non-NULL keys, NOT NULL, CHECK not FALSE, FK existence)
pub fn state_violations(schema: &[TableC], dump: &Dump) -> Vec<(String, Vec<&'static str>)> {
    let mut out = vec![];
    for t in schema {
        let rows = match dump.iter().find(|(n, _)| *n == t.name) { Some((_, r)) => r, None => continue };
        let mut kinds = vec![];
        if rows.iter().any(|r| t.cols.iter().enumerate().any(|(i, c)| c.notnull && r[i] == V::Null)) { kinds.push("notnull"); }
        let pk = t.pk_cols();
        if !pk.is_empty() && (rows.iter().any(|r| key_has_null(&key_of(r, &pk))) || !unique_ok(rows, &pk)) { kinds.push("pk"); }
        if t.unique_sets().iter().any(|u| !unique_ok(rows, u)) { kinds.push("unique"); }
        if rows.iter().any(|r| failing_check(t, r).is_some()) { kinds.push("check"); }
        let mut fk_bad = false;
        for f in &t.fks {
            let prows = dump.iter().find(|(n, _)| *n == f.parent).map(|(_, r)| r.clone()).unwrap_or_default();
            for r in rows {
                let k = key_of(r, &f.cols);
                if key_has_null(&k) { continue; }
                if !prows.iter().any(|p| same_key(&k, &key_of(p, &f.pcols))) { fk_bad = true; }
            }
        }
        if fk_bad { kinds.push("fk"); }
        if !kinds.is_empty() { out.push((t.name.clone(), kinds)); }
    }
    out
}

pub fn show_viol(v: &[(String, Vec<&'static str>)]) -> String {
    if v.is_empty() { "viol -".into() } else { format!("viol {}", v.iter().map(|(t, k)| format!("{}:{}", t, k.join(","))).collect::<Vec<_>>().join(";")) }
}

/// syntactic shape of a CHECK expression (finite alphabet, for signatures)
pub fn check_shape(k: &CheckSpec) -> String {
    fn is_col(e: &E) -> bool { matches!(e, E::Col(_)) }
    fn is_num(e: &E) -> bool { matches!(e, E::Lit(V::Int(_)) | E::Lit(V::Flt(..))) }
    fn cols(e: &E, out: &mut Vec<usize>) { if let E::Col(i) = e { out.push(*i); } for c in e.children() { cols(c, out); } }
    let mut cs = vec![]; cols(&k.e, &mut cs); cs.sort(); cs.dedup();
    let base = match &k.e {
        E::Bin(op, a, b) if op.is_cmp() => {
            let o = match op { Op::Eq => "eq", Op::Ne => "ne", _ => "ord" };
            if is_col(a) && is_num(b) { format!("col-{o}-lit") } else if is_num(a) && is_col(b) { format!("lit-{o}-col") }
            else if is_col(a) && is_col(b) { format!("col-{o}-col") } else { format!("expr-{o}") }
        }
        E::Bin(Op::And, a, b) | E::Bin(Op::Or, a, b) => {
            let nested = [a, b].iter().any(|x| matches!(&***x, E::Bin(Op::And, ..) | E::Bin(Op::Or, ..)));
            let simple = |x: &E| matches!(x, E::Bin(op, p, q) if matches!(op, Op::Lt | Op::Le | Op::Gt | Op::Ge) && is_col(p) && is_num(q));
            fn all_simple(x: &E, simple: &dyn Fn(&E) -> bool) -> bool { match x { E::Bin(Op::And, p, q) | E::Bin(Op::Or, p, q) => all_simple(p, simple) && all_simple(q, simple), y => simple(y) } }
            let leaves = if all_simple(&k.e, &simple) { "ordlits" } else { "mixed" };
            format!("{}{}-{}", if matches!(&k.e, E::Bin(Op::And, ..)) { "and" } else { "or" }, if nested { "-nested" } else { "" }, leaves)
        }
        E::Not(_) => "not".into(),
        E::Between(_, _, _, n) => if *n { "notbetween".into() } else { "between".into() },
        E::In(_, _, n) => if *n { "notin".into() } else { "in".into() },
        E::IsNull(_, n) => if *n { "isnotnull".into() } else { "isnull".into() },
        other => other.head(),
    };
    let mut s = base;
    if k.col.is_none() { s.push_str("@table"); } else if cs.iter().any(|c| Some(*c) != k.col) { s.push_str("@othercol"); }
    s
}

// ------------------------------------------------------------------ database runner with a watchdog

/// Like `sqlgen::Dbh` but every statement runs on a worker thread with a time limit: the pinned
/// engine dead-locks on some statements (e.g. INSERT into a table with a self-referencing FOREIGN
/// KEY).  After a hang the handle is poisoned (the worker still holds the engine's locks) and the
/// history must end; the database object is leaked on purpose.
pub struct DbT {
    pub db: Option<std::sync::Arc<turdb::Database>>,
    pub dir: String,
    pub hung: bool,
}

pub const HANG: &str = "hang: no result within the time limit";

impl DbT {
    pub fn create(ctx: &crate::common::Ctx, tag: &str) -> DbT {
        let dir = format!("{}/dbt-{}-{}", ctx.scratch, tag, std::process::id());
        let _ = std::fs::remove_dir_all(&dir);
        let db = turdb::Database::create(&dir).expect("create database");
        DbT { db: Some(std::sync::Arc::new(db)), dir, hung: false }
    }
    pub fn exec(&mut self, sql: &str) -> Out { self.exec_limit(sql, 20) }
    /// `secs`: time limit; a loaded machine can make an fsync-heavy statement take seconds, so only
    /// statements known to dead-lock get a short limit
    pub fn exec_limit(&mut self, sql: &str, secs: u64) -> Out {
        if self.hung { return Out::Panic(HANG.into()); }
        let db = self.db.as_ref().unwrap().clone();
        let s = sql.to_string();
        let (tx, rx) = std::sync::mpsc::channel();
        std::thread::spawn(move || {
            let r = crate::common::guarded(std::panic::AssertUnwindSafe(|| db.execute(&s)));
            let out = match r {
                Err(p) => Out::Panic(p),
                Ok(Err(e)) => Out::Err(format!("{e:#}")),
                Ok(Ok(r)) => match r {
                    turdb::ExecuteResult::Select { rows, .. } => Out::Rows(rows.iter().map(|r| r.values.iter().map(cell_of).collect()).collect()),
                    turdb::ExecuteResult::Insert { rows_affected, returned } | turdb::ExecuteResult::Update { rows_affected, returned } | turdb::ExecuteResult::Delete { rows_affected, returned } =>
                        Out::Affected(rows_affected, returned.map(|rs| rs.iter().map(|r| r.values.iter().map(cell_of).collect()).collect())),
                    turdb::ExecuteResult::Truncate { rows_affected } => Out::Affected(rows_affected, None),
                    other => Out::Other(format!("{other:?}")),
                },
            };
            let _ = tx.send(out);
        });
        match rx.recv_timeout(std::time::Duration::from_secs(secs)) {
            Ok(o) => o,
            Err(_) => { self.hung = true; Out::Panic(HANG.into()) }
        }
    }
}

impl Drop for DbT {
    fn drop(&mut self) {
        if let Some(db) = self.db.take() {
            if self.hung { std::mem::forget(db); }
            else { let _ = crate::common::guarded(std::panic::AssertUnwindSafe(move || drop(db))); }
        }
        let _ = std::fs::remove_dir_all(&self.dir);
    }
}
