//! Deterministic schedule controller over the `verif_hooks::yield_point` sites.
//!
//! Registered worker threads run one at a time: a worker runs from one yield point to the next
//! ("one step") only when the controller grants it the turn. The controller follows a forced
//! schedule (list of thread ids, e.g. a counterexample schedule produced from the Lean model) or a
//! seeded random policy, records the trace of granted steps, and detects workers that block
//! inside a lock or condition variable by a no-progress timeout.
#![allow(dead_code)]
use parking_lot::{Condvar, Mutex};
use std::cell::Cell;
use std::sync::Arc;
use std::time::{Duration, Instant};

#[derive(Clone, Debug, PartialEq)]
pub enum TState {
    /// parked at a yield point (site), waiting for the turn
    Parked(&'static str),
    /// granted the turn and still running (or blocked inside a primitive)
    Running,
    /// ran past the grant timeout without reaching a yield point: blocked in a lock/condvar
    Blocked,
    Finished,
}

struct Inner {
    threads: Vec<TState>,
    /// outstanding grants, one flag per thread (a grant is never revoked)
    granted: Vec<bool>,
    /// (tid, site the thread was parked at when granted)
    trace: Vec<(usize, &'static str)>,
    free_run: bool,
}

pub struct Sched {
    inner: Mutex<Inner>,
    cv: Condvar,
}

thread_local! {
    static TID: Cell<Option<usize>> = const { Cell::new(None) };
}

static CURRENT: Mutex<Option<Arc<Sched>>> = Mutex::new(None);

fn hook(site: &'static str) {
    let tid = TID.with(|t| t.get());
    if let Some(tid) = tid {
        let s = CURRENT.lock().clone();
        if let Some(s) = s {
            s.park(tid, site);
        }
    }
}

#[derive(Debug, PartialEq)]
pub enum StepResult {
    /// the thread reached its next yield point (site)
    Parked(&'static str),
    Finished,
    /// no progress within the timeout: blocked inside a primitive
    Blocked,
    /// the thread was not parked (cannot be granted)
    NotRunnable,
}

impl Sched {
    pub fn new(nthreads: usize) -> Arc<Sched> {
        let s = Arc::new(Sched {
            inner: Mutex::new(Inner { threads: vec![TState::Running; nthreads], granted: vec![false; nthreads], trace: vec![], free_run: false }),
            cv: Condvar::new(),
        });
        *CURRENT.lock() = Some(s.clone());
        turdb::verif_hooks::set_yield_hook(Some(hook));
        s
    }

    /// detach: let every worker run freely from now on and uninstall the hook
    pub fn release_all(&self) {
        {
            let mut g = self.inner.lock();
            g.free_run = true;
        }
        self.cv.notify_all();
    }

    pub fn shutdown(&self) {
        self.release_all();
        turdb::verif_hooks::set_yield_hook(None);
        *CURRENT.lock() = None;
    }

    fn park(&self, tid: usize, site: &'static str) {
        let mut g = self.inner.lock();
        if g.free_run {
            return;
        }
        g.threads[tid] = TState::Parked(site);
        self.cv.notify_all();
        while !g.granted[tid] && !g.free_run {
            self.cv.wait(&mut g);
        }
        g.granted[tid] = false;
        g.threads[tid] = TState::Running;
    }

    /// spawn worker `tid`; it parks at site "start" before running `f`
    pub fn spawn<F: FnOnce() + Send + 'static>(self: &Arc<Self>, tid: usize, f: F) -> std::thread::JoinHandle<()> {
        let me = self.clone();
        std::thread::spawn(move || {
            TID.with(|t| t.set(Some(tid)));
            me.park(tid, "start");
            let r = std::panic::catch_unwind(std::panic::AssertUnwindSafe(f));
            let _ = r;
            let mut g = me.inner.lock();
            g.threads[tid] = TState::Finished;
            me.cv.notify_all();
        })
    }

    /// wait until every worker is parked / finished / blocked (none merely `Running`), up to `timeout`
    pub fn settle(&self, timeout: Duration) {
        let deadline = Instant::now() + timeout;
        let mut g = self.inner.lock();
        loop {
            let running: Vec<usize> = g.threads.iter().enumerate().filter(|(_, s)| **s == TState::Running).map(|(i, _)| i).collect();
            if running.is_empty() {
                return;
            }
            let now = Instant::now();
            if now >= deadline {
                for i in running {
                    g.threads[i] = TState::Blocked;
                }
                return;
            }
            self.cv.wait_for(&mut g, deadline - now);
        }
    }

    pub fn states(&self) -> Vec<TState> {
        self.inner.lock().threads.clone()
    }

    pub fn trace(&self) -> Vec<(usize, &'static str)> {
        self.inner.lock().trace.clone()
    }

    /// grant one step to `tid` and wait for it to park again / finish / block
    pub fn step(&self, tid: usize, timeout: Duration) -> StepResult {
        let mut g = self.inner.lock();
        // a previously blocked thread may have parked meanwhile
        let site = match g.threads[tid] {
            TState::Parked(s) => s,
            _ => return StepResult::NotRunnable,
        };
        g.trace.push((tid, site));
        g.granted[tid] = true;
        g.threads[tid] = TState::Running;
        self.cv.notify_all();
        let deadline = Instant::now() + timeout;
        loop {
            match g.threads[tid] {
                TState::Parked(s) if !g.granted[tid] => return StepResult::Parked(s),
                TState::Finished => return StepResult::Finished,
                _ => {}
            }
            let now = Instant::now();
            if now >= deadline {
                // the grant stays outstanding: a slow thread will still pick it up
                if !matches!(g.threads[tid], TState::Parked(_)) || g.granted[tid] { g.threads[tid] = TState::Blocked; }
                return StepResult::Blocked;
            }
            self.cv.wait_for(&mut g, deadline - now);
        }
    }

    /// wait for a thread that holds an outstanding grant (it was `Blocked`) to reach its next yield point
    pub fn wait_landed(&self, tid: usize, timeout: Duration) -> StepResult {
        let mut g = self.inner.lock();
        let deadline = Instant::now() + timeout;
        loop {
            match g.threads[tid] {
                TState::Parked(s) if !g.granted[tid] => return StepResult::Parked(s),
                TState::Finished => return StepResult::Finished,
                _ => {}
            }
            let now = Instant::now();
            if now >= deadline { return StepResult::Blocked; }
            self.cv.wait_for(&mut g, deadline - now);
        }
    }

    pub fn runnable(&self) -> Vec<usize> {
        self.inner.lock().threads.iter().enumerate().filter(|(_, s)| matches!(s, TState::Parked(_))).map(|(i, _)| i).collect()
    }

    pub fn all_finished(&self) -> bool {
        self.inner.lock().threads.iter().all(|s| *s == TState::Finished)
    }
}
