//! Shared machinery of the C04 (`sql_reopen`) and C42 (`sql_config`) engines: a database runner
//! with configuration + maintenance operations (close/reopen, drop/reopen, the three checkpoint
//! entry points), a DDL tracker (which tables / columns / indexes exist, derived from the SQL text
//! so that replay files are self-contained), the observation function (schema, full dump,
//! COUNT(*), a lookup through every index for every present value + an absent one), the history
//! generator, and the one-line case syntax.
#![allow(dead_code)]
use crate::common::*;
use crate::sqlgen::{cell_of, error_class};
use turdb::{Database, ExecuteResult};

// ---------------------------------------------------------------- configuration

#[derive(Clone, Debug, PartialEq)]
pub struct Cfg {
    pub wal: bool,
    /// None = leave the default (never touch the pragma)
    pub sync: Option<&'static str>,
    pub autoflush: Option<bool>,
    /// `PRAGMA wal_checkpoint_threshold = 1` (only meaningful with a WAL object)
    pub thr1: bool,
    /// number of extra tables (each with a secondary index) created up front; 0 = none
    pub extra: usize,
}

impl Cfg {
    pub const fn base() -> Cfg { Cfg { wal: false, sync: None, autoflush: None, thr1: false, extra: 0 } }
    pub fn text(&self) -> String {
        format!("wal={} sync={} autoflush={} thr={} extra={}",
            if self.wal { "on" } else { "off" },
            self.sync.unwrap_or("default").to_lowercase(),
            match self.autoflush { None => "default", Some(true) => "on", Some(false) => "off" },
            if self.thr1 { "1" } else { "default" },
            self.extra)
    }
    pub fn parse(s: &str) -> Option<Cfg> {
        let mut c = Cfg::base();
        for w in s.split_whitespace() {
            let (k, v) = w.split_once('=')?;
            match k {
                "wal" => c.wal = v == "on",
                "sync" => c.sync = match v { "off" => Some("OFF"), "normal" => Some("NORMAL"), "full" => Some("FULL"), "default" => None, _ => return None },
                "autoflush" => c.autoflush = match v { "on" => Some(true), "off" => Some(false), "default" => None, _ => return None },
                "thr" => c.thr1 = v == "1",
                "extra" => c.extra = v.parse().ok()?,
                _ => return None,
            }
        }
        Some(c)
    }
    /// the PRAGMA statements that establish this configuration on a fresh handle
    pub fn pragmas(&self) -> Vec<String> {
        let mut v = vec![];
        if self.wal { v.push("PRAGMA wal = ON".to_string()); }
        if let Some(s) = self.sync { v.push(format!("PRAGMA synchronous = {s}")); }
        if let Some(a) = self.autoflush { v.push(format!("PRAGMA wal_autoflush = {}", if a { "ON" } else { "OFF" })); }
        if self.thr1 { v.push("PRAGMA wal_checkpoint_threshold = 1".to_string()); }
        v
    }
}

// ---------------------------------------------------------------- results

#[derive(Clone, Debug, PartialEq)]
pub enum Res {
    Rows(Vec<String>, Vec<Vec<String>>),
    Aff(usize, Option<Vec<Vec<String>>>),
    Done(String),
    Err(String),
    Panic(String),
}

fn sorted_rows(r: &[Vec<String>]) -> String {
    let mut v: Vec<String> = r.iter().map(|x| x.join(",")).collect();
    v.sort();
    v.join(";")
}

impl Res {
    /// canonical form used to compare two runs of the same engine: rows as a sorted bag, errors by
    /// class (messages may contain the database path)
    pub fn canon(&self) -> String {
        match self {
            Res::Rows(c, r) => format!("rows[{}]:{}:{}", c.join(","), r.len(), sorted_rows(r)),
            Res::Aff(n, None) => format!("aff:{n}"),
            Res::Aff(n, Some(r)) => format!("aff:{n}:ret:{}", sorted_rows(r)),
            Res::Done(k) => format!("ok:{k}"),
            Res::Err(e) => format!("err:{}", error_class(e)),
            Res::Panic(_) => "panic".into(),
        }
    }
    pub fn class(&self) -> &'static str {
        match self { Res::Rows(..) => "rows", Res::Aff(..) => "affected", Res::Done(_) => "ok", Res::Err(_) => "err", Res::Panic(_) => "panic" }
    }
    pub fn short(&self) -> String {
        let s = match self { Res::Err(e) => format!("err:{e}"), Res::Panic(p) => format!("panic:{p}"), o => o.canon() };
        if s.len() > 300 { format!("{}…", &s[..s.char_indices().take_while(|(i, _)| *i < 300).last().map(|(i, _)| i).unwrap_or(0)]) } else { s }
    }
}

// ---------------------------------------------------------------- maintenance operations

#[derive(Clone, Copy, Debug, PartialEq, Eq)]
pub enum Maint {
    /// `Database::close()` then `Database::open`
    Close,
    /// drop the handle without `close()` then `Database::open`
    Drop,
    /// `Database::checkpoint()`
    Checkpoint,
    /// `Database::checkpoint_wal()`  (the same code path as PRAGMA wal_checkpoint, through the API)
    CkptWal,
    /// `PRAGMA wal_checkpoint`
    PragmaCkpt,
}

impl Maint {
    pub fn text(&self) -> &'static str {
        match self { Maint::Close => "@close", Maint::Drop => "@drop", Maint::Checkpoint => "@checkpoint", Maint::CkptWal => "@ckptwal", Maint::PragmaCkpt => "@pragma-checkpoint" }
    }
    pub fn parse(s: &str) -> Option<Maint> {
        Some(match s { "@close" => Maint::Close, "@drop" => Maint::Drop, "@checkpoint" => Maint::Checkpoint, "@ckptwal" => Maint::CkptWal, "@pragma-checkpoint" => Maint::PragmaCkpt, _ => return None })
    }
    /// the `<op>` component of a signature
    pub fn sig(&self) -> &'static str {
        match self { Maint::Close => "close", Maint::Drop => "drop", Maint::Checkpoint => "checkpoint", Maint::CkptWal => "api-checkpoint-wal", Maint::PragmaCkpt => "pragma-checkpoint" }
    }
    pub fn reopens(&self) -> bool { matches!(self, Maint::Close | Maint::Drop) }
}

#[derive(Clone, Debug, PartialEq)]
pub enum Item {
    Sql(String),
    Maint(Maint),
    /// touch extra tables (only executed in runs that have them): numbers of the tables
    Touch(Vec<usize>),
    /// a configuration PRAGMA executed in the variant run only (e.g. switching the WAL mid-history)
    VarSql(String),
    /// variant only: set the engine's process-global row-id counter back to the value it had
    /// before the last close/drop (hook `verif_set_next_row_id`).  `Database::open` restarts the
    /// counter at 1 (known finding `rowid`); restoring it lets a history continue past that defect
    /// with exactly the row ids of the baseline.
    Burn,
    /// `INSERT INTO <table> VALUES (start+i, i % 7, 'p' x len)` for i in 0..n – a bulk load that
    /// spans several pages, kept short in case files
    Bulk(String, i64, usize, usize),
}

pub fn bulk_sql(t: &str, start: i64, n: usize, len: usize) -> String {
    let rows: Vec<String> = (0..n).map(|i| format!("({}, {}, '{}')", start + i as i64, i % 7, "p".repeat(len + (i % 5) * 8))).collect();
    format!("INSERT INTO {t} VALUES {}", rows.join(", "))
}

impl Item {
    pub fn text(&self) -> String {
        match self { Item::Sql(s) => s.clone(), Item::VarSql(s) => format!("@var {s}"), Item::Burn => "@rowid-restore".to_string(), Item::Bulk(t, a, n, l) => format!("@bulk {t} {a} {n} {l}"), Item::Maint(m) => m.text().to_string(), Item::Touch(v) => format!("@touch {}", v.iter().map(|x| x.to_string()).collect::<Vec<_>>().join(" ")) }
    }
    pub fn parse(s: &str) -> Option<Item> {
        let s = s.trim();
        if let Some(r) = s.strip_prefix("@touch") {
            return Some(Item::Touch(r.split_whitespace().filter_map(|x| x.parse().ok()).collect()));
        }
        if s == "@rowid-restore" { return Some(Item::Burn); }
        if let Some(r) = s.strip_prefix("@bulk ") {
            let w: Vec<&str> = r.split_whitespace().collect();
            if w.len() != 4 { return None; }
            return Some(Item::Bulk(w[0].to_string(), w[1].parse().ok()?, w[2].parse().ok()?, w[3].parse().ok()?));
        }
        if let Some(r) = s.strip_prefix("@var ") { return Some(Item::VarSql(r.trim().to_string())); }
        if s.starts_with('@') { return Maint::parse(s).map(Item::Maint); }
        if s.is_empty() { return None; }
        Some(Item::Sql(s.to_string()))
    }
}

// ---------------------------------------------------------------- runner

pub struct Dbx {
    pub db: Option<Database>,
    pub dir: String,
    pub cfg: Cfg,
    /// expected `v` of row 1 of every extra table
    pub extra_v: Vec<i64>,
    pub opens: u32,
    /// `next_row_id` read just before the last close / drop
    pub saved_rowid: u64,
    /// row ids of the extra tables come from their own range (the engine's row-id counter is
    /// process-global; stale index entries left behind by UPDATE / ROLLBACK - defects of other
    /// properties - depend on row ids, so the history's own tables must get the same row ids with
    /// and without extra tables)
    pub extra_ctr: u64,
}

fn conv(r: Result<Result<ExecuteResult, String>, String>) -> Res {
    match r {
        Err(p) => Res::Panic(p),
        Ok(Err(e)) => Res::Err(e),
        Ok(Ok(r)) => match r {
            ExecuteResult::Select { columns, rows } => Res::Rows(columns, rows.iter().map(|r| r.values.iter().map(cell_of).collect()).collect()),
            ExecuteResult::Insert { rows_affected, returned } | ExecuteResult::Update { rows_affected, returned } | ExecuteResult::Delete { rows_affected, returned } =>
                Res::Aff(rows_affected, returned.map(|rs| rs.iter().map(|r| r.values.iter().map(cell_of).collect()).collect())),
            ExecuteResult::Truncate { rows_affected } => Res::Aff(rows_affected, None),
            ExecuteResult::Pragma { name, .. } => Res::Done(format!("pragma {}", name.to_lowercase())),
            other => Res::Done(format!("{other:?}").replace(' ', "")),
        },
    }
}

impl Dbx {
    pub fn create(ctx: &Ctx, tag: &str, cfg: &Cfg) -> Result<Dbx, String> {
        let dir = format!("{}/cfg-{}-{}", ctx.scratch, tag, std::process::id());
        let _ = std::fs::remove_dir_all(&dir);
        let d = dir.clone();
        let db = match guarded(move || Database::create(&d)) {
            Ok(Ok(db)) => db,
            Ok(Err(e)) => return Err(format!("create failed: {e:#}")),
            Err(p) => return Err(format!("create panicked: {p}")),
        };
        let mut x = Dbx { db: Some(db), dir, cfg: cfg.clone(), extra_v: vec![], opens: 0, saved_rowid: 1, extra_ctr: 1_000_000 };
        x.apply_cfg()?;
        Ok(x)
    }
    fn apply_cfg(&mut self) -> Result<(), String> {
        for p in self.cfg.pragmas() {
            match self.exec(&p) {
                Res::Err(e) => return Err(format!("{p}: {e}")),
                Res::Panic(e) => return Err(format!("{p}: panic {e}")),
                _ => {}
            }
        }
        Ok(())
    }
    pub fn exec(&self, sql: &str) -> Res {
        let Some(db) = self.db.as_ref() else { return Res::Err("no open handle".into()) };
        let s = sql.to_string();
        conv(guarded(std::panic::AssertUnwindSafe(move || db.execute(&s).map_err(|e| format!("{e:#}")))))
    }
    /// create the extra tables + indexes (file-handle pressure); one row each
    fn swap_in_extra_rowids(&mut self) -> u64 {
        let db = self.db.as_ref().unwrap();
        let saved = db.verif_next_row_id();
        db.verif_set_next_row_id(self.extra_ctr);
        saved
    }
    fn swap_out_extra_rowids(&mut self, saved: u64) {
        let db = self.db.as_ref().unwrap();
        self.extra_ctr = db.verif_next_row_id();
        db.verif_set_next_row_id(saved);
    }
    pub fn make_extras(&mut self) -> Result<(), String> {
        if self.cfg.extra == 0 { return Ok(()); }
        let saved = self.swap_in_extra_rowids();
        let r = self.make_extras_inner();
        self.swap_out_extra_rowids(saved);
        r
    }
    fn make_extras_inner(&mut self) -> Result<(), String> {
        for i in 0..self.cfg.extra {
            for sql in [format!("CREATE TABLE x{i:02} (id INT PRIMARY KEY, v INT)"), format!("CREATE INDEX xi{i:02} ON x{i:02} (v)"), format!("INSERT INTO x{i:02} VALUES (1, {})", 1000 + i)] {
                match self.exec(&sql) {
                    Res::Err(e) => return Err(format!("{sql}: {e}")),
                    Res::Panic(e) => return Err(format!("{sql}: panic {e}")),
                    _ => {}
                }
            }
            self.extra_v.push(1);
        }
        Ok(())
    }
    /// add a row to extra tables and read them back through the secondary index and by a scan;
    /// returns a description of the first wrong answer.  `extra_v[i]` = number of rows of table i.
    /// (rows are INSERTed, never UPDATEd: the engine does not maintain a secondary index when the
    /// indexed column is updated - another property's defect)
    pub fn touch(&mut self, which: &[usize]) -> Option<String> {
        if self.extra_v.is_empty() { return None; }
        let saved = self.swap_in_extra_rowids();
        let r = self.touch_inner(which);
        self.swap_out_extra_rowids(saved);
        r
    }
    fn touch_inner(&mut self, which: &[usize]) -> Option<String> {
        for &i in which {
            if i >= self.extra_v.len() { continue; }
            let n = self.extra_v[i] + 1;
            let val = 1000 * n + i as i64;
            let u = self.exec(&format!("INSERT INTO x{i:02} VALUES ({n}, {val})"));
            if u.canon() != "aff:1" { return Some(format!("x{i:02}: insert of row {n} -> {}", u.short())); }
            self.extra_v[i] = n;
            if let Some(d) = self.check_extra(i) { return Some(d); }
        }
        None
    }
    fn check_extra(&self, i: usize) -> Option<String> {
        let n = self.extra_v[i];
        let val = 1000 * n + i as i64;
        let a = self.exec(&format!("SELECT id, v FROM x{i:02} WHERE v = {val}"));
        let want = format!("rows[id,v]:1:I{n},I{val}");
        if a.canon() != want { return Some(format!("x{i:02}: lookup through index xi{i:02} for v={val} -> {} (expected {want})", a.short())); }
        let b = self.exec(&format!("SELECT id, v FROM x{i:02} WHERE id >= 0"));
        let rows: Vec<String> = (1..=n).map(|j| format!("I{j},I{}", 1000 * j + i as i64)).collect();
        let mut rows = rows; rows.sort();
        let wantb = format!("rows[id,v]:{n}:{}", rows.join(";"));
        if b.canon() != wantb { return Some(format!("x{i:02}: scan -> {} (expected {})", b.short(), clip(&wantb))); }
        None
    }
    /// check every extra table
    pub fn check_extras(&mut self) -> Option<String> {
        for i in 0..self.extra_v.len() { if let Some(d) = self.check_extra(i) { return Some(d); } }
        None
    }
    fn open(&mut self) -> Result<(), String> {
        let d = self.dir.clone();
        match guarded(move || Database::open(&d)) {
            Ok(Ok(db)) => { self.db = Some(db); self.opens += 1; }
            Ok(Err(e)) => return Err(format!("open failed: {e:#}")),
            Err(p) => return Err(format!("open panicked: {p}")),
        }
        // configuration is per handle: re-establish it
        self.apply_cfg()
    }
    pub fn restore_rowid(&self) {
        if let Some(db) = self.db.as_ref() { db.verif_set_next_row_id(self.saved_rowid.max(db.verif_next_row_id())); }
    }
    pub fn maint(&mut self, m: Maint) -> Result<(), String> {
        // the largest counter value ever seen before a close/drop (an earlier, uncompensated restart
        // makes the current value too small)
        if m.reopens() { if let Some(db) = self.db.as_ref() { self.saved_rowid = self.saved_rowid.max(db.verif_next_row_id()); } }
        match m {
            Maint::Close => {
                if let Some(db) = self.db.take() {
                    match guarded(std::panic::AssertUnwindSafe(move || { let r = db.close().map(|_| ()).map_err(|e| format!("{e:#}")); drop(db); r })) {
                        Ok(Ok(())) => {}
                        Ok(Err(e)) => { let _ = self.open(); return Err(format!("close failed: {e}")); }
                        Err(p) => { let _ = self.open(); return Err(format!("close panicked: {p}")); }
                    }
                }
                self.open()
            }
            Maint::Drop => {
                if let Some(db) = self.db.take() {
                    if let Err(p) = guarded(std::panic::AssertUnwindSafe(move || drop(db))) { let _ = self.open(); return Err(format!("drop panicked: {p}")); }
                }
                self.open()
            }
            Maint::Checkpoint => {
                let db = self.db.as_ref().ok_or("no handle")?;
                match guarded(std::panic::AssertUnwindSafe(move || db.checkpoint().map(|_| ()).map_err(|e| format!("{e:#}")))) {
                    Ok(Ok(())) => Ok(()),
                    Ok(Err(e)) => Err(format!("checkpoint failed: {e}")),
                    Err(p) => Err(format!("checkpoint panicked: {p}")),
                }
            }
            Maint::CkptWal => {
                let db = self.db.as_ref().ok_or("no handle")?;
                match guarded(std::panic::AssertUnwindSafe(move || db.checkpoint_wal().map(|_| ()).map_err(|e| format!("{e:#}")))) {
                    Ok(Ok(())) => Ok(()),
                    Ok(Err(e)) => Err(format!("checkpoint_wal failed: {e}")),
                    Err(p) => Err(format!("checkpoint_wal panicked: {p}")),
                }
            }
            Maint::PragmaCkpt => match self.exec("PRAGMA wal_checkpoint") {
                Res::Err(e) => Err(format!("PRAGMA wal_checkpoint failed: {e}")),
                Res::Panic(p) => Err(format!("PRAGMA wal_checkpoint panicked: {p}")),
                _ => Ok(()),
            },
        }
    }
}

impl Drop for Dbx {
    fn drop(&mut self) {
        if let Some(db) = self.db.take() {
            let _ = guarded(std::panic::AssertUnwindSafe(move || drop(db)));
        }
        let _ = std::fs::remove_dir_all(&self.dir);
    }
}

// ---------------------------------------------------------------- DDL tracker

#[derive(Clone, Debug, PartialEq)]
pub struct TabInfo {
    pub name: String,
    pub cols: Vec<String>,
    /// columns with a lookup structure: the primary key and every indexed column (index name or "pk")
    pub idx: Vec<(String, String)>,
    pub autoinc: Option<String>,
}

fn ident(s: &str) -> String { s.trim().trim_matches(|c| c == '(' || c == ')' || c == ',').to_string() }

/// update the table list from one (successfully executed) statement of the generator's dialect
pub fn track_ddl(sql: &str, tabs: &mut Vec<TabInfo>) {
    let u = sql.trim().to_uppercase();
    let words: Vec<&str> = sql.split_whitespace().collect();
    if u.starts_with("CREATE TABLE") {
        let name = ident(words[2]);
        let Some(lp) = sql.find('(') else { return };
        let Some(rp) = sql.rfind(')') else { return };
        let mut t = TabInfo { name, cols: vec![], idx: vec![], autoinc: None };
        for def in sql[lp + 1..rp].split(',') {
            let w: Vec<&str> = def.split_whitespace().collect();
            if w.is_empty() { continue; }
            let c = w[0].to_string();
            let du = def.to_uppercase();
            if du.contains("PRIMARY KEY") { t.idx.push(("pk".into(), c.clone())); }
            else if du.contains("UNIQUE") { t.idx.push(("unique".into(), c.clone())); }
            if du.contains("AUTO_INCREMENT") { t.autoinc = Some(c.clone()); }
            t.cols.push(c);
        }
        tabs.retain(|x| x.name != t.name);
        tabs.push(t);
    } else if u.starts_with("CREATE INDEX") || u.starts_with("CREATE UNIQUE INDEX") {
        let off = if u.starts_with("CREATE UNIQUE") { 1 } else { 0 };
        if words.len() < 6 + off { return; }
        let iname = ident(words[2 + off]);
        let tname = ident(words[4 + off]);
        let col = ident(words[5 + off]);
        if let Some(t) = tabs.iter_mut().find(|t| t.name == tname) { t.idx.push((iname, col)); }
    } else if u.starts_with("DROP INDEX") {
        let iname = ident(words.last().unwrap());
        for t in tabs.iter_mut() { t.idx.retain(|(n, _)| *n != iname); }
    } else if u.starts_with("DROP TABLE") {
        let tname = ident(words.last().unwrap());
        tabs.retain(|t| t.name != tname);
    } else if u.starts_with("ALTER TABLE") && words.len() >= 6 {
        let tname = ident(words[2]);
        if let Some(t) = tabs.iter_mut().find(|t| t.name == tname) {
            let a = words[3].to_uppercase();
            if a == "ADD" { t.cols.push(ident(words[5])); }
            else if a == "DROP" { let c = ident(words[5]); t.cols.retain(|x| *x != c); t.idx.retain(|(_, x)| *x != c); }
            else if a == "RENAME" && words.len() >= 8 { let (o, n) = (ident(words[5]), ident(words[7])); for c in t.cols.iter_mut() { if *c == o { *c = n.clone(); } } for (_, c) in t.idx.iter_mut() { if *c == o { *c = n.clone(); } } }
        }
    }
}

// ---------------------------------------------------------------- observation

#[derive(Clone, Debug, PartialEq)]
pub struct TabObs {
    pub name: String,
    pub schema: String,
    pub rows: String,
    pub raw_rows: Vec<Vec<String>>,
    pub count: String,
}

pub fn dump(db: &Dbx, t: &TabInfo) -> TabObs {
    let r = db.exec(&format!("SELECT * FROM {}", t.name));
    let (schema, rows, raw) = match &r {
        Res::Rows(c, rows) => (c.join(","), format!("{}:{}", rows.len(), sorted_rows(rows)), rows.clone()),
        o => (o.canon(), o.canon(), vec![]),
    };
    let count = match db.exec(&format!("SELECT COUNT(*) FROM {}", t.name)) {
        Res::Rows(_, rows) => sorted_rows(&rows),
        o => o.canon(),
    };
    TabObs { name: t.name.clone(), schema, rows, raw_rows: raw, count }
}

pub fn lit_of_cell(c: &str) -> Option<String> {
    match c.as_bytes().first()? {
        b'I' => Some(c[1..].to_string()),
        b'T' => String::from_utf8(unhex(&c[1..])).ok().map(|s| format!("'{}'", s.replace('\'', "''"))),
        _ => None,
    }
}

/// the index probes for a table, derived from a dump: every distinct non-NULL value of each
/// indexed column (at most `cap`) plus a value that is not present
pub fn probes(t: &TabInfo, obs: &TabObs, cap: usize) -> Vec<String> {
    let mut v = vec![];
    for (_, col) in &t.idx {
        let Some(ci) = t.cols.iter().position(|c| c == col) else { continue };
        let mut seen: Vec<String> = vec![];
        for r in &obs.raw_rows {
            if let Some(c) = r.get(ci) {
                if let Some(l) = lit_of_cell(c) { if !seen.contains(&l) { seen.push(l); } }
            }
        }
        seen.sort();
        // spread over the value range when there are more values than the cap
        let n = seen.len();
        let picks: Vec<String> = if n <= cap { seen } else { (0..cap).map(|i| seen[i * (n - 1) / (cap - 1)].clone()).collect() };
        for l in picks { v.push(format!("SELECT * FROM {} WHERE {} = {}", t.name, col, l)); }
        v.push(format!("SELECT * FROM {} WHERE {} = 987654", t.name, col));
    }
    v
}

/// first difference between two databases over the tracked tables: (what, table, detail)
pub fn compare(base: &Dbx, var: &Dbx, tabs: &[TabInfo], probe_cap: usize) -> Option<(&'static str, String)> {
    for t in tabs {
        let a = dump(base, t);
        let b = dump(var, t);
        if a.schema != b.schema { return Some(("schema", format!("table {}: columns {} vs {}", t.name, a.schema, b.schema))); }
        if a.rows != b.rows { return Some(("rows", format!("table {}: SELECT * gives {} vs {}", t.name, clip(&a.rows), clip(&b.rows)))); }
        if a.count != b.count { return Some(("count", format!("table {}: COUNT(*) {} vs {} ({} rows visible)", t.name, a.count, b.count, a.raw_rows.len()))); }
        for q in probes(t, &a, probe_cap) {
            let x = base.exec(&q).canon();
            let y = var.exec(&q).canon();
            if x != y { return Some(("index", format!("{q}: {} vs {}", clip(&x), clip(&y)))); }
        }
    }
    None
}

pub fn clip(s: &str) -> String {
    if s.len() <= 400 { return s.to_string(); }
    let mut end = 400;
    while !s.is_char_boundary(end) { end -= 1; }
    format!("{}…({} bytes)", &s[..end], s.len())
}

/// AUTO_INCREMENT observation (destructive, run at the end of a history): insert one row without
/// the key into every auto-increment table of both databases and compare the dumps
pub fn autoinc_probe(base: &Dbx, var: &Dbx, tabs: &[TabInfo]) -> Option<String> {
    for t in tabs {
        let Some(ac) = &t.autoinc else { continue };
        let others: Vec<&String> = t.cols.iter().filter(|c| *c != ac).collect();
        if others.is_empty() { continue; }
        let sql = format!("INSERT INTO {} ({}) VALUES ({})", t.name, others[0], 424242);
        let x = base.exec(&sql).canon();
        let y = var.exec(&sql).canon();
        let a = dump(base, t);
        let b = dump(var, t);
        if x != y || a.rows != b.rows {
            return Some(format!("table {}: after `{sql}` ({x} vs {y}) rows {} vs {}", t.name, clip(&a.rows), clip(&b.rows)));
        }
    }
    None
}

// ---------------------------------------------------------------- history generator

const WORDS: &[&str] = &["", "a", "ab", "b", "zz", "q'q", "é", "mid", "xyz"];

pub struct HistGen {
    pub a_ids: Vec<i64>,
    pub next_a: i64,
    pub b_ks: Vec<i64>,
    pub in_txn: bool,
    pub sp: bool,
    pub have_ia: bool,
    pub have_ib: bool,
    pub have_c: bool,
    pub have_z: bool,
    pub big: bool,
}

pub struct GStmt { pub sql: String, pub in_txn: bool }
impl GStmt { pub fn item(&self) -> Item { Item::parse(&self.sql).unwrap_or(Item::Sql(self.sql.clone())) } }

impl HistGen {
    pub fn new() -> HistGen { HistGen { a_ids: vec![], next_a: 1, b_ks: vec![], in_txn: false, sp: false, have_ia: false, have_ib: false, have_c: false, have_z: false, big: false } }
    fn word(rng: &mut Rng) -> String {
        if rng.chance(1, 12) { let n = *rng.pick(&[40usize, 300, 1200]); return "w".repeat(n); }
        rng.pick(WORDS).to_string()
    }
    fn q(s: &str) -> String { format!("'{}'", s.replace('\'', "''")) }
    pub fn prelude(&mut self, rng: &mut Rng) -> Vec<String> {
        let mut v = vec![
            "CREATE TABLE a (id INT PRIMARY KEY AUTO_INCREMENT, x INT, s TEXT)".to_string(),
            "CREATE TABLE b (k INT, y INT, s TEXT)".to_string(),
        ];
        if rng.chance(1, 2) { v.push("CREATE INDEX ia ON a (x)".into()); self.have_ia = true; }
        if rng.chance(1, 3) { v.push("CREATE INDEX ib ON b (y)".into()); self.have_ib = true; }
        v
    }
    fn a_row(&mut self, rng: &mut Rng, explicit: bool) -> String {
        let x = rng.range(0, 9);
        let s = Self::q(&Self::word(rng));
        if explicit {
            let id = self.next_a + rng.range(0, 3);
            self.next_a = id + 1;
            self.a_ids.push(id);
            format!("({id}, {x}, {s})")
        } else {
            self.a_ids.push(self.next_a);
            self.next_a += 1;
            format!("({x}, {s})")
        }
    }
    pub fn next(&mut self, rng: &mut Rng) -> String {
        let r = rng.below(100);
        match r {
            0..=17 => {
                let explicit = rng.chance(1, 3);
                let n = if rng.chance(1, 3) { 2 + rng.below(3) } else { 1 };
                let rows: Vec<String> = (0..n).map(|_| self.a_row(rng, explicit)).collect();
                if explicit { format!("INSERT INTO a VALUES {}", rows.join(", ")) } else { format!("INSERT INTO a (x, s) VALUES {}", rows.join(", ")) }
            }
            18..=33 => {
                let n = if rng.chance(1, 3) { 2 + rng.below(3) } else { 1 };
                let rows: Vec<String> = (0..n).map(|_| { let k = rng.range(1, 40); self.b_ks.push(k); format!("({k}, {}, {})", rng.range(0, 6), Self::q(&Self::word(rng))) }).collect();
                format!("INSERT INTO b VALUES {}", rows.join(", "))
            }
            34..=36 if !self.big && !self.in_txn => {
                // bulk load: enough rows and bytes for several pages / a B-tree split.  Never inside
                // a transaction, and once a table spans several pages the history has no ROLLBACK any
                // more: undo after a root split is broken in the engine (C07: the undo log addresses
                // page 1), the corrupted tree then reads differently before and after a reopen.
                self.big = true;
                format!("@bulk b 100 {} {}", 30 + rng.below(50), *rng.pick(&[100usize, 400, 900]))
            }
            34..=45 => {
                let id = if self.a_ids.is_empty() { 1 } else { *rng.pick(&self.a_ids) };
                // the engine does not maintain a secondary index when the indexed column is updated
                // (C05/C10 territory): x is only updated while there is no index on it
                match if self.have_ia { 1 } else { rng.below(4) } {
                    0 => format!("UPDATE a SET x = x + 1 WHERE id <= {id}"),
                    1 => if rng.chance(1, 2) { format!("UPDATE a SET s = {} WHERE id = {id}", Self::q(&Self::word(rng))) } else { format!("UPDATE a SET s = {} WHERE id >= {id}", Self::q(&Self::word(rng))) },
                    2 => format!("UPDATE a SET x = {} WHERE x = {}", rng.range(0, 9), rng.range(0, 9)),
                    _ => format!("UPDATE a SET x = {}, s = {} WHERE id >= {id}", rng.range(0, 9), Self::q(&Self::word(rng))),
                }
            }
            46..=55 => {
                let k = if self.b_ks.is_empty() { 1 } else { *rng.pick(&self.b_ks) };
                match if self.have_ib { 1 } else { rng.below(3) } {
                    0 => format!("UPDATE b SET y = y + 1 WHERE k = {k}"),
                    1 => format!("UPDATE b SET s = {} WHERE k >= {k}", Self::q(&Self::word(rng))),
                    _ => format!("UPDATE b SET y = {} WHERE y = {}", rng.range(0, 6), rng.range(0, 6)),
                }
            }
            56..=62 => {
                let id = if self.a_ids.is_empty() { 1 } else { *rng.pick(&self.a_ids) };
                if rng.chance(1, 2) { self.a_ids.retain(|x| *x != id); format!("DELETE FROM a WHERE id = {id}") } else { format!("DELETE FROM a WHERE x = {}", rng.range(0, 9)) }
            }
            63..=68 => {
                let k = if self.b_ks.is_empty() { 1 } else { *rng.pick(&self.b_ks) };
                if rng.chance(1, 2) { format!("DELETE FROM b WHERE k = {k}") } else { format!("DELETE FROM b WHERE y = {}", rng.range(0, 6)) }
            }
            69..=76 => {
                if !self.in_txn { self.in_txn = true; self.sp = false; "BEGIN".into() }
                else if self.big || rng.chance(2, 3) { self.in_txn = false; "COMMIT".into() }
                else { self.in_txn = false; "ROLLBACK".into() }
            }
            77..=79 if self.in_txn => {
                if !self.sp { self.sp = true; "SAVEPOINT sp1".into() } else if self.big { self.sp = false; "RELEASE SAVEPOINT sp1".into() } else { self.sp = false; "ROLLBACK TO SAVEPOINT sp1".into() }
            }
            80..=82 if !self.in_txn => {
                if !self.have_ia { self.have_ia = true; "CREATE INDEX ia ON a (x)".into() } else { self.have_ia = false; "DROP INDEX ia".into() }
            }
            83..=85 if !self.in_txn => {
                if !self.have_ib { self.have_ib = true; "CREATE INDEX ib ON b (y)".into() } else { self.have_ib = false; "DROP INDEX ib".into() }
            }
            86..=89 if !self.in_txn => {
                if !self.have_c { self.have_c = true; "CREATE TABLE c (id INT PRIMARY KEY, t TEXT UNIQUE, n INT)".into() }
                else if rng.chance(1, 4) { self.have_c = false; "DROP TABLE c".into() }
                else { let id = rng.range(1, 30); format!("INSERT INTO c VALUES ({id}, 't{id}', {})", rng.range(0, 5)) }
            }
            90..=91 if !self.in_txn && !self.have_z => { self.have_z = true; "ALTER TABLE b ADD COLUMN z INT".into() }
            _ => {
                // a read: results of the statements themselves are compared too
                match rng.below(3) {
                    0 => format!("SELECT id, x, s FROM a WHERE x = {}", rng.range(0, 9)),
                    1 => "SELECT COUNT(*) FROM b".into(),
                    _ => format!("SELECT k, y FROM b WHERE y >= {}", rng.range(0, 6)),
                }
            }
        }
    }
    pub fn history(rng: &mut Rng, len: usize) -> Vec<GStmt> {
        let mut g = HistGen::new();
        let mut v: Vec<GStmt> = g.prelude(rng).into_iter().map(|sql| GStmt { sql, in_txn: false }).collect();
        for _ in 0..len {
            let sql = g.next(rng);
            v.push(GStmt { sql, in_txn: g.in_txn });
        }
        if g.in_txn { v.push(GStmt { sql: if g.big || rng.chance(1, 2) { "COMMIT".into() } else { "ROLLBACK".into() }, in_txn: false }); }
        v
    }
}

/// is a transaction open after executing `items[..=i]`? (by statement text)
pub fn txn_open_after(items: &[Item]) -> Vec<bool> {
    let mut open = false;
    items.iter().map(|it| {
        if let Item::Sql(s) = it {
            let u = s.trim().to_uppercase();
            if u == "BEGIN" { open = true; } else if u == "COMMIT" || u == "ROLLBACK" { open = false; }
        }
        if let Item::Maint(m) = it { if m.reopens() { open = false; } }
        open
    }).collect()
}

pub fn case_line(head: &str, items: &[Item]) -> String {
    let mut s = head.to_string();
    for it in items { s.push_str(" ;; "); s.push_str(&it.text()); }
    s
}

pub fn parse_case(line: &str) -> Option<(String, Vec<Item>)> {
    let mut it = line.split(" ;; ");
    let head = it.next()?.trim().to_string();
    let mut v = vec![];
    for p in it { v.push(Item::parse(p)?); }
    Some((head, v))
}

// ---------------------------------------------------------------- lock-step pair runner

#[derive(Clone, Debug)]
pub struct Diff {
    /// rows | count | index | schema | autoinc | open-error | error | result | extra-files
    pub what: &'static str,
    pub detail: String,
    /// the most recent maintenance operation executed in the variant before the difference showed
    /// ("auto-checkpoint" = a COMMIT with WAL on and threshold 1; "wal-switch" = a variant-only PRAGMA)
    pub last_op: Option<&'static str>,
    /// was a transaction open when that operation ran
    pub op_in_txn: bool,
    pub step: usize,
    /// root-cause qualifiers from a finite set: `rowid` (the difference shows after a reopen whose
    /// row-id restart was not compensated), `after-truncate` (the differing table was TRUNCATEd
    /// earlier in the history), `recreated` (the differing table was dropped and created again
    /// earlier and the variant has been reopened since), `wal-switched` (the variant switched the
    /// WAL on/off mid-history)
    pub qual: Vec<&'static str>,
}

impl Diff {
    pub fn quals(&self) -> String { self.qual.iter().map(|q| format!(":{q}")).collect::<String>() }
}

pub struct PairStats { pub steps: u64, pub maint: u64, pub reopen: u64 }

/// Execute `items` on a baseline database (configuration `cb`; maintenance / variant-only items
/// skipped) and on a variant database (configuration `cv`, every item) in lock-step, comparing the
/// statement results and the full observation after every item.  Returns the first difference.
pub fn run_pair(ctx: &Ctx, tag: &str, cb: &Cfg, cv: &Cfg, items: &[Item], probe_cap: usize, stats: &mut PairStats) -> Result<Option<Diff>, String> {
    let mut base = Dbx::create(ctx, &format!("{tag}b"), cb)?;
    let mut var = Dbx::create(ctx, &format!("{tag}v"), cv)?;
    base.make_extras()?;
    var.make_extras()?;
    let mut tabs: Vec<TabInfo> = vec![];
    let mut last_op: Option<&'static str> = None;
    let mut op_in_txn = false;
    let mut in_txn = false;
    let mut var_wal = cv.wal;
    let mut ctr: usize = 0;
    let mk = |what: &'static str, detail: String, last_op: Option<&'static str>, op_in_txn: bool, step: usize| Diff { what, detail, last_op, op_in_txn, step, qual: vec![] };
    // the reopen operation whose row-id restart has not been compensated by a burn (if any)
    let mut unburned: Option<&'static str> = None;
    let mut truncated: Vec<String> = vec![];
    // tables dropped earlier in the history / dropped and created again
    let mut dropped: Vec<String> = vec![];
    let mut recreated: Vec<String> = vec![];
    let names = |s: &str| -> Vec<String> { s.split(|c: char| !c.is_alphanumeric() && c != '_').map(|x| x.to_string()).collect() };
    let mut switched = false;
    let expanded: Vec<Item> = items.iter().map(|it| match it { Item::Bulk(t, a, n, l) => Item::Sql(bulk_sql(t, *a, *n, *l)), o => o.clone() }).collect();
    for (i, it) in expanded.iter().enumerate() {
        stats.steps += 1;
        match it {
            Item::Bulk(..) => {}
            Item::Sql(s) => {
                let u = s.trim().to_uppercase();
                let rb = base.exec(s);
                let rv = var.exec(s);
                if u == "BEGIN" { in_txn = true; }
                if u == "COMMIT" || u == "ROLLBACK" {
                    if u == "COMMIT" && var_wal && cv.thr1 && in_txn { last_op = Some("auto-checkpoint"); op_in_txn = false; stats.maint += 1; }
                    in_txn = false;
                }
                if !matches!(rb, Res::Err(_) | Res::Panic(_)) { track_ddl(s, &mut tabs); }
                if u.starts_with("INSERT") { ctr += s.matches("), (").count() + 1; }
                if u.starts_with("TRUNCATE") { if let Some(t) = s.split_whitespace().last() { truncated.push(t.to_string()); } }
                if u.starts_with("DROP TABLE") && !matches!(rb, Res::Err(_)) { if let Some(t) = s.split_whitespace().last() { dropped.push(t.to_string()); } }
                if u.starts_with("CREATE TABLE") { if let Some(t) = s.split_whitespace().nth(2) { if dropped.iter().any(|d| d == t) { recreated.push(t.to_string()); } } }
                if !u.starts_with("PRAGMA") && rb.canon() != rv.canon() {
                    if let (Some(op), Res::Err(e)) = (unburned, &rv) {
                        if e.contains("key already exists") && u.starts_with("INSERT") && !matches!(rb, Res::Err(_)) {
                            let mut d = mk("result", format!("step {i} `{}`: {} vs {}", clip(s), rb.short(), rv.short()), Some(op), false, i);
                            d.qual.push("rowid");
                            return Ok(Some(d));
                        }
                    }
                    let mut d = mk("result", format!("step {i} `{}`: {} vs {}", clip(s), rb.short(), rv.short()), last_op, op_in_txn, i);
                    // any divergence after an uncompensated row-id restart is attributed to it (row
                    // ids are silently reused: e.g. index entries of deleted rows point to new rows)
                    if recreated.iter().any(|t| names(s).contains(t)) && var.opens > 0 { d.qual.push("recreated"); }
                    else if let Some(op) = unburned { d.last_op = Some(op); d.op_in_txn = false; d.qual.push("rowid"); }
                    if switched { d.qual.push("wal-switched"); }
                    return Ok(Some(d));
                }
            }
            Item::VarSql(s) => {
                let r = var.exec(s);
                if let Res::Err(e) | Res::Panic(e) = &r { return Ok(Some(mk("error", format!("step {i} `{s}`: {e}"), last_op, op_in_txn, i))); }
                let u = s.to_uppercase().replace(' ', "");
                if u.starts_with("PRAGMAWAL=") { var_wal = u.ends_with("ON"); switched = true; }
            }
            Item::Maint(m) => {
                stats.maint += 1;
                if m.reopens() { stats.reopen += 1; }
                last_op = Some(m.sig());
                op_in_txn = in_txn;
                if let Err(e) = var.maint(*m) {
                    return Ok(Some(mk(if m.reopens() { "open-error" } else { "error" }, format!("step {i} {}: {e}", m.text()), last_op, op_in_txn, i)));
                }
                if m.reopens() { in_txn = false; var_wal = cv.wal; if ctr > 0 { unburned = Some(m.sig()); } }
            }
            Item::Burn => { unburned = None; var.restore_rowid(); }
            Item::Touch(v) => {
                if let Some(d) = var.touch(v) { return Ok(Some(mk("extra-files", format!("step {i}: {d}"), last_op, op_in_txn, i))); }
                if let Some(d) = base.touch(v) { return Err(format!("baseline extra table wrong: {d}")); }
            }
        }
        // observe: after a statement the tables it names (every table after DDL / transaction
        // control / maintenance and at the end); nothing after variant-only configuration items
        let scope: Vec<TabInfo> = match it {
            Item::Sql(s) => {
                let u = s.trim().to_uppercase();
                if u.starts_with("INSERT") || u.starts_with("UPDATE") || u.starts_with("DELETE") || u.starts_with("SELECT") {
                    let w: Vec<String> = s.split(|c: char| !c.is_alphanumeric() && c != '_').map(|x| x.to_string()).collect();
                    tabs.iter().filter(|t| w.contains(&t.name)).cloned().collect()
                } else { tabs.clone() }
            }
            Item::Maint(_) => tabs.clone(),
            Item::Touch(_) | Item::VarSql(_) | Item::Burn | Item::Bulk(..) => vec![],
        };
        let scope = if i + 1 == items.len() { tabs.clone() } else { scope };
        if let Some((what, detail)) = compare(&base, &var, &scope, probe_cap) {
            let mut d = mk(what, format!("after step {i} `{}`: {detail}", clip(&items[i].text())), last_op, op_in_txn, i);
            if recreated.iter().any(|t| detail.contains(&format!("table {t}:")) || detail.contains(&format!("FROM {t} "))) && var.opens > 0 { d.qual.push("recreated"); }
            else if unburned.is_some() && !matches!(it, Item::Maint(_)) { d.last_op = unburned; d.op_in_txn = false; d.qual.push("rowid"); }
            else if truncated.iter().any(|t| detail.contains(&format!("table {t}:")) || detail.contains(&format!("FROM {t} "))) { d.qual.push("after-truncate"); }
            if switched { d.qual.push("wal-switched"); }
            return Ok(Some(d));
        }
    }
    if let Some(d) = var.check_extras() { return Ok(Some(mk("extra-files", format!("at end: {d}"), last_op, op_in_txn, items.len()))); }
    if let Some(d) = autoinc_probe(&base, &var, &tabs) {
        if let Some(op) = unburned {
            if d.contains("vs err:other") { let mut x = mk("autoinc", d, Some(op), false, items.len()); x.qual.push("rowid"); return Ok(Some(x)); }
        }
        let mut x = mk("autoinc", d, last_op, op_in_txn, items.len());
        if switched { x.qual.push("wal-switched"); }
        return Ok(Some(x));
    }
    Ok(None)
}
