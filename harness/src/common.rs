//! Shared plumbing for all engines: PRNG, model child process, report.
use std::collections::{BTreeMap, HashSet};
use std::io::{BufRead, BufReader, Write};
use std::process::{Command, Stdio};

#[derive(Clone)]
pub struct Rng(pub u64);
impl Rng {
    pub fn new(seed: u64) -> Self {
        Rng(seed ^ 0x9E37_79B9_7F4A_7C15)
    }
    pub fn next(&mut self) -> u64 {
        self.0 = self.0.wrapping_add(0x9E37_79B9_7F4A_7C15);
        let mut z = self.0;
        z = (z ^ (z >> 30)).wrapping_mul(0xBF58_476D_1CE4_E5B9);
        z = (z ^ (z >> 27)).wrapping_mul(0x94D0_49BB_1331_11EB);
        z ^ (z >> 31)
    }
    pub fn below(&mut self, n: u64) -> u64 {
        if n == 0 {
            0
        } else {
            self.next() % n
        }
    }
    pub fn range(&mut self, lo: i64, hi: i64) -> i64 {
        lo + self.below((hi - lo + 1) as u64) as i64
    }
    pub fn chance(&mut self, num: u64, den: u64) -> bool {
        self.below(den) < num
    }
    pub fn pick<'a, T>(&mut self, xs: &'a [T]) -> &'a T {
        &xs[self.below(xs.len() as u64) as usize]
    }
    pub fn fork(&mut self) -> Rng {
        Rng(self.next())
    }
    pub fn bytes(&mut self, n: usize) -> Vec<u8> {
        (0..n).map(|_| self.next() as u8).collect()
    }
}

pub fn hex(b: &[u8]) -> String {
    if b.is_empty() {
        return "-".to_string();
    }
    let mut s = String::with_capacity(b.len() * 2);
    for x in b {
        s.push_str(&format!("{:02x}", x));
    }
    s
}
pub fn unhex(s: &str) -> Vec<u8> {
    if s == "-" {
        return vec![];
    }
    (0..s.len() / 2)
        .map(|i| u8::from_str_radix(&s[2 * i..2 * i + 2], 16).unwrap())
        .collect()
}

pub fn fnv(s: &str) -> u64 {
    let mut h: u64 = 0xcbf29ce484222325;
    for b in s.as_bytes() {
        h ^= *b as u64;
        h = h.wrapping_mul(0x100000001b3);
    }
    h
}

/// Run the Lean model driver on a batch of request lines; returns one response per request.
pub fn model_batch(model_bin: &str, family: &str, reqs: &[String]) -> Vec<String> {
    let mut child = Command::new(model_bin)
        .arg(family)
        .stdin(Stdio::piped())
        .stdout(Stdio::piped())
        .spawn()
        .unwrap_or_else(|e| panic!("cannot start model driver {model_bin}: {e}"));
    let mut stdin = child.stdin.take().unwrap();
    let data: String = reqs.iter().map(|l| format!("{l}\n")).collect();
    let w = std::thread::spawn(move || {
        let _ = stdin.write_all(data.as_bytes());
    });
    let out = BufReader::new(child.stdout.take().unwrap());
    let res: Vec<String> = out.lines().map(|l| l.unwrap()).collect();
    w.join().unwrap();
    let _ = child.wait();
    if res.len() != reqs.len() {
        panic!(
            "model driver returned {} lines for {} requests (family {family})",
            res.len(),
            reqs.len()
        );
    }
    res
}

/// Persistent model driver process for interactive request/response use.
pub struct Model {
    child: std::process::Child,
    stdin: std::process::ChildStdin,
    stdout: BufReader<std::process::ChildStdout>,
    pub requests: u64,
}

impl Model {
    pub fn spawn(model_bin: &str, family: &str) -> Model {
        let mut child = Command::new(model_bin)
            .arg(family)
            .stdin(Stdio::piped())
            .stdout(Stdio::piped())
            .spawn()
            .unwrap_or_else(|e| panic!("cannot start model driver {model_bin}: {e}"));
        let stdin = child.stdin.take().unwrap();
        let stdout = BufReader::new(child.stdout.take().unwrap());
        Model { child, stdin, stdout, requests: 0 }
    }
    pub fn ask(&mut self, line: &str) -> String {
        self.requests += 1;
        self.stdin.write_all(line.as_bytes()).unwrap();
        self.stdin.write_all(b"\n").unwrap();
        self.stdin.flush().unwrap();
        let mut s = String::new();
        self.stdout.read_line(&mut s).unwrap();
        if s.is_empty() {
            panic!("model driver closed its output after request: {line}");
        }
        s.trim_end().to_string()
    }
    /// pipelined: write all, then read all (requests must be small enough for the pipe buffers
    /// or few; used for short setup sequences)
    pub fn ask_all(&mut self, lines: &[String]) -> Vec<String> {
        lines.iter().map(|l| self.ask(l)).collect()
    }
}

impl Drop for Model {
    fn drop(&mut self) {
        let _ = self.child.kill();
        let _ = self.child.wait();
    }
}

#[derive(Clone, Debug)]
pub struct Finding {
    pub case: String,
    pub detail: String,
    pub signature: String,
}

#[derive(Default)]
pub struct Report {
    pub engine: String,
    pub evaluations: u64,
    pub nontrivial: HashSet<u64>,
    pub rule: String,
    pub samples: Vec<String>,
    pub hist: BTreeMap<String, u64>,
    pub disagreements: Vec<Finding>,
    pub n_disagreements: u64,
    pub oracle_failures: Vec<Finding>,
    pub n_oracle_failures: u64,
    pub notes: Vec<String>,
}

const KEEP: usize = 200;
const KEEP_ORACLE: usize = 6000;

impl Report {
    pub fn new(engine: &str, rule: &str) -> Self {
        Report {
            engine: engine.into(),
            rule: rule.into(),
            ..Default::default()
        }
    }
    pub fn count(&mut self, key: &str) {
        *self.hist.entry(key.to_string()).or_insert(0) += 1;
    }
    pub fn count_n(&mut self, key: &str, n: u64) {
        *self.hist.entry(key.to_string()).or_insert(0) += n;
    }
    /// register one evaluated case; `nontrivial_key` is Some(canonical form) when the case is non-trivial
    pub fn case(&mut self, nontrivial_key: Option<&str>) {
        self.evaluations += 1;
        if let Some(k) = nontrivial_key {
            self.nontrivial.insert(fnv(k));
        }
    }
    pub fn sample(&mut self, s: String) {
        if self.samples.len() < 12 {
            self.samples.push(s);
        }
    }
    pub fn disagree(&mut self, case: String, detail: String, signature: String) {
        self.n_disagreements += 1;
        if self.disagreements.len() < KEEP {
            self.disagreements.push(Finding { case, detail, signature });
        }
    }
    pub fn oracle_fail(&mut self, case: String, detail: String, signature: String) {
        self.n_oracle_failures += 1;
        // keep at most a few per signature so that rare signatures are not crowded out
        let same = self.oracle_failures.iter().filter(|f| f.signature == signature).count();
        if same < 3 && self.oracle_failures.len() < KEEP_ORACLE {
            self.oracle_failures.push(Finding { case, detail, signature });
        }
        let k = format!("oracle_fail:{}", self.oracle_failures.last().map(|f| f.signature.clone()).unwrap_or_default());
        let _ = k;
    }
    pub fn to_json(&self) -> String {
        let mut s = String::new();
        s.push_str("{");
        s.push_str(&format!("\"engine\":{},", jstr(&self.engine)));
        s.push_str(&format!("\"evaluations\":{},", self.evaluations));
        s.push_str(&format!("\"distinct_nontrivial\":{},", self.nontrivial.len()));
        s.push_str(&format!("\"rule\":{},", jstr(&self.rule)));
        s.push_str(&format!(
            "\"samples\":[{}],",
            self.samples.iter().map(|x| jstr(x)).collect::<Vec<_>>().join(",")
        ));
        s.push_str(&format!(
            "\"histogram\":{{{}}},",
            self.hist
                .iter()
                .map(|(k, v)| format!("{}:{}", jstr(k), v))
                .collect::<Vec<_>>()
                .join(",")
        ));
        s.push_str(&format!(
            "\"notes\":[{}],",
            self.notes.iter().map(|x| jstr(x)).collect::<Vec<_>>().join(",")
        ));
        s.push_str(&format!("\"n_disagreements\":{},", self.n_disagreements));
        s.push_str(&format!("\"n_oracle_failures\":{},", self.n_oracle_failures));
        s.push_str(&format!("\"disagreements\":[{}],", findings(&self.disagreements)));
        s.push_str(&format!("\"oracle_failures\":[{}]", findings(&self.oracle_failures)));
        s.push_str("}");
        s
    }
}

fn findings(fs: &[Finding]) -> String {
    fs.iter()
        .map(|f| {
            format!(
                "{{\"case\":{},\"detail\":{},\"signature\":{}}}",
                jstr(&f.case),
                jstr(&f.detail),
                jstr(&f.signature)
            )
        })
        .collect::<Vec<_>>()
        .join(",")
}

pub fn jstr(s: &str) -> String {
    let mut o = String::with_capacity(s.len() + 2);
    o.push('"');
    for c in s.chars() {
        match c {
            '"' => o.push_str("\\\""),
            '\\' => o.push_str("\\\\"),
            '\n' => o.push_str("\\n"),
            '\r' => o.push_str("\\r"),
            '\t' => o.push_str("\\t"),
            c if (c as u32) < 0x20 => o.push_str(&format!("\\u{:04x}", c as u32)),
            c => o.push(c),
        }
    }
    o.push('"');
    o
}

/// Run a closure catching panics; returns Err(message) on panic.
pub fn guarded<T>(f: impl FnOnce() -> T + std::panic::UnwindSafe) -> Result<T, String> {
    match std::panic::catch_unwind(f) {
        Ok(v) => Ok(v),
        Err(e) => {
            let msg = if let Some(s) = e.downcast_ref::<&str>() {
                s.to_string()
            } else if let Some(s) = e.downcast_ref::<String>() {
                s.clone()
            } else {
                "panic".to_string()
            };
            Err(msg)
        }
    }
}

pub struct Ctx {
    pub seed: u64,
    pub thorough: bool,
    pub model_bin: String,
    pub scratch: String,
    pub replay: Option<String>,
    pub corpus_dir: String,
}

impl Ctx {
    pub fn corpus_cases(&self, prop: &str) -> Vec<String> {
        let dir = format!("{}/{}", self.corpus_dir, prop);
        let mut v = vec![];
        if let Ok(rd) = std::fs::read_dir(&dir) {
            let mut files: Vec<_> = rd.filter_map(|e| e.ok()).map(|e| e.path()).collect();
            files.sort();
            for f in files {
                if let Ok(s) = std::fs::read_to_string(&f) {
                    for l in s.lines() {
                        let l = l.trim();
                        if !l.is_empty() && !l.starts_with('#') {
                            v.push(l.to_string());
                        }
                    }
                }
            }
        }
        if let Some(r) = &self.replay {
            if let Ok(s) = std::fs::read_to_string(r) {
                for l in s.lines() {
                    let l = l.trim();
                    if !l.is_empty() && !l.starts_with('#') {
                        v.push(l.to_string());
                    }
                }
            }
        }
        v
    }
}
