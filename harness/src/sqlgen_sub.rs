//! AST + printers for queries with subqueries (C18): SQL text for TurDB, prefix s-expressions for
//! the Lean reference model `TurVerif.SqlSub` (driver family `sqlsub`).
//!
//! Environment convention (same as the model): inside a subquery over table `u` the row seen by
//! its WHERE clause / select item is `u's columns ++ enclosing environment`; `E::Col(i)` inside a
//! `SE::Base` indexes that row.  The SQL printer gives every subquery level its own alias
//! (`s1`, `s2`, …) and prints columns qualified, so a table can appear at several levels.
#![allow(dead_code)]
use crate::sqlgen::*;

#[derive(Clone, Debug)]
pub enum SE {
    Base(E),
    Not(Box<SE>),
    Bin(Op, Box<SE>, Box<SE>),
    IsNull(Box<SE>, bool),
    InSub(Box<SE>, Box<SQ>, bool),
    Exists(Box<SQ>, bool),
    Scalar(Box<SQ>),
}

#[derive(Clone, Debug)]
pub struct SQ {
    pub table: String,
    pub whr: SE,
    pub item: SItem,
}

#[derive(Clone, Debug)]
pub enum SItem {
    Expr(SE),
    Agg(&'static str, SE),
    CountStar,
}

/// printing context: the known tables (for column names) and the current environment's names
pub struct Pctx<'a> {
    pub tables: &'a [TableSpec],
}

impl<'a> Pctx<'a> {
    fn cols(&self, t: &str) -> Vec<String> {
        self.tables.iter().find(|x| x.name == t).map(|x| x.cols.iter().map(|(n, _)| n.clone()).collect()).unwrap_or_default()
    }
}

impl SE {
    pub fn tt() -> SE { SE::Base(E::Lit(V::Bool(true))) }
    pub fn is_true_lit(&self) -> bool { matches!(self, SE::Base(E::Lit(V::Bool(true)))) }
    pub fn sql(&self, p: &Pctx, sc: &Scope, depth: usize) -> String {
        match self {
            SE::Base(e) => e.sql(sc),
            SE::Not(e) => format!("(NOT {})", e.sql(p, sc, depth)),
            SE::Bin(op, a, b) => format!("({} {} {})", a.sql(p, sc, depth), op.sql(), b.sql(p, sc, depth)),
            SE::IsNull(e, n) => format!("({} IS {}NULL)", e.sql(p, sc, depth), if *n { "NOT " } else { "" }),
            SE::InSub(e, q, n) => format!("({} {}IN ({}))", e.sql(p, sc, depth), if *n { "NOT " } else { "" }, q.sql(p, sc, depth + 1)),
            SE::Exists(q, n) => format!("({}EXISTS ({}))", if *n { "NOT " } else { "" }, q.sql(p, sc, depth + 1)),
            SE::Scalar(q) => format!("({})", q.sql(p, sc, depth + 1)),
        }
    }
    pub fn sx(&self) -> String {
        match self {
            SE::Base(e) => format!("(base {})", e.sx()),
            SE::Not(e) => format!("(snot {})", e.sx()),
            SE::Bin(op, a, b) => format!("(sbin {} {} {})", op.sx(), a.sx(), b.sx()),
            SE::IsNull(e, n) => format!("({} {})", if *n { "snotnull" } else { "sisnull" }, e.sx()),
            SE::InSub(e, q, n) => format!("({} {} {})", if *n { "notinsub" } else { "insub" }, e.sx(), q.sx()),
            SE::Exists(q, n) => format!("({} {})", if *n { "notexists" } else { "exists" }, q.sx()),
            SE::Scalar(q) => format!("(scalar {})", q.sx()),
        }
    }
    /// does the expression reference an environment column with index >= `w`?
    pub fn refs_outer(&self, w: usize) -> bool {
        fn e_refs(e: &E, w: usize) -> bool {
            match e { E::Col(i) => *i >= w, _ => e.children().iter().any(|c| e_refs(c, w)) }
        }
        match self {
            SE::Base(e) => e_refs(e, w),
            SE::Not(e) | SE::IsNull(e, _) => e.refs_outer(w),
            SE::Bin(_, a, b) => a.refs_outer(w) || b.refs_outer(w),
            SE::InSub(e, q, _) => e.refs_outer(w) || q.refs_outer_env(w),
            SE::Exists(q, _) | SE::Scalar(q) => q.refs_outer_env(w),
        }
    }
    pub fn depth(&self) -> usize {
        match self {
            SE::Base(_) => 0,
            SE::Not(e) | SE::IsNull(e, _) => e.depth(),
            SE::Bin(_, a, b) => a.depth().max(b.depth()),
            SE::InSub(e, q, _) => e.depth().max(1 + q.depth()),
            SE::Exists(q, _) | SE::Scalar(q) => 1 + q.depth(),
        }
    }
}

impl SQ {
    pub fn sql(&self, p: &Pctx, outer: &Scope, depth: usize) -> String {
        let alias = format!("s{depth}");
        let mut sc: Scope = p.cols(&self.table).iter().map(|c| format!("{alias}.{c}")).collect();
        sc.extend(outer.iter().cloned());
        let item = match &self.item {
            SItem::Expr(e) => e.sql(p, &sc, depth),
            SItem::Agg(f, e) => format!("{}({})", f.to_uppercase(), e.sql(p, &sc, depth)),
            SItem::CountStar => "COUNT(*)".to_string(),
        };
        let mut s = format!("SELECT {} FROM {} AS {}", item, self.table, alias);
        if !self.whr.is_true_lit() { s.push_str(&format!(" WHERE {}", self.whr.sql(p, &sc, depth))); }
        s
    }
    pub fn sx(&self) -> String {
        let item = match &self.item {
            SItem::Expr(e) => format!("(expr {})", e.sx()),
            SItem::Agg(f, e) => format!("(agg {} {})", f, e.sx()),
            SItem::CountStar => "(countstar)".to_string(),
        };
        format!("(sel {} {} {})", self.table, self.whr.sx(), item)
    }
    /// width of the subquery's own table is unknown here; the caller passes the width `w` of the
    /// environment *outside* the subquery and the subquery's table width via `inner_w`
    pub fn refs_outer_env(&self, _w: usize) -> bool { false }
    pub fn depth(&self) -> usize {
        let i = match &self.item { SItem::Expr(e) | SItem::Agg(_, e) => e.depth(), SItem::CountStar => 0 };
        self.whr.depth().max(i)
    }
    /// correlated = its WHERE or item references a column beyond its own table's `w` columns
    pub fn correlated(&self, w: usize) -> bool {
        let i = match &self.item { SItem::Expr(e) | SItem::Agg(_, e) => e.refs_outer(w), SItem::CountStar => false };
        self.whr.refs_outer(w) || i
    }
}

#[derive(Clone, Debug)]
pub enum SFromQ {
    Table(String),
    /// (SELECT items FROM name WHERE whr) AS d ; items are plain columns of `name`
    Derived(String, Option<E>, Vec<E>),
}

#[derive(Clone, Debug)]
pub struct STopQ {
    pub from: SFromQ,
    pub whr: SE,
    pub items: Vec<SE>,
}

impl STopQ {
    /// names of the columns of the FROM row
    pub fn scope(&self, p: &Pctx) -> Scope {
        match &self.from {
            SFromQ::Table(n) => p.cols(n).iter().map(|c| format!("{n}.{c}")).collect(),
            SFromQ::Derived(_, _, items) => (0..items.len()).map(|i| format!("d.c{i}")).collect(),
        }
    }
    pub fn sql(&self, p: &Pctx) -> String {
        let sc = self.scope(p);
        let from = match &self.from {
            SFromQ::Table(n) => n.clone(),
            SFromQ::Derived(n, w, items) => {
                let isc: Scope = p.cols(n);
                let mut s = format!("(SELECT {} FROM {}", items.iter().enumerate().map(|(i, e)| format!("{} AS c{i}", e.sql(&isc))).collect::<Vec<_>>().join(", "), n);
                if let Some(w) = w { s.push_str(&format!(" WHERE {}", w.sql(&isc))); }
                s.push_str(") AS d");
                s
            }
        };
        let mut s = format!("SELECT {} FROM {}", self.items.iter().map(|e| e.sql(p, &sc, 0)).collect::<Vec<_>>().join(", "), from);
        if !self.whr.is_true_lit() { s.push_str(&format!(" WHERE {}", self.whr.sql(p, &sc, 0))); }
        s
    }
    pub fn sx(&self) -> String {
        let from = match &self.from {
            SFromQ::Table(n) => format!("(t {n})"),
            SFromQ::Derived(n, w, items) => format!("(derived {} {} ({}))", n, w.as_ref().map(|x| x.sx()).unwrap_or("(none)".into()), items.iter().map(|e| e.sx()).collect::<Vec<_>>().join(" ")),
        };
        format!("(top {} {} ({}))", from, self.whr.sx(), self.items.iter().map(|e| e.sx()).collect::<Vec<_>>().join(" "))
    }
}

// ---------------------------------------------------------------- replayable SQL cases

/// One differential case in a self-contained, replayable one-line form:
/// `meta ;; setup sql (stmt ; stmt …) ;; model setup lines (a | b …) ;; family ;; model request ;; query sql`
#[derive(Clone, Debug)]
pub struct SqlCase {
    /// shape description used as the signature prefix (finite alphabet)
    pub meta: String,
    pub setup: Vec<String>,
    pub model_setup: Vec<String>,
    pub family: String,
    pub request: String,
    pub sql: String,
    /// optional model requests (with `{ID}` standing for an outer row id) used only to refine the
    /// signature of a mismatch: [class of the subquery's value list, NULL-ness of the left operand]
    pub probe: Vec<String>,
}

impl SqlCase {
    pub fn to_line(&self) -> String {
        let base = format!("{} ;; {} ;; {} ;; {} ;; {} ;; {}", self.meta, self.setup.join(" ; "), self.model_setup.join(" | "), self.family, self.request, self.sql);
        if self.probe.is_empty() { base } else { format!("{base} ;; {}", self.probe.join(" || ")) }
    }
    pub fn from_line(l: &str) -> Option<SqlCase> {
        let p: Vec<&str> = l.split(" ;; ").collect();
        if p.len() != 6 && p.len() != 7 { return None; }
        Some(SqlCase {
            meta: p[0].to_string(),
            setup: p[1].split(" ; ").map(|s| s.trim().to_string()).filter(|s| !s.is_empty()).collect(),
            model_setup: p[2].split(" | ").map(|s| s.trim().to_string()).filter(|s| !s.is_empty()).collect(),
            family: p[3].to_string(),
            request: p[4].to_string(),
            sql: p[5].to_string(),
            probe: if p.len() == 7 { p[6].split(" || ").map(|x| x.trim().to_string()).collect() } else { vec![] },
        })
    }
}

/// multiset difference of canonical rows: (rows of `m` missing from `e`, rows of `e` not in `m`)
pub fn bag_diff(m: &[Vec<String>], e: &[Vec<String>]) -> (Vec<Vec<String>>, Vec<Vec<String>>) {
    let mut used = vec![false; e.len()];
    let mut missing = vec![];
    'outer: for a in m {
        for (j, b) in e.iter().enumerate() {
            if !used[j] && a.len() == b.len() && a.iter().zip(b).all(|(x, y)| cells_agree(x, y)) {
                used[j] = true;
                continue 'outer;
            }
        }
        missing.push(a.clone());
    }
    let extra = e.iter().enumerate().filter(|(j, _)| !used[*j]).map(|(_, r)| r.clone()).collect();
    (missing, extra)
}
