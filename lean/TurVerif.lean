import TurVerif.Model.Varint
import TurVerif.Model.KeyEnc
import TurVerif.Model.KeyEncJson
import TurVerif.Model.Simd
import TurVerif.Model.RowSerde
import TurVerif.Model.SubSpill
import TurVerif.Model.Record
