import TurVerif.Model.Varint
import TurVerif.Model.KeyEnc
import TurVerif.Model.KeyEncJson
import TurVerif.Model.Simd
