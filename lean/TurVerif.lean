import TurVerif.Model.Varint
