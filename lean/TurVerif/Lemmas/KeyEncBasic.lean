import TurVerif.Model.KeyEnc
/-! Helper lemmas for C26: orders, big-endian words, escaping. -/
namespace TurVerif.KeyEnc

/-! ### Ordering.then -/
@[simp] theorem then_eq' (o : Ordering) : Ordering.eq.then o = o := rfl
@[simp] theorem then_lt' (o : Ordering) : Ordering.lt.then o = .lt := rfl
@[simp] theorem then_gt' (o : Ordering) : Ordering.gt.then o = .gt := rfl
theorem then_assoc' (a b c : Ordering) : (a.then b).then c = a.then (b.then c) := by
  cases a <;> rfl
@[simp] theorem then_eq_right (o : Ordering) : o.then .eq = o := by cases o <;> rfl

@[simp] theorem cmpNat_self (a : Nat) : cmpNat a a = .eq := by simp [cmpNat]
@[simp] theorem cmpInt_self (a : Int) : cmpInt a a = .eq := by simp [cmpInt]
theorem cmpNat_eq_iff {a b : Nat} : cmpNat a b = .eq ↔ a = b := by
  unfold cmpNat; split
  · simp; omega
  · split <;> simp [*]
theorem cmpNat_lt_iff {a b : Nat} : cmpNat a b = .lt ↔ a < b := by
  unfold cmpNat; split
  · simp [*]
  · split <;> simp [*]
theorem cmpInt_eq_iff {a b : Int} : cmpInt a b = .eq ↔ a = b := by
  unfold cmpInt; split
  · simp; omega
  · split <;> simp [*]
theorem cmpInt_lt_iff {a b : Int} : cmpInt a b = .lt ↔ a < b := by
  unfold cmpInt; split
  · simp [*]
  · split <;> simp [*]

/-! ### lexCmp -/
@[simp] theorem lexCmp_nil_nil : lexCmp [] [] = .eq := rfl
@[simp] theorem lexCmp_cons_cons (x y : Nat) (xs ys : List Nat) :
    lexCmp (x :: xs) (y :: ys) = (cmpNat x y).then (lexCmp xs ys) := rfl
@[simp] theorem lexCmp_nil_cons (y : Nat) (ys : List Nat) : lexCmp [] (y :: ys) = .lt := rfl
@[simp] theorem lexCmp_cons_nil (y : Nat) (ys : List Nat) : lexCmp (y :: ys) [] = .gt := rfl

@[simp] theorem lexCmp_self (a : List Nat) : lexCmp a a = .eq := by
  induction a with
  | nil => rfl
  | cons x xs ih => simp [ih]

theorem lexCmp_eq_iff {a b : List Nat} : lexCmp a b = .eq ↔ a = b := by
  induction a generalizing b with
  | nil => cases b <;> simp
  | cons x xs ih =>
    cases b with
    | nil => simp
    | cons y ys =>
      simp only [lexCmp_cons_cons, List.cons.injEq]
      by_cases h : x = y
      · subst h; simp [ih]
      · have : cmpNat x y ≠ .eq := fun e => h (cmpNat_eq_iff.mp e)
        constructor
        · intro e; cases hc : cmpNat x y <;> simp [hc] at e this
        · intro e; exact absurd e.1 h

/-- equal-length strings: comparison of the concatenations is decided by the heads first -/
theorem lexCmp_append_eqlen (a b r1 r2 : List Nat) (h : a.length = b.length) :
    lexCmp (a ++ r1) (b ++ r2) = (lexCmp a b).then (lexCmp r1 r2) := by
  induction a generalizing b with
  | nil => cases b with
    | nil => simp
    | cons => simp at h
  | cons x xs ih =>
    cases b with
    | nil => simp at h
    | cons y ys =>
      simp only [List.cons_append, lexCmp_cons_cons, then_assoc']
      rw [ih ys (by simpa using h)]

/-! ### big-endian words -/
theorem be_length (w v : Nat) : (be w v).length = w := by
  induction w generalizing v with
  | zero => rfl
  | succ w ih => simp [be, ih]

theorem cmpNat_divmod (a b : Nat) :
    (cmpNat (a / 256) (b / 256)).then (cmpNat (a % 256) (b % 256)) = cmpNat a b := by
  unfold cmpNat
  split
  · have : a < b := by omega
    simp [this]
  · split
    · simp only [then_eq']
      split
      · have : a < b := by omega
        simp [this]
      · split
        · have : a = b := by omega
          simp [this]
        · have h1 : ¬ a < b := by omega
          have h2 : ¬ a = b := by omega
          simp [h1, h2]
    · have h1 : ¬ a < b := by omega
      have h2 : ¬ a = b := by omega
      simp [h1, h2]

/-- big-endian words of the same width compare like the numbers, whatever follows -/
theorem be_cmp (w a b : Nat) (r1 r2 : List Nat) (ha : a < 256 ^ w) (hb : b < 256 ^ w) :
    lexCmp (be w a ++ r1) (be w b ++ r2) = (cmpNat a b).then (lexCmp r1 r2) := by
  induction w generalizing a b r1 r2 with
  | zero =>
    have : a = 0 := by simpa using ha
    have : b = 0 := by simpa using hb
    subst_vars; simp [be]
  | succ w ih =>
    have ha' : a / 256 < 256 ^ w := by
      rw [Nat.pow_succ] at ha; exact Nat.div_lt_of_lt_mul (by omega)
    have hb' : b / 256 < 256 ^ w := by
      rw [Nat.pow_succ] at hb; exact Nat.div_lt_of_lt_mul (by omega)
    simp only [be, List.append_assoc, List.singleton_append]
    rw [ih _ _ _ _ ha' hb', lexCmp_cons_cons, ← then_assoc', cmpNat_divmod]

theorem fromBe_append_single (bs : List Nat) (x : Nat) : fromBe (bs ++ [x]) = fromBe bs * 256 + x := by
  simp [fromBe, List.foldl_append]

theorem fromBe_be (w v : Nat) (hv : v < 256 ^ w) : fromBe (be w v) = v := by
  induction w generalizing v with
  | zero => have : v = 0 := by simpa using hv
            subst this; rfl
  | succ w ih =>
    have hv' : v / 256 < 256 ^ w := by
      rw [Nat.pow_succ] at hv; exact Nat.div_lt_of_lt_mul (by omega)
    rw [be, fromBe_append_single, ih _ hv']; omega

theorem take_be_append (w v : Nat) (rest : List Nat) : (be w v ++ rest).take w = be w v := by
  rw [List.take_left' (be_length w v)]
theorem drop_be_append (w v : Nat) (rest : List Nat) : (be w v ++ rest).drop w = rest := by
  rw [List.drop_left' (be_length w v)]

theorem be_bytes (w v : Nat) : ∀ x ∈ be w v, x < 256 := by
  induction w generalizing v with
  | zero => simp [be]
  | succ w ih =>
    intro x hx
    simp only [be, List.mem_append, List.mem_singleton] at hx
    rcases hx with h | h
    · exact ih _ _ h
    · omega

/-! ### escaping -/
/-- `escape` is an order preserving prefix-free code -/
theorem esc_cmp (a b r1 r2 : List Nat) :
    lexCmp (esc a ++ r1) (esc b ++ r2) = (lexCmp a b).then (lexCmp r1 r2) := by
  induction a generalizing b with
  | nil =>
    cases b with
    | nil => simp [esc]
    | cons y t =>
      simp only [esc]
      split
      · simp [cmpNat]
      · split
        · simp [cmpNat]
        · have : 0 < y := by omega
          simp [cmpNat, this]
  | cons x s ih =>
    cases b with
    | nil =>
      simp only [esc]
      split
      · simp [cmpNat]
      · split
        · simp [cmpNat]
        · have h1 : ¬ x < 0 := by omega
          have h2 : ¬ x = 0 := by omega
          simp [cmpNat, h2]
    | cons y t =>
      by_cases hxy : x = y
      · subst hxy
        simp only [esc]
        split
        · simp [ih]
        · split
          · simp [ih]
          · simp [ih]
      · have hne : cmpNat x y ≠ .eq := fun e => hxy (cmpNat_eq_iff.mp e)
        simp only [esc]
        split <;> split <;> (try split) <;> (try split) <;>
          simp_all [cmpNat] <;> (try split) <;> (try split) <;> simp_all <;> omega

theorem esc_length_pos (a : List Nat) : 2 ≤ (esc a).length := by
  induction a with
  | nil => simp [esc]
  | cons x s ih => simp only [esc]; split <;> (try split) <;> simp <;> omega

theorem unesc_esc (a rest : List Nat) : unesc (esc a ++ rest) = some (a, (esc a).length) := by
  induction a with
  | nil => simp [esc, unesc]
  | cons x s ih =>
    simp only [esc]
    split
    · rename_i h; subst h
      simp [unesc, ih]
    · split
      · rename_i h0 h; subst h
        simp [unesc, ih]
      · rename_i h0 h1
        rw [List.cons_append, unesc.eq_def]
        simp [ih, h0, h1]

theorem esc_bytes (a : List Nat) (h : ∀ x ∈ a, x < 256) : ∀ x ∈ esc a, x < 256 := by
  induction a with
  | nil => simp [esc]
  | cons y s ih =>
    have hy := h y (by simp)
    have hs : ∀ x ∈ s, x < 256 := fun x hx => h x (by simp [hx])
    intro x hx
    simp only [esc] at hx
    split at hx
    · simp at hx; rcases hx with h | h | h
      · omega
      · omega
      · exact ih hs _ h
    · split at hx
      · simp at hx; rcases hx with h | h | h
        · omega
        · omega
        · exact ih hs _ h
      · simp at hx; rcases hx with h | h
        · omega
        · exact ih hs _ h

end TurVerif.KeyEnc
