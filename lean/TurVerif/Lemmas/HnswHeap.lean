import TurVerif.Model.Hnsw
/-!
Correctness of the transcription of Rust's `BinaryHeap` in `TurVerif.Hnsw`
(`swap`, `siftUp`, `siftDown`, `heapPush`, `heapPop`): the operations permute the elements, keep
the max-heap order (child ≤ parent) and `heapPop` returns a maximal element.  `le` is any total
preorder given as a Boolean function.
-/
namespace TurVerif.HnswHeap
open TurVerif.Hnsw

variable {α : Type}

/-! ### swap -/

theorem swap_length (l : List α) (i j : Nat) : (swap l i j).length = l.length := by
  unfold swap; split <;> simp

theorem getElem?_swap (l : List α) (i j k : Nat) (hi : i < l.length) (hj : j < l.length) :
    (swap l i j)[k]? = if k = j then l[i]? else if k = i then l[j]? else l[k]? := by
  unfold swap
  rw [List.getElem?_eq_getElem hi, List.getElem?_eq_getElem hj]
  simp only [List.getElem?_set, List.length_set]
  by_cases h1 : k = j
  · subst h1; simp [hj]
  · by_cases h2 : k = i
    · subst h2
      have : ¬ j = k := fun h => h1 h.symm
      simp [this, hi, h1]
    · have a : ¬ j = k := fun h => h1 h.symm
      have b : ¬ i = k := fun h => h2 h.symm
      simp [a, b, h1, h2]

theorem count_set_add [DecidableEq α] (l : List α) (i : Nat) (a b : α) (h : i < l.length) :
    List.count b (l.set i a) + (if l[i] = b then 1 else 0) =
      List.count b l + (if a = b then 1 else 0) := by
  have := List.count_set (a := a) (b := b) (l := l) (i := i) h
  simp only [beq_iff_eq] at this
  rw [this]
  by_cases hb : l[i] = b
  · have hpos : 0 < List.count b l := by
      rw [List.count_pos_iff]; rw [← hb]; exact List.getElem_mem h
    simp only [hb, if_true]; omega
  · simp only [hb, if_false]; omega

theorem swap_perm [DecidableEq α] (l : List α) (i j : Nat) : (swap l i j).Perm l := by
  unfold swap
  cases hi : l[i]? with
  | none => simp
  | some x =>
    cases hj : l[j]? with
    | none => simp
    | some y =>
      simp only []
      have hil : i < l.length := (List.getElem?_eq_some_iff.1 hi).1
      have hjl : j < l.length := (List.getElem?_eq_some_iff.1 hj).1
      have hx : l[i] = x := (List.getElem?_eq_some_iff.1 hi).2
      have hy : l[j] = y := (List.getElem?_eq_some_iff.1 hj).2
      rw [List.perm_iff_count]
      intro b
      have h1 := count_set_add l i y b hil
      have hjl' : j < (l.set i y).length := by simp [hjl]
      have h2 := count_set_add (l.set i y) j x b hjl'
      have hy' : (l.set i y)[j] = y := by
        rw [List.getElem_set]; split
        · rfl
        · exact hy
      rw [hy'] at h2
      rw [hx] at h1
      omega

/-! ### permutation -/

theorem siftUp_perm [DecidableEq α] (le : α → α → Bool) (fuel : Nat) (l : List α) (pos : Nat) :
    (siftUp le fuel l pos).Perm l := by
  induction fuel generalizing l pos with
  | zero => simp [siftUp]
  | succ f ih =>
    simp only [siftUp]
    split
    · exact List.Perm.refl _
    · split
      · split
        · exact List.Perm.refl _
        · exact (ih _ _).trans (swap_perm _ _ _)
      · exact List.Perm.refl _

theorem siftUp_length (le : α → α → Bool) (fuel : Nat) (l : List α) (pos : Nat) :
    (siftUp le fuel l pos).length = l.length := by
  induction fuel generalizing l pos with
  | zero => simp [siftUp]
  | succ f ih =>
    simp only [siftUp]
    split
    · rfl
    · split
      · split
        · rfl
        · rw [ih, swap_length]
      · rfl

theorem siftDown_perm [DecidableEq α] (le : α → α → Bool) (fuel : Nat) (l : List α) (pos : Nat) :
    (siftDown le fuel l pos).1.Perm l := by
  induction fuel generalizing l pos with
  | zero => simp [siftDown]
  | succ f ih =>
    simp only [siftDown]
    split
    · split
      · exact (ih _ _).trans (swap_perm _ _ _)
      · exact List.Perm.refl _
    · split
      · exact swap_perm _ _ _
      · exact List.Perm.refl _

theorem heapPush_perm [DecidableEq α] (le : α → α → Bool) (l : List α) (x : α) :
    (heapPush le l x).Perm (x :: l) := by
  unfold heapPush
  exact (siftUp_perm _ _ _ _).trans (List.perm_append_comm (l₁ := l) (l₂ := [x]))

theorem heapPop_none (le : α → α → Bool) (l : List α) : heapPop le l = none ↔ l = [] := by
  unfold heapPop
  cases l with
  | nil => simp
  | cons a t =>
    simp only [reduceCtorEq, iff_false]
    cases h : (a :: t).getLast? with
    | none => simp at h
    | some item =>
      simp only []
      split <;> simp

theorem heapPop_perm [DecidableEq α] (le : α → α → Bool) (l : List α) (top : α) (rest : List α)
    (h : heapPop le l = some (top, rest)) : l.Perm (top :: rest) := by
  unfold heapPop at h
  cases hl : l.getLast? with
  | none => simp [hl] at h
  | some item =>
    simp only [hl] at h
    obtain ⟨ys, hys⟩ := List.getLast?_eq_some_iff.1 hl
    have hd : l.dropLast = ys := by rw [hys]; simp
    rw [hd] at h
    cases ys with
    | nil =>
      simp only [Option.some.injEq, Prod.mk.injEq] at h
      rw [hys, ← h.1, ← h.2]; simp
    | cons t tl =>
      simp only [Option.some.injEq, Prod.mk.injEq] at h
      obtain ⟨h1, h2⟩ := h
      subst h1
      rw [hys, ← h2]
      have p1 := siftUp_perm le
        ((siftDown le (item :: tl).length (item :: tl) 0).1.length + 1)
        (siftDown le (item :: tl).length (item :: tl) 0).1
        (siftDown le (item :: tl).length (item :: tl) 0).2
      have p2 := siftDown_perm le (item :: tl).length (item :: tl) 0
      have p3 : (t :: tl ++ [item]).Perm (t :: item :: tl) := by
        simp only [List.cons_append]
        exact List.Perm.cons _ (List.perm_append_comm (l₁ := tl) (l₂ := [item]))
      exact p3.trans (List.Perm.cons _ (p1.trans p2).symm)

/-! ### heap order -/

/-- heap order for the pair (i, parent i) -/
def okAt (le : α → α → Bool) (l : List α) (i : Nat) : Prop :=
  ∀ x p, l[i]? = some x → l[(i - 1) / 2]? = some p → le x p = true

/-- max-heap: every element is ≤ its parent -/
def Heap (le : α → α → Bool) (l : List α) : Prop := ∀ i, 0 < i → okAt le l i

structure Ord (le : α → α → Bool) : Prop where
  total : ∀ a b, le a b = true ∨ le b a = true
  trans : ∀ a b c, le a b = true → le b c = true → le a c = true

/-- every pair is fine except possibly (pos, parent pos); children of pos are ≤ its parent -/
def UpInv (le : α → α → Bool) (l : List α) (pos : Nat) : Prop :=
  (∀ i, 0 < i → i ≠ pos → okAt le l i) ∧
  (∀ c x g, 0 < pos → 0 < c → (c - 1) / 2 = pos → l[c]? = some x → l[(pos - 1) / 2]? = some g →
    le x g = true)

theorem siftUp_heap (le : α → α → Bool) (ho : Ord le) (fuel : Nat) (l : List α) (pos : Nat)
    (hf : pos < fuel) (h : UpInv le l pos) : Heap le (siftUp le fuel l pos) := by
  induction fuel generalizing l pos with
  | zero => omega
  | succ f ih =>
    simp only [siftUp]
    by_cases hp : pos = 0
    · simp only [hp, if_true]
      intro i hi
      exact h.1 i hi (by omega)
    · simp only [hp, if_false]
      cases hx : l[pos]? with
      | none =>
        simp only []
        intro i hi
        by_cases hip : i = pos
        · subst hip; intro x p h1; rw [hx] at h1; cases h1
        · exact h.1 i hi hip
      | some x =>
        cases hq : l[(pos - 1) / 2]? with
        | none =>
          simp only []
          intro i hi
          by_cases hip : i = pos
          · subst hip; intro x' p _ h2; rw [hq] at h2; cases h2
          · exact h.1 i hi hip
        | some p =>
          simp only []
          by_cases hle : le x p = true
          · simp only [hle, if_true]
            intro i hi
            by_cases hip : i = pos
            · subst hip; intro x' p' h1 h2
              rw [hx] at h1; rw [hq] at h2; cases h1; cases h2; exact hle
            · exact h.1 i hi hip
          · simp only [hle]
            have hpx : le p x = true := by
              rcases ho.total x p with h' | h'
              · exact absurd h' hle
              · exact h'
            have hposl : pos < l.length := (List.getElem?_eq_some_iff.1 hx).1
            have hql : (pos - 1) / 2 < l.length := (List.getElem?_eq_some_iff.1 hq).1
            have hqlt : (pos - 1) / 2 < pos := by omega
            apply ih (swap l pos ((pos - 1) / 2)) ((pos - 1) / 2) (by omega)
            have g := fun k => getElem?_swap l pos ((pos - 1) / 2) k hposl hql
            constructor
            · intro i hi hiq x' p' h1 h2
              rw [g] at h1 h2
              by_cases hip : i = pos
              · subst hip
                have e1 : ¬ i = (i - 1) / 2 := by omega
                simp only [e1, if_false, if_true] at h1
                simp only [if_true] at h2
                rw [hq] at h1; rw [hx] at h2; cases h1; cases h2; exact hpx
              · simp only [hiq, hip, if_false] at h1
                by_cases hpi : (i - 1) / 2 = pos
                · rw [hpi] at h2
                  have e1 : ¬ pos = (pos - 1) / 2 := by omega
                  simp only [e1, if_false, if_true] at h2
                  rw [hq] at h2; cases h2
                  exact h.2 i x' p (by omega) hi hpi h1 hq
                · by_cases hpq : (i - 1) / 2 = (pos - 1) / 2
                  · simp only [hpq, if_true] at h2
                    rw [hx] at h2; cases h2
                    have := h.1 i hi hip x' p h1 (by rw [hpq]; exact hq)
                    exact ho.trans _ _ _ this hpx
                  · simp only [hpq, hpi, if_false] at h2
                    exact h.1 i hi hip x' p' h1 h2
            · intro c x' g' hq0 hc hcp h1 h2
              rw [g] at h1 h2
              have e1 : ¬ ((pos - 1) / 2 - 1) / 2 = (pos - 1) / 2 := by omega
              have e2 : ¬ ((pos - 1) / 2 - 1) / 2 = pos := by omega
              simp only [e1, e2, if_false] at h2
              have hqok := h.1 ((pos - 1) / 2) hq0 (by omega) p g' hq h2
              by_cases hcpos : c = pos
              · subst hcpos
                have e3 : ¬ c = (c - 1) / 2 := by omega
                simp only [e3, if_false, if_true] at h1
                rw [hq] at h1; cases h1; exact hqok
              · have e3 : ¬ c = (pos - 1) / 2 := by omega
                simp only [e3, hcpos, if_false] at h1
                have := h.1 c hc hcpos x' p h1 (by rw [hcp]; exact hq)
                exact ho.trans _ _ _ this hqok

/-- every pair is fine except those with `pos` as child or as parent; children of pos ≤ its parent -/
def DownInv (le : α → α → Bool) (l : List α) (pos : Nat) : Prop :=
  (∀ i, 0 < i → i ≠ pos → (i - 1) / 2 ≠ pos → okAt le l i) ∧
  (∀ c x g, 0 < pos → 0 < c → (c - 1) / 2 = pos → l[c]? = some x → l[(pos - 1) / 2]? = some g →
    le x g = true)

theorem downInv_swap (le : α → α → Bool) (_ho : Ord le) (l : List α) (pos c : Nat)
    (h : DownInv le l pos) (hc : (c - 1) / 2 = pos) (hc0 : 0 < c) (hcl : c < l.length)
    (hbig : ∀ c' y z, 0 < c' → (c' - 1) / 2 = pos → c' ≠ c → l[c']? = some y → l[c]? = some z →
      le y z = true) :
    DownInv le (swap l pos c) c := by
  have hposl : pos < l.length := by omega
  have hpc : pos < c := by omega
  have g := fun k => getElem?_swap l pos c k hposl hcl
  constructor
  · intro i hi hic hpic x p h1 h2
    rw [g] at h1 h2
    simp only [hic, hpic, if_false] at h1 h2
    by_cases hip : i = pos
    · subst hip
      simp only [if_true] at h1
      have e : ¬ (i - 1) / 2 = i := by omega
      simp only [e, if_false] at h2
      exact h.2 c x p hi hc0 hc h1 h2
    · simp only [hip, if_false] at h1
      by_cases hpi : (i - 1) / 2 = pos
      · simp only [hpi, if_true] at h2
        exact hbig i x p hi hpi hic h1 h2
      · simp only [hpi, if_false] at h2
        exact h.1 i hi hip hpi x p h1 h2
  · intro c' x gg _ hc'0 hc'c h1 h2
    rw [g] at h1 h2
    have e1 : ¬ c' = c := by omega
    have e2 : ¬ c' = pos := by omega
    simp only [e1, e2, if_false] at h1
    rw [hc] at h2
    have e3 : ¬ pos = c := by omega
    simp only [e3, if_false, if_true] at h2
    exact h.1 c' hc'0 e2 (by omega) x gg h1 (by rw [hc'c]; exact h2)

theorem siftDown_spec (le : α → α → Bool) (ho : Ord le) (fuel : Nat) (l : List α) (pos : Nat)
    (hf : l.length ≤ fuel + pos) (h : DownInv le l pos) :
    DownInv le (siftDown le fuel l pos).1 (siftDown le fuel l pos).2 ∧
    (siftDown le fuel l pos).1.length ≤ 2 * (siftDown le fuel l pos).2 + 1 ∧
    (siftDown le fuel l pos).1.length = l.length := by
  induction fuel generalizing l pos with
  | zero =>
    simp only [siftDown]
    exact ⟨h, by omega, by first | rfl | trivial⟩
  | succ f ih =>
    simp only [siftDown]
    by_cases h2 : 2 * pos + 1 + 1 < l.length
    · simp only [h2, if_true]
      have ha : 2 * pos + 1 < l.length := by omega
      rw [List.getElem?_eq_getElem ha, List.getElem?_eq_getElem h2]
      simp only []
      by_cases hab : le l[2 * pos + 1] l[2 * pos + 1 + 1] = true
      · simp only [hab, if_true]
        have hd := downInv_swap le ho l pos (2 * pos + 1 + 1) h (by omega) (by omega) h2
          (by
            intro c' y z hc'0 hc' hne h1 hz
            have : c' = 2 * pos + 1 := by omega
            subst this
            rw [List.getElem?_eq_getElem ha] at h1
            rw [List.getElem?_eq_getElem h2] at hz
            cases h1; cases hz; exact hab)
        have := ih (swap l pos (2 * pos + 1 + 1)) (2 * pos + 1 + 1)
          (by rw [swap_length]; omega) hd
        rw [swap_length] at this
        exact this
      · simp only [hab]
        have hba : le l[2 * pos + 1 + 1] l[2 * pos + 1] = true := by
          rcases ho.total l[2 * pos + 1] l[2 * pos + 1 + 1] with h' | h'
          · exact absurd h' hab
          · exact h'
        have hd := downInv_swap le ho l pos (2 * pos + 1) h (by omega) (by omega) ha
          (by
            intro c' y z hc'0 hc' hne h1 hz
            have : c' = 2 * pos + 1 + 1 := by omega
            subst this
            rw [List.getElem?_eq_getElem h2] at h1
            rw [List.getElem?_eq_getElem ha] at hz
            cases h1; cases hz; exact hba)
        have := ih (swap l pos (2 * pos + 1)) (2 * pos + 1)
          (by rw [swap_length]; omega) hd
        rw [swap_length] at this
        exact this
    · simp only [h2, if_false]
      by_cases h3 : 2 * pos + 1 + 1 = l.length
      · simp only [h3, if_true]
        have ha : 2 * pos + 1 < l.length := by omega
        have hd := downInv_swap le ho l pos (2 * pos + 1) h (by omega) (by omega) ha
          (by
            intro c' y z hc'0 hc' hne h1 hz
            have : c' = 2 * pos + 1 + 1 := by omega
            subst this
            rw [h3] at h1
            simp at h1)
        refine ⟨hd, ?_, swap_length _ _ _⟩
        rw [swap_length]; omega
      · simp only [h3, if_false]
        exact ⟨h, by omega, by first | rfl | trivial⟩

/-- a hole without children: the descent invariant is the ascent invariant -/
theorem downInv_leaf (le : α → α → Bool) (l : List α) (pos : Nat) (h : DownInv le l pos)
    (hleaf : l.length ≤ 2 * pos + 1) : UpInv le l pos := by
  constructor
  · intro i hi hip x p h1 h2
    by_cases hpi : (i - 1) / 2 = pos
    · have : l.length ≤ i := by omega
      rw [List.getElem?_eq_none this] at h1; cases h1
    · exact h.1 i hi hip hpi x p h1 h2
  · exact h.2

theorem heap_top_max (le : α → α → Bool) (ho : Ord le) (l : List α) (h : Heap le l) (top : α)
    (ht : l[0]? = some top) : ∀ (i : Nat) (y : α), l[i]? = some y → le y top = true := by
  intro i
  induction i using Nat.strongRecOn with
  | _ i ih =>
    intro y hy
    by_cases hi : i = 0
    · subst hi; rw [ht] at hy; cases hy
      rcases ho.total top top with h' | h' <;> exact h'
    · have hil : i < l.length := (List.getElem?_eq_some_iff.1 hy).1
      have hpl : (i - 1) / 2 < l.length := by omega
      have hp := h i (by omega) y l[(i - 1) / 2] hy (List.getElem?_eq_getElem hpl)
      have := ih ((i - 1) / 2) (by omega) l[(i - 1) / 2] (List.getElem?_eq_getElem hpl)
      exact ho.trans _ _ _ hp this

theorem heapPush_heap (le : α → α → Bool) (ho : Ord le) (l : List α) (x : α) (h : Heap le l) :
    Heap le (heapPush le l x) := by
  unfold heapPush
  apply siftUp_heap le ho _ _ _ (by omega)
  constructor
  · intro i hi hil y p h1 h2
    by_cases hlt : i < l.length
    · rw [List.getElem?_append_left hlt] at h1
      rw [List.getElem?_append_left (by omega)] at h2
      exact h i hi y p h1 h2
    · have : (l ++ [x]).length ≤ i := by simp; omega
      rw [List.getElem?_eq_none this] at h1; cases h1
  · intro c y g _ hc hcp h1 _
    have : (l ++ [x]).length ≤ c := by simp; omega
    rw [List.getElem?_eq_none this] at h1; cases h1

theorem siftDown_pos_lt (le : α → α → Bool) (fuel : Nat) (l : List α) (pos : Nat)
    (hpos : pos < l.length) :
    (siftDown le fuel l pos).2 < (siftDown le fuel l pos).1.length := by
  induction fuel generalizing l pos with
  | zero => simpa [siftDown] using hpos
  | succ f ih =>
    simp only [siftDown]
    by_cases h2 : 2 * pos + 1 + 1 < l.length
    · simp only [h2, if_true]
      have ha : 2 * pos + 1 < l.length := by omega
      rw [List.getElem?_eq_getElem ha, List.getElem?_eq_getElem h2]
      simp only []
      apply ih
      rw [swap_length]; split <;> omega
    · simp only [h2, if_false]
      by_cases h3 : 2 * pos + 1 + 1 = l.length
      · simp only [h3, if_true]
        rw [swap_length]; omega
      · simp only [h3, if_false]
        exact hpos

theorem heapPop_spec [DecidableEq α] (le : α → α → Bool) (ho : Ord le) (l : List α)
    (h : Heap le l) (top : α) (rest : List α) (hp : heapPop le l = some (top, rest)) :
    Heap le rest ∧ l.Perm (top :: rest) ∧ (∀ y ∈ l, le y top = true) ∧ l[0]? = some top := by
  have hperm := heapPop_perm le l top rest hp
  unfold heapPop at hp
  cases hl : l.getLast? with
  | none => simp [hl] at hp
  | some item =>
    simp only [hl] at hp
    obtain ⟨ys, hys⟩ := List.getLast?_eq_some_iff.1 hl
    have hd : l.dropLast = ys := by rw [hys]; simp
    rw [hd] at hp
    cases ys with
    | nil =>
      simp only [Option.some.injEq, Prod.mk.injEq] at hp
      obtain ⟨h1, h2⟩ := hp
      subst h1; subst h2
      refine ⟨by intro i _ x p h1; simp at h1, hperm, ?_, by rw [hys]; simp⟩
      intro y hy
      rw [hys] at hy
      simp at hy; subst hy
      rcases ho.total y y with h' | h' <;> exact h'
    | cons t tl =>
      simp only [Option.some.injEq, Prod.mk.injEq] at hp
      obtain ⟨h1, h2⟩ := hp
      subst h1
      have ht0 : l[0]? = some t := by rw [hys]; simp
      have hmax : ∀ y ∈ l, le y t = true := by
        intro y hy
        obtain ⟨i, hi, rfl⟩ := List.getElem_of_mem hy
        exact heap_top_max le ho l h t ht0 i _ (List.getElem?_eq_getElem hi)
      refine ⟨?_, hperm, hmax, ht0⟩
      rw [← h2]
      -- the array after moving the last element to the root
      have hsame : ∀ k y, 0 < k → (item :: tl)[k]? = some y → l[k]? = some y := by
        intro k y hk hy
        cases k with
        | zero => omega
        | succ k =>
          rw [hys]
          simp only [List.getElem?_cons_succ] at hy
          have hkl : k < tl.length := (List.getElem?_eq_some_iff.1 hy).1
          rw [List.getElem?_append_left (by simp; omega)]
          simp only [List.getElem?_cons_succ]
          exact hy
      have hdown : DownInv le (item :: tl) 0 := by
        constructor
        · intro i hi _ hpi y p h1 h2'
          exact h i hi y p (hsame i y hi h1) (hsame _ p (by omega) h2')
        · intro c y g h0; omega
      have sd := siftDown_spec le ho (item :: tl).length (item :: tl) 0 (by omega) hdown
      have hup := downInv_leaf le _ _ sd.1 sd.2.1
      apply siftUp_heap le ho _ _ _ _ hup
      have := sd.2.1
      have hlen := sd.2.2
      have := siftDown_pos_lt le (item :: tl).length (item :: tl) 0 (by simp)
      omega

end TurVerif.HnswHeap
