import TurVerif.Model.DecCore
/-! Helper lemmas about the checked-read vocabulary of the C23 models. -/
namespace TurVerif.Dec

@[simp] theorem panics_ok {α : Type} (a : α) : (Res.ok a).panics = false := rfl
@[simp] theorem panics_err {α : Type} (e : String) : (Res.err e : Res α).panics = false := rfl
@[simp] theorem panics_oob {α : Type} : (Res.oob : Res α).panics = true := rfl
@[simp] theorem panics_arith {α : Type} : (Res.arith : Res α).panics = true := rfl
@[simp] theorem panics_expect {α : Type} : (Res.expect : Res α).panics = true := rfl
@[simp] theorem panics_fuel {α : Type} : (Res.fuel : Res α).panics = true := rfl

@[simp] theorem bind_ok {α β : Type} (a : α) (f : α → Res β) : (Res.ok a).bind f = f a := rfl
@[simp] theorem bind_err {α β : Type} (e : String) (f : α → Res β) : (Res.err e).bind f = .err e := rfl
@[simp] theorem bind_oob {α β : Type} (f : α → Res β) : (Res.oob).bind f = .oob := rfl

/-- sequencing preserves "does not panic" -/
theorem bind_safe {α β : Type} {r : Res α} {f : α → Res β} (h1 : r.panics = false)
    (h2 : ∀ a, r = .ok a → (f a).panics = false) : (r.bind f).panics = false := by
  cases r with
  | ok a => exact h2 a rfl
  | err e => rfl
  | oob => simp at h1
  | arith => simp at h1
  | expect => simp at h1
  | fuel => simp at h1

theorem ensure_safe (c : Bool) (e : String) : (ensure c e).panics = false := by
  unfold ensure; split <;> rfl

theorem ensure_ok {c : Bool} {e : String} {u : Unit} (h : ensure c e = .ok u) : c = true := by
  unfold ensure at h; split at h
  · assumption
  · cases h

theorem ensure_dec {p : Prop} [Decidable p] {e : String} {u : Unit}
    (h : ensure (decide p) e = .ok u) : p := of_decide_eq_true (ensure_ok h)

theorem rd_lt {b : Buf} {i : Nat} (h : i < b.len) : rd b i = .ok (b.get i) := by simp [rd, h]

theorem slice_le {b : Buf} {s e : Nat} (h1 : s ≤ e) (h2 : e ≤ b.len) :
    slice b s e = .ok (bytes b s (e - s)) := by simp [slice, h1, h2]

theorem slice_safe {b : Buf} {s e : Nat} (h1 : s ≤ e) (h2 : e ≤ b.len) :
    (slice b s e).panics = false := by rw [slice_le h1 h2]; rfl

theorem rd16_le {b : Buf} {i : Nat} (h : i + 2 ≤ b.len) :
    rd16 b i = .ok (b.get i + 256 * b.get (i + 1)) := by
  have h0 : i < b.len := by omega
  have h1 : i + 1 < b.len := by omega
  simp [rd16, rd, h0, h1]

theorem rd32_le {b : Buf} {i : Nat} (h : i + 4 ≤ b.len) : ∃ v, rd32 b i = .ok v := by
  have h0 : i < b.len := by omega
  have h1 : i + 1 < b.len := by omega
  have h2 : i + 2 < b.len := by omega
  have h3 : i + 3 < b.len := by omega
  refine ⟨b.get i + 256 * (b.get (i + 1) + 256 * (b.get (i + 2) + 256 * b.get (i + 3))), ?_⟩
  simp [rd32, rd, h0, h1, h2, h3]

theorem rd64_le {b : Buf} {i : Nat} (h : i + 8 ≤ b.len) : ∃ v, rd64 b i = .ok v := by
  obtain ⟨lo, hlo⟩ := rd32_le (b := b) (i := i) (by omega)
  obtain ⟨hi, hhi⟩ := rd32_le (b := b) (i := i + 4) (by omega)
  refine ⟨lo + 4294967296 * hi, ?_⟩
  simp [rd64, hlo, hhi]

end TurVerif.Dec
