import TurVerif.Model.Catalog
/-! Generic parser/encoder lemmas for the catalog codec (C40). -/
namespace TurVerif.Catalog

theorem take_app (a r : Bytes) : (a ++ r).take a.length = a := by
  induction a with
  | nil => simp
  | cons x a ih => simp [ih]

theorem drop_app (a r : Bytes) : (a ++ r).drop a.length = r := by
  induction a with
  | nil => simp
  | cons x a ih => simp [ih]

theorem length_le (w : Nat) : ∀ n, (le n w).length = w := by
  induction w with
  | zero => intro n; rfl
  | succ w ih => intro n; simp [le, ih]

theorem leVal_le (w : Nat) : ∀ n, n < 256 ^ w → leVal (le n w) = n := by
  induction w with
  | zero => intro n h; simp at h; simp [le, leVal, h]
  | succ w ih =>
    intro n h
    have h2 : n / 256 < 256 ^ w := by
      rw [Nat.pow_succ] at h
      exact Nat.div_lt_of_lt_mul (by rw [Nat.mul_comm]; exact h)
    simp only [le, leVal, ih _ h2]
    omega

theorem rdN_app (a r : Bytes) : rdN a.length (a ++ r) = some (a, r) := by
  simp [rdN, take_app, drop_app]

theorem rdLe_le (w n : Nat) (r : Bytes) (h : n < 256 ^ w) : rdLe w (le n w ++ r) = some (n, r) := by
  have := rdN_app (le n w) r
  rw [length_le] at this
  simp [rdLe, this, leVal_le w n h]

theorem rdStr_enc (s r : Bytes) (h : s.length < 65536) : rdStr (encStr s ++ r) = some (s, r) := by
  have h2 : s.length < 256 ^ 2 := by simpa using h
  simp [rdStr, encStr, List.append_assoc, rdLe_le 2 s.length (s ++ r) h2, rdN_app]

theorem rdMany_flatMap {α : Type} (rd : Bytes → Option (α × Bytes)) (enc : α → Bytes) (xs : List α)
    (h : ∀ x ∈ xs, ∀ r, rd (enc x ++ r) = some (x, r)) (r : Bytes) :
    rdMany rd xs.length (xs.flatMap enc ++ r) = some (xs, r) := by
  induction xs with
  | nil => simp [rdMany]
  | cons x xs ih =>
    have hx := h x (by simp) (xs.flatMap enc ++ r)
    have ih' := ih (fun y hy => h y (by simp [hy]))
    simp [rdMany, List.flatMap_cons, List.append_assoc, hx, ih']

end TurVerif.Catalog
