import TurVerif.Lemmas.LexerScanA
open TurVerif.Lexer
/- C22 helper lemmas: quoted and dollar-quoted scanners. -/
namespace TurVerif.LexerLemmas
theorem quoteLoop_spec (bs : Bytes) (q : Nat) : ∀ n pos, bs.size - pos ≤ n → pos ≤ bs.size →
    ∃ r, quoteLoop bs q pos = .ok r ∧ ∀ e, r = some e → pos ≤ e ∧ e < bs.size ∧ B bs e = q := by
  intro n
  induction n with
  | zero =>
    intro pos hn h
    have : ¬ pos < bs.size := by omega
    refine ⟨none, ?_, ?_⟩
    · rw [quoteLoop]; simp [this]
    · intro e he; cases he
  | succ n ih =>
    intro pos hn h
    by_cases hlt : pos < bs.size
    · rw [quoteLoop]
      simp only [hlt, dite_true, rd_lt hlt]
      by_cases hq : B bs pos = q
      · simp only [hq, beq_self_eq_true, if_true]
        by_cases h1 : pos + 1 < bs.size
        · simp only [peek_lt h1]
          by_cases hq2 : B bs (pos + 1) = q
          · simp only [hq2, beq_self_eq_true, if_true]
            obtain ⟨r, hr, hs⟩ := ih (pos + 2) (by omega) (by omega)
            refine ⟨r, hr, ?_⟩
            intro e he; have := hs e he; omega
          · have : (some (B bs (pos + 1)) == some q) = false := by simp [hq2]
            simp only [this]
            refine ⟨some pos, by simp, ?_⟩
            intro e he; cases he; exact ⟨Nat.le_refl _, hlt, hq⟩
        · simp only [peek_ge (by omega : bs.size ≤ pos + 1)]
          refine ⟨some pos, by simp, ?_⟩
          intro e he; cases he; exact ⟨Nat.le_refl _, hlt, hq⟩
      · have : (B bs pos == q) = false := by simp [hq]
        simp only [this]
        obtain ⟨r, hr, hs⟩ := ih (pos + 1) (by omega) (by omega)
        refine ⟨r, by simpa using hr, ?_⟩
        intro e he; have := hs e he; omega
    · refine ⟨none, ?_, ?_⟩
      · rw [quoteLoop]; simp [hlt]
      · intro e he; cases he

theorem scanQuoted_post {bs : Bytes} (hwf : WF bs) (q : Nat) (k : Kind) (msg : String) {start : Nat}
    (h : start < bs.size) (ha : B bs start < 128) (hq : q < 128) : Post bs start (scanQuoted bs q k msg start) := by
  unfold scanQuoted
  simp only [adv_lt h]
  obtain ⟨r, hr, hs⟩ := quoteLoop_spec bs q _ (start + 1) (Nat.le_refl _) (by omega)
  simp only [hr]
  cases r with
  | none => exact Post_mk _ (by omega) (Nat.le_refl _)
  | some e =>
    obtain ⟨h1, h2, h3⟩ := hs e rfl
    simp only [adv_lt h2]
    exact Post_mkS hwf _ (by omega) (by omega) h1 (by omega) (good_after h ha) (good_at h2 (by omega))

theorem le_advN (bs : Bytes) : ∀ n pos, pos ≤ advN bs n pos := by
  intro n
  induction n with
  | zero => intro pos; exact Nat.le_refl _
  | succ n ih => intro pos; exact Nat.le_trans (le_adv bs pos) (ih _)

theorem advN_le (bs : Bytes) : ∀ n pos, pos ≤ bs.size → advN bs n pos ≤ bs.size := by
  intro n
  induction n with
  | zero => intro pos h; exact h
  | succ n ih => intro pos h; exact ih _ (adv_le bs pos h)

theorem advN_succ_lt (bs : Bytes) (n pos : Nat) (h : pos < bs.size) : pos < advN bs (n + 1) pos := by
  show pos < advN bs n (adv bs pos)
  have := le_advN bs n (adv bs pos)
  rw [adv_lt h] at this ⊢
  omega

theorem dollarLoop_spec {bs : Bytes} (hwf : WF bs) (tag : List Nat) : ∀ n pos, bs.size - pos ≤ n → pos ≤ bs.size →
    ∃ r, dollarLoop bs tag pos = .ok r ∧ ∀ e, r = some e → pos ≤ e ∧ e < bs.size ∧ B bs e = 36 := by
  intro n
  induction n with
  | zero =>
    intro pos hn h
    have : ¬ pos < bs.size := by omega
    refine ⟨none, ?_, ?_⟩
    · rw [dollarLoop]; simp [this]
    · intro e he; cases he
  | succ n ih =>
    intro pos hn h
    by_cases hlt : pos < bs.size
    · rw [dollarLoop]
      simp only [hlt, dite_true, rd_lt hlt]
      obtain ⟨r, hr, hs⟩ := ih (pos + 1) (by omega) (by omega)
      by_cases hd : B bs pos = 36
      · have hso : sliceOk bs pos bs.size = true := by
          have g1 := boundary_of_good hwf (by omega) (good_at hlt (by omega : B bs pos < 128))
          have g2 : isBoundary bs bs.size = true := boundary_of_good hwf (Nat.le_refl _) (Or.inr (Or.inl rfl))
          simp [sliceOk, g1, g2]; omega
        simp only [hd, beq_self_eq_true, if_true, hso]
        split
        · refine ⟨some pos, rfl, ?_⟩
          intro e he; cases he; exact ⟨Nat.le_refl _, hlt, hd⟩
        · refine ⟨r, hr, ?_⟩
          intro e he; have := hs e he; omega
      · have : (B bs pos == 36) = false := by simp [hd]
        simp only [this]
        refine ⟨r, by simpa using hr, ?_⟩
        intro e he; have := hs e he; omega
    · refine ⟨none, ?_, ?_⟩
      · rw [dollarLoop]; simp [hlt]
      · intro e he; cases he

theorem scanDollarString_post {bs : Bytes} (hwf : WF bs) (inner : List Nat) {start pos : Nat}
    (hsp : start ≤ pos) (h : pos < bs.size) (hd : B bs pos = 36) :
    Post bs start (scanDollarString bs inner start pos) := by
  unfold scanDollarString
  simp only [adv_lt h]
  obtain ⟨r, hr, hs⟩ := dollarLoop_spec hwf (36 :: (inner ++ [36])) _ (pos + 1) (Nat.le_refl _) (by omega)
  simp only [hr]
  cases r with
  | none => exact Post_mk _ (by omega) (Nat.le_refl _)
  | some e =>
    obtain ⟨h1, h2, h3⟩ := hs e rfl
    simp only []
    have hlen : (36 :: (inner ++ [36])).length = (inner ++ [36]).length + 1 := rfl
    rw [hlen]
    have hl := advN_succ_lt bs (inner ++ [36]).length e h2
    have hu := advN_le bs ((inner ++ [36]).length + 1) e (by omega)
    exact Post_mkS hwf _ (by omega) hu h1 (by omega) (good_after h (by omega)) (good_at h2 (by omega))

theorem scanDollar_post {bs : Bytes} (hwf : WF bs) {start : Nat} (h : start < bs.size) (hd : B bs start = 36) :
    Post bs start (scanDollar bs start) := by
  unfold scanDollar
  simp only [adv_lt h]
  by_cases hge : start + 1 ≥ bs.size
  · rw [if_pos hge]; exact Post_mk _ (by omega) (by omega)
  · rw [if_neg hge]
    have h1 : start + 1 < bs.size := by omega
    simp only [rd_lt h1]
    have g1 : Good bs (start + 1) := good_after h (by omega)
    split
    · -- digits
      obtain ⟨e, hsw, h2, h3, h4, h5⟩ := scanWhile_spec bs isDigit (start + 1) (by omega)
      simp only [hsw]
      rename_i hdg
      have hne : start + 1 < e := by
        by_cases hh : e = start + 1
        · exfalso
          have := h5 (by omega); rw [hh] at this; rw [this] at hdg; cases hdg
        · omega
      have hso : sliceOk bs (start + 1) e = true := by
        have b1 := boundary_of_good hwf (by omega) g1
        have b2 := boundary_of_good hwf h3 (good_scan (fun c => isDigit_lt) h3 h2 h4 g1)
        simp [sliceOk, b1, b2]; omega
      simp only [hso, if_true]
      split
      · exact Post_mk _ (by omega) h3
      · exact Post_mk _ (by omega) h3
    · split
      · rename_i hc
        exact scanDollarString_post hwf [] (by omega) h1 (by simpa using hc)
      · split
        · obtain ⟨e, hsw, h2, h3, h4, _⟩ := scanWhile_spec bs isIdentChar (start + 1) (by omega)
          simp only [hsw]
          rcases curSat_cases bs e (fun c => c == 36) with ⟨hc, hlt, hp⟩ | ⟨hc, _⟩
          · simp only [hc]
            have hso : sliceOk bs (start + 1) e = true := by
              have b1 := boundary_of_good hwf (by omega) g1
              have b2 := boundary_of_good hwf h3 (good_scan (fun c => isIdentChar_lt) h3 h2 h4 g1)
              simp [sliceOk, b1, b2]; omega
            simp only [hso, if_true]
            exact scanDollarString_post hwf _ (by omega) hlt (by simpa using hp)
          · simp only [hc]
            exact Post_mk _ (by omega) h3
        · exact Post_mk _ (by omega) (by omega)

end TurVerif.LexerLemmas
