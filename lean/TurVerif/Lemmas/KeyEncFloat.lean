import TurVerif.Lemmas.KeyEncScalar
/-! C26: floats and vectors. -/
namespace TurVerif.KeyEnc

theorem cmpInt_lt {p q : Int} (h : p < q) : cmpInt p q = .lt := by simp [cmpInt, h]
theorem cmpInt_gt {p q : Int} (h : q < p) : cmpInt p q = .gt := by
  have h1 : ¬ p < q := by omega
  have h2 : ¬ p = q := by omega
  simp [cmpInt, h1, h2]

/-- the f64 encoder in terms of the signed-magnitude position of a non-NaN pattern -/
def fencP (p : Int) : List Nat :=
  if p = -9218868437227405312 then [0x10]
  else if p = 9218868437227405312 then [0x18]
  else if p < 0 then 0x13 :: be 8 (p + 9223372036854775807).toNat
  else if p = 0 then [0x14]
  else 0x15 :: be 8 (p + 9223372036854775808).toNat

theorem fpos_bounds (x : Nat) (hx : x < 18446744073709551616)
    (hn : ¬ x % 9223372036854775808 > 9218868437227405312) :
    -9218868437227405312 ≤ fpos 9223372036854775808 x ∧ fpos 9223372036854775808 x ≤ 9218868437227405312 := by
  unfold fpos; split <;> omega

theorem enc_float_nonnan (x : Nat) (hx : x < 18446744073709551616)
    (hn : ¬ x % 9223372036854775808 > 9218868437227405312) :
    enc (.float x) = fencP (fpos 9223372036854775808 x) := by
  simp only [enc, isNan64, decide_eq_true_eq, hn, if_false, Bool.false_eq_true]
  unfold fencP fpos flipTop
  by_cases h1 : x = 18442240474082181120
  · subst h1; simp
  · by_cases h2 : x = 9218868437227405312
    · subst h2; simp
    · simp only [h1, h2, if_false]
      by_cases h3 : x > 9223372036854775808
      · have e1 : ¬ x < 9223372036854775808 := by omega
        simp only [h3, if_true, e1, if_false]
        have e2 : ¬ (-((x - 9223372036854775808 : Nat) : Int) = -9218868437227405312) := by omega
        have e3 : ¬ (-((x - 9223372036854775808 : Nat) : Int) = 9218868437227405312) := by omega
        have e4 : (-((x - 9223372036854775808 : Nat) : Int) < 0) := by omega
        simp only [e2, e3, e4, if_false, if_true]
        have e5 : 18446744073709551615 - x
            = (-((x - 9223372036854775808 : Nat) : Int) + 9223372036854775807).toNat := by omega
        rw [e5]
      · simp only [h3, if_false]
        by_cases h4 : x % 9223372036854775808 = 0
        · have : x = 0 ∨ x = 9223372036854775808 := by omega
          rcases this with h | h <;> subst h <;> simp
        · have e1 : x < 9223372036854775808 := by omega
          simp only [h4, if_false, e1, if_true]
          have e2 : ¬ ((x : Int) = -9218868437227405312) := by omega
          have e3 : ¬ ((x : Int) = 9218868437227405312) := by omega
          have e4 : ¬ ((x : Int) < 0) := by omega
          have e5 : ¬ ((x : Int) = 0) := by omega
          simp only [e2, e3, e4, e5, if_false]
          have e6 : x + 9223372036854775808 = ((x : Int) + 9223372036854775808).toNat := by omega
          rw [e6]

theorem fencP_cmp (p q : Int) (r1 r2 : List Nat)
    (hp : -9218868437227405312 ≤ p ∧ p ≤ 9218868437227405312)
    (hq : -9218868437227405312 ≤ q ∧ q ≤ 9218868437227405312) :
    lexCmp (fencP p ++ r1) (fencP q ++ r2) = (cmpInt p q).then (lexCmp r1 r2) := by
  unfold fencP
  split
  · split
    · subst_vars; simp
    · rw [cmpInt_lt (by omega)]; (repeat' split) <;> simp [cmpNat]
  · split
    · split
      · rw [cmpInt_gt (by omega)]; simp [cmpNat]
      · split
        · subst_vars; simp
        · rw [cmpInt_gt (by omega)]; (repeat' split) <;> simp [cmpNat]
    · split
      · split
        · rw [cmpInt_gt (by omega)]; simp [cmpNat]
        · split
          · rw [cmpInt_lt (by omega)]; simp [cmpNat]
          · split
            · simp only [List.cons_append, lexCmp_cons_cons, cmpNat_self, then_eq']
              rw [be_cmp 8 _ _ _ _ (by rw [p8]; omega) (by rw [p8]; omega),
                cmpNat_shift _ _ _ (by omega) (by omega)]
            · rw [cmpInt_lt (by omega)]; (repeat' split) <;> simp [cmpNat]
      · split
        · split
          · rw [cmpInt_gt (by omega)]; simp [cmpNat]
          · split
            · rw [cmpInt_lt (by omega)]; simp [cmpNat]
            · split
              · rw [cmpInt_gt (by omega)]; simp [cmpNat]
              · split
                · subst_vars; simp
                · rw [cmpInt_lt (by omega)]; simp [cmpNat]
        · split
          · rw [cmpInt_gt (by omega)]; simp [cmpNat]
          · split
            · rw [cmpInt_lt (by omega)]; simp [cmpNat]
            · split
              · rw [cmpInt_gt (by omega)]; simp [cmpNat]
              · split
                · rw [cmpInt_gt (by omega)]; simp [cmpNat]
                · simp only [List.cons_append, lexCmp_cons_cons, cmpNat_self, then_eq']
                  rw [be_cmp 8 _ _ _ _ (by rw [p8]; omega) (by rw [p8]; omega),
                    cmpNat_shift _ _ _ (by omega) (by omega)]

theorem enc_float_nan (x : Nat) (hn : x % 9223372036854775808 > 9218868437227405312) :
    enc (.float x) = [0x19] := by
  simp [enc, isNan64, hn]

theorem fencP_head_lt (p : Int) (r1 r2 : List Nat) : lexCmp (fencP p ++ r1) (0x19 :: r2) = .lt := by
  unfold fencP; (repeat' split) <;> simp [cmpNat]
theorem fencP_head_gt (p : Int) (r1 r2 : List Nat) : lexCmp (0x19 :: r2) (fencP p ++ r1) = .gt := by
  unfold fencP; (repeat' split) <;> simp [cmpNat]

theorem float_float (x y : Nat) (ha : x < 18446744073709551616) (hb : y < 18446744073709551616)
    (r1 r2 : List Nat) :
    lexCmp (enc (.float x) ++ r1) (enc (.float y) ++ r2) = (fcmp64 x y).then (lexCmp r1 r2) := by
  unfold fcmp64 isNan64
  by_cases hx : x % 9223372036854775808 > 9218868437227405312
  · by_cases hy : y % 9223372036854775808 > 9218868437227405312
    · rw [enc_float_nan x hx, enc_float_nan y hy]
      simp only [hx, hy, decide_true, if_true]
      simp
    · rw [enc_float_nan x hx, enc_float_nonnan y hb hy]
      simp only [hx, hy, decide_true, decide_false, if_true, Bool.false_eq_true, if_false, then_gt']
      exact fencP_head_gt _ _ _
  · by_cases hy : y % 9223372036854775808 > 9218868437227405312
    · rw [enc_float_nan y hy, enc_float_nonnan x ha hx]
      simp only [hx, hy, decide_true, decide_false, if_true, Bool.false_eq_true, if_false, then_lt']
      exact fencP_head_lt _ _ _
    · rw [enc_float_nonnan x ha hx, enc_float_nonnan y hb hy]
      simp only [hx, hy, decide_false, Bool.false_eq_true, if_false]
      exact fencP_cmp _ _ _ _ (fpos_bounds x ha hx) (fpos_bounds y hb hy)

theorem enc_rank_float (x : Nat) : ∃ t, enc (.float x) = rank (.float x) :: t := by
  by_cases h1 : isNan64 x = true
  · simp only [enc, rank, h1, if_true]; exact ⟨_, rfl⟩
  · by_cases h2 : x = 18442240474082181120
    · simp only [enc, rank, h1, h2, if_true, Bool.false_eq_true, if_false]; exact ⟨_, rfl⟩
    · by_cases h3 : x = 9218868437227405312
      · simp only [enc, rank, h1, h2, h3, if_true, Bool.false_eq_true, if_false]; exact ⟨_, rfl⟩
      · by_cases h4 : x > 9223372036854775808
        · simp only [enc, rank, h1, h2, h3, h4, if_true, Bool.false_eq_true, if_false]; exact ⟨_, rfl⟩
        · by_cases h5 : x % 9223372036854775808 = 0
          · simp only [enc, rank, h1, h2, h3, h4, h5, if_true, Bool.false_eq_true, if_false]
            exact ⟨_, rfl⟩
          · simp only [enc, rank, h1, h2, h3, h4, h5, if_true, Bool.false_eq_true, if_false]
            exact ⟨_, rfl⟩

theorem enc_rank_int (n : Int) : ∃ t, enc (.int n) = rank (.int n) :: t := by
  by_cases h1 : n < 0
  · simp only [enc, rank, h1, if_true]; exact ⟨_, rfl⟩
  · by_cases h2 : n = 0
    · simp only [enc, rank, h1, h2, if_true, if_false]; exact ⟨_, rfl⟩
    · simp only [enc, rank, h1, h2, if_false]; exact ⟨_, rfl⟩

/-- every encoding starts with the documented type-prefix byte of its value -/
theorem enc_rank (v : KVal) : ∃ t, enc v = rank v :: t := by
  cases v
  case float x => exact enc_rank_float x
  case int n => exact enc_rank_int n
  case bool b => cases b <;> exact ⟨_, rfl⟩
  all_goals (simp only [enc, rank]; exact ⟨_, rfl⟩)

/-- values of different rank are ordered by the rank byte alone -/
theorem head_decides (a b : KVal) (h : rank a ≠ rank b) (r1 r2 : List Nat) :
    lexCmp (enc a ++ r1) (enc b ++ r2) = (cmpNat (rank a) (rank b)).then (lexCmp r1 r2) := by
  obtain ⟨t1, e1⟩ := enc_rank a
  obtain ⟨t2, e2⟩ := enc_rank b
  rw [e1, e2]
  simp only [List.cons_append, lexCmp_cons_cons]
  have : cmpNat (rank a) (rank b) ≠ .eq := fun e => h (cmpNat_eq_iff.mp e)
  cases hc : cmpNat (rank a) (rank b) <;> simp_all

theorem rank_float_range (x : Nat) : 0x10 ≤ rank (.float x) ∧ rank (.float x) ≤ 0x19 ∧
    rank (.float x) ≠ 0x12 ∧ rank (.float x) ≠ 0x16 := by
  simp only [rank]; (repeat' split) <;> simp

theorem rank_float_zero (x : Nat) (h : rank (.float x) = 0x14) : enc (.float x) = [0x14] := by
  obtain ⟨t, e⟩ := enc_rank_float x
  simp only [rank] at h
  simp only [enc]
  (repeat' split) <;> simp_all

theorem ok_float (x : Nat) (b : KVal) (ha : wf (.float x) = true) (hb : wf b = true) :
    Ok (.float x) b := by
  have hr := rank_float_range x
  cases b
  case float y =>
    intro r1 r2
    simp only [wf, decide_eq_true_eq] at ha hb
    simp only [cmpVal]
    exact float_float x y ha hb r1 r2
  case int n =>
    intro r1 r2
    simp only [cmpVal]
    by_cases h : rank (.float x) = rank (.int n)
    · have hn : n = 0 := by
        simp only [rank] at h hr ⊢
        by_cases h1 : n < 0
        · simp only [h1, if_true] at h; omega
        · by_cases h2 : n = 0
          · exact h2
          · simp only [h1, h2, if_false] at h; omega
      subst hn
      have h14 : rank (.float x) = 0x14 := by rw [h]; simp [rank]
      rw [rank_float_zero x h14, h14]
      simp [enc, rank]
    · exact head_decides _ _ h r1 r2
  all_goals
    intro r1 r2
    simp only [cmpVal]
    refine head_decides _ _ ?_ r1 r2
    generalize rank (.float x) = k at hr ⊢
    simp only [rank]
    first | omega | (split <;> omega)

end TurVerif.KeyEnc
