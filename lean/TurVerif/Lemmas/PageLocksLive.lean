import TurVerif.Lemmas.PageLocksInv
/-!
C36, progress side: no deadlock (a non-quiescent reachable state always has an enabled step), every
enabled step decreases a work measure, hence every reachable state can be driven to quiescence.
Needs one more (simple) invariant: a thread at `cleanup p e` refers to an existing entry.
-/
namespace TurVerif.PageLocks

/-- a thread at `cleanup p e` refers to an existing entry -/
def EValid (s : State) : Prop :=
  ∀ t ∈ s.threads, ∀ p e, t.pc = .cleanup p e → e < s.entries.length

theorem evalid_setThread {s : State} {tid : Nat} {t' : Thread} (h : EValid s)
    (hn : ∀ p e, t'.pc = .cleanup p e → e < s.entries.length) : EValid (setThread s tid t') := by
  intro t ht p e hp
  rcases List.mem_or_eq_of_mem_set ht with ht | ht
  · exact h t ht p e hp
  · subst ht; exact hn p e hp

theorem evalid_modEntry {s : State} {e : Nat} {f : Entry → Entry} (h : EValid s) :
    EValid (modEntry s e f) := by
  intro t ht p e' hp
  simp only [modEntry, List.length_modify]
  exact h t ht p e' hp

theorem evalid_map {s : State} (m : List (Nat × Nat)) (h : EValid s) :
    EValid { s with map := m } := h

theorem evalid_append {s : State} (m : List (Nat × Nat)) (x : Entry) (h : EValid s) :
    EValid { s with entries := s.entries ++ [x], map := m } := by
  intro t ht p e hp
  have := h t ht p e hp
  simp only [List.length_append, List.length_cons, List.length_nil]
  omega

theorem lt_of_getElem?_some {ents : List Entry} {e : Nat} {en : Entry} (h : ents[e]? = some en) :
    e < ents.length := by
  rcases Nat.lt_or_ge e ents.length with hl | hl
  · exact hl
  · rw [List.getElem?_eq_none hl] at h; cases h

theorem evalid_step {s s' : State} {tid : Nat} (h : EValid s) (hs : step s tid = some s') :
    EValid s' := by
  unfold step at hs
  repeat' (first | split at hs | (dsimp only at hs; split at hs))
  all_goals first
    | (cases hs; done)
    | (injection hs with hs; subst hs
       first
        | (refine evalid_setThread (evalid_modEntry h) ?_
           intro p e hp
           simp only [Pc.cleanup.injEq] at hp
           simp only [modEntry, List.length_modify]
           rw [← hp.2]
           exact lt_of_getElem?_some (by assumption))
        | exact evalid_setThread h (fun p e hp => nomatch hp)
        | exact evalid_setThread (evalid_modEntry h) (fun p e hp => nomatch hp)
        | exact evalid_setThread (evalid_append _ _ h) (fun p e hp => nomatch hp)
        | exact evalid_setThread (evalid_map _ h) (fun p e hp => nomatch hp))

theorem evalid_init (fixed : Bool) (progs : List (List Op)) : EValid (init fixed progs) := by
  intro t ht p e hp
  simp only [init, List.mem_map] at ht
  obtain ⟨pr, _, rfl⟩ := ht
  cases hp

theorem evalid_run {s : State} (h : EValid s) (sched : List Nat) : EValid (run s sched) := by
  induction sched generalizing s with
  | nil => exact h
  | cons tid rest ih =>
    simp only [run]
    cases hs : step s tid with
    | none => simpa using ih h
    | some s' => exact ih (evalid_step h hs)

/-! ### work measure -/

def pcRank : Pc → Nat
  | .idle => 0
  | .getOrCreate .. => 6
  | .acquire .. => 5
  | .waiting .. => 4
  | .held .. => 3
  | .release .. => 2
  | .cleanup .. => 1

/-- remaining work of one thread: 7 steps per remaining operation, plus the rest of the current one -/
def threadWork (t : Thread) : Nat := 7 * t.prog.length + pcRank t.pc

/-- remaining work of the system (an upper bound on the number of steps still possible) -/
def workLeft (s : State) : Nat := (s.threads.map threadWork).sum

theorem sum_map_set {α : Type} (f : α → Nat) {l : List α} {i : Nat} {old new : α}
    (h : l[i]? = some old) :
    ((l.set i new).map f).sum + f old = (l.map f).sum + f new := by
  induction l generalizing i with
  | nil => simp at h
  | cons x l ih =>
    cases i with
    | zero =>
      simp only [List.getElem?_cons_zero, Option.some.injEq] at h
      subst h
      simp only [List.set_cons_zero, List.map_cons, List.sum_cons]
      omega
    | succ i =>
      simp only [List.getElem?_cons_succ] at h
      have := ih h
      simp only [List.set_cons_succ, List.map_cons, List.sum_cons]
      omega

/-- one step replaces one thread by a thread with strictly less remaining work -/
theorem step_thread_effect {s s' : State} {tid : Nat} (hs : step s tid = some s') :
    ∃ t t', s.threads[tid]? = some t ∧ s'.threads = s.threads.set tid t' ∧
      threadWork t' < threadWork t := by
  unfold step at hs
  repeat' (first | split at hs | (dsimp only at hs; split at hs))
  all_goals first
    | (cases hs; done)
    | (injection hs with hs; subst hs
       refine ⟨_, _, by assumption, rfl, ?_⟩
       simp only [threadWork, pcRank, *, List.length_cons]
       omega)

theorem step_decreases_work {s s' : State} {tid : Nat} (hs : step s tid = some s') :
    workLeft s' < workLeft s := by
  obtain ⟨t, t', ht, hth, hlt⟩ := step_thread_effect hs
  have := sum_map_set threadWork (new := t') ht
  unfold workLeft
  rw [hth]
  omega

/-! ### progress -/

/-- the thread has finished its program -/
def Thread.done (t : Thread) : Prop := t.pc = .idle ∧ t.prog = []

theorem isSome_ite {α : Type} (c : Prop) [Decidable c] (a b : α) :
    (if c then some a else some b).isSome = true := by split <;> rfl

/-- a thread that is neither finished nor parked in a lock queue always has an enabled step -/
theorem enabled_of_not_waiting {s : State} (h : Inv s) (hv : EValid s) {tid : Nat} {t : Thread}
    (ht : s.threads[tid]? = some t) (hnw : ∀ p e w, t.pc ≠ .waiting p e w) (hnd : ¬ t.done) :
    (step s tid).isSome = true := by
  unfold step
  simp only [ht]
  cases hpc : t.pc with
  | idle =>
    simp only
    cases hpr : t.prog with
    | nil => exact (hnd ⟨hpc, hpr⟩).elim
    | cons op rest => cases op <;> rfl
  | getOrCreate p w => simp only; split <;> rfl
  | acquire p e w =>
    obtain ⟨en, he⟩ := entry_of_stake h ht (p := p) (e := e) (by simp [hpc])
    simp only [he]
    cases w <;> simp only [Bool.false_eq_true, if_false, if_true] <;> split <;> rfl
  | waiting p e w => exact (hnw p e w hpc).elim
  | held p e w => rfl
  | release p e =>
    obtain ⟨en, he⟩ := entry_of_stake h ht (p := p) (e := e) (by simp [hpc])
    simp only [he]
    split <;> rfl
  | cleanup p e =>
    have hlt := hv t (List.mem_of_getElem? ht) p e hpc
    simp only [List.getElem?_eq_getElem hlt]
    exact isSome_ite _ _ _

/-- a parked thread is granted the lock when nobody holds any lock on its entry -/
theorem enabled_of_no_holder {s : State} (h : Inv s) {tid : Nat} {t : Thread} {p e : Nat} {w : Bool}
    (ht : s.threads[tid]? = some t) (hpc : t.pc = .waiting p e w)
    (hno : ∀ t' ∈ s.threads, ∀ p' e' w', t'.pc ≠ .held p' e' w') :
    (step s tid).isSome = true := by
  obtain ⟨en, he⟩ := entry_of_stake h ht (p := p) (e := e) (by simp [hpc])
  have o := h.en e en he
  have hwz : s.threads.countP (fun t => heldW e t.pc) = 0 := by
    rw [List.countP_eq_zero]
    intro t' ht' hf
    cases hq : t'.pc <;> simp [hq] at hf
    exact hno t' ht' _ _ _ hq
  have hrz : s.threads.countP (fun t => heldR e t.pc) = 0 := by
    rw [List.countP_eq_zero]
    intro t' ht' hf
    cases hq : t'.pc <;> simp [hq] at hf
    exact hno t' ht' _ _ _ hq
  have hw : en.writer = false := by
    have := o.wr
    rw [hwz] at this
    cases hx : en.writer
    · rfl
    · rw [hx] at this; simp at this
  have hr : en.readers = 0 := by rw [← o.rd, hrz]
  unfold step
  simp only [ht, hpc, he]
  cases w <;> simp [hw, hr]

/-- NO DEADLOCK: a state satisfying the invariants in which some thread has not finished has an
enabled step -/
theorem progress_of_inv {s : State} (h : Inv s) (hv : EValid s) (hq : quiescent s = false) :
    ∃ tid, (step s tid).isSome = true := by
  by_cases hA : ∃ (tid : Nat) (t : Thread), s.threads[tid]? = some t ∧ (∀ p e w, t.pc ≠ .waiting p e w) ∧ ¬ t.done
  · obtain ⟨tid, t, ht, hnw, hnd⟩ := hA
    exact ⟨tid, enabled_of_not_waiting h hv ht hnw hnd⟩
  · -- every thread is finished or parked; nobody holds a lock
    have hall : ∀ t ∈ s.threads, t.done ∨ ∃ p e w, t.pc = .waiting p e w := by
      intro t ht
      obtain ⟨j, hj, hjt⟩ := List.getElem_of_mem ht
      have hj' : s.threads[j]? = some t := by rw [List.getElem?_eq_getElem hj, hjt]
      by_cases hd : t.done
      · exact Or.inl hd
      · refine Or.inr ?_
        apply Classical.byContradiction
        intro hc
        exact hA ⟨j, t, hj', fun p e w hp => hc ⟨p, e, w, hp⟩, hd⟩
    have hno : ∀ t' ∈ s.threads, ∀ p' e' w', t'.pc ≠ .held p' e' w' := by
      intro t' ht' p' e' w' hp
      rcases hall t' ht' with hd | ⟨p, e, w, hw⟩
      · rw [hd.1] at hp; cases hp
      · rw [hw] at hp; cases hp
    have hex : ∃ t ∈ s.threads, ¬ t.done := by
      apply Classical.byContradiction
      intro hc
      have : quiescent s = true := by
        unfold quiescent
        rw [List.all_eq_true]
        intro t ht
        have hd : t.done := Classical.byContradiction (fun hn => hc ⟨t, ht, hn⟩)
        simp [hd.1, hd.2]
      rw [this] at hq; cases hq
    obtain ⟨t, ht, hnd⟩ := hex
    rcases hall t ht with hd | ⟨p, e, w, hw⟩
    · exact (hnd hd).elim
    · obtain ⟨j, hj, hjt⟩ := List.getElem_of_mem ht
      have hj' : s.threads[j]? = some t := by rw [List.getElem?_eq_getElem hj, hjt]
      exact ⟨j, enabled_of_no_holder h hj' hw hno⟩

theorem run_append (s : State) (a b : List Nat) : run s (a ++ b) = run (run s a) b := by
  induction a generalizing s with
  | nil => rfl
  | cons x a ih => simp only [List.cons_append, run]; exact ih _

/-- from any state satisfying the invariants there is a schedule (of at most `workLeft s` steps, all
of them enabled) to a quiescent state -/
theorem completes_of_inv (n : Nat) : ∀ {s : State}, Inv s → EValid s → workLeft s ≤ n →
    ∃ sched, quiescent (run s sched) = true ∧ sched.length ≤ workLeft s := by
  induction n with
  | zero =>
    intro s h hv hn
    cases hq : quiescent s with
    | true => exact ⟨[], hq, Nat.zero_le _⟩
    | false =>
      obtain ⟨tid, hs⟩ := progress_of_inv h hv hq
      cases hs' : step s tid with
      | none => rw [hs'] at hs; cases hs
      | some s' => have := step_decreases_work hs'; omega
  | succ n ih =>
    intro s h hv hn
    cases hq : quiescent s with
    | true => exact ⟨[], hq, Nat.zero_le _⟩
    | false =>
      obtain ⟨tid, hs⟩ := progress_of_inv h hv hq
      cases hs' : step s tid with
      | none => rw [hs'] at hs; cases hs
      | some s' =>
        have hd := step_decreases_work hs'
        obtain ⟨sched, h1, h2⟩ := ih (inv_step h hs') (evalid_step hv hs') (by omega)
        refine ⟨tid :: sched, ?_, ?_⟩
        · simp only [run, hs', Option.getD_some]; exact h1
        · simp only [List.length_cons]; omega

end TurVerif.PageLocks
