import TurVerif.Lemmas.GroupCommitInv
/-!
C37, progress side: no lost wake-up (a committer blocked on the condition variable always has a
thread that will still run `notify_all`), no deadlock, a work measure that every enabled step
decreases (a `clear` step pays for all the threads it wakes up), hence every reachable state can be
driven to quiescence.
-/
namespace TurVerif.GroupCommit

/-! ### no lost wake-up -/

/-- the thread will still reach `notify_all`: it owns a batch, or it is about to call
`take_pending` -/
def willNotify : Pc → Bool
  | .take => true
  | .write _ => true
  | .mark _ _ => true
  | .clear _ _ => true
  | _ => false

theorem isOwner_willNotify {pc : Pc} (h : isOwner pc = true) : willNotify pc = true := by
  cases pc <;> first | rfl | cases h

/-- a blocked committer's commit is pending with a flush in progress, or is in a batch whose owner
has not yet run `notify_all` -/
theorem blocked_cases {s : State} (i : Inv s) {a : Nat} (ha : pcAt s a = some .condWait) :
    (a ∈ s.pending ∧ s.flushInProgress = true) ∨
    (∃ j b, pcAt s j = some (.write b) ∧ a ∈ b) ∨
    (∃ j b ok, pcAt s j = some (.mark b ok) ∧ a ∈ b) ∨
    (∃ j b ok, pcAt s j = some (.clear b ok) ∧ a ∈ b) := by
  have z := i.z a (Or.inr ha)
  have w1 := i.w1 a ha
  have w2 := i.w2 a ha
  cases hc : comp s a with
  | true => exact Or.inr (Or.inr (Or.inr (w2 hc)))
  | false =>
    rcases z hc with h | h | h
    · exact Or.inl ⟨h, w1 h⟩
    · exact Or.inr (Or.inl h)
    · exact Or.inr (Or.inr (Or.inl h))

theorem no_lost_wakeup_of_inv {s : State} (i : Inv s) {a : Nat} (ha : pcAt s a = some .condWait) :
    ∃ j pc, j ≠ a ∧ pcAt s j = some pc ∧ willNotify pc = true := by
  have key : ∃ j pc, pcAt s j = some pc ∧ willNotify pc = true := by
    rcases blocked_cases i ha with ⟨hp, hf⟩ | ⟨j, b, hj, _⟩ | ⟨j, b, ok, hj, _⟩ | ⟨j, b, ok, hj, _⟩
    · rcases i.f hf with ⟨j, pc, hj, ho⟩ | ⟨_, j, hj⟩
      · exact ⟨j, pc, hj, isOwner_willNotify ho⟩
      · exact ⟨j, _, hj, rfl⟩
    · exact ⟨j, _, hj, rfl⟩
    · exact ⟨j, _, hj, rfl⟩
    · exact ⟨j, _, hj, rfl⟩
  obtain ⟨j, pc, hj, hw⟩ := key
  refine ⟨j, pc, ?_, hj, hw⟩
  intro e
  subst e
  rw [ha] at hj
  cases hj
  cases hw

/-! ### enabledness -/

theorem isSome_ite {α : Type} (c : Prop) [Decidable c] (a b : α) :
    (if c then some a else some b).isSome = true := by split <;> rfl

theorem enabled {s : State} {tid : Nat} {pc : Pc} (h : pcAt s tid = some pc)
    (h1 : pc ≠ .condWait) (h2 : ∀ ok, pc ≠ .done ok) : (step s tid).isSome = true := by
  unfold pcAt at h
  unfold step
  cases ht : s.threads[tid]? with
  | none => rw [ht] at h; cases h
  | some t =>
    rw [ht] at h
    simp only [Option.map_some, Option.some.injEq] at h
    simp only
    cases hq : t.pc with
    | start => rfl
    | waitLock =>
      simp only
      split
      · rfl
      · exact isSome_ite _ _ _
    | condWait => rw [hq] at h; exact (h1 h.symm).elim
    | take => exact isSome_ite _ _ _
    | write b => exact isSome_ite _ _ _
    | mark b ok => rfl
    | clear b ok => rfl
    | done ok => rw [hq] at h; exact (h2 ok h.symm).elim

theorem willNotify_enabled {s : State} {tid : Nat} {pc : Pc} (h : pcAt s tid = some pc)
    (hw : willNotify pc = true) : (step s tid).isSome = true := by
  apply enabled h
  · intro e; subst e; cases hw
  · intro ok e; subst e; cases hw

theorem quiescent_iff (s : State) :
    quiescent s = true ↔ ∀ i pc, pcAt s i = some pc → ∃ ok, pc = .done ok := by
  unfold quiescent pcAt
  rw [List.all_eq_true]
  constructor
  · intro h i pc hi
    cases ht : s.threads[i]? with
    | none => rw [ht] at hi; cases hi
    | some t =>
      rw [ht] at hi
      simp only [Option.map_some, Option.some.injEq] at hi
      have := h t (List.mem_of_getElem? ht)
      rw [hi] at this
      cases pc <;> first | exact ⟨_, rfl⟩ | cases this
  · intro h t ht
    obtain ⟨j, hj, hjt⟩ := List.getElem_of_mem ht
    have hj' : s.threads[j]? = some t := by rw [List.getElem?_eq_getElem hj, hjt]
    obtain ⟨ok, hok⟩ := h j t.pc (by rw [hj']; rfl)
    rw [hok]

/-- NO DEADLOCK: a state satisfying the invariants in which some committer has not returned has an
enabled step -/
theorem progress_of_inv {s : State} (i : Inv s) (hq : quiescent s = false) :
    ∃ tid, (step s tid).isSome = true := by
  have : ¬ (∀ i pc, pcAt s i = some pc → ∃ ok, pc = .done ok) := by
    intro h
    rw [(quiescent_iff s).mpr h] at hq
    cases hq
  have : ∃ a pc, pcAt s a = some pc ∧ ∀ ok, pc ≠ .done ok := by
    apply Classical.byContradiction
    intro hc
    apply this
    intro a pc ha
    apply Classical.byContradiction
    intro hd
    exact hc ⟨a, pc, ha, fun ok e => hd ⟨ok, e⟩⟩
  obtain ⟨a, pc, ha, hnd⟩ := this
  by_cases hcw : pc = .condWait
  · subst hcw
    obtain ⟨j, pcj, _, hj, hw⟩ := no_lost_wakeup_of_inv i ha
    exact ⟨j, willNotify_enabled hj hw⟩
  · exact ⟨a, enabled ha hcw hnd⟩

/-! ### work measure -/

/-- remaining work of one thread among `n`: a `clear` step is worth `n + 1` because it may send up
to `n` parked threads back to the head of the wait loop -/
def pcRank (n : Nat) : Pc → Nat
  | .done _ => 0
  | .clear .. => n + 1
  | .mark .. => n + 2
  | .write _ => n + 3
  | .take => n + 4
  | .condWait => n + 5
  | .waitLock => n + 6
  | .start => n + 7

def workLeft (s : State) : Nat := (s.threads.map (fun t => pcRank s.threads.length t.pc)).sum

theorem sum_map_set {α : Type} (f : α → Nat) {l : List α} {i : Nat} {old new : α}
    (h : l[i]? = some old) :
    ((l.set i new).map f).sum + f old = (l.map f).sum + f new := by
  induction l generalizing i with
  | nil => simp at h
  | cons x l ih =>
    cases i with
    | zero =>
      simp only [List.getElem?_cons_zero, Option.some.injEq] at h
      subst h
      simp only [List.set_cons_zero, List.map_cons, List.sum_cons]
      omega
    | succ i =>
      simp only [List.getElem?_cons_succ] at h
      have := ih h
      simp only [List.set_cons_succ, List.map_cons, List.sum_cons]
      omega

theorem sum_map_zipIdx_le {α : Type} (f : α → Nat) (g : α × Nat → α)
    (hg : ∀ x, f (g x) ≤ f x.1 + 1) (l : List α) (k : Nat) :
    (((l.zipIdx k).map g).map f).sum ≤ (l.map f).sum + l.length := by
  induction l generalizing k with
  | nil => simp
  | cons x l ih =>
    simp only [List.zipIdx_cons, List.map_cons, List.sum_cons, List.length_cons]
    have h1 := hg (x, k)
    have h2 := ih (k + 1)
    simp only at h1
    omega

/-- `notify_all` raises the rank of every thread by at most one -/
theorem wake_rank (s : State) (n : Nat) (x : Thread × Nat) :
    pcRank n ((fun (p : Thread × Nat) =>
      if p.1.pc = .condWait then
        { p.1 with pc := if s.completed.getD p.2 false then afterCompleted s p.2 else .waitLock }
      else p.1) x).pc ≤ pcRank n x.1.pc + 1 := by
  obtain ⟨t, i⟩ := x
  simp only
  by_cases h : t.pc = .condWait
  · simp only [h, if_true]
    split
    · unfold afterCompleted
      split <;> simp [pcRank]
    · simp [pcRank]
  · simp only [h, if_false]
    omega

theorem workLeft_wakeAll (s : State) :
    workLeft (wakeAll s) ≤ workLeft s + s.threads.length := by
  unfold workLeft
  have hl : (wakeAll s).threads.length = s.threads.length := by simp [wakeAll]
  rw [hl]
  have := sum_map_zipIdx_le (fun t : Thread => pcRank s.threads.length t.pc)
    (fun (p : Thread × Nat) =>
      if p.1.pc = .condWait then
        { p.1 with pc := if s.completed.getD p.2 false then afterCompleted s p.2 else .waitLock }
      else p.1) (wake_rank s s.threads.length) s.threads 0
  simpa [wakeAll] using this

theorem workLeft_setThread {s : State} {tid : Nat} {t t' : Thread} (ht : s.threads[tid]? = some t) :
    workLeft (setThread s tid t') + pcRank s.threads.length t.pc
      = workLeft s + pcRank s.threads.length t'.pc := by
  unfold workLeft setThread
  simp only [List.length_set]
  exact sum_map_set (fun t : Thread => pcRank s.threads.length t.pc) ht

/-- every step strictly decreases the remaining work -/
theorem step_decreases_work {s s' : State} {tid : Nat} (hs : step s tid = some s') :
    workLeft s' < workLeft s := by
  unfold step at hs
  cases ht : s.threads[tid]? with
  | none => simp [ht] at hs
  | some t =>
    simp only [ht] at hs
    have key : ∀ (s0 : State) (t' : Thread), s0.threads = s.threads →
        pcRank s.threads.length t'.pc < pcRank s.threads.length t.pc →
        workLeft (setThread s0 tid t') < workLeft s := by
      intro s0 t' h0 hlt
      have ht0 : s0.threads[tid]? = some t := by rw [h0]; exact ht
      have := workLeft_setThread (t' := t') ht0
      have e : workLeft s0 = workLeft s := by unfold workLeft; rw [h0]
      rw [h0] at this
      omega
    cases hq : t.pc with
    | start =>
      simp only [hq] at hs
      injection hs with hs; subst hs
      exact key _ _ rfl (by simp [hq, pcRank])
    | waitLock =>
      simp only [hq] at hs
      split at hs
      · injection hs with hs; subst hs
        refine key _ _ rfl ?_
        simp only [hq, afterCompleted]
        split <;> simp [pcRank]
      · split at hs
        · injection hs with hs; subst hs
          exact key _ _ rfl (by simp [hq, pcRank])
        · injection hs with hs; subst hs
          exact key _ _ rfl (by simp [hq, pcRank])
    | condWait => simp [hq] at hs
    | take =>
      simp only [hq] at hs
      split at hs
      · injection hs with hs; subst hs
        exact key _ _ rfl (by simp [hq, pcRank])
      · injection hs with hs; subst hs
        exact key _ _ rfl (by simp [hq, pcRank])
    | write b =>
      simp only [hq] at hs
      split at hs
      · injection hs with hs; subst hs
        exact key _ _ rfl (by simp [hq, pcRank])
      · injection hs with hs; subst hs
        exact key _ _ rfl (by simp [hq, pcRank])
    | mark b ok =>
      simp only [hq] at hs
      injection hs with hs; subst hs
      exact key _ _ rfl (by simp [hq, pcRank])
    | clear b ok =>
      simp only [hq] at hs
      injection hs with hs; subst hs
      have h1 := workLeft_wakeAll
        (setThread { s with flushInProgress := false } tid { t with pc := .done ok })
      have ht0 : ({ s with flushInProgress := false } : State).threads[tid]? = some t := ht
      have h2 := workLeft_setThread (t' := { t with pc := .done ok }) ht0
      have e : workLeft ({ s with flushInProgress := false } : State) = workLeft s := rfl
      have hl : (setThread { s with flushInProgress := false } tid
          { t with pc := .done ok }).threads.length = s.threads.length := by simp [setThread]
      rw [hl] at h1
      rw [e] at h2
      simp only [hq, pcRank] at h2
      omega
    | done ok => simp [hq] at hs

theorem run_append (s : State) (a b : List Nat) : run s (a ++ b) = run (run s a) b := by
  induction a generalizing s with
  | nil => rfl
  | cons x a ih => simp only [List.cons_append, run]; exact ih _

/-- from any state satisfying the invariants there is a schedule (of at most `workLeft s` steps, all
of them enabled) to a quiescent state -/
theorem completes_of_inv (n : Nat) : ∀ {s : State}, Inv s → workLeft s ≤ n →
    ∃ sched, quiescent (run s sched) = true ∧ sched.length ≤ workLeft s := by
  induction n with
  | zero =>
    intro s h hn
    cases hq : quiescent s with
    | true => exact ⟨[], hq, Nat.zero_le _⟩
    | false =>
      obtain ⟨tid, hs⟩ := progress_of_inv h hq
      cases hs' : step s tid with
      | none => rw [hs'] at hs; cases hs
      | some s' => have := step_decreases_work hs'; omega
  | succ n ih =>
    intro s h hn
    cases hq : quiescent s with
    | true => exact ⟨[], hq, Nat.zero_le _⟩
    | false =>
      obtain ⟨tid, hs⟩ := progress_of_inv h hq
      cases hs' : step s tid with
      | none => rw [hs'] at hs; cases hs
      | some s' =>
        have hd := step_decreases_work hs'
        obtain ⟨sched, h1, h2⟩ := ih (inv_step hs' h) (by omega)
        refine ⟨tid :: sched, ?_, ?_⟩
        · simp only [run, hs', Option.getD_some]; exact h1
        · simp only [List.length_cons]; omega

end TurVerif.GroupCommit
