import TurVerif.Model.OMap
import TurVerif.Lemmas.Simd
/-! Laws of the ordered-map specification `TurVerif.OMap` on key-sorted lists. -/
namespace TurVerif.OMap
open TurVerif.Simd (cmpBytes)
open TurVerif.C30 (cmp_eq_iff cmp_gt_iff cmp_lt_trans)

def ELt (a b : Entry) : Prop := cmpBytes a.1 b.1 = .lt
/-- keys strictly increasing -/
def Sorted (m : List Entry) : Prop := m.Pairwise ELt

theorem cmp_refl (a : List Nat) : cmpBytes a a = .eq := (cmp_eq_iff a a).mpr rfl

theorem cmp_lt_ne {a b : List Nat} (h : cmpBytes a b = .lt) : a ≠ b := by
  intro e; subst e; rw [cmp_refl] at h; cases h

/-- all keys of a sorted tail are greater than the head key -/
theorem lookup_none_of_lt {m : List Entry} {k : List Nat}
    (h : ∀ e ∈ m, cmpBytes k e.1 = .lt) : lookup m k = none := by
  cases m with
  | nil => rfl
  | cons e m =>
    obtain ⟨k', v'⟩ := e
    have := h (k', v') (List.mem_cons_self ..)
    have hgt : cmpBytes k' k = .gt := (cmp_gt_iff _ _).mpr this
    simp [lookup, hgt]

/-- on a sorted list the early-exit scan finds exactly the members -/
theorem lookup_iff_mem {m : List Entry} (hs : Sorted m) (k v : List Nat) :
    lookup m k = some v ↔ (k, v) ∈ m := by
  induction m with
  | nil => simp [lookup]
  | cons e m ih =>
    obtain ⟨k', v'⟩ := e
    have hp := List.pairwise_cons.mp hs
    simp only [lookup]
    cases hc : cmpBytes k' k with
    | lt =>
      simp only [List.mem_cons, Prod.mk.injEq]
      rw [ih hp.2]
      constructor
      · exact Or.inr
      · rintro (⟨rfl, _⟩ | h)
        · rw [cmp_refl] at hc; cases hc
        · exact h
    | eq =>
      have hk : k' = k := (cmp_eq_iff _ _).mp hc
      subst hk
      simp only [List.mem_cons, Prod.mk.injEq, Option.some.injEq]
      constructor
      · intro h; exact Or.inl ⟨trivial, h.symm⟩
      · rintro (⟨_, rfl⟩ | h)
        · rfl
        · have := hp.1 _ h; unfold ELt at this; simp only at this; rw [cmp_refl] at this; cases this
    | gt =>
      simp only [List.mem_cons, Prod.mk.injEq]
      constructor
      · intro h; cases h
      · rintro (⟨rfl, _⟩ | h)
        · rw [cmp_refl] at hc; cases hc
        · have h1 := hp.1 _ h; unfold ELt at h1; simp only at h1
          have h2 : cmpBytes k k' = .lt := (cmp_gt_iff _ _).mp hc
          have := cmp_lt_trans _ _ _ h2 h1
          rw [cmp_refl] at this; cases this

theorem mem_insertNew {m : List Entry} {k v : List Nat} (hn : lookup m k = none) (e : Entry) :
    e ∈ insertNew m k v ↔ e = (k, v) ∨ e ∈ m := by
  induction m with
  | nil => simp [insertNew]
  | cons x m ih =>
    obtain ⟨k', v'⟩ := x
    simp only [lookup] at hn
    simp only [insertNew]
    cases hc : cmpBytes k' k with
    | lt => simp only [hc] at hn; simp only [List.mem_cons, ih hn]; constructor <;> (rintro (h | h | h) <;> simp [h])
    | eq => simp [hc] at hn
    | gt => simp

theorem sorted_insertNew {m : List Entry} (hs : Sorted m) (k v : List Nat) :
    Sorted (insertNew m k v) := by
  induction m with
  | nil => simp [insertNew, Sorted]
  | cons x m ih =>
    obtain ⟨k', v'⟩ := x
    have hp := List.pairwise_cons.mp hs
    simp only [insertNew]
    cases hc : cmpBytes k' k with
    | eq => exact hs
    | lt =>
      refine List.pairwise_cons.mpr ⟨?_, ih hp.2⟩
      intro e he
      -- e is the new entry or an old one; use the unconditional membership bound
      have : e = (k, v) ∨ e ∈ m := by
        clear ih hs hp hc
        induction m with
        | nil => simpa [insertNew] using he
        | cons y m ih2 =>
          obtain ⟨k2, v2⟩ := y
          simp only [insertNew] at he
          split at he
          · rcases List.mem_cons.mp he with h | h
            · exact Or.inr (h ▸ List.mem_cons_self ..)
            · rcases ih2 h with h | h
              · exact Or.inl h
              · exact Or.inr (List.mem_cons_of_mem _ h)
          · exact Or.inr he
          · rcases List.mem_cons.mp he with h | h
            · exact Or.inl h
            · exact Or.inr h
      rcases this with rfl | h
      · exact hc
      · exact hp.1 e h
    | gt =>
      have hlt : cmpBytes k k' = .lt := (cmp_gt_iff _ _).mp hc
      refine List.pairwise_cons.mpr ⟨?_, hs⟩
      intro e he
      rcases List.mem_cons.mp he with rfl | h
      · exact hlt
      · exact cmp_lt_trans _ _ _ hlt (hp.1 e h)

theorem erase_sublist (m : List Entry) (k : List Nat) : (erase m k).Sublist m := by
  induction m with
  | nil => simp [erase]
  | cons x m ih =>
    obtain ⟨k', v'⟩ := x
    simp only [erase]
    split
    · exact ih.cons₂ _
    · exact List.sublist_cons_self ..
    · exact List.Sublist.refl _

theorem sorted_erase {m : List Entry} (hs : Sorted m) (k : List Nat) : Sorted (erase m k) :=
  List.Pairwise.sublist (erase_sublist m k) hs

theorem mem_erase {m : List Entry} (hs : Sorted m) (k : List Nat) (e : Entry) :
    e ∈ erase m k ↔ e ∈ m ∧ e.1 ≠ k := by
  induction m with
  | nil => simp [erase]
  | cons x m ih =>
    obtain ⟨k', v'⟩ := x
    have hp := List.pairwise_cons.mp hs
    simp only [erase]
    cases hc : cmpBytes k' k with
    | lt =>
      simp only [List.mem_cons, ih hp.2]
      constructor
      · rintro (rfl | ⟨h1, h2⟩)
        · exact ⟨Or.inl rfl, cmp_lt_ne hc⟩
        · exact ⟨Or.inr h1, h2⟩
      · rintro ⟨rfl | h1, h2⟩
        · exact Or.inl rfl
        · exact Or.inr ⟨h1, h2⟩
    | eq =>
      have hk : k' = k := (cmp_eq_iff _ _).mp hc
      subst hk
      simp only [List.mem_cons]
      constructor
      · intro h; exact ⟨Or.inr h, cmp_lt_ne (hp.1 e h) |>.symm⟩
      · rintro ⟨rfl | h1, h2⟩
        · exact absurd rfl h2
        · exact h1
    | gt =>
      simp only [List.mem_cons]
      have hlt : cmpBytes k k' = .lt := (cmp_gt_iff _ _).mp hc
      constructor
      · rintro (rfl | h)
        · exact ⟨Or.inl rfl, (cmp_lt_ne hlt).symm⟩
        · exact ⟨Or.inr h, (cmp_lt_ne (cmp_lt_trans _ _ _ hlt (hp.1 e h))).symm⟩
      · exact fun h => h.1

theorem keys_replace (m : List Entry) (k v : List Nat) :
    (replace m k v).map (·.1) = m.map (·.1) := by
  induction m with
  | nil => simp [replace]
  | cons x m ih =>
    obtain ⟨k', v'⟩ := x
    simp only [replace]
    split <;> simp [ih]

theorem sorted_iff_keys (m : List Entry) :
    Sorted m ↔ (m.map (·.1)).Pairwise (fun x y => cmpBytes x y = .lt) := by
  unfold Sorted ELt; rw [List.pairwise_map]

theorem sorted_of_keys {a b : List Entry} (h : a.map (·.1) = b.map (·.1)) (hs : Sorted b) : Sorted a := by
  rw [sorted_iff_keys] at hs ⊢; rw [h]; exact hs

theorem sorted_replace {m : List Entry} (hs : Sorted m) (k v : List Nat) : Sorted (replace m k v) :=
  sorted_of_keys (keys_replace m k v) hs

theorem lookup_replace_self {m : List Entry} {k : List Nat} {old : List Nat} (v : List Nat)
    (h : lookup m k = some old) : lookup (replace m k v) k = some v := by
  induction m with
  | nil => simp [lookup] at h
  | cons x m ih =>
    obtain ⟨k', v'⟩ := x
    simp only [lookup] at h
    simp only [replace]
    cases hc : cmpBytes k' k with
    | lt => simp only [hc] at h; simp only [lookup, hc]; exact ih h
    | eq => simp [lookup, hc]
    | gt => simp [hc] at h

end TurVerif.OMap
