import TurVerif.Model.Sql
/-!
Helper lemmas for C15/C16: `Val.le` is a total preorder on all values (NULL lowest, then by type
rank, numerics by value), `keysLe` is a total preorder on key tuples of one shape, `Val.same` /
`rowSame` are equivalence relations, and `List.mergeSort` facts relativised to a predicate.
-/
namespace TurVerif.Sql

theorem Val.le_total (a b : Val) : Val.le a b || Val.le b a := by
  cases a <;> cases b <;> simp [Val.le, Val.rank]
  · exact Bool.le_total _ _
  · exact Int.le_total _ _
  · exact Rat.le_total
  · exact Rat.le_total
  · exact Rat.le_total
  · exact String.le_total _ _

theorem Val.le_refl (a : Val) : Val.le a a = true := by
  have := Val.le_total a a; simpa using this

theorem Val.le_trans (a b c : Val) (h1 : Val.le a b = true) (h2 : Val.le b c = true) :
    Val.le a c = true := by
  cases a <;> cases b <;> cases c <;> simp_all [Val.le, Val.rank]
  · exact Bool.le_trans h1 h2
  · exact Int.le_trans h1 h2
  · exact Rat.le_trans (Rat.intCast_le_intCast.mpr h1) h2
  · exact Rat.intCast_le_intCast.mp (Rat.le_trans h1 h2)
  · exact Rat.le_trans h1 h2
  · exact Rat.le_trans h1 (Rat.intCast_le_intCast.mpr h2)
  · exact Rat.le_trans h1 h2
  · exact Rat.le_trans h1 h2
  · exact Rat.le_trans h1 h2
  · exact String.le_trans h1 h2


/-- the shape of a key tuple: its direction flags -/
def keyShape (k : List (Val × Bool)) : List Bool := k.map (·.2)

theorem keysLe_total_of_shape (s : List Bool) :
    ∀ (a b : List (Val × Bool)), keyShape a = s → keyShape b = s → (keysLe a b || keysLe b a) = true := by
  induction s with
  | nil => intro a b ha hb; cases a <;> simp_all [keyShape, keysLe]
  | cons d s ih =>
    intro a b ha hb
    cases a with
    | nil => simp [keyShape] at ha
    | cons p as =>
    cases b with
    | nil => simp [keyShape] at hb
    | cons q bs =>
      obtain ⟨x, dx⟩ := p
      obtain ⟨y, dy⟩ := q
      simp [keyShape] at ha hb
      obtain ⟨rfl, ha⟩ := ha
      obtain ⟨rfl, hb⟩ := hb
      have ih' := ih as bs ha hb
      have t := Val.le_total x y
      simp only [keysLe, Val.equiv]
      rcases Bool.eq_false_or_eq_true (Val.le x y) with h1 | h1 <;>
        rcases Bool.eq_false_or_eq_true (Val.le y x) with h2 | h2 <;>
        cases dy <;> simp_all

theorem keysLe_trans_of_shape (s : List Bool) :
    ∀ (a b c : List (Val × Bool)), keyShape a = s → keyShape b = s → keyShape c = s →
      keysLe a b = true → keysLe b c = true → keysLe a c = true := by
  induction s with
  | nil => intro a b c ha hb hc; cases a <;> simp_all [keyShape, keysLe]
  | cons d s ih =>
    intro a b c ha hb hc
    cases a with
    | nil => simp [keyShape] at ha
    | cons p as =>
    cases b with
    | nil => simp [keyShape] at hb
    | cons q bs =>
    cases c with
    | nil => simp [keyShape] at hc
    | cons r cs =>
      obtain ⟨x, dx⟩ := p
      obtain ⟨y, dy⟩ := q
      obtain ⟨z, dz⟩ := r
      simp [keyShape] at ha hb hc
      obtain ⟨rfl, ha⟩ := ha
      obtain ⟨rfl, hb⟩ := hb
      obtain ⟨rfl, hc⟩ := hc
      have ih' := ih as bs cs ha hb hc
      have t1 := Val.le_trans x y z
      have t2 := Val.le_trans z y x
      have t3 := Val.le_trans x z y
      have t4 := Val.le_trans z x y
      have t5 := Val.le_trans y x z
      have t6 := Val.le_trans y z x
      have u1 := Val.le_total x y
      have u2 := Val.le_total y z
      have u3 := Val.le_total x z
      simp only [keysLe, Val.equiv]
      rcases Bool.eq_false_or_eq_true (Val.le x y) with h1 | h1 <;>
        rcases Bool.eq_false_or_eq_true (Val.le y x) with h2 | h2 <;>
        rcases Bool.eq_false_or_eq_true (Val.le y z) with h3 | h3 <;>
        rcases Bool.eq_false_or_eq_true (Val.le z y) with h4 | h4 <;>
        rcases Bool.eq_false_or_eq_true (Val.le x z) with h5 | h5 <;>
        rcases Bool.eq_false_or_eq_true (Val.le z x) with h6 | h6 <;>
        cases dz <;> simp_all


/-! ### `mergeSort` with order axioms that hold only on a subset `P` -/
section rel
variable {α : Type} (le : α → α → Bool) (P : α → Prop)

theorem mergeSort_attachWith (l : List α) (hl : ∀ x ∈ l, P x) :
    ((l.attachWith P hl).mergeSort (fun a b => le a.1 b.1)).map Subtype.val = l.mergeSort le := by
  rw [List.map_mergeSort (s := le) (fun a _ b _ => rfl)]
  simp

theorem pairwise_mergeSort_of_mem
    (trans : ∀ a b c, P a → P b → P c → le a b = true → le b c = true → le a c = true)
    (total : ∀ a b, P a → P b → (le a b || le b a) = true)
    (l : List α) (hl : ∀ x ∈ l, P x) : (l.mergeSort le).Pairwise (fun a b => le a b = true) := by
  rw [← mergeSort_attachWith le P l hl]
  rw [List.pairwise_map]
  exact List.pairwise_mergeSort (le := fun (a b : {x // P x}) => le a.1 b.1)
    (fun a b c => trans a.1 b.1 c.1 a.2 b.2 c.2) (fun a b => total a.1 b.1 a.2 b.2) _

theorem sublist_mergeSort_of_mem
    (trans : ∀ a b c, P a → P b → P c → le a b = true → le b c = true → le a c = true)
    (total : ∀ a b, P a → P b → (le a b || le b a) = true)
    (l : List α) (hl : ∀ x ∈ l, P x) (c : List α) (hc : c.Pairwise (fun a b => le a b = true))
    (hs : c.Sublist l) : c.Sublist (l.mergeSort le) := by
  rw [← mergeSort_attachWith le P l hl]
  have h0 : c.Sublist ((l.attachWith P hl).map Subtype.val) := by simpa using hs
  obtain ⟨l', hl', rfl⟩ := List.sublist_map_iff.mp h0
  rw [List.pairwise_map] at hc
  exact (List.sublist_mergeSort (le := fun (a b : {x // P x}) => le a.1 b.1)
    (fun a b c => trans a.1 b.1 c.1 a.2 b.2 c.2) (fun a b => total a.1 b.1 a.2 b.2) hc hl').map _
end rel

end TurVerif.Sql
