import TurVerif.Lemmas.CalArith
/-! Inverse converters of C41: `days_to_date` (datetime.rs) and `jdn_to_ymd` (cli/table.rs). -/
namespace TurVerif.Cal

theorem fnDaysToDateRaw_march (Y mm d : Int) (hY : 0 ≤ Y) (hmm0 : 3 ≤ mm) (hmm1 : mm ≤ 14)
    (hd : 1 ≤ d)
    (hmonth : (5 * ((153 * (mm - 3) + 2) / 5 + d) + 456) / 153 = mm)
    (he : (153 * (mm - 3) + 2) / 5 + d ≤ 365 ∨
      ((153 * (mm - 3) + 2) / 5 + d = 366 ∧ Y % 4 = 3 ∧ (Y % 100 = 99 → Y % 400 = 399))) :
    fnDaysToDateRaw (365 * Y + Y / 4 - Y / 100 + Y / 400 + (153 * (mm - 3) + 2) / 5 + d - 306)
      = if mm > 12 then (Y + 1, mm - 12, d) else (Y, mm, d) := by
  apply fnDaysToDateRaw_core Y ((153 * (mm - 3) + 2) / 5 + d) mm d (Y / 100) (Y % 100) (Y / 100 / 4)
    (Y / 100 % 4) (Y % 100 % 4) (Y % 100 / 4)
  all_goals omega

theorem fnDateToDays_shape (y : Int) (m d : Nat) (hy : 1 ≤ y) (hm1 : 1 ≤ m) (hm2 : m ≤ 12) :
    fnDateToDays y m d =
      (let Y : Int := if m ≤ 2 then y - 1 else y
       let mm : Int := if m ≤ 2 then (m : Int) + 12 else m
       365 * Y + Y / 4 - Y / 100 + Y / 400 + (153 * (mm - 3) + 2) / 5 + (d : Int) - 306) := by
  unfold fnDateToDays
  dsimp only
  split
  · rw [Int.tdiv_eq_ediv_of_nonneg (show (0:Int) ≤ y - 1 by omega),
      Int.tdiv_eq_ediv_of_nonneg (show (0:Int) ≤ y - 1 by omega),
      Int.tdiv_eq_ediv_of_nonneg (show (0:Int) ≤ y - 1 by omega),
      Int.tdiv_eq_ediv_of_nonneg (show (0:Int) ≤ 153 * ((m:Int) + 12 - 3) + 2 by omega)]
  · rw [Int.tdiv_eq_ediv_of_nonneg (show (0:Int) ≤ y by omega),
      Int.tdiv_eq_ediv_of_nonneg (show (0:Int) ≤ y by omega),
      Int.tdiv_eq_ediv_of_nonneg (show (0:Int) ≤ y by omega),
      Int.tdiv_eq_ediv_of_nonneg (show (0:Int) ≤ 153 * ((m:Int) - 3) + 2 by omega)]


theorem monthLen_cases (y m : Nat) (hm1 : 1 ≤ m) (hm2 : m ≤ 12) :
    monthLen y m = if m = 2 then (if isLeap y then 29 else 28)
      else if m = 4 ∨ m = 6 ∨ m = 9 ∨ m = 11 then 30 else 31 := by
  unfold monthLen; repeat' split
  all_goals omega

theorem fnDaysToDateRaw_inverse (y m d : Nat) (hy : 1 ≤ y) (hm1 : 1 ≤ m) (hm2 : m ≤ 12) (hd1 : 1 ≤ d)
    (hd2 : d ≤ monthLen y m) :
    fnDaysToDateRaw (fnDateToDays (y : Int) m d) = ((y : Int), (m : Int), (d : Int)) := by
  have hl := isLeap_iff y
  rw [monthLen_cases y m hm1 hm2] at hd2
  rw [fnDateToDays_shape (y : Int) m d (by omega) hm1 hm2]
  dsimp only
  by_cases hm : m ≤ 2
  · rw [if_pos hm, if_pos hm]
    have hleap : (m = 1 ∧ d ≤ 31) ∨
        (m = 2 ∧ (d ≤ 28 ∨ (d = 29 ∧ ((y % 4 = 0 ∧ y % 100 ≠ 0) ∨ y % 400 = 0)))) := by
      by_cases h2 : m = 2
      · rw [if_pos h2] at hd2
        by_cases hlp : isLeap y = true
        · rw [if_pos hlp] at hd2
          have := hl.1 hlp
          omega
        · rw [if_neg hlp] at hd2; omega
      · rw [if_neg h2, if_neg (by omega)] at hd2; omega
    clear hd2 hl
    rw [fnDaysToDateRaw_march ((y : Int) - 1) ((m : Int) + 12) d (by omega) (by omega) (by omega)
      (by omega) (by omega) (by omega)]
    rw [if_pos (by omega)]
    have e1 : (y : Int) - 1 + 1 = y := by omega
    have e2 : (m : Int) + 12 - 12 = m := by omega
    rw [e1, e2]
  · rw [if_neg hm, if_neg hm]
    have hd3 : d ≤ 30 ∨ (d = 31 ∧ (m = 3 ∨ m = 5 ∨ m = 7 ∨ m = 8 ∨ m = 10 ∨ m = 12)) := by
      rw [if_neg (by omega)] at hd2
      split at hd2 <;> omega
    clear hd2 hl
    rw [fnDaysToDateRaw_march (y : Int) (m : Int) d (by omega) (by omega) (by omega)
      (by omega) (by omega) (by omega)]
    rw [if_neg (by omega)]

/-! ### cli/table.rs `jdn_to_ymd` inverts the JDN formula -/

theorem cliJdnToYmdRaw_core (Y E m0 D C t u v r w jdn : Int)
    (hC : Y = 100 * C + t) (ht0 : 0 ≤ t) (ht1 : t < 100)
    (hu : C = 4 * u + v) (hv0 : 0 ≤ v) (hv1 : v < 4) (hw : t = 4 * w + r) (hr0 : 0 ≤ r) (hr1 : r < 4)
    (hC0 : 0 ≤ C) (hm0 : 0 ≤ m0) (hm1 : m0 ≤ 11) (hE0 : 0 ≤ E)
    (he : E ≤ 364 ∨ (E = 365 ∧ r = 3 ∧ (t = 99 → v = 3)))
    (hEdef : E = D - 1 + (153 * m0 + 2) / 5)
    (hmonth : (5 * E + 2) / 153 = m0)
    (hjdn : jdn = 365 * Y + Y / 4 - Y / 100 + Y / 400 + E - 32044) :
    cliJdnToYmdRaw jdn = (Y - 4800 + m0 / 10, m0 + 3 - 12 * (m0 / 10), D) := by
  have h4 : Y / 4 = 25 * C + w := by omega
  have h100 : Y / 100 = C := by omega
  have h400 : Y / 400 = u := by omega
  unfold cliJdnToYmdRaw
  dsimp only
  generalize ha : jdn + 32044 = a
  have ha' : a = 36524 * C + u + 365 * t + w + E := by omega
  generalize hb : (4 * a + 3).tdiv 146097 = b
  have hb' : b = C := by
    rw [← hb, Int.tdiv_eq_ediv_of_nonneg (by omega)]; omega
  subst hb'
  generalize hq : (146097 * b).tdiv 4 = q
  have hq' : q = 36524 * b + u := by
    rw [← hq, Int.tdiv_eq_ediv_of_nonneg (by omega)]; omega
  subst hq'
  generalize hd : (4 * (a - (36524 * b + u)) + 3).tdiv 1461 = dd
  have hd' : dd = t := by
    rw [← hd, Int.tdiv_eq_ediv_of_nonneg (by omega)]; omega
  subst hd'
  generalize hq2 : (1461 * dd).tdiv 4 = q2
  have hq2' : q2 = 365 * dd + w := by
    rw [← hq2, Int.tdiv_eq_ediv_of_nonneg (by omega)]; omega
  subst hq2'
  have hc : a - (36524 * b + u) - (365 * dd + w) = E := by omega
  rw [hc]
  generalize hm : (5 * E + 2).tdiv 153 = m
  have hm' : m = m0 := by
    rw [← hm, Int.tdiv_eq_ediv_of_nonneg (by omega)]; exact hmonth
  subst hm'
  generalize hg : (153 * m + 2).tdiv 5 = g
  have hg' : E - g + 1 = D := by
    rw [← hg, Int.tdiv_eq_ediv_of_nonneg (by omega)]; omega
  rw [hg']
  generalize hk : m.tdiv 10 = k
  have hk' : k = m / 10 := by
    rw [← hk, Int.tdiv_eq_ediv_of_nonneg (by omega)]
  subst hk'
  have hyr : 100 * b + dd - 4800 + m / 10 = Y - 4800 + m / 10 := by omega
  rw [hyr]

theorem cliJdnToYmdRaw_march (Y m0 D : Int) (hY : 0 ≤ Y) (hm0 : 0 ≤ m0) (hm1 : m0 ≤ 11)
    (_hD : 1 ≤ D)
    (hmonth : (5 * (D - 1 + (153 * m0 + 2) / 5) + 2) / 153 = m0)
    (he : D - 1 + (153 * m0 + 2) / 5 ≤ 364 ∨
      (D - 1 + (153 * m0 + 2) / 5 = 365 ∧ Y % 4 = 3 ∧ (Y % 100 = 99 → Y % 400 = 399))) :
    cliJdnToYmdRaw (365 * Y + Y / 4 - Y / 100 + Y / 400 + (D - 1 + (153 * m0 + 2) / 5) - 32044)
      = (Y - 4800 + m0 / 10, m0 + 3 - 12 * (m0 / 10), D) := by
  apply cliJdnToYmdRaw_core Y (D - 1 + (153 * m0 + 2) / 5) m0 D (Y / 100) (Y % 100) (Y / 100 / 4)
    (Y / 100 % 4) (Y % 100 % 4) (Y % 100 / 4)
  all_goals omega

theorem defDays_shape (y : Int) (m d : Nat) (hy : 1 ≤ y) (hm1 : 1 ≤ m) (hm2 : m ≤ 12)
    (hd : d < 2147483648) :
    2440588 + defDaysFromYmd y m d =
      (let a0 : Int := if m ≤ 2 then 1 else 0
       let Y : Int := y + 4800 - a0
       let m0 : Int := (m : Int) + 12 * a0 - 3
       365 * Y + Y / 4 - Y / 100 + Y / 400 + ((d : Int) - 1 + (153 * m0 + 2) / 5) - 32044) := by
  unfold defDaysFromYmd
  rw [asI32_small d hd, asI32_small m (by omega)]
  have ha0 : (14 - (m : Int)).tdiv 12 = (if m ≤ 2 then 1 else 0) := by
    rw [Int.tdiv_eq_ediv_of_nonneg (by omega)]; split <;> omega
  dsimp only
  rw [ha0]
  split
  · simp (disch := omega) only [Int.tdiv_eq_ediv_of_nonneg]; omega
  · simp (disch := omega) only [Int.tdiv_eq_ediv_of_nonneg]; omega

theorem cliJdnToYmdRaw_inverse (y m d : Nat) (hy : 1 ≤ y) (hm1 : 1 ≤ m) (hm2 : m ≤ 12) (hd1 : 1 ≤ d)
    (hd2 : d ≤ monthLen y m) :
    cliJdnToYmdRaw (2440588 + defDaysFromYmd (y : Int) m d) = ((y : Int), (m : Int), (d : Int)) := by
  have hl := isLeap_iff y
  have h31 : d ≤ 31 := by
    have : monthLen y m ≤ 31 := by
      unfold monthLen; repeat' split
      all_goals omega
    omega
  rw [monthLen_cases y m hm1 hm2] at hd2
  rw [defDays_shape (y : Int) m d (by omega) hm1 hm2 (by omega)]
  dsimp only
  by_cases hm : m ≤ 2
  · rw [if_pos hm]
    have hleap : (m = 1 ∧ d ≤ 31) ∨
        (m = 2 ∧ (d ≤ 28 ∨ (d = 29 ∧ ((y % 4 = 0 ∧ y % 100 ≠ 0) ∨ y % 400 = 0)))) := by
      by_cases h2 : m = 2
      · rw [if_pos h2] at hd2
        by_cases hlp : isLeap y = true
        · rw [if_pos hlp] at hd2
          have := hl.1 hlp
          omega
        · rw [if_neg hlp] at hd2; omega
      · rw [if_neg h2, if_neg (by omega)] at hd2; omega
    clear hd2 hl
    rw [cliJdnToYmdRaw_march ((y : Int) + 4800 - 1) ((m : Int) + 12 * 1 - 3) d (by omega) (by omega)
      (by omega) (by omega) (by omega) (by omega)]
    have e1 : (y : Int) + 4800 - 1 - 4800 + ((m : Int) + 12 * 1 - 3) / 10 = y := by omega
    have e2 : (m : Int) + 12 * 1 - 3 + 3 - 12 * (((m : Int) + 12 * 1 - 3) / 10) = m := by omega
    rw [e1, e2]
  · rw [if_neg hm]
    have hd3 : d ≤ 30 ∨ (d = 31 ∧ (m = 3 ∨ m = 5 ∨ m = 7 ∨ m = 8 ∨ m = 10 ∨ m = 12)) := by
      rw [if_neg (by omega)] at hd2
      split at hd2 <;> omega
    clear hd2 hl
    rw [cliJdnToYmdRaw_march ((y : Int) + 4800 - 0) ((m : Int) + 12 * 0 - 3) d (by omega) (by omega)
      (by omega) (by omega) (by omega) (by omega)]
    have e1 : (y : Int) + 4800 - 0 - 4800 + ((m : Int) + 12 * 0 - 3) / 10 = y := by omega
    have e2 : (m : Int) + 12 * 0 - 3 + 3 - 12 * (((m : Int) + 12 * 0 - 3) / 10) = m := by omega
    rw [e1, e2]

/-! ### datetime.rs `day_of_week` (Zeller with truncating `%` on possibly negative values) -/

theorem zeller_mod (x : Int) : ((x.tmod 7) + 6).tmod 7 = (x + 6) % 7 := by
  rw [Int.tmod_eq_emod (a := x)]
  split
  · simp only [Int.natCast_zero, Int.sub_zero]
    rw [Int.tmod_eq_emod_of_nonneg (by omega)]; omega
  · rename_i h
    have h1 : x < 0 := by omega
    have h2 : x % 7 ≠ 0 := by omega
    have : ((7 : Int).natAbs : Int) = 7 := rfl
    rw [this, Int.tmod_eq_emod_of_nonneg (by omega)]; omega

theorem fnDayOfWeekRaw_nat (y m d : Nat) (hy : 1 ≤ y) (hm1 : 1 ≤ m) (hm2 : m ≤ 12) :
    fnDayOfWeekRaw (y : Int) m d = ((daysFromCivil y m d : Nat) : Int) % 7 := by
  rw [← fnDateToDays_nat y m d hy hm1 hm2]
  unfold fnDayOfWeekRaw fnDateToDays
  dsimp only
  rw [zeller_mod]
  by_cases hm : m < 3
  · have hm' : m ≤ 2 := by omega
    rw [if_pos hm, if_pos hm, if_pos hm', if_pos hm']
    simp (disch := omega) only [Int.tdiv_eq_ediv_of_nonneg, Int.tmod_eq_emod_of_nonneg]
    have h4 : ((y : Int) - 1) / 4 = 25 * (((y : Int) - 1) / 100) + ((y : Int) - 1) % 100 / 4 := by omega
    have h400 : ((y : Int) - 1) / 400 = ((y : Int) - 1) / 100 / 4 := by omega
    rw [h4, h400]
    rcases (show m = 1 ∨ m = 2 by omega) with h | h <;> subst h <;> omega
  · have hm' : ¬ m ≤ 2 := by omega
    rw [if_neg hm, if_neg hm, if_neg hm', if_neg hm']
    simp (disch := omega) only [Int.tdiv_eq_ediv_of_nonneg, Int.tmod_eq_emod_of_nonneg]
    have h4 : (y : Int) / 4 = 25 * ((y : Int) / 100) + (y : Int) % 100 / 4 := by omega
    have h400 : (y : Int) / 400 = (y : Int) / 100 / 4 := by omega
    rw [h4, h400]
    rcases (show m = 3 ∨ m = 4 ∨ m = 5 ∨ m = 6 ∨ m = 7 ∨ m = 8 ∨ m = 9 ∨ m = 10 ∨ m = 11 ∨ m = 12 by omega)
      with h | h | h | h | h | h | h | h | h | h <;> subst h <;> omega

/-! ### datetime.rs `format_unix_timestamp` (civil-from-days with the constants 1461 / 146097): correct on
every date except Feb 29 -/

theorem fnCivil_core (q days0 : Int) (s c t w r E mm d : Nat)
    (hs : s = 100 * c + t) (ht : t < 100) (hc : c < 4) (hw : t = 4 * w + r) (hr : r < 4)
    (hE : E ≤ 364) (hq : 0 ≤ q) (hmm0 : 3 ≤ mm) (hmm1 : mm ≤ 14) (hd : 1 ≤ d)
    (hEdef : E + 1 = (153 * (mm - 3) + 2) / 5 + d)
    (hmonth : (5 * E + 2) / 153 = mm - 3)
    (h : days0 + 719468 = 146097 * q + ((36524 * c + 365 * t + w + E : Nat) : Int)) :
    fnCivilFromUnixDays days0 =
      some (if mm > 12 then 400 * q + (s : Int) + 1 else 400 * q + s, if mm > 12 then mm - 12 else mm, d) := by
  unfold fnCivilFromUnixDays
  dsimp only
  rw [h]
  have hnn : (146097 * q + ((36524 * c + 365 * t + w + E : Nat) : Int)) ≥ 0 := by omega
  rw [if_pos hnn]
  generalize hera : (146097 * q + ((36524 * c + 365 * t + w + E : Nat) : Int)).tdiv 146097 = era
  have hera' : era = q := by
    rw [← hera, Int.tdiv_eq_ediv_of_nonneg (by omega)]; omega
  subst hera'
  have hdoe : asU32 (146097 * era + ((36524 * c + 365 * t + w + E : Nat) : Int) - era * 146097)
      = 36524 * c + 365 * t + w + E := by
    have : 146097 * era + ((36524 * c + 365 * t + w + E : Nat) : Int) - era * 146097
        = ((36524 * c + 365 * t + w + E : Nat) : Int) := by omega
    rw [this, asU32_nat _ (by omega)]
  rw [hdoe]
  generalize hdoe' : 36524 * c + 365 * t + w + E = doe
  have hB : doe / 36524 = c := by omega
  have hZ : doe / 146097 = 0 := by omega
  have hA : doe / 1461 = 24 * c + w + (1460 * c + 365 * r + E) / 1461 := by omega
  have hX : (1460 * c + 365 * r + E) / 1461 ≤ c + E ∧ c + E < 365 + (1460 * c + 365 * r + E) / 1461 := by
    have hc4 : c = 0 ∨ c = 1 ∨ c = 2 ∨ c = 3 := by omega
    have hr4 : r = 0 ∨ r = 1 ∨ r = 2 ∨ r = 3 := by omega
    rcases hc4 with rfl | rfl | rfl | rfl <;> rcases hr4 with rfl | rfl | rfl | rfl <;> omega
  have hyoe : (doe - doe / 1461 + doe / 36524 - doe / 146097) / 365 = s := by
    rw [hB, hZ, hA]
    generalize (1460 * c + 365 * r + E) / 1461 = X at hX ⊢
    omega
  rw [hyoe]
  have hs4 : s / 4 = 25 * c + w := by omega
  have hs100 : s / 100 = c := by omega
  have hsub : 365 * s + s / 4 - s / 100 = doe - E := by omega
  rw [hsub]
  have hlt : ¬ (doe < doe - E) := by omega
  rw [if_neg hlt]
  have hdoy : doe - (doe - E) = E := by omega
  rw [hdoy, hmonth]
  have hd' : E - (153 * (mm - 3) + 2) / 5 + 1 = d := by omega
  rw [hd']
  by_cases h12 : mm > 12
  · have h1 : ¬ (mm - 3 < 10) := by omega
    have h2 : mm - 3 - 9 ≤ 2 := by omega
    have h3 : mm - 3 - 9 = mm - 12 := by omega
    have h4 : (s : Int) + era * 400 + 1 = 400 * era + s + 1 := by omega
    rw [if_neg h1, if_pos h2, if_pos h12, if_pos h12, h3, h4]
  · have h1 : mm - 3 < 10 := by omega
    have h2 : ¬ (mm - 3 + 3 ≤ 2) := by omega
    have h3 : mm - 3 + 3 = mm := by omega
    have h4 : (s : Int) + era * 400 = 400 * era + s := by omega
    rw [if_pos h1, if_neg h2, if_neg h12, if_neg h12, h3, h4]


theorem fnCivil_march (Yn mm d : Nat) (hmm0 : 3 ≤ mm) (hmm1 : mm ≤ 14) (hd : 1 ≤ d)
    (hE : (153 * (mm - 3) + 2) / 5 + d ≤ 365)
    (hmonth : (5 * ((153 * (mm - 3) + 2) / 5 + d - 1) + 2) / 153 = mm - 3) (days0 : Int)
    (h : days0 + 719468 = 365 * (Yn : Int) + (Yn : Int) / 4 - (Yn : Int) / 100 + (Yn : Int) / 400
      + (((153 * (mm - 3) + 2) / 5 + d - 1 : Nat) : Int)) :
    fnCivilFromUnixDays days0 =
      some (if mm > 12 then (Yn : Int) + 1 else Yn, if mm > 12 then mm - 12 else mm, d) := by
  have key := fnCivil_core ((Yn / 400 : Nat) : Int) days0 (Yn % 400) (Yn % 400 / 100) (Yn % 400 % 100)
    (Yn % 400 % 100 / 4) (Yn % 400 % 100 % 4) ((153 * (mm - 3) + 2) / 5 + d - 1) mm d
    (by omega) (by omega) (by omega) (by omega) (by omega) (by omega) (by omega) hmm0 hmm1 hd (by omega)
    hmonth (by omega)
  rw [key]
  have e : (400 : Int) * ((Yn / 400 : Nat) : Int) + ((Yn % 400 : Nat) : Int) = Yn := by omega
  rw [e]


theorem fnCivil_inverse_partial (y m d : Nat) (hy : 1 ≤ y) (hm1 : 1 ≤ m) (hm2 : m ≤ 12) (hd1 : 1 ≤ d)
    (hd2 : d ≤ monthLen y m) (hnot : ¬ (m = 2 ∧ d = 29)) :
    fnCivilFromUnixDays (((daysFromCivil y m d : Nat) : Int) - 719163) = some ((y : Int), m, d) := by
  rw [monthLen_cases y m hm1 hm2] at hd2
  rw [← fnDateToDays_nat y m d hy hm1 hm2, fnDateToDays_shape (y : Int) m d (by omega) hm1 hm2]
  dsimp only
  by_cases hm : m ≤ 2
  · rw [if_pos hm, if_pos hm]
    have hb : (m = 1 ∧ d ≤ 31) ∨ (m = 2 ∧ d ≤ 28) := by
      by_cases h2 : m = 2
      · rw [if_pos h2] at hd2
        split at hd2 <;> omega
      · rw [if_neg h2, if_neg (by omega)] at hd2; omega
    clear hd2
    rw [fnCivil_march (y - 1) (m + 12) d (by omega) (by omega) hd1 (by omega) (by omega) _ (by omega)]
    have e1 : ((y - 1 : Nat) : Int) + 1 = y := by omega
    have e2 : m + 12 - 12 = m := by omega
    rw [if_pos (by omega), if_pos (by omega), e1, e2]
  · rw [if_neg hm, if_neg hm]
    have hd3 : d ≤ 30 ∨ (d = 31 ∧ (m = 3 ∨ m = 5 ∨ m = 7 ∨ m = 8 ∨ m = 10 ∨ m = 12)) := by
      rw [if_neg (by omega)] at hd2
      split at hd2 <;> omega
    clear hd2
    rw [fnCivil_march y m d (by omega) (by omega) hd1 (by omega) (by omega) _ (by omega)]
    rw [if_neg (by omega), if_neg (by omega)]

end TurVerif.Cal
