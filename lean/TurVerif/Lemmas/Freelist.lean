import TurVerif.Model.Freelist
/-! Frame lemmas for the freelist model: page store, chain of trunk pages, items of a chain. -/
namespace TurVerif.Freelist

theorem lookup_filter_ne (l : List (Nat × Page)) (p q : Nat) (h : q ≠ p) :
    lookup (l.filter (fun e => e.1 != p)) q = lookup l q := by
  induction l with
  | nil => rfl
  | cons e r ih =>
    obtain ⟨a, v⟩ := e
    by_cases hap : a = p
    · subst hap
      have : lookup ((a, v) :: r) q = lookup r q := by
        simp [lookup, Ne.symm h]
      simp [List.filter, this, ih]
    · have h1 : ((a, v).1 != p) = true := by simp [hap]
      simp only [List.filter, h1]
      by_cases haq : a = q
      · simp [lookup, haq]
      · simp [lookup, haq, ih]

@[simp] theorem page_setPage (s : St) (p q : Nat) (v : Page) :
    (s.setPage p v).page q = if q = p then v else s.page q := by
  unfold St.setPage St.page
  by_cases h : q = p
  · subst h; simp [lookup]
  · simp only [h, if_false]
    have : lookup ((p, v) :: s.pages.filter (fun e => e.1 != p)) q
        = lookup (s.pages.filter (fun e => e.1 != p)) q := by
      simp [lookup, Ne.symm h]
    rw [this, lookup_filter_ne _ _ _ h]

@[simp] theorem npages_setPage (s : St) (p : Nat) (v : Page) : (s.setPage p v).npages = s.npages := rfl
@[simp] theorem head_setPage (s : St) (p : Nat) (v : Page) : (s.setPage p v).head = s.head := rfl
@[simp] theorem fc_setPage (s : St) (p : Nat) (v : Page) : (s.setPage p v).freeCount = s.freeCount := rfl
@[simp] theorem page_init (n q : Nat) : (St.init n).page q = Page.zero := rfl

theorem slot_setSlot (l : List Nat) (i j v : Nat) :
    (setSlot l i v).getD j 0 = if j = i then v else l.getD j 0 := by
  induction l generalizing i j with
  | nil =>
    induction i generalizing j with
    | zero => cases j <;> simp [setSlot]
    | succ i ih =>
      cases j with
      | zero => simp [setSlot]
      | succ j => simpa [setSlot] using ih j
  | cons x xs ih =>
    cases i with
    | zero => cases j <;> simp [setSlot]
    | succ i =>
      cases j with
      | zero => simp [setSlot]
      | succ j => simpa [setSlot] using ih i j

theorem ents_congr (a b : Page) (k : Nat) (h : ∀ i, i < k → a.slot i = b.slot i) :
    ents a k = ents b k := by
  induction k with
  | zero => rfl
  | succ k ih =>
    simp only [ents]
    rw [h k (Nat.lt_succ_self k), ih (fun i hi => h i (Nat.lt_succ_of_lt hi))]

theorem length_ents (a : Page) (k : Nat) : (ents a k).length = k := by
  induction k with
  | zero => rfl
  | succ k ih => simp [ents, ih]

/-- `ts` is the chain of trunk pages reachable from `h` -/
def Chain (s : St) : Nat → List Nat → Prop
  | h, [] => h = 0
  | h, t :: ts => h = t ∧ t ≠ 0 ∧ t < s.npages ∧ Chain s (s.page t).next ts

/-- all page numbers held by the chain: per trunk its entries (top first), then the trunk page -/
def items (s : St) : List Nat → List Nat
  | [] => []
  | t :: ts => ents (s.page t) (s.page t).count ++ t :: items s ts

/-- entries only -/
def entryCount (s : St) : List Nat → Nat
  | [] => 0
  | t :: ts => (s.page t).count + entryCount s ts

theorem Chain_congr {s s' : St} {ts : List Nat} (hn : s'.npages = s.npages)
    (hp : ∀ t ∈ ts, s'.page t = s.page t) {h : Nat} : Chain s h ts → Chain s' h ts := by
  induction ts generalizing h with
  | nil => exact id
  | cons t ts ih =>
    intro hc
    obtain ⟨h1, h2, h3, h4⟩ := hc
    refine ⟨h1, h2, by omega, ?_⟩
    rw [hp t (by simp)]
    exact ih (fun u hu => hp u (by simp [hu])) h4

theorem items_congr {s s' : St} {ts : List Nat} (hp : ∀ t ∈ ts, s'.page t = s.page t) :
    items s' ts = items s ts := by
  induction ts with
  | nil => rfl
  | cons t ts ih =>
    simp only [items]
    rw [hp t (by simp), ih (fun u hu => hp u (by simp [hu]))]

theorem entryCount_congr {s s' : St} {ts : List Nat} (hp : ∀ t ∈ ts, s'.page t = s.page t) :
    entryCount s' ts = entryCount s ts := by
  induction ts with
  | nil => rfl
  | cons t ts ih =>
    simp only [entryCount]
    rw [hp t (by simp), ih (fun u hu => hp u (by simp [hu]))]

theorem mem_items_of_mem {s : St} {ts : List Nat} {t : Nat} (h : t ∈ ts) : t ∈ items s ts := by
  induction ts with
  | nil => cases h
  | cons u us ih =>
    simp only [items, List.mem_append, List.mem_cons]
    rcases List.mem_cons.mp h with rfl | h'
    · exact Or.inr (Or.inl rfl)
    · exact Or.inr (Or.inr (ih h'))

theorem length_items (s : St) (ts : List Nat) :
    (items s ts).length = entryCount s ts + ts.length := by
  induction ts with
  | nil => rfl
  | cons t ts ih => simp [items, entryCount, length_ents, ih]; omega

theorem Chain_head_zero {s : St} {ts : List Nat} (h : Chain s 0 ts) : ts = [] := by
  cases ts with
  | nil => rfl
  | cons t ts => exact absurd h.1.symm h.2.1

theorem Chain_head_ne {s : St} {ts : List Nat} {h : Nat} (hc : Chain s h ts) (hne : h ≠ 0) :
    ∃ ts', ts = h :: ts' := by
  cases ts with
  | nil => exact absurd hc hne
  | cons t ts => exact ⟨ts, by rw [hc.1]⟩

end TurVerif.Freelist
