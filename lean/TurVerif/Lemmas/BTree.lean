import TurVerif.Model.BTree
import TurVerif.Lemmas.OMap
/-! Helper definitions and lemmas for the tree-level model (`TurVerif.BTree`). -/
namespace TurVerif.BTree
open TurVerif.Simd (cmpBytes)
open TurVerif.OMap
open TurVerif.C30 (cmp_eq_iff cmp_gt_iff cmp_lt_trans)

/-! ### the key order -/
def lt (a b : Key) : Prop := cmpBytes a b = .lt
/-- `a ≤ b` as "not b < a" (exactly what `find_child` tests) -/
def le (a b : Key) : Prop := ¬ cmpBytes b a = .lt

theorem lt_irrefl (a : Key) : ¬ lt a a := by unfold lt; rw [cmp_refl]; simp
theorem lt_trans' {a b c : Key} (h1 : lt a b) (h2 : lt b c) : lt a c := cmp_lt_trans _ _ _ h1 h2
theorem le_of_lt {a b : Key} (h : lt a b) : le a b := fun h' => lt_irrefl a (lt_trans' h h')
theorem le_refl (a : Key) : le a a := lt_irrefl a

theorem lt_of_lt_of_le {a b c : Key} (h1 : lt a b) (h2 : le b c) : lt a c := by
  unfold lt le at *
  cases h : cmpBytes a c with
  | lt => rfl
  | eq => have := (cmp_eq_iff _ _).mp h; subst this; exact absurd h1 h2
  | gt => exact absurd (cmp_lt_trans _ _ _ ((cmp_gt_iff _ _).mp h) h1) h2

theorem lt_of_le_of_lt {a b c : Key} (h1 : le a b) (h2 : lt b c) : lt a c := by
  unfold lt le at *
  cases h : cmpBytes a c with
  | lt => rfl
  | eq => have := (cmp_eq_iff _ _).mp h; subst this; exact absurd h2 h1
  | gt => exact absurd (cmp_lt_trans _ _ _ h2 ((cmp_gt_iff _ _).mp h)) h1

theorem le_trans' {a b c : Key} (h1 : le a b) (h2 : le b c) : le a c :=
  fun h => h2 (lt_of_lt_of_le h h1)

/-! ### bounds -/
def geLo : Option Key → Key → Prop
  | none, _ => True
  | some l, k => le l k
def ltHi : Option Key → Key → Prop
  | none, _ => True
  | some h, k => lt k h
def InB (lo hi : Option Key) (k : Key) : Prop := geLo lo k ∧ ltHi hi k

theorem geLo_trans {lo : Option Key} {a b : Key} (h1 : geLo lo a) (h2 : le a b) : geLo lo b := by
  cases lo with
  | none => trivial
  | some l => exact le_trans' h1 h2

theorem ltHi_trans {hi : Option Key} {a b : Key} (h1 : lt a b) (h2 : ltHi hi b) : ltHi hi a := by
  cases hi with
  | none => trivial
  | some h => exact lt_trans' h1 h2

/-! ### ordered-map operations over a concatenation -/
theorem lookup_append_left {A B : List Entry} {k : Key} (h : ∀ e ∈ B, lt k e.1) :
    lookup (A ++ B) k = lookup A k := by
  induction A with
  | nil => simp only [List.nil_append, lookup]; exact lookup_none_of_lt h
  | cons x A ih => obtain ⟨k', v'⟩ := x; simp only [List.cons_append, lookup, ih]

theorem lookup_append_right {A B : List Entry} {k : Key} (h : ∀ e ∈ A, lt e.1 k) :
    lookup (A ++ B) k = lookup B k := by
  induction A with
  | nil => rfl
  | cons x A ih =>
    obtain ⟨k', v'⟩ := x
    have hx : cmpBytes k' k = .lt := h (k', v') (List.mem_cons_self ..)
    simp only [List.cons_append, lookup, hx]
    exact ih (fun e he => h e (List.mem_cons_of_mem _ he))

theorem insertNew_append_left {A B : List Entry} {k : Key} (v : List Nat) (h : ∀ e ∈ B, lt k e.1) :
    insertNew (A ++ B) k v = insertNew A k v ++ B := by
  induction A with
  | nil =>
    cases B with
    | nil => rfl
    | cons b B =>
      obtain ⟨kb, vb⟩ := b
      have : cmpBytes kb k = .gt := (cmp_gt_iff _ _).mpr (h (kb, vb) (List.mem_cons_self ..))
      simp [insertNew, this]
  | cons x A ih =>
    obtain ⟨k', v'⟩ := x
    simp only [List.cons_append, insertNew]
    split <;> simp [ih]

theorem insertNew_append_right {A B : List Entry} {k : Key} (v : List Nat) (h : ∀ e ∈ A, lt e.1 k) :
    insertNew (A ++ B) k v = A ++ insertNew B k v := by
  induction A with
  | nil => rfl
  | cons x A ih =>
    obtain ⟨k', v'⟩ := x
    have hx : cmpBytes k' k = .lt := h (k', v') (List.mem_cons_self ..)
    simp only [List.cons_append, insertNew, hx]
    rw [ih (fun e he => h e (List.mem_cons_of_mem _ he))]

theorem erase_append_left {A B : List Entry} {k : Key} (h : ∀ e ∈ B, lt k e.1) :
    erase (A ++ B) k = erase A k ++ B := by
  induction A with
  | nil =>
    cases B with
    | nil => rfl
    | cons b B =>
      obtain ⟨kb, vb⟩ := b
      have : cmpBytes kb k = .gt := (cmp_gt_iff _ _).mpr (h (kb, vb) (List.mem_cons_self ..))
      simp [erase, this]
  | cons x A ih =>
    obtain ⟨k', v'⟩ := x
    simp only [List.cons_append, erase]
    split <;> simp [ih]

theorem erase_append_right {A B : List Entry} {k : Key} (h : ∀ e ∈ A, lt e.1 k) :
    erase (A ++ B) k = A ++ erase B k := by
  induction A with
  | nil => rfl
  | cons x A ih =>
    obtain ⟨k', v'⟩ := x
    have hx : cmpBytes k' k = .lt := h (k', v') (List.mem_cons_self ..)
    simp only [List.cons_append, erase, hx]
    rw [ih (fun e he => h e (List.mem_cons_of_mem _ he))]

theorem mem_insertNew_sub {m : List Entry} {k v : List Nat} {e : Entry} (he : e ∈ insertNew m k v) :
    e = (k, v) ∨ e ∈ m := by
  induction m with
  | nil => simpa [insertNew] using he
  | cons y m ih =>
    obtain ⟨k2, v2⟩ := y
    simp only [insertNew] at he
    split at he
    · rcases List.mem_cons.mp he with h | h
      · exact Or.inr (h ▸ List.mem_cons_self ..)
      · rcases ih h with h | h
        · exact Or.inl h
        · exact Or.inr (List.mem_cons_of_mem _ h)
    · exact Or.inr he
    · rcases List.mem_cons.mp he with h | h
      · exact Or.inl h
      · exact Or.inr h


/-! ### the tree invariant (C29, tree level): separators bound their subtrees -/

/-- a separator strictly above the lower bound and strictly below the upper bound -/
def Sep (lo hi : Option Key) (s : Key) : Prop :=
  (match lo with | none => True | some l => lt l s) ∧ ltHi hi s

theorem Sep.inB {lo hi : Option Key} {s : Key} (h : Sep lo hi s) : InB lo hi s := by
  refine ⟨?_, h.2⟩
  cases lo with
  | none => trivial
  | some l => exact le_of_lt h.1

/-- slots `(child, sep)`: the child holds keys in `[lo, sep)`, the rest of the page keys in `[sep, hi)` -/
def WFs {α : Type} (wf : α → Option Key → Option Key → Prop) :
    List (α × Key) → α → Option Key → Option Key → Prop
  | [], right, lo, hi => wf right lo hi
  | (c, s) :: rest, right, lo, hi => wf c lo (some s) ∧ Sep lo hi s ∧ WFs wf rest right (some s) hi

/-- `WFb n t lo hi`: every leaf is key-sorted, every key `k` of the subtree satisfies lo ≤ k < hi,
every separator lies strictly inside the bounds of its page and bounds its neighbours' subtrees
(left < sep ≤ right), recursively. (Uniform leaf depth is built into `T n`.) -/
def WFb : (n : Nat) → T n → Option Key → Option Key → Prop
  | 0 => fun (es : List Entry) lo hi => Sorted es ∧ ∀ e ∈ es, InB lo hi e.1
  | n + 1 => fun (nd : Node (T n)) lo hi => WFs (WFb n) nd.slots nd.right lo hi

/-- what a level must provide to the level above -/
structure Child {α : Type} (wf : α → Option Key → Option Key → Prop) (f : α → List Entry) : Prop where
  bounds : ∀ a lo hi, wf a lo hi → ∀ e ∈ f a, InB lo hi e.1
  sorted : ∀ a lo hi, wf a lo hi → Sorted (f a)

def absS {α : Type} (f : α → List Entry) (slots : List (α × Key)) (right : α) : List Entry :=
  (slots.map fun s => f s.1).flatten ++ f right

theorem absS_cons {α : Type} (f : α → List Entry) (c : α) (s : Key) (rest : List (α × Key)) (right : α) :
    absS f ((c, s) :: rest) right = f c ++ absS f rest right := by
  simp [absS, List.append_assoc]

theorem bounds_slots {α : Type} {wf : α → Option Key → Option Key → Prop} {f : α → List Entry}
    (H : Child wf f) {slots : List (α × Key)} {right : α} {lo hi : Option Key}
    (w : WFs wf slots right lo hi) : ∀ e ∈ absS f slots right, InB lo hi e.1 := by
  induction slots generalizing lo with
  | nil => simpa [absS] using H.bounds right lo hi w
  | cons x rest ih =>
    obtain ⟨c, s⟩ := x
    obtain ⟨wc, ws, wr⟩ := w
    intro e he
    rw [absS_cons] at he
    rcases List.mem_append.mp he with he | he
    · have := H.bounds c lo (some s) wc e he
      exact ⟨this.1, ltHi_trans this.2 ws.2⟩
    · have := ih wr e he
      exact ⟨geLo_trans ws.inB.1 this.1, this.2⟩

theorem sorted_slots {α : Type} {wf : α → Option Key → Option Key → Prop} {f : α → List Entry}
    (H : Child wf f) {slots : List (α × Key)} {right : α} {lo hi : Option Key}
    (w : WFs wf slots right lo hi) : Sorted (absS f slots right) := by
  induction slots generalizing lo with
  | nil => simpa [absS] using H.sorted right lo hi w
  | cons x rest ih =>
    obtain ⟨c, s⟩ := x
    obtain ⟨wc, ws, wr⟩ := w
    rw [absS_cons]
    unfold Sorted
    rw [List.pairwise_append]
    refine ⟨H.sorted c lo (some s) wc, ih wr, ?_⟩
    intro a ha b hb
    have h1 := (H.bounds c lo (some s) wc a ha).2
    have h2 := (bounds_slots H wr b hb).1
    exact lt_of_lt_of_le h1 h2

theorem child_node {α : Type} {wf : α → Option Key → Option Key → Prop} {f : α → List Entry}
    (H : Child wf f) :
    Child (fun (nd : Node α) lo hi => WFs wf nd.slots nd.right lo hi) (Node.abs f) :=
  ⟨fun _ _ _ w => bounds_slots H w, fun _ _ _ w => sorted_slots H w⟩

theorem child_level : (n : Nat) → Child (WFb n) (absT n)
  | 0 => ⟨fun _ _ _ w => w.2, fun _ _ _ w => w.1⟩
  | n + 1 => child_node (child_level n)

/-! ### search -/
theorem route_slots {α : Type} {wf : α → Option Key → Option Key → Prop} {f : α → List Entry}
    (H : Child wf f) {g : α → Option (List Nat)} {k : Key}
    (Hg : ∀ a lo hi, wf a lo hi → InB lo hi k → g a = lookup (f a) k)
    {slots : List (α × Key)} {right : α} {lo hi : Option Key}
    (w : WFs wf slots right lo hi) (hk : InB lo hi k) :
    Node.route g k slots right = lookup (absS f slots right) k := by
  induction slots generalizing lo with
  | nil => simpa [Node.route, absS] using Hg right lo hi w hk
  | cons x rest ih =>
    obtain ⟨c, s⟩ := x
    obtain ⟨wc, ws, wr⟩ := w
    rw [absS_cons]
    simp only [Node.route]
    split
    · rename_i hlt
      rw [Hg c lo (some s) wc ⟨hk.1, hlt⟩]
      refine (lookup_append_left ?_).symm
      intro e he
      exact lt_of_lt_of_le hlt (bounds_slots H wr e he).1
    · rename_i hge
      rw [ih wr ⟨hge, hk.2⟩]
      refine (lookup_append_right ?_).symm
      intro e he
      exact lt_of_lt_of_le (H.bounds c lo (some s) wc e he).2 hge

theorem search_level : (n : Nat) → ∀ (t : T n) (lo hi : Option Key) (k : Key),
    WFb n t lo hi → InB lo hi k → searchT n t k = lookup (absT n t) k
  | 0 => fun _ _ _ _ _ _ => rfl
  | n + 1 => fun nd _ _ k w hk =>
    route_slots (child_level n) (fun a lo hi wa ha => search_level n a lo hi k wa ha) w hk

/-! ### insert -/
def Ins.abs {α : Type} (f : α → List Entry) : Ins α → List Entry
  | .one t => f t
  | .two l _ r => f l ++ f r

def InsWF {α : Type} (wf : α → Option Key → Option Key → Prop) : Ins α → Option Key → Option Key → Prop
  | .one t, lo, hi => wf t lo hi
  | .two l s r, lo, hi => wf l lo (some s) ∧ Sep lo hi s ∧ wf r (some s) hi

theorem insSlots_spec {α : Type} {wf : α → Option Key → Option Key → Prop} {f : α → List Entry}
    (H : Child wf f) {ins : α → Ins α} {k : Key} {v : List Nat}
    (Hi : ∀ a lo hi, wf a lo hi → InB lo hi k →
      InsWF wf (ins a) lo hi ∧ Ins.abs f (ins a) = insertNew (f a) k v)
    {slots : List (α × Key)} {right : α} {lo hi : Option Key}
    (w : WFs wf slots right lo hi) (hk : InB lo hi k) :
    WFs wf (Node.insSlots ins k slots right).1 (Node.insSlots ins k slots right).2 lo hi ∧
    absS f (Node.insSlots ins k slots right).1 (Node.insSlots ins k slots right).2 =
      insertNew (absS f slots right) k v := by
  induction slots generalizing lo with
  | nil =>
    obtain ⟨h1, h2⟩ := Hi right lo hi w hk
    simp only [Node.insSlots]
    cases hr : ins right with
    | one r' =>
      rw [hr] at h1 h2
      exact ⟨h1, by simpa [absS, Ins.abs] using h2⟩
    | two l s r =>
      rw [hr] at h1 h2
      exact ⟨⟨h1.1, h1.2.1, h1.2.2⟩, by simpa [absS, Ins.abs] using h2⟩
  | cons x rest ih =>
    obtain ⟨c, s⟩ := x
    obtain ⟨wc, ws, wr⟩ := w
    simp only [Node.insSlots]
    split
    · rename_i hlt
      obtain ⟨h1, h2⟩ := Hi c lo (some s) wc ⟨hk.1, hlt⟩
      have hrest : ∀ e ∈ absS f rest right, lt k e.1 := fun e he =>
        lt_of_lt_of_le hlt (bounds_slots H wr e he).1
      cases hc : ins c with
      | one c' =>
        rw [hc] at h1 h2
        refine ⟨⟨h1, ws, wr⟩, ?_⟩
        simp only [Ins.abs] at h2
        rw [absS_cons, absS_cons, h2, insertNew_append_left v hrest]
      | two l s' r =>
        rw [hc] at h1 h2
        obtain ⟨wl, wsep, wr'⟩ := h1
        refine ⟨⟨wl, ⟨wsep.1, ltHi_trans wsep.2 ws.2⟩, wr', ⟨wsep.2, ws.2⟩, wr⟩, ?_⟩
        simp only [Ins.abs] at h2
        rw [absS_cons, absS_cons, absS_cons, ← List.append_assoc, h2, insertNew_append_left v hrest]
    · rename_i hge
      obtain ⟨h1, h2⟩ := ih wr ⟨hge, hk.2⟩
      refine ⟨⟨wc, ws, h1⟩, ?_⟩
      rw [absS_cons, absS_cons, h2]
      refine (insertNew_append_right v ?_).symm
      intro e he
      exact lt_of_lt_of_le (H.bounds c lo (some s) wc e he).2 hge

/-- cutting a slot chain at separator `s` -/
theorem wfs_split {α : Type} {wf : α → Option Key → Option Key → Prop}
    {pre : List (α × Key)} {c : α} {s : Key} {post : List (α × Key)} {right : α} {lo hi : Option Key}
    (w : WFs wf (pre ++ (c, s) :: post) right lo hi) :
    WFs wf pre c lo (some s) ∧ Sep lo hi s ∧ WFs wf post right (some s) hi := by
  induction pre generalizing lo with
  | nil => exact w
  | cons x pre ih =>
    obtain ⟨c1, s1⟩ := x
    obtain ⟨wc, ws, wr⟩ := w
    obtain ⟨h1, h2, h3⟩ := ih wr
    refine ⟨⟨wc, ⟨ws.1, h2.1⟩, h1⟩, ⟨?_, h2.2⟩, h3⟩
    cases lo with
    | none => trivial
    | some l => exact lt_trans' ws.1 h2.1

theorem absS_append {α : Type} (f : α → List Entry) (pre : List (α × Key)) (c : α) (s : Key)
    (post : List (α × Key)) (right : α) :
    absS f (pre ++ (c, s) :: post) right = absS f pre c ++ absS f post right := by
  induction pre with
  | nil => simp [absS, List.append_assoc]
  | cons x pre ih =>
    obtain ⟨c1, s1⟩ := x
    rw [List.cons_append, absS_cons, absS_cons, ih, List.append_assoc]

theorem split_spec {α : Type} {wf : α → Option Key → Option Key → Prop} {f : α → List Entry}
    (p : Policy) (nd : Node α) {lo hi : Option Key} (w : WFs wf nd.slots nd.right lo hi) :
    InsWF (fun (nd : Node α) lo hi => WFs wf nd.slots nd.right lo hi) (Node.split p nd) lo hi ∧
    Ins.abs (Node.abs f) (Node.split p nd) = Node.abs f nd := by
  unfold Node.split
  cases p.node nd.slots.length with
  | none => exact ⟨w, rfl⟩
  | some m =>
    dsimp only
    cases hd : nd.slots.drop m with
    | nil => exact ⟨w, rfl⟩
    | cons x post =>
      obtain ⟨c, s⟩ := x
      have hsl : nd.slots = nd.slots.take m ++ (c, s) :: post := by
        rw [← hd, List.take_append_drop]
      rw [hsl] at w
      obtain ⟨h1, h2, h3⟩ := wfs_split w
      refine ⟨⟨h1, h2, h3⟩, ?_⟩
      show absS f (nd.slots.take m) c ++ absS f post nd.right = absS f nd.slots nd.right
      conv => rhs; rw [hsl]
      rw [absS_append]

theorem pairwise_take_drop {es : List Entry} (hs : Sorted es) (m : Nat) :
    ∀ a ∈ es.take m, ∀ b ∈ es.drop m, lt a.1 b.1 := by
  have : Sorted (es.take m ++ es.drop m) := by rw [List.take_append_drop]; exact hs
  unfold Sorted at this
  rw [List.pairwise_append] at this
  exact this.2.2

theorem splitLeaf_spec (p : Policy) {es : List Entry} {lo hi : Option Key}
    (w : WFb 0 es lo hi) :
    InsWF (WFb 0) (splitLeaf p es) lo hi ∧ Ins.abs (absT 0) (splitLeaf p es) = es := by
  unfold splitLeaf
  cases p.leaf es with
  | none => exact ⟨w, rfl⟩
  | some m =>
    dsimp only
    split
    · exact ⟨w, rfl⟩
    · rename_i hm
      cases hd : es.drop m with
      | nil => exact ⟨w, rfl⟩
      | cons e rest =>
        have hcross := pairwise_take_drop w.1 m
        have he_drop : e ∈ es.drop m := by rw [hd]; exact List.mem_cons_self ..
        have he : e ∈ es := List.mem_of_mem_drop he_drop
        have hsd : Sorted (es.drop m) := List.Pairwise.sublist (List.drop_sublist m es) w.1
        refine ⟨⟨⟨List.Pairwise.sublist (List.take_sublist m es) w.1, ?_⟩, ⟨?_, (w.2 e he).2⟩,
          ⟨by rw [← hd]; exact hsd, ?_⟩⟩, ?_⟩
        · intro a ha
          exact ⟨(w.2 a (List.mem_of_mem_take ha)).1, hcross a ha e he_drop⟩
        · -- the separator is strictly above the lower bound: the left half is non-empty
          cases lo with
          | none => trivial
          | some l =>
            cases ht : es.take m with
            | nil =>
              have : (es.take m).length = 0 := by rw [ht]; rfl
              rw [List.length_take] at this
              have hlen : m < es.length := by
                have := congrArg List.length hd; simp at this; omega
              omega
            | cons a0 _ =>
              have ha0 : a0 ∈ es.take m := by rw [ht]; exact List.mem_cons_self ..
              exact lt_of_le_of_lt (w.2 a0 (List.mem_of_mem_take ha0)).1 (hcross a0 ha0 e he_drop)
        · intro b hb
          have hb' : b ∈ es.drop m := by rw [hd]; exact hb
          refine ⟨?_, (w.2 b (List.mem_of_mem_drop hb')).2⟩
          show le e.1 b.1
          rcases List.mem_cons.mp hb with rfl | hb2
          · exact le_refl _
          · rw [hd] at hsd
            exact le_of_lt ((List.pairwise_cons.mp hsd).1 b hb2)
        · show es.take m ++ (e :: rest) = es
          rw [← hd, List.take_append_drop]


theorem insert_level (p : Policy) (k : Key) (v : List Nat) : (n : Nat) → ∀ (t : T n) (lo hi : Option Key),
    WFb n t lo hi → InB lo hi k →
    InsWF (WFb n) (insertT p k v n t) lo hi ∧ Ins.abs (absT n) (insertT p k v n t) = insertNew (absT n t) k v
  | 0 => fun es lo hi w hk => by
    have w' : WFb 0 (insertNew (show List Entry from es) k v) lo hi := by
      refine ⟨sorted_insertNew w.1 k v, ?_⟩
      intro e he
      rcases mem_insertNew_sub he with rfl | he
      · exact hk
      · exact w.2 e he
    exact splitLeaf_spec p w'
  | n + 1 => fun nd lo hi w hk => by
    have h := insSlots_spec (child_level n) (ins := insertT p k v n) (v := v)
      (fun a lo hi wa ha => insert_level p k v n a lo hi wa ha) w hk
    have hs := split_spec (f := absT n) p
      ⟨(Node.insSlots (insertT p k v n) k nd.slots nd.right).1,
       (Node.insSlots (insertT p k v n) k nd.slots nd.right).2⟩ h.1
    refine ⟨hs.1, ?_⟩
    show Ins.abs (Node.abs (absT n)) (Node.split p _) = insertNew (absS (absT n) nd.slots nd.right) k v
    rw [hs.2, ← h.2]; rfl

/-! ### delete -/
theorem mapRoute_spec {α : Type} {wf : α → Option Key → Option Key → Prop} {f : α → List Entry}
    (H : Child wf f) {del : α → α} {k : Key}
    (Hd : ∀ a lo hi, wf a lo hi → InB lo hi k → wf (del a) lo hi ∧ f (del a) = erase (f a) k)
    {slots : List (α × Key)} {right : α} {lo hi : Option Key}
    (w : WFs wf slots right lo hi) (hk : InB lo hi k) :
    WFs wf (Node.mapRoute del k slots right).1 (Node.mapRoute del k slots right).2 lo hi ∧
    absS f (Node.mapRoute del k slots right).1 (Node.mapRoute del k slots right).2 =
      erase (absS f slots right) k := by
  induction slots generalizing lo with
  | nil =>
    obtain ⟨h1, h2⟩ := Hd right lo hi w hk
    exact ⟨h1, by simpa [Node.mapRoute, absS] using h2⟩
  | cons x rest ih =>
    obtain ⟨c, s⟩ := x
    obtain ⟨wc, ws, wr⟩ := w
    simp only [Node.mapRoute]
    split
    · rename_i hlt
      obtain ⟨h1, h2⟩ := Hd c lo (some s) wc ⟨hk.1, hlt⟩
      have hrest : ∀ e ∈ absS f rest right, lt k e.1 := fun e he =>
        lt_of_lt_of_le hlt (bounds_slots H wr e he).1
      refine ⟨⟨h1, ws, wr⟩, ?_⟩
      rw [absS_cons, absS_cons, h2, erase_append_left hrest]
    · rename_i hge
      obtain ⟨h1, h2⟩ := ih wr ⟨hge, hk.2⟩
      refine ⟨⟨wc, ws, h1⟩, ?_⟩
      rw [absS_cons, absS_cons, h2]
      refine (erase_append_right ?_).symm
      intro e he
      exact lt_of_lt_of_le (H.bounds c lo (some s) wc e he).2 hge

theorem delete_level (k : Key) : (n : Nat) → ∀ (t : T n) (lo hi : Option Key),
    WFb n t lo hi → InB lo hi k →
    WFb n (deleteT k n t) lo hi ∧ absT n (deleteT k n t) = erase (absT n t) k
  | 0 => fun es lo hi w _ =>
    ⟨⟨sorted_erase w.1 k, fun e he => w.2 e ((erase_sublist _ k).subset he)⟩, rfl⟩
  | n + 1 => fun _ lo hi w hk =>
    mapRoute_spec (child_level n) (fun a lo hi wa ha => delete_level k n a lo hi wa ha) w hk

/-! ### leaf chain and cursors -/
theorem flatten_flatten' {β : Type} (L : List (List (List β))) :
    L.flatten.flatten = (L.map List.flatten).flatten := by
  induction L with
  | nil => rfl
  | cons x L ih => simp [List.flatten_append, ih]

theorem leaves_flatten : (n : Nat) → ∀ t : T n, (leavesT n t).flatten = absT n t
  | 0 => fun (es : List Entry) => List.append_nil es
  | n + 1 => fun nd => by
    show (Node.leaves (leavesT n) nd).flatten = Node.abs (absT n) nd
    unfold Node.leaves Node.abs
    rw [List.flatten_append, flatten_flatten', List.map_map, leaves_flatten n nd.right]
    congr 2
    apply List.map_congr_left
    intro s _
    exact leaves_flatten n s.1

theorem enumFwd_nonempty {ls : List (List Entry)} (h : ∀ l ∈ ls, l ≠ []) : enumFwd ls = ls.flatten := by
  induction ls with
  | nil => rfl
  | cons l ls ih =>
    have hl : l ≠ [] := h l (List.mem_cons_self ..)
    have : l.isEmpty = false := by cases l <;> simp_all
    simp only [enumFwd, this, List.flatten_cons]
    rw [ih (fun x hx => h x (List.mem_cons_of_mem _ hx))]; rfl

theorem fromKey_append_right {A B : List Entry} {k : Key} (h : ∀ e ∈ A, lt e.1 k) :
    fromKey (A ++ B) k = fromKey B k := by
  induction A with
  | nil => rfl
  | cons x A ih =>
    obtain ⟨k', v'⟩ := x
    have hx : cmpBytes k' k = .lt := h (k', v') (List.mem_cons_self ..)
    simp only [List.cons_append, fromKey, hx]
    exact ih (fun e he => h e (List.mem_cons_of_mem _ he))

theorem fromKey_append_left {A B : List Entry} {k : Key} (h : fromKey A k ≠ []) :
    fromKey (A ++ B) k = fromKey A k ++ B := by
  induction A with
  | nil => simp [fromKey] at h
  | cons x A ih =>
    obtain ⟨k', v'⟩ := x
    simp only [List.cons_append, fromKey] at h ⊢
    split
    · rename_i hc; simp only [hc] at h; exact ih h
    · rfl

end TurVerif.BTree
