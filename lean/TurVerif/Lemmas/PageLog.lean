import TurVerif.Model.PageLog
/-! Helper lemmas for the page store + WAL model (C04 / C42). -/
namespace TurVerif.PageLog

theorem rd_wr (t : List (Key × Nat)) (k q : Key) (v : Nat) :
    rd (wr t k v) q = if k = q then v else rd t q := by
  simp [wr, rd]

theorem rd_replay (w : List (Key × Nat)) : ∀ (t : List (Key × Nat)) (k : Key),
    rd (replay t w) k = match lastFrame w k with | some v => v | none => rd t k := by
  induction w with
  | nil => intro t k; simp [replay, lastFrame]
  | cons f rest ih =>
    intro t k
    obtain ⟨a, v⟩ := f
    simp only [replay, lastFrame]
    rw [ih]
    cases h : lastFrame rest k with
    | some x => simp
    | none =>
      simp only [rd_wr]
      by_cases e : a = k <;> simp [e]

theorem lastFrame_append (w1 w2 : List (Key × Nat)) (k : Key) :
    lastFrame (w1 ++ w2) k = match lastFrame w2 k with | some v => some v | none => lastFrame w1 k := by
  induction w1 with
  | nil => simp [lastFrame]; cases lastFrame w2 k <;> rfl
  | cons f rest ih =>
    obtain ⟨a, v⟩ := f
    simp only [List.cons_append, lastFrame]
    rw [ih]
    cases h2 : lastFrame w2 k with
    | some x => simp
    | none => simp

theorem lastFrame_framesOf (t : List (Key × Nat)) (ks : List Key) (k : Key) :
    lastFrame (framesOf t ks) k = if k ∈ ks then some (rd t k) else none := by
  induction ks with
  | nil => simp [framesOf, lastFrame]
  | cons a rest ih =>
    have ih' : lastFrame (List.map (fun k => (k, rd t k)) rest) k = if k ∈ rest then some (rd t k) else none := ih
    simp only [framesOf, List.map_cons, lastFrame]
    rw [ih']
    by_cases hr : k ∈ rest
    · simp [hr]
    · by_cases e : a = k
      · subst e; simp [hr]
      · have : ¬ k = a := fun x => e x.symm
        simp [hr, e, this]

/-- coherence: the newest frame of every page that is not dirty equals the page in the table file -/
def Coh (s : St) : Prop := ∀ k v, lastFrame s.wal k = some v → k ∉ s.dirty → rd s.table k = v

theorem coh_of_wal_nil {s : St} (h : s.wal = []) : Coh s := by
  intro k v hv; simp [h, lastFrame] at hv

/-- under coherence, replaying the log changes no page that is clean -/
theorem rd_replay_coh {s : St} (h : Coh s) (k : Key) (hk : k ∉ s.dirty) :
    rd (replay s.table s.wal) k = rd s.table k := by
  rw [rd_replay]
  cases hf : lastFrame s.wal k with
  | none => rfl
  | some v => exact (h k v hf hk).symm

theorem rd_replay_noframe (t w : List (Key × Nat)) (k : Key) (h : lastFrame w k = none) :
    rd (replay t w) k = rd t k := by
  rw [rd_replay, h]

theorem mem_markDirty (d : List Key) (k q : Key) : q ∈ markDirty d k ↔ q = k ∨ q ∈ d := by
  unfold markDirty
  by_cases h : d.contains k = true
  · simp only [h, if_true]
    constructor
    · intro x; exact Or.inr x
    · intro x; cases x with
      | inl e => rw [e]; simpa using h
      | inr x => exact x
  · have h' : k ∉ d := by simpa using h
    simp [h']

/-- flushing keys `ks` (all of them dirty or not): coherence is preserved -/
theorem coh_flushKeys {s : St} (h : Coh s) (ks : List Key) : Coh (flushKeys s ks) := by
  intro k v hv hk
  simp only [flushKeys] at hv hk ⊢
  rw [lastFrame_append, lastFrame_framesOf] at hv
  by_cases hm : k ∈ ks
  · simp only [hm, if_true, Option.some.injEq] at hv; exact hv
  · simp only [hm, if_false] at hv
    have : k ∉ s.dirty := by
      intro hd; apply hk; simp [List.mem_filter, hd, hm]
    exact h k v hv this

theorem view_flushKeys (s : St) (ks : List Key) : (flushKeys s ks).table = s.table := rfl

theorem dirty_flushAll (s : St) : (flushAll s).dirty = [] := by
  simp only [flushAll, flushKeys]
  rw [List.filter_eq_nil_iff]
  intro a ha; simp [ha]

theorem coh_ckptShared (s : St) : Coh (ckptShared s) := coh_of_wal_nil rfl

theorem coh_recover (s : St) : Coh (recover s) := coh_of_wal_nil rfl

/-- a replaying checkpoint does not change what a reader sees, provided no dirty page has an older
frame -/
theorem view_ckptShared {s : St} (h : Coh s) (hd : s.dirty.all (noFrame s) = true) (k : Key) :
    rd (ckptShared s).table k = rd s.table k := by
  show rd (replay s.table s.wal) k = rd s.table k
  by_cases hk : k ∈ s.dirty
  · have : noFrame s k = true := (List.all_eq_true.mp hd) k hk
    have hn : lastFrame s.wal k = none := by
      simpa [noFrame, Option.isNone_iff_eq_none] using this
    exact rd_replay_noframe _ _ _ hn
  · exact rd_replay_coh h k hk

theorem coh_ckptDb {s : St} (h : Coh s) : Coh (ckptDb s) := by
  unfold ckptDb
  by_cases he : (!s.touched && s.dirty.isEmpty) = true
  · simp only [he, if_true]; exact h
  · simp only [he]
    by_cases hw : (flushAll s).wal.isEmpty = true
    · simp only [hw, if_true]; exact coh_flushKeys h _
    · simp only [hw]; exact coh_of_wal_nil rfl

theorem table_ckptDb (s : St) : (ckptDb s).table = s.table := by
  unfold ckptDb
  by_cases he : (!s.touched && s.dirty.isEmpty) = true
  · simp only [he, if_true]
  · simp only [he]
    by_cases hw : (flushAll s).wal.isEmpty = true
    · simp only [hw, if_true]; rfl
    · simp only [hw]; rfl

theorem dirty_ckptDb (s : St) : (ckptDb s).dirty = [] := by
  unfold ckptDb
  by_cases he : (!s.touched && s.dirty.isEmpty) = true
  · simp only [he, if_true]
    have : s.dirty.isEmpty = true := by
      simp only [Bool.and_eq_true] at he; exact he.2
    simpa using this
  · simp only [he]
    by_cases hw : (flushAll s).wal.isEmpty = true
    · simp only [hw, if_true]; exact dirty_flushAll s
    · simp only [hw]; exact dirty_flushAll s

theorem walOn_ckptDb (s : St) : (ckptDb s).walOn = s.walOn := by
  unfold ckptDb
  by_cases he : (!s.touched && s.dirty.isEmpty) = true
  · simp only [he, if_true]
  · simp only [he]
    by_cases hw : (flushAll s).wal.isEmpty = true
    · simp only [hw, if_true]; rfl
    · simp only [hw]; rfl

theorem view_recover {s : St} (h : Coh s) (hd : s.dirty = []) (k : Key) :
    rd (recover s).table k = rd s.table k := by
  show rd (replay s.table s.wal) k = rd s.table k
  exact rd_replay_coh h k (by simp [hd])

theorem coh_commit {s : St} (h : Coh s) : Coh (commit s) := by
  unfold commit
  by_cases hw : s.walOn = true
  · simp only [hw, if_true]
    by_cases ht : (flushAll s).frames ≥ (flushAll s).threshold
    · simp only [ht, if_true]; exact coh_ckptShared _
    · simp only [ht]; exact coh_flushKeys h _
  · simp only [hw]; exact h

theorem view_commit {s : St} (h : Coh s) (k : Key) : rd (commit s).table k = rd s.table k := by
  unfold commit
  by_cases hw : s.walOn = true
  · simp only [hw, if_true]
    by_cases ht : (flushAll s).frames ≥ (flushAll s).threshold
    · simp only [ht, if_true]
      have hc : Coh (flushAll s) := coh_flushKeys h _
      have := view_ckptShared hc (by rw [dirty_flushAll]; rfl) k
      rw [this]; rfl
    · simp only [ht]; rfl
  · simp only [hw]; rfl

/-- one safe step keeps coherence -/
theorem coh_step {s : St} (h : Coh s) (op : Op) (hs : safeOp s op = true) : Coh (step s op) := by
  cases op with
  | write k v =>
    intro q x hx hq
    simp only [step] at hx hq ⊢
    rw [rd_wr]
    by_cases e : k = q
    · subst e
      simp only [safeOp, Bool.or_eq_true] at hs
      cases hs with
      | inl hon => simp [hon, mem_markDirty] at hq
      | inr hnf =>
        have : lastFrame s.wal k = none := by simpa [noFrame, Option.isNone_iff_eq_none] using hnf
        rw [this] at hx; cases hx
    · simp only [e, if_false]
      apply h q x hx
      intro hd; apply hq
      by_cases hon : s.walOn = true
      · simp [hon, mem_markDirty, hd]
      · simp [hon, hd]
  | flush f =>
    simp only [step, flushFile]
    by_cases hon : s.walOn = true
    · simp only [hon, if_true]; exact coh_flushKeys h _
    · simp only [hon]; exact h
  | setWal b => exact h
  | setThreshold n => exact h
  | ckptShared => exact coh_ckptShared s
  | ckptDb => exact coh_ckptDb h
  | commit => exact coh_commit h
  | reopen => exact coh_recover _
  | dropReopen => exact coh_recover _

/-- one safe step shows a reader exactly the effect of the write (if it is one) -/
theorem view_step {s : St} (h : Coh s) (op : Op) (hs : safeOp s op = true) (k : Key) :
    rd (step s op).table k = rd (specStep s.table op) k := by
  cases op with
  | write a v => rfl
  | flush f =>
    simp only [step, flushFile, specStep]
    by_cases hon : s.walOn = true
    · simp only [hon, if_true]; rfl
    · simp [hon]
  | setWal b => rfl
  | setThreshold n => rfl
  | ckptShared => exact view_ckptShared h hs k
  | ckptDb => simp only [step, specStep]; rw [table_ckptDb]
  | commit => exact view_commit h k
  | reopen =>
    simp only [step, specStep]
    rw [view_recover (coh_ckptDb h) (dirty_ckptDb s) k, table_ckptDb]
  | dropReopen =>
    simp only [step, specStep]
    show rd (replay (ckptShared s).table (ckptShared s).wal) k = rd s.table k
    show rd (replay (replay s.table s.wal) []) k = rd s.table k
    simp only [replay]
    exact view_ckptShared h hs k

theorem rd_specStep_congr (t1 t2 : List (Key × Nat)) (op : Op) (h : ∀ k, rd t1 k = rd t2 k) (k : Key) :
    rd (specStep t1 op) k = rd (specStep t2 op) k := by
  cases op <;> simp only [specStep, h]
  simp only [rd_wr, h]

theorem view_run (ops : List Op) : ∀ (s : St) (t : List (Key × Nat)), Coh s → safeRun s ops = true →
    (∀ k, rd s.table k = rd t k) → ∀ k, rd (run s ops).table k = rd (specRun t ops) k := by
  induction ops with
  | nil => intro s t _ _ ht k; exact ht k
  | cons op rest ih =>
    intro s t hc hs ht k
    simp only [safeRun, Bool.and_eq_true] at hs
    simp only [run, specRun]
    apply ih (step s op) (specStep t op) (coh_step hc op hs.1) hs.2
    intro q
    rw [view_step hc op hs.1 q]
    exact rd_specStep_congr _ _ op ht q

theorem coh_run (ops : List Op) : ∀ (s : St), Coh s → safeRun s ops = true → Coh (run s ops) := by
  induction ops with
  | nil => intro s h _; exact h
  | cons op rest ih =>
    intro s hc hs
    simp only [safeRun, Bool.and_eq_true] at hs
    exact ih (step s op) (coh_step hc op hs.1) hs.2

end TurVerif.PageLog
