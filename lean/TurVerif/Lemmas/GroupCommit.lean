import TurVerif.Model.GroupCommit
/-!
Helper definitions and lemmas for C37 (group commit): a "view" of the state as functions
(`pcAt`, `comp`, `err`) and the effect of every step on that view (`Eff`, `step_eff`).
All invariants (Lemmas/GroupCommitInv.lean) are stated over the view only.
-/
namespace TurVerif.GroupCommit

/-! ### the view -/

/-- program counter of thread `i` (`none`: no such thread) -/
def pcAt (s : State) (i : Nat) : Option Pc := (s.threads[i]?).map (·.pc)
/-- completed flag of commit `i` -/
def comp (s : State) (i : Nat) : Bool := s.completed.getD i false
/-- error flag of commit `i` -/
def err (s : State) (i : Nat) : Bool := s.errored.getD i false

/-- fault injection flag of thread `i` (its WAL write fails) -/
def fw (s : State) (i : Nat) : Bool := ((s.threads[i]?).map (·.failWrite)).getD false

/-- the two flag vectors have one slot per thread -/
def Len (s : State) : Prop :=
  s.completed.length = s.threads.length ∧ s.errored.length = s.threads.length

/-- what `notify_all` does to one thread -/
def wakePc (s : State) (i : Nat) (pc : Pc) : Pc :=
  if pc = .condWait then (if comp s i then afterCompleted s i else .waitLock) else pc

/-- where a thread blocked on the condition variable goes when it is notified -/
def wokenPc (s : State) (i : Nat) : Pc :=
  if comp s i then (if err s i then .done false else .take) else .waitLock

theorem afterCompleted_eq (s : State) (i : Nat) :
    afterCompleted s i = if err s i then .done false else .take := rfl

/-! ### list lemmas -/

theorem getD_zipIdx_map_or (l : List Bool) (f : Nat → Bool) (i : Nat) :
    (l.zipIdx.map (fun (c, j) => c || f j)).getD i false
      = (l.getD i false || (decide (i < l.length) && f i)) := by
  simp only [List.getD_eq_getElem?_getD, List.getElem?_map, List.getElem?_zipIdx]
  by_cases h : i < l.length
  · simp [h]
  · simp [h]

theorem pcAt_lt {s : State} {i : Nat} {pc : Pc} (h : pcAt s i = some pc) : i < s.threads.length := by
  unfold pcAt at h
  rcases Nat.lt_or_ge i s.threads.length with hl | hl
  · exact hl
  · rw [List.getElem?_eq_none hl] at h; cases h

theorem pcAt_setThread (s : State) (tid : Nat) (t t' : Thread) (h : s.threads[tid]? = some t)
    (i : Nat) :
    pcAt (setThread s tid t') i = if i = tid then some t'.pc else pcAt s i := by
  unfold pcAt setThread
  simp only [List.getElem?_set]
  by_cases hi : tid = i
  · subst hi
    have : tid < s.threads.length := by
      rcases Nat.lt_or_ge tid s.threads.length with hl | hl
      · exact hl
      · rw [List.getElem?_eq_none hl] at h; cases h
    simp [this]
  · have : ¬ i = tid := fun e => hi e.symm
    simp [hi, this]

theorem pcAt_wakeAll (s : State) (i : Nat) :
    pcAt (wakeAll s) i = (pcAt s i).map (wakePc s i) := by
  unfold pcAt wakeAll wakePc comp
  simp only [List.getElem?_map, List.getElem?_zipIdx, Option.map_map]
  cases s.threads[i]? with
  | none => rfl
  | some t =>
    simp only [Option.map_some, Function.comp, Nat.zero_add]
    by_cases h : t.pc = .condWait <;> simp [h]

theorem fw_setThread (s : State) (tid : Nat) (t t' : Thread) (h : s.threads[tid]? = some t)
    (hf : t'.failWrite = t.failWrite) (i : Nat) : fw (setThread s tid t') i = fw s i := by
  unfold fw setThread
  simp only [List.getElem?_set]
  by_cases hi : tid = i
  · subst hi
    have : tid < s.threads.length := by
      rcases Nat.lt_or_ge tid s.threads.length with hl | hl
      · exact hl
      · rw [List.getElem?_eq_none hl] at h; cases h
    have e : s.threads[tid] = t := by
      have := List.getElem?_eq_getElem this
      rw [this] at h
      exact Option.some.inj h
    simp [this, hf, e]
  · simp [hi]

theorem fw_wakeAll (s : State) (i : Nat) : fw (wakeAll s) i = fw s i := by
  unfold fw wakeAll
  simp only [List.getElem?_map, List.getElem?_zipIdx, Option.map_map]
  cases s.threads[i]? with
  | none => rfl
  | some t =>
    simp only [Option.map_some, Function.comp, Option.getD_some]
    split <;> rfl

/-! ### effect of one step on the view -/

/-- all shared fields except the listed ones are unchanged -/
structure SameFlags (s s' : State) : Prop where
  c : ∀ i, comp s' i = comp s i
  e : ∀ i, err s' i = err s i
  len : Len s → Len s'
  w : ∀ i, fw s' i = fw s i

/-- thread `tid` moves to `pc`, nobody else moves -/
abbrev PcUpd (s s' : State) (tid : Nat) (pc : Pc) : Prop :=
  (∀ i, pcAt s' i = if i = tid then some pc else pcAt s i) ∧
  (∀ i p, i ≠ tid → pcAt s i = some p → pcAt s' i = some p)

theorem pcUpd_mk {s s' : State} {tid : Nat} {pc : Pc}
    (h : ∀ i, pcAt s' i = if i = tid then some pc else pcAt s i) : PcUpd s s' tid pc :=
  ⟨h, fun i p hi hp => by rw [h, if_neg hi, hp]⟩

/-- `l₁ ++ l₂`, kept opaque for the automation (which is given the membership facts instead) -/
def cat (l₁ l₂ : List Nat) : List Nat := l₁ ++ l₂

inductive Eff (s : State) (tid : Nat) (s' : State) : Prop where
  | start (h : pcAt s tid = some .start)
      (hp : s'.pending = cat s.pending [tid]) (hm : ∀ a, a ∈ s'.pending ↔ (a ∈ s.pending ∨ a = tid))
      (hne : s'.pending ≠ []) (hf : s'.flushInProgress = s.flushInProgress)
      (hl : s'.log = s.log) (hx : SameFlags s s') (hpc : PcUpd s s' tid .waitLock)
  | waitDone (h : pcAt s tid = some .waitLock) (hc : comp s tid = true)
      (hp : s'.pending = s.pending) (hf : s'.flushInProgress = s.flushInProgress)
      (hl : s'.log = s.log) (hx : SameFlags s s')
      (hpc : PcUpd s s' tid (if err s tid then .done false else .take))
  | lead (h : pcAt s tid = some .waitLock) (hc : comp s tid = false)
      (hg : s.flushInProgress = false) (hne : s.pending ≠ [])
      (hp : s'.pending = s.pending) (hf : s'.flushInProgress = true)
      (hl : s'.log = s.log) (hx : SameFlags s s') (hpc : PcUpd s s' tid .take)
  | park (h : pcAt s tid = some .waitLock) (hc : comp s tid = false)
      (hg : s.flushInProgress = true ∨ s.pending = [])
      (hp : s'.pending = s.pending) (hf : s'.flushInProgress = s.flushInProgress)
      (hl : s'.log = s.log) (hx : SameFlags s s') (hpc : PcUpd s s' tid .condWait)
  | takeNone (h : pcAt s tid = some .take) (he : s.pending = [])
      (hp : s'.pending = s.pending) (hf : s'.flushInProgress = s.flushInProgress)
      (hl : s'.log = s.log) (hx : SameFlags s s') (hpc : PcUpd s s' tid (.done true))
  | takeSome (h : pcAt s tid = some .take) (hne : s.pending ≠ [])
      (hp : s'.pending = []) (hf : s'.flushInProgress = true)
      (hl : s'.log = s.log) (hx : SameFlags s s') (hpc : PcUpd s s' tid (.write s.pending))
  | writeFail (b : List Nat) (h : pcAt s tid = some (.write b))
      (hp : s'.pending = s.pending) (hf : s'.flushInProgress = s.flushInProgress)
      (hl : s'.log = s.log) (hx : SameFlags s s') (hpc : PcUpd s s' tid (.mark b false))
      (hfw : fw s tid = true)
  | writeOk (b : List Nat) (h : pcAt s tid = some (.write b))
      (hp : s'.pending = s.pending) (hf : s'.flushInProgress = s.flushInProgress)
      (hl : s'.log = cat s.log b) (hm : ∀ a, a ∈ s'.log ↔ (a ∈ s.log ∨ a ∈ b)) (hx : SameFlags s s') (hpc : PcUpd s s' tid (.mark b true))
      (hfw : fw s tid = false)
  | mark (b : List Nat) (ok : Bool) (h : pcAt s tid = some (.mark b ok))
      (hp : s'.pending = s.pending) (hf : s'.flushInProgress = s.flushInProgress)
      (hl : s'.log = s.log)
      (hc : ∀ i, comp s' i = true ↔ (comp s i = true ∨ (i < s.completed.length ∧ i ∈ b)))
      (he : ∀ i, err s' i = true ↔ (err s i = true ∨ (i < s.errored.length ∧ ok = false ∧ i ∈ b)))
      (hlen : Len s → Len s') (hpc : PcUpd s s' tid (.clear b ok)) (hw : ∀ i, fw s' i = fw s i)
  | clear (b : List Nat) (ok : Bool) (h : pcAt s tid = some (.clear b ok))
      (hp : s'.pending = s.pending) (hf : s'.flushInProgress = false)
      (hl : s'.log = s.log) (hx : SameFlags s s')
      (hself : pcAt s' tid = some (.done ok))
      (hkeep : ∀ i pc, i ≠ tid → pcAt s i = some pc → pc ≠ .condWait → pcAt s' i = some pc)
      (hwake : ∀ i, i ≠ tid → pcAt s i = some .condWait → pcAt s' i = some (wokenPc s i))
      (hinv : ∀ i pc', i ≠ tid → pcAt s' i = some pc' →
        (pcAt s i = some pc' ∧ pc' ≠ .condWait) ∨ (pcAt s i = some .condWait ∧ pc' = wokenPc s i))

theorem sameFlags_setThread (s : State) (tid : Nat) (t t' : Thread) (p : List Nat) (f : Bool)
    (l : List Nat) (ht : s.threads[tid]? = some t) (hf : t'.failWrite = t.failWrite) :
    SameFlags s (setThread { s with pending := p, flushInProgress := f, log := l } tid t') :=
  ⟨fun _ => rfl, fun _ => rfl, fun h => by simpa [Len, setThread] using h,
   fun i => fw_setThread { s with pending := p, flushInProgress := f, log := l } tid t t' ht hf i⟩

theorem step_eff {s s' : State} {tid : Nat} (hs : step s tid = some s') : Eff s tid s' := by
  unfold step at hs
  cases ht : s.threads[tid]? with
  | none => simp [ht] at hs
  | some t =>
    have hpcAt : pcAt s tid = some t.pc := by simp [pcAt, ht]
    simp only [ht] at hs
    cases hq : t.pc with
    | start =>
      simp only [hq] at hs hpcAt
      injection hs with hs; subst hs
      exact .start hpcAt rfl (by intro a; simp [setThread]) (by simp [setThread]) rfl rfl (sameFlags_setThread s tid t _ _ _ _ ht rfl)
        (pcUpd_mk (fun i => pcAt_setThread _ tid t _ ht i))
    | waitLock =>
      simp only [hq] at hs hpcAt
      split at hs
      · rename_i hc
        injection hs with hs; subst hs
        exact .waitDone hpcAt hc rfl rfl rfl (sameFlags_setThread s tid t _ _ _ _ ht rfl)
          (pcUpd_mk (fun i => pcAt_setThread _ tid t _ ht i))
      · rename_i hc
        have hc' : comp s tid = false := by simpa [comp] using hc
        split at hs
        · rename_i hg
          injection hs with hs; subst hs
          exact .lead hpcAt hc' hg.1 hg.2 rfl rfl rfl (sameFlags_setThread s tid t _ _ _ _ ht rfl)
            (pcUpd_mk (fun i => pcAt_setThread _ tid t _ ht i))
        · rename_i hg
          injection hs with hs; subst hs
          refine .park hpcAt hc' ?_ rfl rfl rfl (sameFlags_setThread s tid t _ _ _ _ ht rfl)
            (pcUpd_mk (fun i => pcAt_setThread _ tid t _ ht i))
          cases hf : s.flushInProgress with
          | true => exact Or.inl rfl
          | false =>
            refine Or.inr ?_
            apply Classical.byContradiction
            intro hne
            exact hg ⟨hf, hne⟩
    | condWait => simp [hq] at hs
    | take =>
      simp only [hq] at hs hpcAt
      split at hs
      · rename_i he
        injection hs with hs; subst hs
        exact .takeNone hpcAt he rfl rfl rfl (sameFlags_setThread s tid t _ _ _ _ ht rfl)
          (pcUpd_mk (fun i => pcAt_setThread _ tid t _ ht i))
      · rename_i hne
        injection hs with hs; subst hs
        exact .takeSome hpcAt hne rfl rfl rfl (sameFlags_setThread s tid t _ _ _ _ ht rfl)
          (pcUpd_mk (fun i => pcAt_setThread _ tid t _ ht i))
    | write b =>
      simp only [hq] at hs hpcAt
      split at hs
      · rename_i hfl
        injection hs with hs; subst hs
        exact .writeFail b hpcAt rfl rfl rfl (sameFlags_setThread s tid t _ _ _ _ ht rfl)
          (pcUpd_mk (fun i => pcAt_setThread _ tid t _ ht i)) (by simp [fw, ht, hfl])
      · rename_i hfl
        injection hs with hs; subst hs
        exact .writeOk b hpcAt rfl rfl rfl (by intro a; simp [setThread]) (sameFlags_setThread s tid t _ _ _ _ ht rfl)
          (pcUpd_mk (fun i => pcAt_setThread _ tid t _ ht i)) (by simpa [fw, ht] using hfl)
    | mark b ok =>
      simp only [hq] at hs hpcAt
      injection hs with hs; subst hs
      refine .mark b ok hpcAt rfl rfl rfl ?_ ?_ ?_ (pcUpd_mk (fun i => pcAt_setThread _ tid t _ ht i))
        (fun i => fw_setThread { s with
          completed := s.completed.zipIdx.map (fun (c, i) => c || b.contains i),
          errored := s.errored.zipIdx.map (fun (e, i) => e || (!ok && b.contains i)) } tid t
          { t with pc := .clear b ok } ht rfl i)
      · intro i
        have := getD_zipIdx_map_or s.completed (fun j => b.contains j) i
        simp only [comp, setThread]
        rw [this]; simp
      · intro i
        have := getD_zipIdx_map_or s.errored (fun j => !ok && b.contains j) i
        simp only [err, setThread]
        rw [this]; simp
      · intro h; simpa [Len, setThread] using h
    | clear b ok =>
      simp only [hq] at hs hpcAt
      injection hs with hs; subst hs
      have key : ∀ i, pcAt (wakeAll (setThread { s with flushInProgress := false } tid { t with pc := .done ok })) i
          = if i = tid then some (.done ok) else (pcAt s i).map (wakePc s i) := by
        intro i
        rw [pcAt_wakeAll]
        have e := pcAt_setThread { s with flushInProgress := false } tid t { t with pc := .done ok } ht i
        rw [e]
        by_cases hi : i = tid
        · simp [hi, wakePc]
        · simp only [hi, if_false]
          rfl
      have wk : ∀ i pc, wakePc s i pc = if pc = .condWait then wokenPc s i else pc := by
        intro i pc; rfl
      refine .clear b ok hpcAt rfl rfl rfl ⟨fun _ => rfl, fun _ => rfl, ?_, ?_⟩ ?_ ?_ ?_ ?_
      · intro h; simpa [Len, setThread, wakeAll] using h
      · intro i
        rw [fw_wakeAll]
        exact fw_setThread { s with flushInProgress := false } tid t { t with pc := .done ok } ht rfl i
      · rw [key]; simp
      · intro i pc hi hp hne
        rw [key, if_neg hi, hp, Option.map_some, wk, if_neg hne]
      · intro i hi hp
        rw [key, if_neg hi, hp, Option.map_some, wk, if_pos rfl]
      · intro i pc' hi hp
        rw [key, if_neg hi] at hp
        cases hq' : pcAt s i with
        | none => rw [hq'] at hp; cases hp
        | some pc =>
          rw [hq'] at hp
          simp only [Option.map_some, Option.some.injEq, wk] at hp
          by_cases hc : pc = .condWait
          · rw [if_pos hc] at hp
            exact Or.inr ⟨by rw [hc], hp.symm⟩
          · rw [if_neg hc] at hp
            subst hp
            exact Or.inl ⟨rfl, hc⟩
    | done ok => simp [hq] at hs

end TurVerif.GroupCommit
